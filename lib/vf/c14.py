"""C14 - pipeline buses deliver each item once, in order, a cycle later, within capacity.

Proof: coq/theories/Props/C14.v about the hand-written models Comp/Bus.v, Comp/Queue.v.
Tie:   the real comp.BufferedBus / SimpleBus / Queue / Broadcast (tools/harness/bus.go) and the
       extracted models (build/bus_oracle) execute the same histories; result lines are compared
       textually (every return value and, after every operation, the observers).
Property on the implementation: an independent reference of the property in this file (FIFO with
       availability stamps) judges the implementation's outputs clause by clause, so that a
       disagreement can be classified: property fails on a concrete history => counterexample;
       model and implementation differ but the property holds => broken correspondence.
"""
import collections
import concurrent.futures
import itertools

from . import common as C

PID = 'C14'
FINDING_ID = 'C14-revert-behind-visible-queue'
# canonical (minimal) witness of the known finding: Revert while an item is visible
REVERT_WITNESS = '1 1\tA 1 0;C 1;R 2 1;C 1;G'


# ----------------------------------------------------------------------------------------------
# reference of the property for BufferedBus, evaluated on the implementation's outputs
# ----------------------------------------------------------------------------------------------

def pred_of(k):
    if k > 0:
        return lambda t: t % k == 0
    return lambda t: t == -k


def parse_tokens(res, nops):
    """result line -> list of (ret, [observers]) per op, or None if malformed / panic"""
    if res is None or res == 'panic' or res.startswith('CRASH'):
        return None
    toks = res.split(';')
    if len(toks) != nops + 1:
        return None
    out = []
    try:
        for t in toks:
            ret, obs = t.split('|')
            out.append((ret, [int(x) for x in obs.split(',')]))
    except ValueError:
        return None
    return out


def check_bus(line, res):
    """Judge the outputs `res` of one bus history `line` against the property.
    Returns dict: viol = None | (op index, clause, message); known = [op index,...] (instances of
    the Revert finding); stats."""
    caps, _, opstr = line.partition('\t')
    ql, bl = (int(x) for x in caps.split())
    ops = [o.split() for o in opstr.split(';') if o.strip()]
    st = {'delivered': 0, 'waited': False, 'refused': False, 'overflow': False, 'impl_disciplined': True,
          'picked_middle': False, 'dropped': 0, 'reverts': 0, 'revert_nonempty': 0}
    toks = parse_tokens(res, len(ops))
    if toks is None:
        return {'viol': (len(ops) - 1, 'panic', 'no well-formed result line: %r' % (res,)), 'known': [], 'stats': st}
    live = []        # [item, stamp, visible, eligible_connect_seen] oldest first; visible ones form a prefix
    gone = set()     # delivered or dropped items
    known_inst = []
    pending_revert = None     # (item, shape_nonempty, op index)
    last_ca = toks[0][1][3]
    last_ra = toks[0][1][2]
    disciplined = True       # every Add/Revert so far followed CanAdd() = true
    disc_rem = True          # every Add/Revert so far followed RemainingToAdd() > 0

    def nvis():
        n = 0
        for e in live:
            if not e[2]:
                break
            n += 1
        return n

    def fail(i, clause, msg):
        return {'viol': (i, clause, msg), 'known': known_inst, 'stats': st}

    if toks[0][0] != 'L%d,%d' % (ql, bl):
        return fail(-1, 'capacity', 'InLength/OutLength report %s for capacities %d,%d' % (toks[0][0], ql, bl))
    for i, w in enumerate(ops):
        ret, ob = toks[i + 1]
        k = w[0]
        if k in ('A', 'R') and not last_ca:
            disciplined = False
            st['impl_disciplined'] = False
        if k in ('A', 'R') and last_ra <= 0:
            disc_rem = False
        if k == 'A':
            t, c = int(w[1]), int(w[2])
            live.append([t, c + 1, False, False])
            gone.discard(t)
        elif k == 'R':
            t, c = int(w[1]), int(w[2])
            n = nvis()
            st['reverts'] += 1
            if n:
                st['revert_nonempty'] += 1
            # as the code does: behind the visible items, ahead of everything waiting
            live.insert(n, [t, c, False, False])
            gone.discard(t)
            pending_revert = (t, n > 0, i)
        elif k == 'D':
            if live and not live[-1][2]:
                e = live.pop()
                gone.add(e[0])
                st['dropped'] += 1
                if pending_revert and pending_revert[0] == e[0]:
                    pending_revert = None
        elif k == 'X':
            for e in live:
                gone.add(e[0])
            st['dropped'] += len(live)
            live = []
            pending_revert = None
            if ob[0] != 1:
                return fail(i, 'clean', 'IsEmpty is false directly after Clean')
        elif k == 'C':
            c = int(w[1])
            n = nvis()
            for e in live[n:]:
                if e[1] <= c:
                    e[3] = True
            j = n
            while j < len(live) and j < ql and live[j][1] <= c:
                live[j][2] = True
                j += 1
            if j < len(live) and live[j][1] <= c and j >= ql:
                st['refused'] = True
            pr = ob[1]
            if pr < j:
                return fail(i, 'a-cycle-later', 'after Connect %d the bus shows %d item(s); %d were put in earlier cycles and '
                            'the queue has room for them (item %d is still hidden)' % (c, pr, j, live[pr][0]))
        elif k in ('G', 'P'):
            n = nvis()
            if k == 'G':
                idx = 0 if n else None
            else:
                p = pred_of(int(w[1]))
                idx = next((x for x in range(n) if p(live[x][0])), None)
            try:
                rt, rf = (int(x) for x in ret.split(','))
            except ValueError:
                return fail(i, 'panic', 'malformed return %r' % ret)
            if rf:
                pos = next((x for x, e in enumerate(live) if e[0] == rt), None)
                if pos is None:
                    if rt in gone:
                        return fail(i, 'exactly-once', 'item %d is delivered although it was already delivered or removed' % rt)
                    return fail(i, 'exactly-once', 'item %d is delivered but was never put on the bus' % rt)
                e = live[pos]
                if not e[2]:
                    if not e[3]:
                        return fail(i, 'latency', 'item %d is delivered before any Connect at or after cycle %d' % (rt, e[1]))
                    return fail(i, 'order', 'item %d is delivered while the queue had no room / an older item was due' % rt)
                if idx is None or pos != idx:
                    exp = 'none' if idx is None else str(live[idx][0])
                    return fail(i, 'order', '%s delivers item %d, the oldest eligible item is %s' % (k, rt, exp))
                if k == 'P' and pos > 0:
                    st['picked_middle'] = True
                live.pop(pos)
                gone.add(rt)
                st['delivered'] += 1
                st['waited'] = True
                if pending_revert and (k == 'G' or pending_revert[0] == rt):
                    t, shape, ri = pending_revert
                    pending_revert = None
                    if rt != t:
                        if shape:
                            known_inst.append(ri)
                        else:
                            return fail(i, 'revert', 'item %d was reverted with an empty queue but %d is delivered next' % (t, rt))
            else:
                if idx is not None:
                    return fail(i, 'exactly-once', '%s returns nothing although item %d is visible: it is never delivered'
                                % (k, live[idx][0]))
        elif k == 'E':
            pass
        # observers that are part of the property
        n = nvis()
        if ob[1] != n:
            if ob[1] > n and k == 'C':
                x = live[n] if n < len(live) else None
                if x is not None and x[1] > int(w[1]):
                    return fail(i, 'latency', 'after Connect %s item %d (visible from cycle %d on) is already visible'
                                % (w[1], x[0], x[1]))
                return fail(i, 'capacity', 'after Connect %s the queue holds %d items, capacity %d' % (w[1], ob[1], ql))
            return fail(i, 'exactly-once', 'PendingRead is %d, %d items are visible' % (ob[1], n))
        if ob[1] > ql:
            return fail(i, 'capacity', 'queue holds %d items, capacity %d' % (ob[1], ql))
        nbuf = len(live) - n
        if nbuf > bl:
            st['overflow'] = True
            if disciplined or disc_rem:
                return fail(i, 'capacity', 'buffer holds %d items, capacity %d, although every Add/Revert followed %s'
                            % (nbuf, bl, 'CanAdd() = true' if disciplined else 'RemainingToAdd() > 0'))
        if disciplined and ob[2] < 0:
            return fail(i, 'capacity', 'RemainingToAdd is %d on a disciplined history' % ob[2])
        last_ca = ob[3]
        last_ra = ob[2]
    return {'viol': None, 'known': known_inst, 'stats': st}


def check_simplebus(line, res):
    ops = [o.split() for o in line.split(';') if o.strip()]
    toks = parse_tokens(res, len(ops))
    if toks is None:
        return (len(ops) - 1, 'panic', 'no well-formed result line: %r' % (res,))
    last_ca = toks[0][1][0]
    disciplined = True
    inside = []            # items added and not yet delivered, oldest first (at most 2 when disciplined)
    seg_of = {}
    gets = 0
    for i, w in enumerate(ops):
        ret, ob = toks[i + 1]
        if w[0] == 'A':
            if not last_ca:
                disciplined = False
            inside.append(int(w[1]))
            seg_of[int(w[1])] = gets
        elif w[0] == 'G':
            gets += 1
            rt, rf = (int(x) for x in ret.split(','))
            if disciplined:
                exp = inside[0] if inside and seg_of[inside[0]] == gets - 2 else None
                if inside and seg_of[inside[0]] < gets - 2:
                    return (i, 'exactly-once', 'item %d was not delivered by the second Get after its Add' % inside[0])
                if rf and rt not in inside:
                    return (i, 'exactly-once', 'Get %d returns %d, which is not inside the bus (delivered twice or never added)' % (gets, rt))
                if rf and exp != rt:
                    return (i, 'order', 'Get %d returns %d, expected %s' % (gets, rt, exp))
                if not rf and exp is not None:
                    return (i, 'a-cycle-later', 'Get %d returns nothing, item %d (added after Get %d) is due' % (gets, exp, gets - 2))
                if rf:
                    inside.pop(0)
        else:
            inside = []
            if ob[1] != 1:
                return (i, 'clean', 'IsEmpty is false directly after %s' % w[0])
            disciplined = True      # an emptied bus starts afresh
        if disciplined and len(inside) > 2:
            return (i, 'capacity', 'more than two items inside')
        last_ca = ob[0]
    return None


def check_queue(line, res):
    cap, _, opstr = line.partition('\t')
    cap = int(cap)
    ops = [o.split() for o in opstr.split(';') if o.strip()]
    if res is None or res == 'panic' or res.startswith('CRASH') or len(res.split(';')) != len(ops) + 1:
        return (len(ops) - 1, 'panic', 'no well-formed result line: %r' % (res,))
    toks = [t.split('|') for t in res.split(';')]
    items = []
    for i, w in enumerate(ops):
        ret, ob = toks[i + 1]
        if w[0] == 'U':
            items.append(int(w[1]))
        elif w[0] == 'I':
            p = pred_of(int(w[1]))
            lim = int(w[2])
            vis = items if lim < 0 else items[:lim]
            exp = '[' + ','.join(str(v) for v in vis) + ']'
            if ret != exp:
                return (i, 'order', 'iteration yields %s, push order gives %s' % (ret, exp))
            items = [v for j, v in enumerate(items) if not (j < len(vis) and p(v))]
        ln, full = ob.split(',')
        if int(ln) != len(items):
            return (i, 'exactly-once', 'Length is %s, %d elements were pushed and not removed' % (ln, len(items)))
        if (full == '1') != (len(items) >= cap):
            return (i, 'capacity', 'IsFull is %s with %d elements, capacity %d' % (full, len(items), cap))
        if w[0] == 'L' and int(ret) != len(items):
            return (i, 'exactly-once', 'Length() returns %s' % ret)
        if w[0] == 'F' and (ret == '1') != (len(items) >= cap):
            return (i, 'capacity', 'IsFull() returns %s with %d elements, capacity %d' % (ret, len(items), cap))
    return None


def _check_chunk(args):
    kind, pairs = args
    out = []
    for line, res in pairs:
        if kind == 'bus':
            out.append(check_bus(line, res))
        elif kind == 'simplebus':
            out.append(check_simplebus(line, res))
        else:
            out.append(check_queue(line, res))
    return out


def par_check(kind, lines, results, workers=16):
    pairs = list(zip(lines, results))
    if len(pairs) < 4000:
        return _check_chunk((kind, pairs))
    n = workers * 4
    chunks = [(kind, pairs[len(pairs) * i // n: len(pairs) * (i + 1) // n]) for i in range(n)]
    with concurrent.futures.ProcessPoolExecutor(max_workers=workers) as ex:
        parts = list(ex.map(_check_chunk, chunks))
    return [x for p in parts for x in p]


# ----------------------------------------------------------------------------------------------
# generators
# ----------------------------------------------------------------------------------------------

BUS_ALPHABET = 'ATCGPDXR'
CORE_ALPHABET = 'ATGPD'


def concretize(sym):
    """symbolic op string -> concrete ops: A adds a fresh item at the current cycle, T advances the
    cycle and connects, C connects in the current cycle, P picks the first even item, R reverts a
    fresh item (101, 102, ...) at the current cycle"""
    cyc, item, rv = 0, 0, 100
    out = []
    for s in sym:
        if s == 'A':
            item += 1
            out.append('A %d %d' % (item, cyc))
        elif s == 'T':
            cyc += 1
            out.append('C %d' % cyc)
        elif s == 'C':
            out.append('C %d' % cyc)
        elif s == 'G':
            out.append('G')
        elif s == 'P':
            out.append('P 2')
        elif s == 'D':
            out.append('D')
        elif s == 'X':
            out.append('X')
        elif s == 'R':
            rv += 1
            out.append('R %d %d' % (rv, cyc))
        elif s == 'E':
            out.append('E 2')
    return ';'.join(out)


class Sim:
    """generator-side mirror of the bus (only to steer generation: CanAdd, what is deliverable)"""

    def __init__(s, ql, bl):
        s.ql, s.bl, s.q, s.buf = ql, bl, [], []

    def connect(s, c):
        while s.buf and len(s.q) < s.ql and s.buf[0][0] <= c:
            s.q.append(s.buf.pop(0)[1])


def random_bus(rng, mode, length):
    ql, bl = rng.randint(1, 4), rng.randint(1, 4)
    sim = Sim(ql, bl)
    cyc, item = rng.randint(0, 3), 0
    ops = []
    delivered = []
    if mode == 'pipeline':
        # what the processors do: every cycle Connect, the consumer takes up to w items, the producer
        # adds while CanAdd
        while len(ops) < length:
            cyc += 1
            ops.append('C %d' % cyc)
            sim.connect(cyc)
            for _ in range(rng.randint(0, 2)):
                if rng.random() < 0.25:
                    k = rng.choice([2, 3, 1, -(item // 2 + 1)])
                    ops.append('P %d' % k)
                    p = pred_of(k)
                    for x in sim.q:
                        if p(x):
                            sim.q.remove(x)
                            break
                else:
                    ops.append('G')
                    if sim.q:
                        sim.q.pop(0)
            for _ in range(rng.randint(0, 3)):
                if len(sim.buf) != bl:
                    item += 1
                    ops.append('A %d %d' % (item, cyc))
                    sim.buf.append((cyc + 1, item))
            if rng.random() < 0.03 and sim.buf:
                ops.append('D')
                sim.buf.pop()
            if rng.random() < 0.01:
                ops.append('X')
                sim.q, sim.buf = [], []
        return '%d %d\t%s' % (ql, bl, ';'.join(ops[:length]))
    while len(ops) < length:
        r = rng.random()
        if r < 0.30:
            if mode == 'disciplined' and len(sim.buf) == bl:
                continue
            item += 1
            ops.append('A %d %d' % (item, cyc))
            sim.buf.append((cyc + 1, item))
        elif r < 0.50:
            cyc += rng.choice([1, 1, 1, 2, 3])
            ops.append('C %d' % cyc)
            sim.connect(cyc)
        elif r < 0.57:
            ops.append('C %d' % cyc)
            sim.connect(cyc)
        elif r < 0.77:
            ops.append('G')
            if sim.q:
                delivered.append(sim.q.pop(0))
        elif r < 0.86:
            k = rng.choice([2, 3, 5, 1, -rng.randint(1, max(1, item)), -9999])
            ops.append('P %d' % k)
            p = pred_of(k)
            for x in sim.q:
                if p(x):
                    sim.q.remove(x)
                    delivered.append(x)
                    break
        elif r < 0.90:
            ops.append('E %d' % rng.choice([2, 3, 1, -rng.randint(1, max(1, item)), -9999]))
        elif r < 0.94:
            ops.append('D')
            if sim.buf:
                sim.buf.pop()
        elif r < 0.955:
            ops.append('X')
            sim.q, sim.buf = [], []
        else:
            if mode == 'disciplined' and len(sim.buf) == bl:
                continue
            # revert what was delivered last (the intended use), sometimes a fresh item
            if delivered and rng.random() < 0.8:
                t = delivered.pop()
            else:
                item += 1
                t = item
            ops.append('R %d %d' % (t, cyc))
            sim.buf.insert(0, (cyc, t))
    return '%d %d\t%s' % (ql, bl, ';'.join(ops))


def random_simplebus(rng, length, disciplined):
    ops, pend, item = [], False, 0
    for _ in range(length):
        r = rng.random()
        if r < 0.45:
            if disciplined and pend:
                ops.append('G')
                pend = False
                continue
            item += 1
            ops.append('A %d' % item)
            pend = True
        elif r < 0.96:
            ops.append('G')
            pend = False
        else:
            ops.append(rng.choice('FX'))
            pend = False
    return ';'.join(ops)


def random_queue(rng, length):
    cap = rng.randint(1, 6)
    ops, v, n = [], 0, 0
    for _ in range(length):
        r = rng.random()
        if r < 0.45:
            v += 1
            ops.append('U %d' % v)
            n += 1
        elif r < 0.55:
            ops.append('L')
        elif r < 0.65:
            ops.append('F')
        else:
            k = rng.choice([1, 2, 2, 3, 3, 5, -rng.randint(1, max(1, v)), -9999])
            lim = rng.choice([-1, -1, -1, 0, 1, 2, rng.randint(0, n + 1)])
            ops.append('I %d %d' % (k, lim))
            n = 0 if k == 1 and lim < 0 else n   # rough; only steers generation
    return '%d\t%s' % (cap, ';'.join(ops))


def random_broadcast(rng, length):
    count = rng.choice([0, 1, 2, 2, 3, 3, -1]) if rng.random() < 0.9 else 1
    ops = []
    t = 0
    for _ in range(length):
        r = rng.random()
        if r < 0.35:
            t += 1
            ops.append('N %d' % t)
        elif r < 0.65:
            ops.append('R %d' % rng.randint(-1 if rng.random() < 0.05 else 0, max(0, count - (0 if rng.random() < 0.05 else 1))))
        else:
            ops.append('K %d %d' % (rng.randint(0, max(0, count - 1)), rng.randint(0, 4)))
    return '%d\t%s' % (count, ';'.join(ops))


# ----------------------------------------------------------------------------------------------
# the check
# ----------------------------------------------------------------------------------------------

def shorter(a, b):
    return a if b is None or len(a[0]) < len(b[0]) else b


def truncate_case(cmd, line, idx):
    """keep the history up to and including operation idx (the outputs of a prefix are a prefix)"""
    if cmd == 'simplebus':
        ops = line.split(';')
        return ';'.join(ops[:idx + 1])
    head, _, opstr = line.partition('\t')
    ops = opstr.split(';')
    return head + '\t' + ';'.join(ops[:idx + 1])


def run(ctx):
    C.prepare(ctx, PID)
    rng = ctx.rng
    quick = ctx.tier == 'quick'
    oracle_ok, oracle_msg = C.ensure_oracle(ctx, 'bus', ['theories/Comp/Bus.vo', 'theories/Comp/Queue.vo'], ['Comp', 'Base'])
    if not oracle_ok:
        ctx.broken.append({'file': 'coq/theories/Comp/Bus.v', 'line': None, 'lemma': 'model oracle build (extraction of Comp/Bus.v, Comp/Queue.v)',
                           'error': oracle_msg[-1500:]})
    known = [e for e in C.load_known(PID) if e.get('status') == 'known' and e.get('id') == FINDING_ID]

    # ---- cases: batches of (command, label, lines-producing thunk) ----------------------------
    if quick:
        full = [((1, 1), 6), ((2, 2), 6), ((1, 2), 5), ((3, 2), 5)]
        core = [((1, 1), 7), ((2, 2), 7), ((1, 2), 7), ((3, 2), 7)]
        n_rand, n_small, sb_depth, q_depth = 3000, 2000, 9, 6
    else:
        full = [((1, 1), 7), ((2, 2), 7), ((1, 2), 6), ((3, 2), 6), ((2, 1), 6), ((4, 4), 6), ((2, 3), 6)]
        core = [((1, 1), 9), ((2, 2), 9), ((1, 2), 9), ((3, 2), 9), ((2, 3), 8), ((4, 1), 8)]
        n_rand, n_small, sb_depth, q_depth = 30000, 20000, 13, 7
    modes = ['disciplined', 'undisciplined', 'pipeline']
    corpus = [REVERT_WITNESS, '2 2\tA 1 0;C 1;R 2 1;C 1;G;G', '1 1\tA 1 0;C 1;R 2 1;G']

    def gen_exh(alphabet, caps, depth):
        return lambda: ['%d %d\t%s' % (caps[0], caps[1], concretize(sym)) for sym in itertools.product(alphabet, repeat=depth)]

    def gen_sb():
        out = [';'.join({'A': 'A %d' % (j + 1), 'G': 'G', 'X': 'X'}[x] for j, x in enumerate(sym))
               for sym in itertools.product('AGX', repeat=sb_depth)]
        return out + [random_simplebus(rng, rng.randint(20, 300), i % 2 == 0) for i in range(n_small)]

    def gen_queue():
        out = []
        for cap in (1, 2, 3):
            for sym in itertools.product(['U', 'I 2 -1', 'I 3 1', 'I 1 -1', 'I -2 2', 'F'], repeat=q_depth):
                v, ops = 0, []
                for x in sym:
                    if x == 'U':
                        v += 1
                        ops.append('U %d' % v)
                    else:
                        ops.append(x)
                out.append('%d\t%s' % (cap, ';'.join(ops)))
        return out + [random_queue(rng, rng.randint(10, 200)) for _ in range(n_small)]

    batches = [('bus', 'corpus', lambda: list(corpus))]
    batches += [('bus', 'exhaustive-full', gen_exh(BUS_ALPHABET, c, d)) for c, d in full]
    batches += [('bus', 'exhaustive-core', gen_exh(CORE_ALPHABET, c, d)) for c, d in core]
    batches += [('bus', 'random', lambda: [random_bus(rng, modes[i % 3], rng.randint(50, 500)) for i in range(n_rand)]),
                ('simplebus', 'all', gen_sb), ('queue', 'all', gen_queue),
                ('broadcast', 'random', lambda: [random_broadcast(rng, rng.randint(5, 80)) for _ in range(n_small)])]

    found = False
    mism = collections.Counter({'bus': 0, 'simplebus': 0, 'queue': 0, 'broadcast': 0})
    prop_fail = collections.Counter({'bus': 0, 'simplebus': 0, 'queue': 0})
    counts = collections.Counter()
    known_instances = 0
    known_example = None
    stats = collections.Counter()
    opmix = collections.Counter()
    lens = collections.Counter()
    caps_random = collections.Counter()
    nontrivial = set()
    samples = []
    evaluations = 0
    judged = 0
    first_tie = None       # shortest differing case
    first_cex = None       # shortest property failure
    if ctx.harness_ok:
        for bi, (cmd, label, thunk) in enumerate(batches):
            lines = thunk()
            tag = '%s-%d' % (cmd, bi)
            impl = C.run_lines(C.BUILD + '/harness', cmd, lines, ctx.work, 'go-' + tag)
            model = C.run_lines(C.BUILD + '/bus_oracle', cmd, lines, ctx.work, 'coq-' + tag) if oracle_ok else None
            evaluations += len(lines) * (2 if model is not None else 1)
            counts[cmd + ':' + label] += len(lines)
            for l in rng.sample(lines, 1 if label != 'random' else 2):
                samples.append(cmd + ': ' + (l if len(l) < 300 else l[:300] + ' ...'))
            if model is not None:
                for k, l in enumerate(lines):
                    if impl[k] != model[k]:
                        mism[cmd] += 1
                        first_tie = shorter((l, cmd, impl[k], model[k]), first_tie)
            if cmd == 'bus':
                for l in lines:
                    ops = l.split('\t')[1].split(';')
                    n = len(ops)
                    lens['1-9' if n < 10 else '10-99' if n < 100 else '100-249' if n < 250 else '250-500'] += 1
                    for o in ops:
                        opmix[o[0]] += 1
                    if label == 'random':
                        caps_random[l.split('\t')[0]] += 1
            if cmd == 'broadcast':
                continue
            verdicts = par_check(cmd, lines, impl)
            judged += len(lines)
            for k, v in enumerate(verdicts):
                viol = v['viol'] if cmd == 'bus' else v
                if cmd == 'bus':
                    st = v['stats']
                    if st['waited'] and st['refused']:
                        nontrivial.add(lines[k])
                    stats['histories_with_delivery'] += 1 if st['delivered'] else 0
                    stats['histories_with_connect_refused_by_full_queue'] += 1 if st['refused'] else 0
                    stats['histories_with_pick_from_middle'] += 1 if st['picked_middle'] else 0
                    stats['histories_with_buffer_beyond_capacity_(undisciplined)'] += 1 if st['overflow'] else 0
                    stats['histories_disciplined_wrt_implementation_CanAdd'] += 1 if st['impl_disciplined'] else 0
                    stats['histories_with_revert'] += 1 if st['reverts'] else 0
                    stats['histories_with_revert_while_queue_nonempty'] += 1 if st['revert_nonempty'] else 0
                    stats['items_delivered'] += st['delivered']
                    stats['items_removed_by_clean_or_deletelast'] += st['dropped']
                    if v['known']:
                        known_instances += 1
                        if known_example is None or len(lines[k]) < len(known_example):
                            known_example = lines[k]
                if viol is not None:
                    prop_fail[cmd] += 1
                    idx, clause, msg = viol
                    cut = truncate_case(cmd, lines[k], idx) if idx >= 0 else lines[k]
                    first_cex = shorter((cut, lines[k], cmd, impl[k], model[k] if model else None, idx, clause, msg), first_cex)
        # ---- the Revert finding --------------------------------------------------------------
        if known_instances:
            text = ('%s: BufferedBus.Revert prepends to the buffer, which is behind the visible queue: a reverted item is '
                    'not the next one delivered when an item is already visible (theorem C14_revert_not_next_refuted); '
                    'witness history "%s" delivers 1, not the reverted 2; %d generated histories show it; Revert is called '
                    'by no processor variant' % (FINDING_ID, REVERT_WITNESS.replace('\t', ' | '), known_instances))
            if known:
                ctx.known_finding(text)
            else:
                found = True
                ctx.violation('counterexample', 'revert: ' + text,
                              {'harness_cmd': 'bus', 'go_case': REVERT_WITNESS, 'clause': 'revert',
                               'example_from_this_run': known_example,
                               'replay_cmd': 'printf "%s\\n" "<go_case>" > c.txt; build/harness bus c.txt; build/bus_oracle bus c.txt'})
        # ---- property failures on the implementation -----------------------------------------
        if first_cex is not None:
            found = True
            cut, line, cmd, im, mo, idx, clause, msg = first_cex
            ctx.violation('counterexample',
                          '%s history "%s": %s (clause %s, operation %d); %d history(ies) fail the property, %d differ from the model'
                          % (cmd, cut.replace('\t', ' | '), msg, clause, idx, sum(prop_fail.values()), sum(mism.values())),
                          {'harness_cmd': cmd, 'go_case': cut, 'full_case': line, 'clause': clause, 'failing_operation_index': idx,
                           'message': msg, 'implementation': im, 'model': mo,
                           'replay_cmd': 'printf "%%s\\n" "<go_case>" > c.txt; build/harness %s c.txt; build/bus_oracle %s c.txt' % (cmd, cmd)})
        elif first_tie is not None:
            line, cmd, im, mo = first_tie
            # first differing operation
            a, b = (im or '').split(';'), (mo or '').split(';')
            d = next((j for j in range(min(len(a), len(b))) if a[j] != b[j]), min(len(a), len(b))) - 1
            cut = truncate_case(cmd, line, max(d, 0))
            ctx.broken.append({'file': 'coq/theories/Comp/%s.v' % ('Queue' if cmd in ('queue', 'broadcast') else 'Bus'), 'line': None,
                               'lemma': 'correspondence of the %s model with the implementation' % cmd,
                               'error': 'history "%s" | operation %d | implementation %s | model %s | %d of the histories differ, '
                                        'the property holds on all of them' % (cut.replace('\t', ' | '), d, ';'.join(a[:d + 2]),
                                                                               ';'.join(b[:d + 2]), sum(mism.values())),
                               'harness_cmd': cmd, 'go_case': cut})
    C.report_broken(ctx, found)

    # ---- evidence -------------------------------------------------------------------------------
    cov = {
        'evaluations': evaluations,
        'distinct_nontrivial': len(nontrivial),
        'rule': 'bus, bounded exhaustive (a history covers all its prefixes): every sequence over the full alphabet {Add fresh item in the '
                'current cycle, Connect in the current cycle, advance the cycle + Connect, Get, Pick first even item, DeleteLast, Clean, '
                'Revert fresh item} of length %s; every sequence over the core alphabet {Add, advance + Connect, Get, Pick even, DeleteLast} '
                'of length %s; bus, random: %d histories of 50..500 operations, capacities 1..4 x 1..4, non-decreasing cycles, one third '
                'each disciplined (Add/Revert only when CanAdd), undisciplined, pipeline-shaped (per cycle: Connect, consumer Get/Pick, '
                'producer Add while CanAdd); simplebus: every sequence over {Add, Get, Clean} of length %d + %d random (half disciplined); '
                'queue: every sequence of length %d over {Push, remove-even loop, remove-multiples-of-3 loop stopping after 1, remove-all '
                'loop, remove-value-2 loop stopping after 2, IsFull} for capacities 1..3 + %d random; broadcast: %d random.  Each history '
                'is executed by the Go types and by the extracted Coq model and compared textually (every return value; after every '
                'operation IsEmpty, PendingRead, RemainingToAdd, CanAdd, CanGet); the implementation outputs of every bus / simplebus / '
                'queue history are also judged against the property by the reference in lib/vf/c14.py.  distinct_nontrivial = distinct '
                'bus histories in which at least one item is delivered after waiting in the buffer AND at least one Connect had to leave an '
                'eligible item in the buffer because the queue was full'
                % (', '.join('%d for capacities %s' % (d, c) for c, d in full), ', '.join('%d for %s' % (d, c) for c, d in core),
                   n_rand, sb_depth, n_small, q_depth, n_small, n_small),
        'samples': samples,
        'exhaustive': False,
        'histories_per_suite': dict(counts),
        'bus_exhaustive_depths_full_alphabet': {'%d,%d' % c: d for c, d in full},
        'bus_exhaustive_depths_core_alphabet': {'%d,%d' % c: d for c, d in core},
        'bus_operation_mix': dict(opmix), 'bus_history_length_distribution': dict(lens),
        'bus_random_capacity_pairs': dict(caps_random),
        'bus_history_statistics': dict(stats),
        'property_judged_on_implementation_outputs': judged,
        'mismatch_impl_vs_model': dict(mism), 'property_failures_on_implementation': dict(prop_fail),
        'known_finding_instances': known_instances,
        'theorems': C.theorem_names(C.COQ + '/theories/Props/C14.v'),
    }
    return C.finish(ctx, 'proof', cov,
                    ['the Go scheduler behaves as the snapshot model of Queue.Iterator for the usage pattern of the control units '
                     '(range over Iterator, Remove only the element just received)',
                     'correspondence of the hand-written models Comp/Bus.v and Comp/Queue.v with proc/comp is sampled (bounded-exhaustive + random histories), not proved',
                     'cycle arguments of Add/Revert/Connect are non-decreasing (latency theorems); Add and Revert only when CanAdd is true (capacity theorem)',
                     'known finding %s (Revert behind the visible queue) is excluded from the verdict' % FINDING_ID],
                    'make -C /verif/coq theories/Props/C14.vo (coqc 8.16.1)')
