"""C03 - wrong-path (speculative) instructions leave no architectural trace."""
from . import syscheck, sysdiff as S

PROFILES = [('shadow', 2), ('ldslow', 1.5), ('branch', 1.5), ('loops', 1), ('ssa', 1.5), ('ssamem', 1.5), ('mixed', 1),
            ('ssabr1', 4), ('ssabr', 2), ('ssald', 1)]


def run(ctx):
    return syscheck.run(
        ctx, 'C03', ['C03', 'C01_mvp60', 'C01_mvp61', 'C01_mvp62', 'C12_mvp62', 'C01_mvp63_fwd', 'C01_mvp70_fwd'], PROFILES, S.PIPELINED, n_quick=120, n_thorough=1500,
        assumptions=['a wrong-path effect is observed as a difference from the sequential final state (registers, memory), an error, a panic or a hang',
                     'MVP-6.0/6.1 write back wrong-path results by design (README); those cells are outside the domain and listed as known findings'],
        text_rule='branch-shadow programs: taken and not-taken conditional branches and jumps whose shadow holds register writes, stores, loads, '
                  'jal and nested branches, conditions fed by slow loads so that the shadow progresses; single-assignment programs with one load feeding the branch conditions and ret / jal / fresh-register writes in the shadow (ssabr, ssabr1: the clean domain of MVP-6.2..8.0 at 2..4 units); MVP-4..8 x parallelism 1..4 inside the calibrated domains; '
                  'non-trivial = at least one branch or jump with a non-empty shadow')
