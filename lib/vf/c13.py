"""C13 - the line cache behaves as an LRU cache of its reference model.

Decided by: theorems of coq/theories/Props/C13.v about the hand-written models
Comp/Cache.v (proc/comp/cache.go) and Comp/Lru.v (common/cache/lru.go).
Tie: operation histories executed by the Go types (tools/harness/cache.go) and
by the OCaml extraction of the models (build/cache_oracle), compared textually:
every return value and, after each operation, the resident bases in order.
Search/classification: on histories that respect the usage contract the
clauses of the property are evaluated on the implementation's outputs with a
small independent reference (dict + recency list, below); a difference there
is a counterexample to the property, a mere model/implementation difference
is a broken correspondence."""
import concurrent.futures
import itertools

from . import common as C

I32_MIN, I32_MAX = -2 ** 31, 2 ** 31 - 1
GEOMETRIES = [(2, 6), (4, 16), (64, 1024), (128, 4096)]


# ----------------------------------------------------------------------------
# history syntax

def lst(l):
    return ','.join(str(x) for x in l) if l else '-'


def fmt_op(o):
    k = o[0]
    if k in 'PWU':
        return '%s %d %s' % (k, o[1], lst(o[2]))
    if k == 'S':
        return 'S %s %d' % (lst(o[1]), o[2])
    return '%s %d' % (k, o[1])


def fmt_case(geo, ops):
    return '%d %d\t%s' % (geo[0], geo[1], ';'.join(fmt_op(o) for o in ops))


def blist(l):
    return '[' + ','.join(str(x) for x in l) + ']'


# ----------------------------------------------------------------------------
# independent reference of the property (NOT derived from the Coq model):
# resident lines in a dict, recency as a list of bases (most recent first)

class Ref:
    def __init__(self, L, clen):
        self.L = L
        self.cap = clen // L
        self.d = {}
        self.rec = []
        # measured facts about the history
        self.displaced = 0          # lines displaced by PushLine
        self.victims = 0            # victims reported by PushLineWithEvictionWarning
        self.evicted = 0            # EvictCacheLine hits
        self.dirty = set()          # bases written since insertion
        self.dirty_displaced = 0    # displaced / reported / evicted lines that had been written
        self.reorders = 0           # Get hits on a line that was not the most recent
        self.hits = 0
        self.misses = 0

    def cover(self, a, among=None):
        for b in (self.rec if among is None else among):
            if b <= a < b + self.L:
                return b
        return None

    def existing(self):
        return self.rec[:max(0, min(len(self.rec), self.cap))]

    def ok(self, o):
        """usage contract of the component for the next operation"""
        k = o[0]
        if k in 'PW':
            b, data = o[1], o[2]
            return (len(data) == self.L and I32_MIN <= b and b + self.L <= I32_MAX and len(self.rec) <= self.cap
                    and all(b + self.L <= r or r + self.L <= b for r in self.rec))
        if k == 'U':
            b = self.cover(o[1])
            return b is not None and o[1] + len(o[2]) <= b + self.L
        if k == 'S':
            if not o[1] or o[2] <= 0:
                return False
            a, n = o[1][0], o[2]
            b = self.cover(a, self.existing())
            if b is None:
                return True
            small = a - crem(a, n)
            return b <= small and small + n <= b + self.L
        return True

    def step(self, o):
        """expected output text of the operation; updates the state"""
        k = o[0]
        if k == 'P' or k == 'W':
            b, data = o[1], list(o[2])
            self.d[b] = data
            self.rec.insert(0, b)
            self.dirty.discard(b)
            if len(self.rec) > self.cap:
                v = self.rec[-1]
                if v in self.dirty:
                    self.dirty_displaced += 1
                if k == 'P':
                    self.displaced += 1
                    self.rec.pop()
                    self.dirty.discard(v)
                    return blist(self.d.pop(v))
                self.victims += 1
                return '%d:%d:%s' % (v, v + self.L, blist(self.d[v]))
            return 'nil'
        if k == 'G':
            b = self.cover(o[1])
            if b is None:
                self.misses += 1
                return 'miss'
            self.hits += 1
            if self.rec[0] != b:
                self.reorders += 1
                self.rec.remove(b)
                self.rec.insert(0, b)
            return str(self.d[b][o[1] - b])
        if k == 'L':
            b = self.cover(o[1])
            return 'nil' if b is None else blist(self.d[b])
        if k == 'S':
            a, n = o[1][0], o[2]
            b = self.cover(a, self.existing())
            if b is None:
                return 'miss'
            small = a - crem(a, n)
            return '%d:%s' % (small, blist(self.d[b][small - b:small - b + n]))
        if k == 'E':
            b = self.cover(o[1])
            if b is None:
                return 'nil'
            self.evicted += 1
            if b in self.dirty:
                self.dirty_displaced += 1
                self.dirty.discard(b)
            self.rec.remove(b)
            return blist(self.d.pop(b))
        if k == 'U':
            b = self.cover(o[1])
            for i, v in enumerate(o[2]):
                self.d[b][o[1] - b + i] = v
            if o[2]:
                self.dirty.add(b)
            return 'ok'
        raise ValueError(o)

    def bases(self):
        return ','.join(str(b) for b in self.rec)


def crem(a, n):
    """Go's truncated remainder"""
    r = abs(a) % abs(n)
    return -r if a < 0 else r


def ref_run(geo, ops):
    """(expected result line, Ref) for a contract-respecting history; None if the contract is violated"""
    r = Ref(*geo)
    outs = []
    for o in ops:
        if not r.ok(o):
            return None, r
        x = r.step(o)
        outs.append(x + '|' + r.bases())
    return ';'.join(outs), r


CLAUSE = {'P': 'push_full_displaces_lru_and_reports_it', 'W': 'capacity_restored_after_victim_removed (victim report)',
          'G': 'read_last_write / present_iff_covered', 'L': 'read_last_write (whole line)',
          'S': 'read_last_write (sub-line)', 'E': 'capacity_restored_after_victim_removed / present_iff_covered',
          'U': 'read_last_write (write)'}


def first_diff(a, b):
    """index of the first operation whose result differs, with the two texts"""
    xa = (a or '').split(';')
    xb = (b or '').split(';')
    for i in range(max(len(xa), len(xb))):
        ea = xa[i] if i < len(xa) else '<none>'
        eb = xb[i] if i < len(xb) else '<none>'
        if ea != eb:
            return i, ea, eb
    return None


# ----------------------------------------------------------------------------
# generators

def byte_for(step, off):
    v = (step * 16 + off * 5 + 1) % 256
    return v - 256 if v > 127 else v


def exhaustive(budget, full):
    """All contract-respecting histories of exactly length k (every shorter one is a prefix)
    over 3 line bases, a 2-line cache, lineLength 2; k = the largest whose count fits budget."""
    geo = (2, 4)
    bases = [0, 2, 4]

    def moves(r, step):
        ms = []
        for b in bases:
            data = [byte_for(step, 0), byte_for(step, 1)]
            ms.append(('P', b, data))
            if full:
                ms.append(('W', b, data))
            if full or b in r.d:       # core alphabet: a Get / Evict of a non-resident line changes nothing
                ms.append(('G', b + 1))
                ms.append(('E', b))
            ms.append(('U', b + 1, [byte_for(step, 2)]))
            if full:
                ms.append(('L', b))
                ms.append(('S', [b + 1], 1))
                ms.append(('U', b, [byte_for(step, 3), byte_for(step, 4)]))
        return [m for m in ms if r.ok(m)]

    def clone(r):
        n = Ref(r.L, r.L * r.cap)
        n.d = {k: list(v) for k, v in r.d.items()}
        n.rec = list(r.rec)
        return n

    def enum(k):
        out = []

        def go(r, hist):
            if len(hist) == k:
                out.append(list(hist))
                return len(out) <= budget
            for m in moves(r, len(hist)):
                r2 = clone(r)
                r2.step(m)
                hist.append(m)
                cont = go(r2, hist)
                hist.pop()
                if not cont:
                    return False
            return True
        complete = go(Ref(*geo), [])
        return out if complete else None

    best, k = None, 1
    while True:
        cur = enum(k)
        if cur is None:
            break
        best = (k, cur)
        k += 1
    return geo, best[0], best[1]


def random_history(rng, geo, length, universe):
    """contract-respecting random history; universe = candidate line bases (may overlap each other)"""
    L = geo[0]
    r = Ref(*geo)
    ops = []
    pending = None      # victim base reported by PushLineWithEvictionWarning, waiting for its EvictCacheLine
    wait = 0
    subs = [n for n in (1, 2, 4, 8, 16, 32, 64, 128) if n <= L]
    tries = 0

    def some_addr():
        return (rng.choice(r.rec) if r.rec and rng.random() < 0.8 else rng.choice(universe)) + rng.randrange(L)
    while len(ops) < length and tries < 30 * length:
        tries += 1
        c = rng.random()
        o = None
        if pending is not None and wait <= 0:
            o = ('E', pending + rng.randrange(L))
        elif c < 0.22:
            o = ('W' if rng.random() < 0.3 else 'P', rng.choice(universe), [rng.randint(-128, 127) for _ in range(L)])
        elif c < 0.52:
            o = ('G', some_addr())
        elif c < 0.74:
            if r.rec:
                b = rng.choice(r.rec)
                off = rng.randrange(L)
                n = rng.choice([1, 1, 2, 4, L - off, rng.randint(0, L - off)])
                o = ('U', b + off, [rng.randint(-128, 127) for _ in range(max(0, min(n, L - off)))])
        elif c < 0.82:
            o = ('L', some_addr())
        elif c < 0.90:
            a = some_addr()
            o = ('S', [a] + [a + i for i in range(1, rng.randint(1, 4))], rng.choice(subs))
        elif c < 0.96:
            o = ('E', some_addr())
        if o is None or not r.ok(o):
            continue
        res = r.step(o)
        ops.append(o)
        wait -= 1
        if o[0] == 'E' and pending is not None and pending not in r.d:
            pending = None
        if o[0] == 'W' and res != 'nil':
            pending = int(res.split(':')[0])
            wait = rng.randint(0, 3)
    return ops


def universe_for(rng, geo):
    L, clen = geo
    n = clen // L
    count = n + rng.randint(1, max(2, n))
    style = rng.random()
    origin = rng.choice([0, 0, L * 7, -L * 3, 4096, -(count // 2) * L])
    if style < 0.55 or L < 2:
        return [origin + i * L for i in range(count)]                       # aligned
    if style < 0.8:
        return [origin + i * (L // 2) for i in range(2 * count)]            # half-line steps: candidates overlap
    return sorted(set(origin + rng.randint(0, count * L) for _ in range(2 * count)))   # arbitrary bases


def overlap_history(rng, length):
    """contract violated only by overlapping / duplicate lines and pushes over capacity: correct data
    lengths, writes inside the first covering line - such histories rarely panic and run long"""
    geo = rng.choice([(2, 4), (2, 6), (4, 8), (4, 16), (8, 32), (3, 9)])
    L, cap = geo[0], geo[1] // geo[0]
    origin = rng.choice([0, 0, -L, 100, I32_MAX - 5 * L + 1, I32_MIN])
    res = []            # bases, most recent first, duplicates possible (generation guidance only)

    def first(a):
        for i, b in enumerate(res):
            if b <= a < b + L:
                return i
        return None
    ops = []
    while len(ops) < length:
        c = rng.random()
        a = origin + rng.randint(0, 4 * L - 1)
        if c < 0.3:
            b = min(a, I32_MAX - L)
            if rng.random() < 0.25:
                ops.append(('W', b, [rng.randint(-128, 127) for _ in range(L)]))
                res.insert(0, b)
            else:
                ops.append(('P', b, [rng.randint(-128, 127) for _ in range(L)]))
                res.insert(0, b)
                del res[cap:]
        elif c < 0.6:
            ops.append(('G', a))
            i = first(a)
            if i is not None:
                res.insert(0, res.pop(i))
        elif c < 0.8:
            i = first(a)
            if i is not None:
                ops.append(('U', a, [rng.randint(-128, 127) for _ in range(rng.randint(0, res[i] + L - a))]))
        elif c < 0.88:
            ops.append(('L', a))
        elif c < 0.93:
            i = first(a)
            n = rng.choice([1, 2, L])
            if i is None or i >= min(len(res), cap) or (res[i] <= a - crem(a, n) and a - crem(a, n) + n <= res[i] + L):
                ops.append(('S', [a], n))
        else:
            ops.append(('E', a))
            i = first(a)
            if i is not None:
                res.pop(i)
    return geo, ops


def violating_history(rng, length):
    """no contract: overlapping lines, short/long data, writes on a miss or past the end, odd sub-line
    sizes, pushes while an eviction is pending, addresses at the int32 limits, odd geometries"""
    if rng.random() < 0.5:
        return overlap_history(rng, length)
    g = rng.random()
    if g < 0.85:
        geo = rng.choice([(2, 4), (2, 6), (4, 8), (4, 16), (8, 16), (3, 9), (1, 2), (2, 0)])
    else:
        geo = rng.choice([(0, 4), (2, 5), (2, -4), (-2, 4), (-2, -4), (4, 2), (3, 10)])
    L = abs(geo[0]) or 1
    span = 6 * L
    origin = rng.choice([0, 0, 0, -2 * L, I32_MAX - span + 1, I32_MIN, I32_MAX - 2 * L])

    def addr():
        if rng.random() < 0.03:
            return rng.choice([I32_MIN, I32_MAX, I32_MAX - 1, 0, -1])
        return max(I32_MIN, min(I32_MAX, origin + rng.randint(-1, span)))

    def data(n=None):
        if n is None:
            c = rng.random()
            n = L if c < 0.8 else rng.choice([0, 1, L - 1, L + 1, 2 * L])
        return [rng.randint(-128, 127) for _ in range(max(0, n))]
    ops = []
    for _ in range(length):
        c = rng.random()
        if c < 0.3:
            ops.append((rng.choice('PPW'), addr(), data()))
        elif c < 0.6:
            ops.append(('G', addr()))
        elif c < 0.68:
            ops.append(('U', addr(), data(rng.choice([0, 1, 1, 2, L, L + 1]))))
        elif c < 0.8:
            ops.append(('L', addr()))
        elif c < 0.88:
            k = rng.choice([1, 1, 1, 1, 2, 0])
            ops.append(('S', [addr() for _ in range(k)], rng.choice([1, 1, 2, L, L, 2 * L, 3, 0, -1, max(1, L // 2)])))
        else:
            ops.append(('E', addr()))
    return geo, ops


# ---- generic LRU -----------------------------------------------------------

def fmt_lop(o):
    if o[0] == 'P':
        return 'P %d %d' % (o[1], o[2])
    if o[0] == 'G':
        return 'G %d' % o[1]
    return 'F %s' % lst(o[1])


def lru_ref(capacity, ops):
    """independent reference: list of (key, value), least recent first; None when the contract
    (capacity > 0) is violated"""
    if capacity <= 0:
        return None, {}
    items = []
    outs = []
    st = {'evictions': 0, 'refresh_moves': 0, 'find_hits': 0, 'get_hits': 0}

    def touch(i):
        if i != len(items) - 1:
            st['refresh_moves'] += 1
        items.append(items.pop(i))
    for o in ops:
        keys = [k for k, _ in items]
        if o[0] == 'P':
            if o[1] in keys:
                i = keys.index(o[1])
                items[i] = (o[1], o[2])
                touch(i)
            else:
                if len(items) == capacity:
                    items.pop(0)
                    st['evictions'] += 1
                items.append((o[1], o[2]))
            outs.append('ok')
        elif o[0] == 'G':
            if o[1] in keys:
                i = keys.index(o[1])
                outs.append(str(items[i][1]))
                st['get_hits'] += 1
                touch(i)
            else:
                outs.append('miss')
        else:
            hit = [i for i, k in enumerate(keys) if k in o[1]]
            if hit:
                outs.append(str(keys[hit[0]]))
                st['find_hits'] += 1
                touch(hit[0])
            else:
                outs.append('miss')
        outs[-1] += '|' + ','.join(str(k) for k, _ in items)
    return ';'.join(outs), st


def lru_cases(rng, tier):
    cases = []      # (capacity, ops, kind)
    # bounded exhaustive: capacity 2, keys {1,2,3}
    keys = [1, 2, 3]
    subsets = [list(s) for n in range(0, 4) for s in itertools.combinations(keys, n)]
    alphabet = [('P', k) for k in keys] + [('G', k) for k in keys] + [('F', s) for s in subsets]
    k = 4 if tier == 'quick' else 5
    for combo in itertools.product(alphabet, repeat=k):
        ops = []
        for i, a in enumerate(combo):
            ops.append(('P', a[1], 10 * (i + 1) + a[1]) if a[0] == 'P' else a)
        cases.append((2, ops, 'exhaustive'))
    n_rand = 1500 if tier == 'quick' else 15000
    for _ in range(n_rand):
        capacity = rng.choice([1, 2, 3, 4, 4, 8, 16])
        nk = capacity + rng.randint(1, 4)
        ops = []
        for i in range(rng.randint(50, 600)):
            c = rng.random()
            if c < 0.4:
                ops.append(('P', rng.randrange(nk), rng.randint(-1000, 1000)))
            elif c < 0.7:
                ops.append(('G', rng.randrange(nk + 1)))
            else:
                ops.append(('F', rng.sample(range(nk + 2), rng.randint(0, min(4, nk)))))
        cases.append((capacity, ops, 'random'))
    for capacity in (0, -1, 0, -3):
        ops = [rng.choice([('G', 1), ('F', [1, 2]), ('P', 1, 5)]) for _ in range(6)]
        cases.append((capacity, ops, 'no-contract'))
    return cases


# ----------------------------------------------------------------------------

def par_run(exe, cmd, lines, workdir, tag):
    """like C.run_lines but always spread round-robin over 16 processes (histories differ a lot in size)"""
    n = len(lines)
    if n == 0:
        return []
    parts = max(1, min(16, n))
    with concurrent.futures.ThreadPoolExecutor(max_workers=parts) as ex:
        res = list(ex.map(lambda k: C.run_lines(exe, cmd, lines[k::parts], workdir, '%s%d' % (tag, k), shards=1),
                          range(parts)))
    out = [None] * n
    for k, r in enumerate(res):
        out[k::parts] = r
    return out


def shrink(geo, ops, cmd_run):
    """delta debugging on the operation list: keep the contract and the failure of the property"""
    def fails(cand):
        exp, _ = ref_run(geo, cand)
        if exp is None:
            return False
        got = cmd_run(fmt_case(geo, cand))
        return got != exp
    cur = list(ops)
    budget = 300
    changed = True
    while changed and budget > 0:
        changed = False
        i = len(cur) - 1
        while i >= 0 and budget > 0:
            cand = cur[:i] + cur[i + 1:]
            budget -= 1
            if fails(cand):
                cur = cand
                changed = True
            i -= 1
    return cur


def one_shot(cmd, workdir):
    def f(line):
        return C.run_lines(C.BUILD + '/harness', cmd, [line], workdir, 'shrink', shards=1)[0]
    return f


def hist(values, edges):
    out = {}
    for v in values:
        for e in edges:
            if v <= e:
                out['<=%d' % e] = out.get('<=%d' % e, 0) + 1
                break
        else:
            out['>%d' % edges[-1]] = out.get('>%d' % edges[-1], 0) + 1
    return out


def run(ctx):
    C.prepare(ctx, 'C13')
    rng = ctx.rng
    quick = ctx.tier == 'quick'
    ok_or, out_or = C.ensure_oracle(ctx, 'cache', ['theories/Comp/Cache.vo', 'theories/Comp/Lru.vo'], ['Comp', 'Base'])
    if not ok_or:
        ctx.broken.append({'file': 'coq/theories/Extract/CacheOracle.v', 'line': None,
                           'lemma': 'extraction of the cache models', 'error': out_or[-800:]})

    # ---- histories -------------------------------------------------------
    cases = []      # (geo, ops, kind)
    geo_e, k_core, core = exhaustive(150000 if quick else 1500000, full=False)
    for h in core:
        cases.append((geo_e, h, 'exhaustive-core'))
    _, k_full, fullh = exhaustive(110000 if quick else 1500000, full=True)
    for h in fullh:
        cases.append((geo_e, h, 'exhaustive-full'))
    per_geo = {(2, 6): 260, (4, 16): 220, (64, 1024): 50, (128, 4096): 30}
    for geo in GEOMETRIES:
        n = per_geo[geo] * (1 if quick else 8)
        for _ in range(n):
            length = rng.randint(200, 2000)
            cases.append((geo, random_history(rng, geo, length, universe_for(rng, geo)), 'random'))
    n_viol = 3000 if quick else 40000
    for _ in range(n_viol):
        geo, ops = violating_history(rng, rng.randint(3, 60))
        cases.append((geo, ops, 'no-contract'))
    lines = [fmt_case(g, o) for g, o, _ in cases]

    found = False
    stats = {'contract_histories': 0, 'no_contract_histories': 0, 'ops': 0, 'displaced_by_PushLine': 0,
             'victims_reported': 0, 'evict_hits': 0, 'written_lines_displaced': 0, 'get_reorders': 0,
             'get_hits': 0, 'get_misses': 0, 'no_contract_panics': 0}
    opmix = {}
    lengths = []
    nontrivial = set()
    mism_prop = mism_model = 0
    lcases = lru_cases(rng, ctx.tier)
    llines = ['%d\t%s' % (c, ';'.join(fmt_lop(o) for o in ops)) for c, ops, _ in lcases]
    lru_nontrivial = set()
    lstats = {'evictions': 0, 'refresh_moves': 0, 'find_hits': 0, 'get_hits': 0, 'ops': 0}
    # tools run in the background while the reference evaluates the histories
    ex = concurrent.futures.ThreadPoolExecutor(max_workers=4)
    if ctx.harness_ok:
        f_impl = ex.submit(par_run, C.BUILD + '/harness', 'cache', lines, ctx.work, 'go')
        f_mod = ex.submit(par_run, C.BUILD + '/cache_oracle', 'cache', lines, ctx.work, 'ml') if ok_or else None
        f_limpl = ex.submit(par_run, C.BUILD + '/harness', 'lru', llines, ctx.work, 'lgo')
        f_lmod = ex.submit(par_run, C.BUILD + '/cache_oracle', 'lru', llines, ctx.work, 'lml') if ok_or else None
    # the reference evaluation runs meanwhile
    expected = []
    for (geo, ops, kind) in cases:
        lengths.append(len(ops))
        for o in ops:
            opmix[o[0]] = opmix.get(o[0], 0) + 1
        stats['ops'] += len(ops)
        if kind == 'no-contract':
            expected.append(None)
            stats['no_contract_histories'] += 1
            continue
        exp, r = ref_run(geo, ops)
        if exp is None:
            raise RuntimeError('generator produced a history outside the contract: ' + fmt_case(geo, ops)[:300])
        expected.append(exp)
        stats['contract_histories'] += 1
        stats['displaced_by_PushLine'] += r.displaced
        stats['victims_reported'] += r.victims
        stats['evict_hits'] += r.evicted
        stats['written_lines_displaced'] += r.dirty_displaced
        stats['get_reorders'] += r.reorders
        stats['get_hits'] += r.hits
        stats['get_misses'] += r.misses
        if r.dirty_displaced > 0 and r.reorders > 0:
            nontrivial.add(hash(lines[len(expected) - 1]))
    lexpected = []
    for (capacity, ops, kind), ll in zip(lcases, llines):
        exp, st = lru_ref(capacity, ops)
        lexpected.append(exp)
        lstats['ops'] += len(ops)
        for kk in st:
            lstats[kk] += st[kk]
        if exp is not None and st['evictions'] > 0 and st['refresh_moves'] > 0:
            lru_nontrivial.add(hash(ll))
    lmism_prop = lmism_model = 0
    if ctx.harness_ok:
        impl = f_impl.result()
        model = f_mod.result() if f_mod else None
        limpl = f_limpl.result()
        lmodel = f_lmod.result() if f_lmod else None
        ex.shutdown()

        first_tie = None
        for k, (geo, ops, kind) in enumerate(cases):
            if kind == 'no-contract' and impl[k] is not None and impl[k].endswith('panic'):
                stats['no_contract_panics'] += 1
            if expected[k] is not None and impl[k] != expected[k]:
                mism_prop += 1
                if not found:
                    found = True
                    i, got, want = first_diff(impl[k], expected[k])
                    small = shrink(geo, ops[:i + 1], one_shot('cache', ctx.work))
                    sline = fmt_case(geo, small)
                    sgot = one_shot('cache', ctx.work)(sline)
                    sexp, _ = ref_run(geo, small)
                    j, g2, w2 = first_diff(sgot, sexp) or (len(small) - 1, got, want)
                    clause = CLAUSE.get(small[j][0] if j < len(small) else ops[i][0], '')
                    if g2.split('|')[0] == w2.split('|')[0]:
                        clause = 'recency order / resident set after the operation (push_full_displaces_lru_and_reports_it, ' \
                                 'no_duplicate_lines, length_le_capacity depend on it)'
                    ctx.violation('counterexample',
                                  'comp.LRUCache (lineLength %d, cacheLength %d), history %s : operation %d (%s) gives "%s", '
                                  'the LRU reference gives "%s"  [clause: %s]  (format: output|resident bases, most recent first)' %
                                  (geo[0], geo[1], sline.split('\t')[1], j + 1, fmt_op(small[j]) if j < len(small) else '?', g2, w2, clause),
                                  {'case': sline, 'go_case': sline, 'harness_cmd': 'cache', 'observed': sgot, 'expected': sexp, 'clause': clause,
                                   'unshrunk_case': lines[k] if len(lines[k]) < 20000 else lines[k][:20000] + '...',
                                   'replay_cmd': 'printf "%s\\n" "<case>" > c.txt; build/harness cache c.txt   # P=PushLine W=PushLineWithEvictionWarning G=Get L=GetCacheLine S=GetSubCacheLine E=EvictCacheLine U=Write'})
            if model is not None and impl[k] != model[k]:
                mism_model += 1
                if first_tie is None:
                    d = first_diff(impl[k], model[k])
                    first_tie = (lines[k][:1500], d, lines[k][:20000])
        lfirst = None
        lfound = False
        for k, (capacity, ops, kind) in enumerate(lcases):
            if lexpected[k] is not None and limpl[k] != lexpected[k]:
                lmism_prop += 1
                if not lfound:
                    lfound = True
                    i, got, want = first_diff(limpl[k], lexpected[k])

                    def lfails(cand):
                        e, _ = lru_ref(capacity, cand)
                        return one_shot('lru', ctx.work)('%d\t%s' % (capacity, ';'.join(fmt_lop(o) for o in cand))) != e
                    cur = ops[:i + 1]
                    j = len(cur) - 1
                    budget = 200
                    while j >= 0 and budget > 0:
                        cand = cur[:j] + cur[j + 1:]
                        budget -= 1
                        if cand and lfails(cand):
                            cur = cand
                        j -= 1
                    sline = '%d\t%s' % (capacity, ';'.join(fmt_lop(o) for o in cur))
                    sgot = one_shot('lru', ctx.work)(sline)
                    sexp, _ = lru_ref(capacity, cur)
                    j2, g2, w2 = first_diff(sgot, sexp) or (i, got, want)
                    ctx.violation('counterexample',
                                  'cache.LRUCache (capacity %d), history %s : operation %d gives "%s", the LRU reference gives "%s" '
                                  '(format: output|keys, least recent first)' % (capacity, sline.split('\t')[1], j2 + 1, g2, w2),
                                  {'case': sline, 'go_case': sline, 'harness_cmd': 'lru', 'observed': sgot, 'expected': sexp, 'unshrunk_case': llines[k][:20000],
                                   'replay_cmd': 'printf "%s\\n" "<case>" > c.txt; build/harness lru c.txt   # P=Put G=Get F=Find'})
            if lmodel is not None and limpl[k] != lmodel[k]:
                lmism_model += 1
                if lfirst is None:
                    lfirst = (llines[k][:1500], first_diff(limpl[k], lmodel[k]), llines[k][:20000])
        found = found or lfound
        if first_tie and not found:
            ctx.broken.append({'file': 'coq/theories/Comp/Cache.v', 'line': None,
                               'lemma': 'correspondence of the model Comp/Cache.v with proc/comp/cache.go',
                               'error': 'history %s | first difference at operation %s: implementation "%s", model "%s"' %
                                        (first_tie[0], first_tie[1][0] + 1, first_tie[1][1], first_tie[1][2]),
                               'go_case': first_tie[2], 'harness_cmd': 'cache', 'oracle': 'build/cache_oracle cache'})
        if lfirst and not found:
            ctx.broken.append({'file': 'coq/theories/Comp/Lru.v', 'line': None,
                               'lemma': 'correspondence of the model Comp/Lru.v with common/cache/lru.go',
                               'error': 'history %s | first difference at operation %s: implementation "%s", model "%s"' %
                                        (lfirst[0], lfirst[1][0] + 1, lfirst[1][1], lfirst[1][2]),
                               'go_case': lfirst[2], 'harness_cmd': 'lru', 'oracle': 'build/cache_oracle lru'})
    C.report_broken(ctx, found)

    by_kind = {}
    for _, _, kind in cases:
        by_kind[kind] = by_kind.get(kind, 0) + 1
    sides = 2 if ok_or else 1
    sample_idx = []
    for kind in ('exhaustive-core', 'exhaustive-full', 'random', 'no-contract'):
        idx = [i for i, c in enumerate(cases) if c[2] == kind and len(lines[i]) < 1500]
        if idx:
            sample_idx += rng.sample(idx, min(2, len(idx)))
    lru_idx = rng.sample(range(len(llines)), 3)
    cov = {
        'evaluations': (len(cases) + len(lcases)) * sides if ctx.harness_ok else 0,
        'distinct_nontrivial': len(nontrivial) + len(lru_nontrivial),
        'rule': 'line cache: (a) ALL contract-respecting histories of length %d over the core alphabet {PushLine, Get, EvictCacheLine, Write} x 3 line bases (Get / Evict only of resident lines) '
                'and (b) ALL of length %d over the full alphabet (+ PushLineWithEvictionWarning, GetCacheLine, GetSubCacheLine, 2-byte Write), lineLength 2, 2 lines '
                '(every shorter history is a prefix of one of them); (c) random contract-respecting histories of length 200-2000 for the geometries '
                '(2,6), (4,16), (64,1024), (128,4096) over aligned, half-line-step and arbitrary candidate bases; (d) %d histories without the contract '
                '(overlaps, short/long data, writes on a miss / past the end, odd sub-line sizes, int32 limits, odd geometries) where only '
                'model = implementation is required.  A line-cache history is non-trivial when at least one line that was written after its insertion is '
                'displaced / reported as victim / evicted AND at least one Get hits a line that is not the most recent (recency is reordered); distinct = distinct case lines.  '
                'generic LRU: all histories of length %d over Put/Get x 3 keys and Find x 8 candidate sets at capacity 2, %d random histories of length 50-600 '
                'at capacities 1-16; non-trivial = at least one eviction and at least one refresh that moves a key'
                % (k_core, k_full, n_viol, 4 if quick else 5, 1500 if quick else 15000),
        'samples': [lines[i] for i in sample_idx] + ['lru ' + llines[i][:600] for i in lru_idx],
        'histories': len(cases), 'histories_by_kind': by_kind,
        'exhaustive_lengths': {'core_alphabet': k_core, 'full_alphabet': k_full},
        'exhaustive': False,
        'operations': stats['ops'], 'op_mix': opmix,
        'length_distribution': hist(lengths, [5, 10, 40, 200, 500, 1000, 1500, 2000]),
        'length_min_max': [min(lengths), max(lengths)],
        'line_cache': stats,
        'nontrivial_line_cache_histories': len(nontrivial),
        'lru_histories': len(lcases), 'lru': lstats, 'nontrivial_lru_histories': len(lru_nontrivial),
        'mismatch_impl_vs_reference': mism_prop, 'mismatch_impl_vs_model': mism_model,
        'lru_mismatch_impl_vs_reference': lmism_prop, 'lru_mismatch_impl_vs_model': lmism_model,
        'model_oracle': bool(ok_or),
        'theorems': C.theorem_names(C.COQ + '/theories/Props/C13.v'),
    }
    return C.finish(ctx, 'proof', cov,
                    ['usage contract C of comp.LRUCache (Comp/CacheSpec.v, contract): pushed lines have exactly lineLength bytes and a range inside int32 '
                     'that overlaps no resident line, no push while the cache is over capacity, Write stays inside one resident line, '
                     'GetSubCacheLine asks for a positive size whose aligned sub-line lies inside the covering line',
                     'geometry: 0 < lineLength <= 2^31-1, cacheLength a non-negative multiple of it; generic LRU: capacity > 0',
                     'aliasing of Data slices with slices of the caller is outside the model: the harness copies slices in and out (DESIGN.md section 7)',
                     'the models Comp/Cache.v and Comp/Lru.v are tied to the Go code by the sampled correspondence check of this run'],
                    'make -C /verif/coq theories/Props/C13.vo (coqc 8.16.1)')
