"""Exact correspondence of the faithful cycle-level models (Mvp/Mvp4.v, Mvp5.v, Mvp60.v .. Mvp63.v, Mvp70.v, Mvp71.v, Mvp80.v) with the Go
variants on the programs of a system check - INCLUDING programs outside the calibrated clean domain.

The models are tied to the pinned code by exact equality of (cycles, registers, memory).  A change of
proc/mvp4 .. proc/mvp8-0 therefore shows as a disagreement on the first program that takes
the changed path, even where the pinned code itself is wrong (known findings) and the differential
against the sequential machine cannot judge.  A disagreement is classified:
  * the model (= the pinned code) returns the sequential result on this program and the implementation
    does not: the property fails on this input now -> counterexample (replay = the program);
  * otherwise: the correspondence no longer checks (reported by C.report_broken with
    no-failing-input-found unless a counterexample was found elsewhere)."""
from . import common as C, sysdiff as S

MODEL_VARIANTS = {'4': (1,), '5': (1,), '6.0': (1, 2, 3, 4), '6.1': (1, 2, 3, 4), '6.2': (1, 2, 3, 4), '6.3': (1, 2, 3, 4), '7.0': (1, 2, 3, 4), '7.1': (1, 2, 3, 4), '8.0': (1, 2, 3, 4)}
TARGETS = ['theories/Mvp/Mvp12.vo', 'theories/Mvp/Mvp3.vo', 'theories/Mvp/Mvp4.vo', 'theories/Mvp/Mvp5.vo',
           'theories/Mvp/Mvp60.vo', 'theories/Mvp/Mvp61.vo', 'theories/Mvp/Mvp62.vo', 'theories/Mvp/Mvp63.vo', 'theories/Mvp/Mvp70.vo', 'theories/Mvp/Mvp71.vo', 'theories/Mvp/Mvp80.vo', 'theories/Isa/Refine.vo']


def strip(line):
    return ' '.join(t for t in (line or '').split(' ') if not t.startswith('t='))


def same_state(spec, regs, mem):
    return spec[0] == 'ok' and spec[2] == regs and spec[3] == mem


def tie(ctx, progs, spec, variants, tag='mt', step=1):
    """Returns (counterexamples, broken, stats)."""
    stats = {'compared': 0, 'order_sensitive_skipped': 0, 'budget_skipped': 0, 'mismatches': 0}
    vs = [v for v in variants if v in MODEL_VARIANTS]
    if not vs:
        return [], [], stats
    ok, out = C.ensure_oracle(ctx, 'mvp', TARGETS, ['Mvp', 'Isa', 'Gen', 'Base', 'Comp'])
    if not ok:
        return [], [{'file': 'coq/theories/Extract/MvpOracle.v', 'line': None, 'lemma': 'extraction of the cycle-level models', 'error': out[-800:]}], stats
    # long eviction programs cost seconds each on the variants that exhaust their budget: thorough tier only
    heavy = ('evict', 'evictlf') if ctx.tier == 'quick' else ()
    sel = [k for k in range(0, len(progs), step) if spec[k][0] == 'ok' and getattr(progs[k], 'profile', '') not in heavy]
    cex, broken = [], []
    for v in vs:
        for par in MODEL_VARIANTS[v]:
            # runs that exhaust the budget are not compared here: a smaller budget only skips them sooner
            cap = 40000 if ctx.tier == 'quick' else 150000
            impl, il, raw = S.run_impl(ctx, [(progs[k], v, par, min(cap, S.budget_for(spec[k][1]))) for k in sel], '%s-i%sx%d' % (tag, v, par))
            cmpk, mlines = [], []
            for j, k in enumerate(sel):
                kind = impl[j][0]
                if kind in ('budget', 'hang', 'crash'):
                    stats['budget_skipped'] += 1
                    continue
                if v in ('6.0', '6.1', '6.2', '6.3', '7.0', '7.1', '8.0'):
                    fuel = (impl[j][4] + 8) if kind == 'ok' and impl[j][4] else min(S.budget_for(spec[k][1]), 40000)
                    name = '%sx%d' % (v, par)
                else:
                    fuel = 1000 * (spec[k][1] + 20)
                    name = v
                cmpk.append((j, k))
                mlines.append(name + '\t' + progs[k].spec_case(fuel, acc=False).rsplit('\t', 1)[0])
            model = C.run_lines(C.BUILD + '/mvp_oracle', 'mvp', mlines, ctx.work, '%s-m%sx%d' % (tag, v, par))
            for (j, k), m in zip(cmpk, model):
                m = m or 'CRASH'
                if m.endswith(' os=1'):
                    stats['order_sensitive_skipped'] += 1
                    continue
                m = m[:-5] if m.endswith(' os=0') else m
                r = strip(raw[j])
                if r.startswith('panic'):
                    r = 'panic'
                stats['compared'] += 1
                if m == r:
                    continue
                stats['mismatches'] += 1
                pm = S.parse_impl(m)
                rec = {'variant': v, 'par': par, 'k': k, 'model': m, 'impl': r, 'line': il[j]}
                model_right = pm[0] == 'ok' and same_state(spec[k], pm[2], pm[3])
                impl_wrong = bool(S.verdict(spec[k], impl[j]))
                if model_right and impl_wrong:
                    cex.append(rec)
                else:
                    broken.append(rec)
    return cex, broken, stats
