"""C05 - the cache hierarchy is transparent and leaves nothing behind."""
from . import syscheck, sysdiff as S

PROFILES = [('mem', 2), ('evict', 1), ('evictlf', 1), ('ssamem', 2), ('ssald', 1), ('ldonly', 1), ('disj', 1), ('touched', 1), ('stld', 1), ('loops', 1), ('mixed', 1)]


def run(ctx):
    return syscheck.run(
        ctx, 'C05', ['C05', 'C05_mvp3', 'C05_mvp4', 'C05_mvp5', 'C05_mvp4s', 'C05_mvp5s'], PROFILES, S.VARIANTS[2:], n_quick=45, n_thorough=1500,
        assumptions=['loads are observed through destination registers, stores through the final memory image',
                     'theorem: Mem/WriteBack.v (any protocol-following write-back cache is transparent; flush leaves nothing behind); the MMUs are tied to it by this differential'],
        text_rule='memory programs over 64 B .. 8 KB images: first touches at every line offset, working sets larger than every cache (evict profile: 18-40 distinct lines, '
                  'dirty evictions, re-access), byte/half/word mixes, loops with strides; MVP-3..8 inside the calibrated domains; non-trivial = at least one load or store executed')
