"""C04 - register dependences are honoured: RAW, WAW and WAR give program-order values."""
from . import common as C
from . import syscheck, sysdiff as S
from .isa import Ins, ALL, R3, I2, U1, B2, B1, LD, ST


def scoreboard_check(ctx):
    """Component correspondence for the register scoreboard of risc/app.go (model Comp/Scoreboard.v,
    theorems C04_scoreboard_*): the real Context functions and the extracted model execute the same
    histories of add / delete / hazard-query / flush; every counter map and every answer is compared,
    and the property behind it (counters = in-flight counts, hazards reported iff real) is evaluated on
    the implementation's outputs."""
    ok, out = C.ensure_oracle(ctx, 'sb', ['theories/Comp/Scoreboard.vo'], ['Comp'])
    if not ok:
        ctx.broken.append({'file': 'coq/theories/Comp/Scoreboard.v', 'line': None, 'lemma': 'scoreboard oracle build', 'error': out[-800:]})
        return False, {}
    rng = ctx.rng
    n = 3000 if ctx.tier == 'quick' else 60000
    go_lines, or_lines, metas = [], [], []
    for _ in range(n):
        regs = rng.sample(range(0, 32), rng.randint(2, 4)) + [0]
        fl = []
        g, o, meta = [], [], []
        for _ in range(rng.randint(2, 14)):
            c = rng.random()
            if c < 0.45 or not fl:
                m = rng.choice(R3 + I2 + ['mv', 'lw', 'lb', 'sw', 'sb', 'beq', 'bnez', 'li', 'jal', 'nop'])
                ins = Ins(m, rng.choice(regs), rng.choice(regs), rng.choice(regs), imm=4, label=1)
                kind = 'A' if c < 0.3 or not fl else 'H'
                g.append('%s %s' % (kind, ins.asm()))
                o.append('%s %s|%s' % (kind, ','.join(map(str, ins.reads())), ','.join(map(str, ins.writes()))))
                meta.append((kind, ins.reads(), ins.writes()))
                if kind == 'A':
                    fl.append(ins)
            elif c < 0.75:
                k = rng.randrange(len(fl))
                fl.pop(k)
                g.append('D %d' % k)
                o.append('D %d' % k)
                meta.append(('D', k, None))
            elif c < 0.85:
                ws = [rng.choice(regs)]
                kind = rng.choice('WXQ')
                g.append('%s %s' % (kind, ','.join(map(str, ws))))
                o.append('%s %s' % (kind, ','.join(map(str, ws))))
                meta.append((kind, ws, None))
            elif c < 0.9:
                fl = []
                g.append('F')
                o.append('F')
                meta.append(('F', None, None))
        go_lines.append(';'.join(g))
        or_lines.append(';'.join(o))
        metas.append(meta)
    impl = C.run_lines(C.BUILD + '/harness', 'sb', go_lines, ctx.work, 'sb-go')
    model = C.run_lines(C.BUILD + '/sb_oracle', 'sb', or_lines, ctx.work, 'sb-or')
    found = False
    mism = 0
    for k, (a, b) in enumerate(zip(impl, model)):
        if a == b:
            continue
        mism += 1
        if found:
            continue
        # is the property itself violated on the implementation?  counters must equal in-flight counts
        viol = property_violation(metas[k], a)
        if viol:
            found = True
            ctx.violation('counterexample', 'scoreboard: %s | history: %s | implementation: %s | model: %s' % (viol, go_lines[k], a, b),
                          {'history': go_lines[k], 'observed': a, 'expected': b, 'harness_cmd': 'sb', 'go_case': go_lines[k],
                           'oracle': 'build/sb_oracle sb', 'spec_case': or_lines[k]})
        else:
            ctx.broken.append({'file': 'coq/theories/Comp/Scoreboard.v', 'line': None,
                               'lemma': 'correspondence of the scoreboard model with risc/app.go', 'harness_cmd': 'sb', 'go_case': go_lines[k],
                               'error': 'history %s | implementation %s | model %s' % (go_lines[k], a, b)})
    return found, {'component_evaluations': 2 * len(go_lines), 'scoreboard_histories': len(go_lines), 'scoreboard_mismatches': mism,
                   'scoreboard_sample': go_lines[0]}


def property_violation(meta, impl_line):
    """independent reference: counters = number of in-flight readers / writers (with multiplicity, zero register
    skipped) while only A / D / H / F operations were used; hazards reported iff real"""
    if impl_line is None or impl_line in ('panic', 'parse-error'):
        return 'the scoreboard functions panicked'
    outs = impl_line.split(';')
    fl = []
    pure = True
    for (kind, x, y), o in zip(meta, outs):
        if kind == 'A':
            fl.append((x, y))
        elif kind == 'D':
            if x < len(fl):
                fl.pop(x)
        elif kind == 'F':
            fl = []
            pure = True
        elif kind in 'WX':
            pure = False
        if not pure:
            continue
        pw, pr = {}, {}
        for rs, ws in fl:
            for r in rs:
                if r:
                    pr[r] = pr.get(r, 0) + 1
            for w in ws:
                if w:
                    pw[w] = pw.get(w, 0) + 1
        want = 'pw={%s} pr={%s}' % (','.join('%d:%d' % (r, pw[r]) for r in sorted(pw)), ','.join('%d:%d' % (r, pr[r]) for r in sorted(pr)))
        if not o.startswith(want):
            return 'pending counters %s differ from the in-flight counts %s' % (o.split(' hz=')[0].split(' q=')[0], want)
        if kind == 'H':
            hz = []
            for r in x:
                if r and pw.get(r, 0) > 0:
                    hz.append('0:%d' % r)
            for w in y:
                if w:
                    if pw.get(w, 0) > 0:
                        hz.append('1:%d' % w)
                    if pr.get(w, 0) > 0:
                        hz.append('2:%d' % w)
            if o != want + ' hz=' + ','.join(hz):
                return 'hazards reported %s, real hazards %s' % (o.split('hz=')[-1], ','.join(hz))
    return None

PROFILES = [('hazard', 3), ('alu', 2), ('ssa', 2), ('ssald', 1.5), ('branch', 1), ('ldonly', 1)]


def run(ctx):
    return syscheck.run(
        ctx, 'C04', ['C04', 'C04_scoreboard', 'C01_mvp60', 'C01_mvp61', 'C01_mvp62', 'C12_mvp63', 'C01_mvp63', 'C01_mvp63_fwd', 'C01_mvp70', 'C01_mvp71', 'C01_mvp80'], PROFILES, S.PIPELINED, pre=scoreboard_check, n_quick=120, n_thorough=2000, repeats=2,
        assumptions=['each case is run twice per cell (schedule dependence through Go map iteration shows as a differing repeat)'],
        text_rule='register-pressure programs over 2-4 registers (chains, fans, WAW and WAR pairs, loads as slow producers overtaken by fast writers) '
                  'and general ALU programs; all pipelined variants x parallelism 1..4 inside the calibrated domains; non-trivial = the program has a register reused '
                  'as destination or as source after a write (every hazard/alu program with more than 3 instructions)')
