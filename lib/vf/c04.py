"""C04 - register dependences are honoured: RAW, WAW and WAR give program-order values."""
from . import syscheck, sysdiff as S

PROFILES = [('hazard', 3), ('alu', 2), ('ssa', 2), ('ssald', 1.5), ('branch', 1), ('ldonly', 1)]


def run(ctx):
    return syscheck.run(
        ctx, 'C04', 'C04', PROFILES, S.PIPELINED, n_quick=120, n_thorough=2000, repeats=2,
        assumptions=['each case is run twice per cell (schedule dependence through Go map iteration shows as a differing repeat)'],
        text_rule='register-pressure programs over 2-4 registers (chains, fans, WAW and WAR pairs, loads as slow producers overtaken by fast writers) '
                  'and general ALU programs; all pipelined variants x parallelism 1..4 inside the calibrated domains; non-trivial = the program has a register reused '
                  'as destination or as source after a write (every hazard/alu program with more than 3 instructions)')
