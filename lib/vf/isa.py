"""Instruction table shared by the generators: spec constructor, operand kinds, assembly syntax."""
from .common import REG_NAMES

R3 = ['add', 'sub', 'mul', 'and', 'or', 'xor', 'sll', 'srl', 'sra', 'slt', 'sltu', 'div', 'rem']
I2 = ['addi', 'andi', 'ori', 'xori', 'slli', 'srli', 'srai', 'slti', 'jalr']
U1 = ['lui', 'auipc', 'li']
B2 = ['beq', 'bne', 'blt', 'bge', 'ble', 'bltu', 'bgeu']
B1 = ['beqz', 'bnez']
LD = ['lb', 'lh', 'lw']
ST = ['sb', 'sh', 'sw']
ALL = R3 + I2 + U1 + ['mv'] + B2 + B1 + ['j', 'jal'] + LD + ST + ['nop', 'ret']
assert len(ALL) == 45

LOAD_SIZE = {'lb': 1, 'lh': 2, 'lw': 4}
STORE_SIZE = {'sb': 1, 'sh': 2, 'sw': 4}


def ctor(m):
    return 'S' + m[0].upper() + m[1:]


def reg(r):
    return REG_NAMES[r]


class Ins:
    """One instruction: mnemonic + operands.  Fields used depend on the kind:
    rd, rs1, rs2, imm, label (int id; text name 'L<id>')."""

    def __init__(self, m, rd=0, rs1=0, rs2=0, imm=0, label=0):
        self.m, self.rd, self.rs1, self.rs2, self.imm, self.label = m, rd, rs1, rs2, imm, label

    def asm(self):
        m = self.m
        if m in R3:
            return '%s %s, %s, %s' % (m, reg(self.rd), reg(self.rs1), reg(self.rs2))
        if m in I2:
            return '%s %s, %s, %d' % (m, reg(self.rd), reg(self.rs1), self.imm)
        if m in U1:
            return '%s %s, %d' % (m, reg(self.rd), self.imm)
        if m == 'mv':
            return 'mv %s, %s' % (reg(self.rd), reg(self.rs1))
        if m in B2:
            return '%s %s, %s, L%d' % (m, reg(self.rs1), reg(self.rs2), self.label)
        if m in B1:
            return '%s %s, L%d' % (m, reg(self.rs1), self.label)
        if m == 'j':
            return 'j L%d' % self.label
        if m == 'jal':
            return 'jal %s, L%d' % (reg(self.rd), self.label)
        if m in LD:
            return '%s %s, %d(%s)' % (m, reg(self.rd), self.imm, reg(self.rs1))
        if m == 'sh':
            # the assembler's syntax for sh is the three-operand form: sh value, offset, base
            return 'sh %s, %d, %s' % (reg(self.rs2), self.imm, reg(self.rs1))
        if m in ST:
            # rs2 = value register, rs1 = base register
            return '%s %s, %d(%s)' % (m, reg(self.rs2), self.imm, reg(self.rs1))
        return m

    def spec(self):
        m = self.m
        c = ctor(m)
        if m in R3:
            return '%s %d %d %d' % (c, self.rd, self.rs1, self.rs2)
        if m in I2:
            return '%s %d %d %d' % (c, self.rd, self.rs1, self.imm)
        if m in U1:
            return '%s %d %d' % (c, self.rd, self.imm)
        if m == 'mv':
            return '%s %d %d' % (c, self.rd, self.rs1)
        if m in B2:
            return '%s %d %d %d' % (c, self.rs1, self.rs2, self.label)
        if m in B1:
            return '%s %d %d' % (c, self.rs1, self.label)
        if m == 'j':
            return '%s %d' % (c, self.label)
        if m == 'jal':
            return '%s %d %d' % (c, self.rd, self.label)
        if m in LD:
            return '%s %d %d %d' % (c, self.rd, self.imm, self.rs1)
        if m in ST:
            return '%s %d %d %d' % (c, self.rs2, self.imm, self.rs1)
        return c

    def reads(self):
        m = self.m
        if m in R3 or m in B2:
            return [self.rs1, self.rs2]
        if m in I2 or m == 'mv' or m in B1 or m in LD:
            return [self.rs1]
        if m in ST:
            return [self.rs1, self.rs2]
        return []

    def writes(self):
        m = self.m
        if m in R3 or m in I2 or m in U1 or m == 'mv' or m == 'jal' or m in LD:
            return [self.rd]
        return []

    def is_branch(self):
        return self.m in B2 or self.m in B1 or self.m in ('j', 'jal', 'jalr')


def pairs(d):
    return ','.join('%d:%d' % (k, d[k]) for k in sorted(d)) or '-'


def lst(l):
    return ','.join(str(x) for x in l) or '-'


INT_MIN, INT_MAX = -2 ** 31, 2 ** 31 - 1
LATTICE = sorted(set(
    [0, 1, -1, 2, -2, 3, 4, 5, 7, 8, 15, 16, 31, 32, 33, 63, 64, 127, 128, 255, 256, -128, -129,
     1023, 2047, 4095, 4096, 65535, 65536, -65536, 32767, 32768, -32768, -32769,
     2 ** 30, -2 ** 30, INT_MAX, INT_MIN, INT_MAX - 1, INT_MIN + 1, 0x55555555, -0x55555556, 0x12345678, -0x789abcdf]))
SMALL = [0, 1, -1, 5, 31, 32, -32, INT_MAX, INT_MIN]


def wrap32(x):
    return (x + 2 ** 31) % 2 ** 32 - 2 ** 31
