"""C08 - runs are deterministic and isolated."""
import collections
from . import common as C
from . import sysdiff as S
from . import syscheck
from .progs import gen_program


def run(ctx):
    C.prepare(ctx, ['C08', 'C12_mvp60'])
    cells = syscheck.load_domains()
    rng = ctx.rng
    n = 25 if ctx.tier == 'quick' else 600
    reps = 6 if ctx.tier == 'quick' else 20
    found = False
    cov = {}
    if ctx.harness_ok:
        kf = syscheck.replay_known(ctx, 'C08', ['alu', 'hazard', 'branch', 'mixed', 'mem'])
        progs = [gen_program(rng, prof) for prof in ['alu', 'ssa', 'ssald', 'ssamem', 'hazard', 'branch', 'loops', 'ldonly', 'touched', 'mem', 'mixed', 'shadow'] for _ in range(n)]
        spec, sl = S.run_spec(ctx, progs, 'c08-s')
        rep_lines, rep_meta, fresh_jobs = [], [], []
        reuse_lines, reuse_meta = [], []
        for k, (p, s) in enumerate(zip(progs, spec)):
            if s[0] != 'ok':
                continue
            fs = S.features(p, s)
            indom = []
            for v in S.VARIANTS:
                for par in S.pars_of(v):
                    rule = syscheck.cell_rule(cells, p.profile, v, par)
                    if rule is None or any(F in fs for F in rule):
                        continue
                    indom.append((v, par))
            for (v, par) in indom:
                if v in S.MULTI and par == 4:
                    continue
                conc = 1 if rng.random() < 0.3 else 0
                rep_lines.append('%d\t%d\t' % (reps, conc) + p.go_case(v, par, S.budget_for(s[1])))
                rep_meta.append((k, v, par))
            # reuse: a forwarding variant first, then another machine with the SAME parsed program
            if indom:
                a = rng.choice([x for x in indom if x[0] in S.MULTI] or indom)
                b = rng.choice(indom)
                b_case = p.go_case(b[0], b[1], S.budget_for(s[1])).split('\t')
                reuse_lines.append('\t'.join([a[0], str(a[1]), b[0], str(b[1])] + b_case[2:]))
                reuse_meta.append((k, a, b))
                fresh_jobs.append((p, b[0], b[1], S.budget_for(s[1])))
        rep = C.run_lines(C.BUILD + '/harness', 'repeat', rep_lines, ctx.work, 'c08-r', timeout=900)
        # across processes: the same cases again in a second set of processes with another sharding
        rep2 = C.run_lines(C.BUILD + '/harness', 'repeat', [l.replace('%d\t' % reps, '2\t', 1) for l in rep_lines], ctx.work, 'c08-r2', timeout=900, shards=7)
        nd = []
        for (k, v, par), r1, r2, line in zip(rep_meta, rep, rep2, rep_lines):
            if r1 is None or r2 is None:
                continue
            if r1.startswith('DIFF') or r2.startswith('DIFF'):
                nd.append((k, v, par, r1 if r1.startswith('DIFF') else r2, line))
            elif r1.startswith('same') and r2.startswith('same') and r1 != r2:
                nd.append((k, v, par, 'across processes: %s || %s' % (r1, r2), line))
        seen = set()
        for (k, v, par, what, line) in nd:
            if (v,) in seen or len(seen) >= 4:
                continue
            seen.add((v,))
            found = True
            ctx.violation('counterexample', 'MVP-%s x%d is not deterministic: %s | %s' % (v, par, what[:300], progs[k].asm().replace('|', '; ')[:300]),
                          {'variant': v, 'parallelism': par, 'program': progs[k].asm(), 'regs': progs[k].regs, 'mem': progs[k].mem,
                           'memsize': progs[k].memsize, 'observed': what, 'harness_cmd': 'repeat', 'go_case': line, 'nondeterministic_cases': len(nd)})
        reuse = C.run_lines(C.BUILD + '/harness', 'reuse', reuse_lines, ctx.work, 'c08-u', timeout=900)
        fresh, fl, fraw = S.run_impl(ctx, fresh_jobs, 'c08-f')
        iso = []
        for (k, a, b), ru, fr, line in zip(reuse_meta, reuse, fraw, reuse_lines):
            f2 = ' '.join(t for t in (fr or '').split(' ') if not t.startswith('t='))
            if ru is not None and fr is not None and ru != f2:
                iso.append((k, a, b, ru, f2, line))
        for (k, a, b, ru, f2, line) in iso[:3]:
            found = True
            ctx.violation('counterexample', 'a parsed program reused after a run on MVP-%s x%d gives a different result on MVP-%s x%d: reused %s | fresh %s' %
                          (a[0], a[1], b[0], b[1], ru[:150], f2[:150]),
                          {'first': a, 'second': b, 'program': progs[k].asm(), 'regs': progs[k].regs, 'mem': progs[k].mem, 'memsize': progs[k].memsize,
                           'observed': ru, 'expected': f2, 'harness_cmd': 'reuse', 'go_case': line, 'isolation_failures': len(iso)})
        cov = {
            'evaluations': len(rep_lines) * (reps + 2) + 2 * len(reuse_lines),
            'distinct_nontrivial': len(set(rep_lines)),
            'rule': 'each in-domain (program, variant, parallelism) input is run %d times in one process (30 %% of them with another machine running concurrently in a goroutine) '
                    'and twice more in other processes: (cycles, registers, memory) must be identical; each program is also parsed once and run on two machines in sequence '
                    '(the first one a forwarding variant when possible) and the second result compared with a fresh parse; non-trivial = distinct (program, variant, parallelism) inputs' % reps,
            'samples': rep_lines[:2], 'repeat_inputs': len(rep_lines), 'reuse_inputs': len(reuse_lines),
            'nondeterministic': len(nd), 'isolation_failures': len(iso),
            'theorems': C.theorem_names(C.COQ + '/theories/Props/C08.v'),
        }
    C.report_broken(ctx, found)
    cov.setdefault('evaluations', 0)
    cov.setdefault('distinct_nontrivial', 0)
    cov.setdefault('rule', '')
    cov.setdefault('samples', ['(harness did not build)'])
    return C.finish(ctx, 'proof', cov,
                    ['the theorems state that the modelled results do not depend on the permutation arguments standing for Go map iteration order; '
                     'the Go runtime itself (goroutine scheduling, map order) can only be sampled: this half is partial by nature'],
                    'make -C /verif/coq theories/Props/C08.vo (coqc 8.16.1)')
