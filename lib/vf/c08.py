"""C08 - runs are deterministic and isolated."""
import collections
from . import common as C
from . import sysdiff as S
from . import syscheck
from .progs import gen_program


def run(ctx):
    C.prepare(ctx, ['C08', 'C12_mvp60', 'C12_mvp61', 'C12_mvp62', 'C12_mvp63', 'C12_mvp70', 'C08_mvp80'])
    cells = syscheck.load_domains()
    rng = ctx.rng
    n = 25 if ctx.tier == 'quick' else 600
    reps = 6 if ctx.tier == 'quick' else 20
    found = False
    cov = {}
    if ctx.harness_ok:
        kf = syscheck.replay_known(ctx, 'C08', ['alu', 'hazard', 'branch', 'mixed', 'mem'])
        progs = [gen_program(rng, prof) for prof in ['alu', 'ssa', 'ssald', 'ssamem', 'hazard', 'branch', 'loops', 'ldonly', 'touched', 'mem', 'mixed', 'shadow'] for _ in range(n)]
        spec, sl = S.run_spec(ctx, progs, 'c08-s')
        rep_lines, rep_meta, fresh_jobs = [], [], []
        reuse_lines, reuse_meta = [], []
        for k, (p, s) in enumerate(zip(progs, spec)):
            if s[0] != 'ok':
                continue
            fs = S.features(p, s)
            indom = []
            for v in S.VARIANTS:
                for par in S.pars_of(v):
                    rule = syscheck.cell_rule(cells, p.profile, v, par)
                    if rule is None or any(F in fs for F in rule):
                        continue
                    indom.append((v, par))
            for (v, par) in indom:
                if v in S.MULTI and par == 4:
                    continue
                conc = 1 if rng.random() < 0.3 else 0
                rep_lines.append('%d\t%d\t' % (reps, conc) + p.go_case(v, par, S.budget_for(s[1])))
                rep_meta.append((k, v, par))
            # reuse: a forwarding variant first, then another machine with the SAME parsed program
            if indom:
                a = rng.choice([x for x in indom if x[0] in S.MULTI] or indom)
                b = rng.choice(indom)
                b_case = p.go_case(b[0], b[1], S.budget_for(s[1])).split('\t')
                reuse_lines.append('\t'.join([a[0], str(a[1]), b[0], str(b[1])] + b_case[2:]))
                reuse_meta.append((k, a, b))
                fresh_jobs.append((p, b[0], b[1], S.budget_for(s[1])))
        rep = C.run_lines(C.BUILD + '/harness', 'repeat', rep_lines, ctx.work, 'c08-r', timeout=900)
        # across processes: the same cases again in a second set of processes with another sharding
        rep2 = C.run_lines(C.BUILD + '/harness', 'repeat', [l.replace('%d\t' % reps, '2\t', 1) for l in rep_lines], ctx.work, 'c08-r2', timeout=900, shards=7)
        nd = []
        for (k, v, par), r1, r2, line in zip(rep_meta, rep, rep2, rep_lines):
            if r1 is None or r2 is None:
                continue
            if r1.startswith('DIFF') or r2.startswith('DIFF'):
                nd.append((k, v, par, r1 if r1.startswith('DIFF') else r2, line))
            elif r1.startswith('same') and r2.startswith('same') and r1 != r2:
                nd.append((k, v, par, 'across processes: %s || %s' % (r1, r2), line))
        seen = set()
        for (k, v, par, what, line) in nd:
            if (v,) in seen or len(seen) >= 4:
                continue
            seen.add((v,))
            found = True
            ctx.violation('counterexample', 'MVP-%s x%d is not deterministic: %s | %s' % (v, par, what[:300], progs[k].asm().replace('|', '; ')[:300]),
                          {'variant': v, 'parallelism': par, 'program': progs[k].asm(), 'regs': progs[k].regs, 'mem': progs[k].mem,
                           'memsize': progs[k].memsize, 'observed': what, 'harness_cmd': 'repeat', 'go_case': line, 'nondeterministic_cases': len(nd)})
        reuse = C.run_lines(C.BUILD + '/harness', 'reuse', reuse_lines, ctx.work, 'c08-u', timeout=900)
        fresh, fl, fraw = S.run_impl(ctx, fresh_jobs, 'c08-f')
        iso = []
        for (k, a, b), ru, fr, line in zip(reuse_meta, reuse, fraw, reuse_lines):
            f2 = ' '.join(t for t in (fr or '').split(' ') if not t.startswith('t='))
            if ru is not None and fr is not None and ru != f2:
                iso.append((k, a, b, ru, f2, line))
        for (k, a, b, ru, f2, line) in iso[:3]:
            found = True
            ctx.violation('counterexample', 'a parsed program reused after a run on MVP-%s x%d gives a different result on MVP-%s x%d: reused %s | fresh %s' %
                          (a[0], a[1], b[0], b[1], ru[:150], f2[:150]),
                          {'first': a, 'second': b, 'program': progs[k].asm(), 'regs': progs[k].regs, 'mem': progs[k].mem, 'memsize': progs[k].memsize,
                           'observed': ru, 'expected': f2, 'harness_cmd': 'reuse', 'go_case': line, 'isolation_failures': len(iso)})
        # ---- reuse across DIFFERENT inputs: a pipelined variant runs the parsed program from another initial
        # state (same address registers, other data), then a sequential-core variant (MVP-1..5, deterministic
        # and independent of the calibrated domains) runs it from the real input; a value left behind in the
        # parsed instructions (forwarded operand, ...) shows as a difference from a fresh parse.
        r2_lines, r2_meta, r2_fresh = [], [], []
        pool2 = [gen_program(rng, prof) for prof in ['mem', 'stld', 'ssamem', 'mixed', 'hazard', 'touched', 'tail', 'ldonly'] for _ in range(n)]
        # forwarded-store idiom: a warm line, then producer -> store pairs (the producer's result is forwarded
        # to the store by the control unit of MVP-6.1+)
        from .progs import Program
        for _ in range(n * 4):
            q = Program()
            q.profile = 'fwdstore'
            q.memsize = 256
            base = rng.choice([0, 64, 128])
            for a in range(0, 256, 4):
                q.mem[a] = rng.randint(-128, 127)
            q.ins('lw', 5, 0, imm=base)
            for j in range(rng.randint(1, 4)):
                d = 6 + j
                if rng.random() < 0.5:
                    q.ins('addi', d, 5, imm=rng.randint(1, 9))
                else:
                    q.ins('lw', d, 0, imm=base + 4 * rng.randint(0, 5))
                    q.ins('addi', d, d, imm=1)
                q.ins(rng.choice(['sw', 'sw', 'sb']), rs1=0, rs2=d, imm=base + 4 * rng.randint(1, 12))
                if rng.random() < 0.4:
                    q.ins('addi', 20 + j, 0, imm=j)
            if rng.random() < 0.5:
                q.ins('ret')
            pool2.append(q)
        spec2, _ = S.run_spec(ctx, pool2, 'c08-s2')
        for k, (p, s) in enumerate(zip(pool2, spec2)):
            if s[0] != 'ok':
                continue
            regs2 = dict(p.regs)
            for r in list(regs2):
                if r not in (10, 11, 12, 13, 14, 15):
                    regs2[r] = rng.choice([0, 1, -1, 77, 2 ** 31 - 1, rng.randint(-10 ** 6, 10 ** 6)])
            for r in rng.sample(range(5, 32), 6):
                if r not in (10, 11, 12, 13, 14, 15):
                    regs2[r] = rng.randint(-10 ** 6, 10 ** 6)
            mem2 = {a: rng.randint(-128, 127) for a in p.mem}
            for (a, apar) in [(rng.choice(['4', '5', '6.0', '6.1', '6.1', '6.2', '6.2', '6.3', '6.3', '7.0', '7.1', '8.0']), None) for _ in range(3)]:
                apar = rng.choice(S.pars_of(a))
                b = rng.choice(['1', '3', '4', '5'])
                bud = S.budget_for(s[1])
                b_case = p.go_case(b, 1, bud).split('\t')
                from .progs import pairs
                r2_lines.append('\t'.join([a, str(apar), b, '1'] + b_case[2:] + [pairs(regs2), pairs(mem2)]))
                r2_meta.append((k, (a, apar), (b, 1)))
                r2_fresh.append((p, b, 1, bud))
        reuse2 = C.run_lines(C.BUILD + '/harness', 'reuse2', r2_lines, ctx.work, 'c08-u2', timeout=900)
        fresh2, fl2, fraw2 = S.run_impl(ctx, r2_fresh, 'c08-f2')
        iso2, first_kinds = [], collections.Counter()
        for (k, a, b), ru, fr, line in zip(r2_meta, reuse2, fraw2, r2_lines):
            if ru is None or fr is None or '\t' not in ru:
                continue
            kind, second = ru.split('\t', 1)
            first_kinds[kind] += 1
            if kind != 'ok':
                continue          # an aborted first run (budget, panic, error) may legitimately leave operands in flight
            f2 = ' '.join(t for t in fr.split(' ') if not t.startswith('t='))
            if second != f2:
                iso2.append((k, a, b, second, f2, line))
        for (k, a, b, ru, f2, line) in iso2[:3]:
            found = True
            ctx.violation('counterexample', 'a parsed program reused after a completed run on MVP-%s x%d from another initial state gives a different result on MVP-%s: reused %s | fresh %s | %s' %
                          (a[0], a[1], b[0], ru[:150], f2[:150], pool2[k].asm().replace('|', '; ')[:300]),
                          {'first': a, 'second': b, 'program': pool2[k].asm(), 'regs': pool2[k].regs, 'mem': pool2[k].mem, 'memsize': pool2[k].memsize,
                           'observed': ru, 'expected': f2, 'harness_cmd': 'reuse2', 'go_case': line, 'isolation_failures': len(iso2)})
        # ---- determinism of the cache controllers of MVP-7.0/7.1/8.0 under contention (2..4 cores): the request
        # scripts of the C06 rigs are played twice (different processes, different sharding); completion cycle,
        # read results and counters of each script must be identical (independent of whether results are right).
        rig_nd, rig_n = [], 0
        try:
            from . import c06
            ok_or, _ = C.ensure_oracle(ctx, 'msi', ['theories/Msi/Invariant.vo', 'theories/Msi/L3Invariant.vo'], ['Msi'])
            if ok_or:
                rlines = []
                for variant in ('7.0', '7.1', '8.0'):
                    for _ in range(700 if ctx.tier == 'quick' else 8000):
                        cores = rng.choice([2, 3, 3, 4, 4])
                        memsize = 8192 if variant == '8.0' else 2048
                        rlines.append(c06.random_script(rng, variant, cores, rng.randint(3, 9), rng.randint(2, 5), memsize))
                    for _ in range(12 if ctx.tier == 'quick' else 100):
                        rlines.append(c06.random_script(rng, variant, rng.choice([3, 4]), rng.randint(25, 40), rng.randint(18, 28) if variant != '8.0' else rng.randint(40, 60), 8192 if variant == '8.0' else 4096))
                ra = c06.run_cases(ctx, 'msi-rig', rlines, 'c08-rig-a', shards=16)
                rb = c06.run_cases(ctx, 'msi-rig', rlines, 'c08-rig-b', shards=11)
                for l, x, y in zip(rlines, ra, rb):
                    if not x or not y or x == 'CRASH' or y == 'CRASH':
                        continue
                    rig_n += 1
                    # 'snaps' counts distinct exported snapshots and moves with transient bookkeeping; not an observable of the run
                    tx = ' '.join(w for w in x.partition(' | ')[2].split(' ') if not w.startswith('snaps='))
                    ty = ' '.join(w for w in y.partition(' | ')[2].split(' ') if not w.startswith('snaps='))
                    if tx != ty:
                        rig_nd.append((l, tx, ty))
        except Exception as e:
            ctx.notes.append('rig determinism section skipped: %r' % (e,)) if hasattr(ctx, 'notes') else None
        for (l, tx, ty) in rig_nd[:2]:
            found = True
            f = l.split('\t')
            ctx.violation('counterexample', 'MVP-%s with %s cores: the cache controllers are not deterministic on a request script: run 1: %s | run 2: %s | script %s' %
                          (f[0], f[1], tx[:200], ty[:200], f[-1][:300]),
                          {'variant': f[0], 'cores': f[1], 'observed': [tx, ty], 'harness_cmd': 'msi-rig', 'go_case': l, 'nondeterministic_scripts': len(rig_nd)})
        cov = {
            'reuse_other_input': len(r2_lines), 'reuse_other_input_first_run_kinds': dict(first_kinds), 'isolation_failures_other_input': len(iso2),
            'rig_scripts_played_twice': rig_n, 'rig_nondeterministic': len(rig_nd),
            'evaluations': len(rep_lines) * (reps + 2) + 2 * len(reuse_lines) + 3 * len(r2_lines) + 2 * rig_n,
            'distinct_nontrivial': len(set(rep_lines)),
            'rule': 'each in-domain (program, variant, parallelism) input is run %d times in one process (30 %% of them with another machine running concurrently in a goroutine) '
                    'and twice more in other processes: (cycles, registers, memory) must be identical; each program is also parsed once and run on two machines in sequence '
                    '(the first one a forwarding variant when possible) and the second result compared with a fresh parse; non-trivial = distinct (program, variant, parallelism) inputs' % reps,
            'samples': rep_lines[:2], 'repeat_inputs': len(rep_lines), 'reuse_inputs': len(reuse_lines),
            'nondeterministic': len(nd), 'isolation_failures': len(iso),
            'theorems': C.theorem_names(C.COQ + '/theories/Props/C08.v'),
        }
    C.report_broken(ctx, found)
    cov.setdefault('evaluations', 0)
    cov.setdefault('distinct_nontrivial', 0)
    cov.setdefault('rule', '')
    cov.setdefault('samples', ['(harness did not build)'])
    return C.finish(ctx, 'proof', cov,
                    ['the theorems state that the modelled results do not depend on the permutation arguments standing for Go map iteration order; '
                     'the Go runtime itself (goroutine scheduling, map order) can only be sampled: this half is partial by nature'],
                    'make -C /verif/coq theories/Props/C08.vo (coqc 8.16.1)')
