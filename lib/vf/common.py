"""Shared machinery of the /verif checks (DESIGN.md section 4.6).

One check run =
  prepare(): regenerate the G models from /repo, rebuild the Coq targets of the
             property (make is incremental), rebuild harness and oracles
  property module: corpus + generated cases, implementation vs model (tie) and
             implementation vs spec (property / search)
  report(): KNOWN-FINDING / VIOLATION lines, evidence file, exit status
"""
import fcntl
import hashlib
import json
import os
import random
import re
import subprocess
import sys
import time

V = os.environ.get('VERIF_ROOT', '/verif')
REPO = os.environ.get('VERIF_REPO', '/repo')
BUILD = V + '/build'
COQ = V + '/coq'
WORK = V + '/work'
REPLAY = V + '/replay'
EVID = V + '/evidence'

ENV = dict(os.environ, GOFLAGS='-mod=mod', GOPROXY='off', GOSUMDB='off', GOTOOLCHAIN='local',
           CGO_ENABLED='0')

REG_NAMES = ['zero', 'ra', 'sp', 'gp', 'tp', 't0', 't1', 't2', 's0', 's1', 'a0', 'a1', 'a2', 'a3', 'a4',
             'a5', 'a6', 'a7', 's2', 's3', 's4', 's5', 's6', 's7', 's8', 's9', 's10', 's11', 't3', 't4',
             't5', 't6']

TRUSTED_BASE = [
    'Coq 8.16.1 kernel (coqc); vm_compute used for closed witnesses/examples only; no native_compute',
    'no axioms: Print Assumptions prints "Closed under the global context" for every property theorem',
    'tools/gotrans (Go AST -> Gallina translator) and coq/theories/Base/GoInt.v (meaning of Go operators); '
    'validated on every run by executing the extracted generated model against the Go code',
    'extraction: ExtrOcamlBasic only (bool, option, unit, list, prod, sumbool, sumor); no Extract Constant; '
    'Z/positive/nat stay Coq datatypes; OCaml 4.13.1; tools/oracle/*.ml drivers',
    'tools/harness (Go driver built from /repo with -tags verif) and lib/vf/*.py (generation, comparison)',
]


def log(*a):
    print(*a, file=sys.stderr, flush=True)


def sh(cmd, cwd=None, timeout=None, env=None, check=False, input=None):
    p = subprocess.run(cmd, cwd=cwd, env=env or ENV, capture_output=True, text=True, timeout=timeout,
                       shell=isinstance(cmd, str), input=input)
    if check and p.returncode != 0:
        raise RuntimeError('command failed: %s\n%s\n%s' % (cmd, p.stdout[-4000:], p.stderr[-4000:]))
    return p


class Ctx:
    """State of one check run."""

    def __init__(self, pid, tier, seed):
        self.pid = pid
        self.tier = tier
        self.seed = seed
        self.rng = random.Random(seed * 1000003 + int(pid[1:]))
        self.t0 = time.time()
        self.violations = []       # (replay_path, text)
        self.known = []            # text
        self.coverage = {}
        self.notes = []
        self.broken = []           # broken obligations / ties: dicts
        self.obligations = 0
        self.discharged = 0
        self.axioms = {}
        self.gen_ok = True
        self.gen_msg = ''
        self.coq_ok = True
        self.coq_log = ''
        os.makedirs(WORK, exist_ok=True)
        os.makedirs(REPLAY, exist_ok=True)
        os.makedirs(EVID, exist_ok=True)
        self.work = os.path.join(WORK, pid)
        os.makedirs(self.work, exist_ok=True)

    # -- reporting -----------------------------------------------------
    def violation(self, kind, detail, replay, found_input=True):
        """kind: counterexample | broken-obligation | broken-correspondence"""
        n = len(self.violations)
        path = os.path.join(REPLAY, '%s-%d.json' % (self.pid, n))
        replay = dict(replay)
        replay.update(property=self.pid, kind=kind, detail=detail, seed=self.seed, tier=self.tier)
        with open(path, 'w') as f:
            json.dump(replay, f, indent=1, default=str)
        line = 'VIOLATION property=%s replay=%s' % (self.pid, path)
        if not found_input:
            line += ' no-failing-input-found'
        self.violations.append((path, line, detail))
        print(line, flush=True)
        log('  ' + detail[:600])

    def known_finding(self, text):
        self.known.append(text)
        print('KNOWN-FINDING: property=%s %s' % (self.pid, text), flush=True)


def file_hash(path):
    try:
        with open(path, 'rb') as f:
            return hashlib.sha256(f.read()).hexdigest()
    except FileNotFoundError:
        return None


class Lock:
    def __init__(self, name):
        os.makedirs(BUILD, exist_ok=True)
        self.f = open(os.path.join(BUILD, name + '.lock'), 'w')

    def __enter__(self):
        fcntl.flock(self.f, fcntl.LOCK_EX)
        return self

    def __exit__(self, *a):
        fcntl.flock(self.f, fcntl.LOCK_UN)
        self.f.close()


def build_tools():
    """gotrans binary (from /verif/tools, independent of /repo)."""
    src = V + '/tools/gotrans'
    out = BUILD + '/gotrans'
    newest = max(os.path.getmtime(os.path.join(src, f)) for f in os.listdir(src))
    if not os.path.exists(out) or os.path.getmtime(out) < newest:
        sh(['go', 'build', '-o', out, '.'], cwd=src, check=True)


def regenerate(ctx):
    """Run the translator on /repo.  Returns True when the models could be regenerated."""
    build_tools()
    gen = COQ + '/theories/Gen'
    os.makedirs(gen, exist_ok=True)
    p = sh([BUILD + '/gotrans', REPO, gen], cwd=REPO)
    if p.returncode != 0:
        ctx.gen_ok = False
        ctx.gen_msg = (p.stderr or p.stdout).strip()[-2000:]
        log('translator: ' + ctx.gen_msg)
    return ctx.gen_ok


def coq_make(ctx, targets):
    """Build the given .vo targets (and what they depend on).  Returns (ok, log)."""
    if not os.path.exists(COQ + '/Makefile') or os.path.getmtime(COQ + '/Makefile') < os.path.getmtime(COQ + '/_CoqProject'):
        sh('coq_makefile -f _CoqProject -o Makefile', cwd=COQ, check=True)
    p = sh(['timeout', '1500', 'make', '-k', '-j16'] + targets, cwd=COQ)
    out = p.stdout + p.stderr
    return p.returncode == 0, out


def coq_failure_summary(out):
    """First error of a make log: file, line, message."""
    m = re.search(r'File "([^"]+)", line (\d+), characters [\d-]+:\n(Error:.*?)(?:\n\n|\nmake|\Z)', out, re.S)
    if m:
        return {'file': m.group(1), 'line': int(m.group(2)), 'error': m.group(3).strip()[:1500]}
    return {'file': None, 'line': None, 'error': out[-1500:]}


def theorem_names(vfile):
    with open(vfile) as f:
        return re.findall(r'^Theorem (\w+)', f.read(), re.M)


def lemma_at(vfile, line):
    """Name of the Lemma/Theorem enclosing a line of a .v file."""
    try:
        lines = open(vfile).read().split('\n')
    except OSError:
        return None
    for i in range(min(line, len(lines)) - 1, -1, -1):
        m = re.match(r'\s*(?:Theorem|Lemma|Example|Corollary|Definition|Fixpoint)\s+(\w+)', lines[i])
        if m:
            return m.group(1)
    return None


def build_harness():
    src = V + '/tools/harness'
    sh(['cp', REPO + '/go.sum', src + '/go.sum'])
    gomod = 'module harness\n\ngo 1.22.1\n\nrequire github.com/teivah/majorana v0.0.0\n\nreplace github.com/teivah/majorana => %s\n' % REPO
    if not os.path.exists(src + '/go.mod') or open(src + '/go.mod').read() != gomod:
        with open(src + '/go.mod', 'w') as f:
            f.write(gomod)
    p = sh(['go', 'build', '-tags', 'verif', '-o', BUILD + '/harness', '.'], cwd=src)
    return p.returncode == 0, (p.stdout + p.stderr)[-3000:]


def build_oracle(which):
    p = sh([V + '/bin/build_oracles.sh', which])
    return p.returncode == 0, (p.stdout + p.stderr)[-3000:]


def ensure_oracle(ctx, which, vo_targets, dep_dirs):
    """Build (if stale) the oracle executable build/<which>_oracle extracted by
    coq/theories/Extract/<Which>Oracle.v.  vo_targets: the .vo files it extracts from."""
    ok, out = coq_make(ctx, vo_targets)
    if not ok:
        return False, out
    if oracle_stale(which, [COQ + '/theories/' + d for d in dep_dirs] + [V + '/tools/oracle']):
        return build_oracle(which)
    return True, ''


def oracle_stale(which, deps):
    exe = BUILD + '/%s_oracle' % which
    if not os.path.exists(exe):
        return True
    t = os.path.getmtime(exe)
    for d in deps:
        for root, _, files in os.walk(d):
            for f in files:
                if f.endswith(('.vo', '.ml')) and 'Extract' not in root:
                    if os.path.getmtime(os.path.join(root, f)) > t:
                        return True
    return False



FORBIDDEN = re.compile(r'\b(Admitted|admit|Axiom|Axioms|Parameter|Parameters|Conjecture|Admit Obligations|bypass_check)\b|Unset\s+(Guard|Positivity|Universe)\s+Checking|-type-in-type|-impredicative-set')


def strip_coq_comments(text):
    out, depth, i, n = [], 0, 0, len(text)
    while i < n:
        if text.startswith('(*', i):
            depth += 1
            i += 2
        elif depth and text.startswith('*)', i):
            depth -= 1
            i += 2
        else:
            if not depth:
                out.append(text[i])
            elif text[i] == '\n':
                out.append('\n')
            i += 1
    return ''.join(out)


def scan_forbidden():
    """Every .v file of the development (generated ones included), comments stripped:
    no Admitted/admit/Axiom/Parameter/Conjecture, no switched-off kernel check, no
    Variable/Hypothesis outside a Section.  Returns a list of 'file:line: text'."""
    bad = []
    files = []
    for root, _, fs in os.walk(COQ + '/theories'):
        files += [os.path.join(root, f) for f in fs if f.endswith('.v')]
    files.append(COQ + '/_CoqProject')
    for path in sorted(files):
        try:
            raw = open(path).read()
        except OSError:
            continue
        text = strip_coq_comments(raw) if path.endswith('.v') else raw
        depth = 0
        for ln, line in enumerate(text.split('\n'), 1):
            if re.match(r'\s*(Section|Module Type)\s+\w+', line):
                depth += 1
            elif re.match(r'\s*End\s+\w+\s*\.', line) and depth:
                depth -= 1
            if FORBIDDEN.search(line):
                bad.append('%s:%d: %s' % (os.path.relpath(path, V), ln, line.strip()[:120]))
            elif depth == 0 and re.match(r'\s*(Variable|Variables|Hypothesis|Hypotheses|Context)\b', line):
                bad.append('%s:%d: %s (outside a Section)' % (os.path.relpath(path, V), ln, line.strip()[:120]))
    return bad


def print_assumptions(ctx, pfiles, names_by_file):
    """Ask the kernel what each property theorem depends on (compiled files only)."""
    path = os.path.join(ctx.work, 'pa_%s.v' % ctx.pid)
    with open(path, 'w') as f:
        for pf in pfiles:
            f.write('From Maj Require Props.%s.\n' % pf)
        for pf in pfiles:
            for n in names_by_file[pf]:
                f.write('Print Assumptions Maj.Props.%s.%s.\n' % (pf, n))
    p = sh(['timeout', '600', 'coqc', '-Q', COQ + '/theories', 'Maj', path], cwd=ctx.work)
    out = p.stdout + p.stderr
    closed = out.count('Closed under the global context')
    total = sum(len(v) for v in names_by_file.values())
    for ext in ('.vo', '.glob', '.vok', '.vos'):
        try:
            os.remove(path[:-2] + ext)
        except OSError:
            pass
    try:
        os.remove(os.path.join(ctx.work, '.pa_%s.aux' % ctx.pid))
    except OSError:
        pass
    return p.returncode == 0 and closed == total, closed, total, out


def coqchk(ctx, pfiles):
    """Independent re-check of the compiled property files and everything they depend on."""
    mods = ['Maj.Props.%s' % pf for pf in pfiles]
    p = sh(['timeout', '3000', 'coqchk', '-silent', '-o', '-Q', 'theories', 'Maj'] + mods, cwd=COQ)
    out = p.stdout + p.stderr
    m = re.search(r'\* Axioms:\s*(.*?)\n\s*\n\* Constants', out, re.S)
    axioms = m.group(1).strip() if m else '?'
    ok = p.returncode == 0 and axioms == '<none>' and all(
        re.search(r'\* %s:\s*<none>' % re.escape(k), out) for k in
        ['Constants/Inductives relying on type-in-type', 'Constants/Inductives relying on unsafe (co)fixpoints',
         'Inductives whose positivity is assumed'])
    return ok, axioms, out[-1500:]


def prepare(ctx, props_file, need_gen_oracle=False):
    """Regenerate, rebuild proofs of this property, rebuild harness and oracles.
    Sets ctx.obligations / ctx.discharged / ctx.broken."""
    with Lock('prepare'):
        t = time.time()
        regenerate(ctx)
        pfiles = props_file if isinstance(props_file, (list, tuple)) else [props_file]
        ctx.props_files = pfiles
        names = []
        for pf in pfiles:
            names += theorem_names(COQ + '/theories/Props/%s.v' % pf)
        ctx.obligations = len(names)
        if ctx.gen_ok:
            ok, out = coq_make(ctx, ['theories/Props/%s.vo' % pf for pf in pfiles])
        else:
            ok, out = False, 'model cannot be regenerated: ' + ctx.gen_msg
        ctx.coq_ok = ok
        ctx.coq_log = out
        bad = scan_forbidden()
        ctx.forbidden = bad
        if bad:
            ctx.broken.append({'file': bad[0].split(':')[0], 'line': int(bad[0].split(':')[1]), 'lemma': 'development free of axioms / admitted proofs / disabled checks',
                               'error': 'forbidden declarations: ' + '; '.join(bad[:8])})
        if ok:
            nbf = {pf: theorem_names(COQ + '/theories/Props/%s.v' % pf) for pf in pfiles}
            pa_ok, closed, total, pa_out = print_assumptions(ctx, pfiles, nbf)
            ctx.discharged = len(names) if pa_ok else closed
            if pa_ok:
                ctx.axioms = {'all %d property theorems' % total: 'Closed under the global context (Print Assumptions, re-queried from the compiled files on this run)'}
            else:
                ctx.axioms = {'Print Assumptions': pa_out[-1500:]}
                ctx.broken.append({'file': 'coq/theories/Props/%s.v' % pfiles[0], 'line': None,
                                   'lemma': 'property theorems closed under the global context',
                                   'error': '%d of %d closed; output: %s' % (closed, total, pa_out[-800:])})
        else:
            ctx.discharged = 0
            if ctx.gen_ok:
                fs = coq_failure_summary(out)
                fs['lemma'] = lemma_at(os.path.join(COQ, fs['file']) if fs['file'] and not fs['file'].startswith('/') else (fs['file'] or ''), fs['line'] or 0)
                ctx.broken.append(fs)
            else:
                ctx.broken.append({'file': 'tools/gotrans', 'line': None, 'lemma': 'translation of /repo to Gallina',
                                   'error': ctx.gen_msg})
        okh, outh = build_harness()
        if not okh:
            ctx.broken.append({'file': 'tools/harness', 'line': None, 'lemma': 'harness build against /repo', 'error': outh})
        ctx.harness_ok = okh
        # spec oracle: hand-written files only
        oks, outs = coq_make(ctx, ['theories/Isa/Seq.vo', 'theories/Isa/Embed.vo'])
        if oracle_stale('spec', [COQ + '/theories/Isa', COQ + '/theories/Base', COQ + '/theories/Comp', COQ + '/theories/Mvp', V + '/tools/oracle']):
            oks2, outs2 = build_oracle('spec')
            if not oks2:
                raise RuntimeError('spec oracle does not build:\n' + outs2)
        ctx.gen_oracle_ok = False
        if need_gen_oracle and ctx.gen_ok:
            okg, outg = coq_make(ctx, ['theories/Isa/Refine.vo'])
            if okg:
                if oracle_stale('gen', [COQ + '/theories/Gen', COQ + '/theories/Isa', COQ + '/theories/Base', V + '/tools/oracle']):
                    okg, outg = build_oracle('gen')
                ctx.gen_oracle_ok = okg
            if not okg:
                log('generated-model oracle unavailable: ' + outg[-800:])
        ctx.prepare_s = time.time() - t
        log('[%s] prepare %.1fs  coq_ok=%s gen_ok=%s obligations=%d discharged=%d' %
            (ctx.pid, ctx.prepare_s, ctx.coq_ok, ctx.gen_ok, ctx.obligations, ctx.discharged))


def run_tool(exe, cmd, casefile, start=0, timeout=600):
    p = sh([exe, cmd, casefile, str(start)], timeout=timeout)
    return p.returncode, p.stdout.split('\n')[:-1] if p.stdout.endswith('\n') else p.stdout.split('\n'), p.stderr


def run_lines(exe, cmd, lines, workdir, tag, timeout=900, shards=16):
    """Run exe on the case lines, sharded over processes; returns list of output lines
    (None where the tool died before producing the line)."""
    import concurrent.futures
    n = len(lines)
    if n == 0:
        return []
    shards = max(1, min(shards, (n + 199) // 200))
    bounds = [(n * i // shards, n * (i + 1) // shards) for i in range(shards)]

    def one(k):
        lo, hi = bounds[k]
        path = os.path.join(workdir, '%s.%d.cases' % (tag, k))
        with open(path, 'w') as f:
            for l in lines[lo:hi]:
                f.write(l + '\n')
        res = [None] * (hi - lo)
        start = 0
        while start < hi - lo:
            try:
                p = sh([exe, cmd, path, str(start)], timeout=timeout)
                outl = p.stdout.split('\n')
                if outl and outl[-1] == '':
                    outl.pop()
                rc = p.returncode
            except subprocess.TimeoutExpired as e:
                so = e.stdout.decode() if isinstance(e.stdout, bytes) else (e.stdout or '')
                outl = so.split('\n')
                if outl:
                    outl.pop()   # possibly partial line
                rc = -9
            for j, o in enumerate(outl):
                if start + j < hi - lo:
                    res[start + j] = o
            got = len(outl)
            if rc == 0 and start + got >= hi - lo:
                break
            if rc == 3:
                # the harness reported a hanging case itself (last line) and exited: resume after it
                start = start + got
                continue
            # the tool died on case start+got: mark and continue after it
            if start + got < hi - lo:
                res[start + got] = 'CRASH rc=%s' % rc
            start = start + got + 1
        return res

    with concurrent.futures.ThreadPoolExecutor(max_workers=shards) as ex:
        parts = list(ex.map(one, range(shards)))
    out = []
    for p in parts:
        out.extend(p)
    return out


def load_known(pid):
    path = V + '/known_findings.json'
    if not os.path.exists(path):
        return []
    with open(path) as f:
        data = json.load(f)
    return [e for e in data.get('findings', []) if e.get('property') == pid]


def finish(ctx, level, coverage, assumptions, checker_cmd):
    cov = dict(coverage)
    cov.setdefault('obligations', ctx.obligations)
    cov.setdefault('discharged', ctx.discharged)
    cov.setdefault('checker_cmd', checker_cmd)
    cov.setdefault('trusted_base', TRUSTED_BASE)
    if ctx.tier == 'thorough' and getattr(ctx, 'coq_ok', False) and getattr(ctx, 'props_files', None):
        ck_ok, ck_ax, ck_out = coqchk(ctx, ctx.props_files)
        cov['coqchk'] = {'modules': ctx.props_files, 'ok': ck_ok, 'axioms': ck_ax}
        if not ck_ok:
            ctx.violation('broken-obligation', 'coqchk does not accept the compiled property files or reports axioms: ' + ck_ax + ' ' + ck_out[-400:],
                          {'no_longer_checks': 'coqchk -o on ' + ' '.join(ctx.props_files), 'output': ck_out}, found_input=False)
    cov['axioms'] = ctx.axioms
    cov['forbidden_scan'] = getattr(ctx, 'forbidden', None)
    cov['broken'] = ctx.broken
    cov['known_findings_reported'] = ctx.known
    cov['violation_lines'] = [v[1] for v in ctx.violations]
    ev = {
        'property_id': ctx.pid, 'tier': ctx.tier, 'seed': ctx.seed, 'level': level,
        'coverage': cov, 'assumptions': assumptions,
        'wall_s': round(time.time() - ctx.t0, 2), 'violations': len(ctx.violations),
    }
    with open(os.path.join(EVID, ctx.pid + '.json'), 'w') as f:
        json.dump(ev, f, indent=1, default=str)
    log('[%s] %s tier: %d violation(s), %d known finding(s), %.1fs' %
        (ctx.pid, ctx.tier, len(ctx.violations), len(ctx.known), time.time() - ctx.t0))
    return 1 if ctx.violations else 0


def report_broken(ctx, found_counterexample):
    """When an obligation or the tie is broken and the search found no failing input,
    the property is no longer shown to hold: report that, naming what no longer checks."""
    if ctx.broken and not found_counterexample:
        for b in ctx.broken:
            what = '%s (%s%s)' % (b.get('lemma') or 'obligation', b.get('file'), ':%s' % b['line'] if b.get('line') else '')
            rep = dict(b)
            rep.update({'no_longer_checks': what})
            ctx.violation('broken-obligation' if b.get('line') else 'broken-correspondence',
                          'no longer checks: ' + what + ' -- ' + (b.get('error') or '')[:800], rep, found_input=False)
