"""Program generator shared by the system-level checks (C01, C03-C05, C07-C10, C12).

Every program is terminating by construction (forward branches/jumps, counted
loops with a dedicated counter), uses naturally aligned in-bounds accesses and
has fewer than 250 instructions.  Profiles bias the mix towards the mechanism a
property is about.  All randomness comes from the rng passed in."""
from .isa import Ins, LATTICE, SMALL, INT_MIN, INT_MAX, pairs, lst

POOL = [5, 6, 7, 28, 29, 30, 31, 8, 9, 18, 19]      # t0-t2 t3-t6 s0 s1 s2 s3: data registers
ADDR = [10, 11, 12, 13]                               # a0-a3: address registers (only set by li / bounded strides)
CNT = [14, 15]                                        # a4 a5: loop counters
ALU3 = ['add', 'sub', 'mul', 'and', 'or', 'xor', 'sll', 'srl', 'sra', 'slt', 'sltu']
ALUI = ['addi', 'andi', 'ori', 'xori', 'slli', 'srli', 'srai', 'slti']
BR2 = ['beq', 'bne', 'blt', 'bge', 'ble', 'bltu', 'bgeu']
BR1 = ['beqz', 'bnez']


class Program:
    def __init__(self):
        self.items = []        # ('ins', Ins) | ('label', id)
        self.nlabels = 0
        self.memsize = 0
        self.regs = {}
        self.mem = {}
        self.tags = set()      # mechanisms exercised (for evidence)
        self.profile = ''

    def new_label(self):
        self.nlabels += 1
        return self.nlabels

    def ins(self, *a, **k):
        i = Ins(*a, **k)
        self.items.append(('ins', i))
        return i

    def label(self, lid):
        self.items.append(('label', lid))

    def instrs(self):
        return [x for k, x in self.items if k == 'ins']

    def label_addrs(self):
        d = {}
        n = 0
        for k, x in self.items:
            if k == 'label':
                d[x] = 4 * n
            else:
                n += 1
        return d

    def asm(self):
        out = []
        for k, x in self.items:
            out.append('L%d:' % x if k == 'label' else x.asm())
        return '|'.join(out)

    def spec(self):
        return ';'.join(i.spec() for i in self.instrs())

    def go_case(self, variant, par, budget):
        return '\t'.join([variant, str(par), str(budget), str(self.memsize), pairs(self.regs), pairs(self.mem), self.asm()])

    def spec_case(self, fuel, acc=True):
        return '\t'.join([str(self.memsize), pairs(self.regs), pairs(self.mem), pairs(self.label_addrs()), str(fuel), self.spec(), 'acc' if acc else '-'])


def rand_val(rng):
    c = rng.random()
    if c < 0.35:
        return rng.choice(LATTICE)
    if c < 0.6:
        return rng.randint(INT_MIN, INT_MAX)
    return rng.randint(-20, 20)


class Gen:
    def __init__(self, rng, profile, memsize=256, max_len=60):
        self.rng = rng
        self.p = Program()
        self.p.profile = profile
        self.p.memsize = memsize
        # ssabr1 = ssabr with exactly ONE branch in the whole program (nothing nested, nothing after it)
        self.single = profile == 'ssabr1'
        self.single_done = False
        if self.single:
            profile = 'ssabr'
        self.profile = profile
        self.max_len = max_len
        self.pool = list(POOL)
        if profile in ('hazard', 'waw'):
            self.pool = rng.sample(POOL, rng.randint(2, 4))
        self.addr_val = {}       # address register -> known value
        self.free_cnt = list(CNT)
        self.stored = set()      # bytes already stored (profile disj)
        self.lines = []          # bases of the touched lines (profile touched)
        self.fresh = [x for x in range(5, 32) if x not in ADDR + CNT] if profile == 'ssa' else [x for x in range(5, 32)]   # ssa profiles: unused registers
        if profile in ('ssa', 'ssamem', 'ssald', 'ssabr'):
            rng.shuffle(self.fresh)
        self.slow_reg = None

    def n(self):
        return len(self.p.instrs())

    def room(self, k=1):
        return self.n() + k < self.max_len

    def src(self):
        r = self.rng
        if self.profile in ('ssa', 'ssamem', 'ssald', 'ssabr'):
            # reading a register makes it unavailable as a later destination (no WAR)
            c = r.random()
            if c < 0.1:
                return 0
            x = r.choice(list(range(5, 32)))
            if x in self.fresh:
                self.fresh.remove(x)
            return x
        c = r.random()
        if c < 0.08:
            return 0
        if c < 0.16 and self.addr_val:
            return r.choice(list(self.addr_val))
        return r.choice(self.pool)

    def dst(self):
        if self.profile in ('ssa', 'ssamem', 'ssald', 'ssabr'):
            if not self.fresh:
                return 0
            return self.fresh.pop()
        if self.rng.random() < 0.04:
            return 0
        return self.rng.choice(self.pool)

    # ---- building blocks ---------------------------------------------
    def alu(self):
        r = self.rng
        c = r.random()
        if c < 0.45:
            self.p.ins(r.choice(ALU3), self.dst(), self.src(), self.src())
        elif c < 0.8:
            m = r.choice(ALUI)
            imm = r.choice(SMALL + [r.randint(-2048, 2047), r.randint(0, 40)])
            self.p.ins(m, self.dst(), self.src(), imm=imm)
        elif c < 0.88:
            self.p.ins('li', self.dst(), imm=rand_val(r))
        elif c < 0.93:
            self.p.ins('mv', self.dst(), self.src())
        elif c < 0.96:
            self.p.ins(r.choice(['lui', 'auipc']), self.dst(), imm=r.choice([0, 1, 3, 1000, -1, 524287]))
        else:
            # division by a register made non-zero
            d = self.dst()
            if d == 0:
                if self.profile in ('ssa', 'ssald', 'ssamem', 'ssabr'):
                    self.p.ins('addi', 0, self.src(), imm=1)
                    return
                d = self.pool[0]
            self.p.ins('ori', d, self.src(), imm=1)
            self.p.ins(r.choice(['div', 'rem']), self.dst(), self.src(), d)
            self.p.tags.add('div')

    def set_addr(self, size=4, reg=None):
        """li aX, aligned in-bounds address"""
        r = self.rng
        a = reg if reg is not None else r.choice(ADDR)
        hi = self.p.memsize - 8
        v = r.randrange(0, max(4, hi), 4)
        self.p.ins('li', a, imm=v)
        self.addr_val[a] = v
        return a

    def mem_off(self, a, size):
        """an offset such that [addr_val+off, +size) is aligned and in bounds"""
        r = self.rng
        base = self.addr_val[a]
        lo, hi = -base, self.p.memsize - size - base
        cands = [o for o in (0, 4, 8, -4, 12, 64, -64, 60, 128, 1, 2, 3, 6, 1020) if lo <= o <= hi and (base + o) % size == 0]
        if not cands:
            return 0 if (base % size == 0 and base + size <= self.p.memsize) else -base
        return r.choice(cands)

    def pick_addr(self, size, kind):
        """exact address for the constrained memory profiles"""
        r = self.rng
        ms = self.p.memsize
        if self.profile == 'disj':
            half = (ms // 2) // 64 * 64
            if kind == 'l':
                lo, hi = 0, max(size, half - 64)
            else:
                lo, hi = half + 64, ms
            for _ in range(50):
                a = r.randrange(lo, max(lo + 1, hi - size + 1))
                a -= a % size
                if a < lo or a + size > hi:
                    continue
                if kind == 's':
                    if any((a + k) in self.stored for k in range(size)):
                        continue
                    for k in range(size):
                        self.stored.add(a + k)
                return a
            return None
        if self.profile == 'touched':
            if not self.lines:
                return None
            base = r.choice(self.lines)
            a = base + r.randrange(0, 64)
            return a - a % size
        return None

    def exact_access(self, kind):
        r = self.rng
        if kind == 'l':
            m = r.choice(['lw', 'lw', 'lb', 'lh'])
        else:
            m = r.choice(['sw', 'sw', 'sb', 'sh'])
        size = {'w': 4, 'h': 2, 'b': 1}[m[1]]
        a = self.pick_addr(size, kind)
        if a is None:
            return self.alu()
        reg = r.choice(ADDR)
        off = r.choice([0, 0, 4, -4, 8]) if size == 4 else r.choice([0, 0, 1, -1, 2])
        self.p.ins('li', reg, imm=a - off)
        self.addr_val[reg] = a - off
        if kind == 'l':
            self.p.ins(m, self.dst(), reg, imm=off)
            self.p.tags.add('load')
        else:
            self.p.ins(m, rs1=reg, rs2=self.src(), imm=off)
            self.p.tags.add('store')

    def ssa_access(self, kind):
        r = self.rng
        if len(self.fresh) < 2:
            return self.alu()
        m = r.choice(['lw', 'lw', 'lb', 'lh']) if kind == 'l' else r.choice(['sw', 'sw', 'sb', 'sh'])
        size = {'w': 4, 'h': 2, 'b': 1}[m[1]]
        a = r.randrange(0, self.p.memsize - size + 1)
        a -= a % size
        areg = self.fresh.pop()
        self.p.ins('li', areg, imm=a)
        if kind == 'l':
            self.p.ins(m, self.dst(), areg, imm=0)
            self.p.tags.add('load')
        else:
            self.p.ins(m, rs1=areg, rs2=self.src(), imm=0)
            self.p.tags.add('store')

    def load(self, a=None):
        r = self.rng
        if self.profile in ('ssamem', 'ssald'):
            return self.ssa_access('l')
        if self.profile in ('disj', 'touched'):
            return self.exact_access('l')
        if a is None:
            a = r.choice(list(self.addr_val)) if self.addr_val and r.random() < 0.7 else self.set_addr()
        m = r.choice(['lw', 'lw', 'lb', 'lh'])
        size = {'lw': 4, 'lh': 2, 'lb': 1}[m]
        self.p.ins(m, self.dst(), a, imm=self.mem_off(a, size))
        self.p.tags.add('load')

    def store(self, a=None):
        r = self.rng
        if self.profile == 'ssamem':
            return self.ssa_access('s')
        if self.profile == 'ssald':
            return self.ssa_access('l')
        if self.profile in ('disj', 'touched'):
            return self.exact_access('s')
        if self.profile in ('ldonly', 'ldslow'):
            return self.load()
        if a is None:
            a = r.choice(list(self.addr_val)) if self.addr_val and r.random() < 0.7 else self.set_addr()
        m = r.choice(['sw', 'sw', 'sb', 'sh'])
        size = {'sw': 4, 'sh': 2, 'sb': 1}[m]
        self.p.ins(m, rs1=a, rs2=self.src(), imm=self.mem_off(a, size))
        self.p.tags.add('store')

    def branch_fwd(self, body_len=None, slow_cond=False):
        """conditional forward branch over a shadow block"""
        r = self.rng
        l = self.p.new_label()
        if slow_cond and self.profile == 'ssabr':
            c = self.slow_reg if self.slow_reg is not None else 0
            self.p.tags.add('slow-branch')
            if r.random() < 0.5:
                self.p.ins(r.choice(BR1), rs1=c, label=l)
            else:
                self.p.ins(r.choice(BR2), rs1=c, rs2=r.choice([0, c, self.src()]), label=l)
        elif slow_cond:
            # the condition depends on a load: the shadow progresses while it resolves
            a = self.set_addr()
            c = self.dst() or (0 if self.profile in ('ssa', 'ssald', 'ssamem', 'ssabr') else self.pool[0])
            self.p.ins('lw', c, a, imm=self.mem_off(a, 4))
            self.p.tags.add('slow-branch')
            if r.random() < 0.5:
                self.p.ins(r.choice(BR1), rs1=c, label=l)
            else:
                self.p.ins(r.choice(BR2), rs1=c, rs2=self.src(), label=l)
        elif r.random() < 0.3:
            self.p.ins(r.choice(BR1), rs1=self.src(), label=l)
        else:
            self.p.ins(r.choice(BR2), rs1=self.src(), rs2=self.src(), label=l)
        self.p.tags.add('branch')
        k = body_len if body_len is not None else r.randint(1, 5)
        for _ in range(k):
            if not self.room(3):
                break
            self.shadow_item()
        self.p.label(l)

    def shadow_item(self):
        r = self.rng
        c = r.random()
        if self.profile in ('shadow', 'mem', 'stld', 'mixed', 'disj', 'touched') and c < 0.2:
            self.store()
            self.p.tags.add('shadow-store')
        elif self.profile in ('shadow', 'mem', 'stld', 'mixed', 'ldonly', 'ldslow', 'disj', 'touched') and c < 0.35:
            self.load()
        elif self.profile == 'ssabr' and c < 0.12:
            self.p.ins('ret')
            self.p.tags.add('shadow-ret')
        elif self.profile == 'ssabr' and c < 0.25 and self.fresh:
            l = self.p.new_label()
            self.p.ins('jal', self.dst(), label=l)
            self.alu()
            self.p.label(l)
            self.p.tags.add('shadow-jal')
        elif self.profile == 'ssabr' and c < 0.4 and self.room(6) and not self.single:
            self.branch_fwd(body_len=r.randint(1, 2), slow_cond=r.random() < 0.5)
            self.p.tags.add('nested-branch')
        elif self.profile == 'shadow' and c < 0.42:
            l = self.p.new_label()
            self.p.ins('jal', self.dst(), label=l)
            self.p.ins('addi', self.dst(), self.src(), imm=1)
            self.p.label(l)
            self.p.tags.add('shadow-jal')
        elif self.profile == 'shadow' and c < 0.5 and self.room(6):
            self.branch_fwd(body_len=r.randint(1, 2))
            self.p.tags.add('nested-branch')
        else:
            self.alu()

    def jump_fwd(self):
        r = self.rng
        l = self.p.new_label()
        c = r.random()
        if c < 0.5:
            self.p.ins('j', label=l)
        else:
            self.p.ins('jal', self.dst(), label=l)
        self.p.tags.add('jump')
        for _ in range(r.randint(1, 3)):
            if self.room(3):
                self.shadow_item()
        self.p.label(l)

    def call_pattern(self):
        """a subroutine called from two or three call sites, returning with jalr through ra"""
        r = self.rng
        if not self.room(14):
            return self.alu()
        f = self.p.new_label()
        end = self.p.new_label()
        for _ in range(r.randint(2, 3)):
            self.p.ins('jal', 1, label=f)
            for _ in range(r.randint(0, 2)):
                self.alu()
        self.p.ins('j', label=end)
        self.p.label(f)
        for _ in range(r.randint(1, 3)):
            self.alu()
        self.p.ins('jalr', r.choice([0, 0, self.dst()]), 1, imm=0)
        self.p.label(end)
        self.p.tags.add('call-return')

    def loop(self):
        r = self.rng
        if not self.free_cnt or not self.room(8):
            return self.alu()
        cnt = self.free_cnt.pop()
        n = r.randint(1, 6)
        self.p.ins('li', cnt, imm=n)
        l = self.p.new_label()
        self.p.label(l)
        stride_reg = None
        if self.profile in ('mem', 'stld', 'mixed', 'loops', 'ldonly') and r.random() < 0.6:
            stride_reg = r.choice(ADDR)
            stride = r.choice([4, 4, 8, 64, 68])
            span = stride * n + 8
            if span < self.p.memsize:
                base = r.randrange(0, self.p.memsize - span, 4)
                # the li must be before the loop: emit it before the label
                lab = self.p.items.pop()
                self.p.ins('li', stride_reg, imm=base)
                self.p.items.append(lab)
                self.addr_val[stride_reg] = base
            else:
                stride_reg = None
        for _ in range(r.randint(1, 5)):
            if not self.room(5):
                break
            c = r.random()
            if stride_reg is not None and c < 0.5:
                m = r.choice(['lw', 'sw', 'lb', 'sb']) if self.profile != 'ldonly' else r.choice(['lw', 'lb'])
                if m[0] == 'l':
                    self.p.ins(m, self.dst(), stride_reg, imm=r.choice([0, 4]) if m == 'lw' else r.choice([0, 1, 2, 3]))
                else:
                    self.p.ins(m, rs1=stride_reg, rs2=self.src(), imm=r.choice([0, 4]) if m == 'sw' else r.choice([0, 1, 2, 3]))
                self.p.tags.add('loop-mem')
            elif c < 0.7 and self.room(8):
                self.branch_fwd(body_len=r.randint(1, 2))
            else:
                self.alu()
        if stride_reg is not None:
            self.p.ins('addi', stride_reg, stride_reg, imm=stride)
            del self.addr_val[stride_reg]      # value no longer statically known
        self.p.ins('addi', cnt, cnt, imm=-1)
        self.p.ins('bnez', rs1=cnt, label=l)
        self.p.tags.add('loop')
        self.free_cnt.append(cnt)

    def stld_pair(self):
        """store/load (or store/store, load/store) to the same word / byte / line with independent address registers"""
        r = self.rng
        a = self.set_addr()
        b = r.choice([x for x in ADDR if x != a])
        va = self.addr_val[a]
        delta = r.choice([0, 0, 0, 4, -4, 1, 60, 64])
        vb = va + delta
        if not (0 <= vb <= self.p.memsize - 8):
            vb = va
        self.p.ins('li', b, imm=vb)
        self.addr_val[b] = vb
        kind = r.choice(['sl', 'sl', 'ss', 'ls', 'sls'])
        dist = r.randint(0, 3)
        def st(reg):
            m = r.choice(['sw', 'sw', 'sb'])
            size = 4 if m == 'sw' else 1
            off = 0 if (self.addr_val[reg] % size == 0) else -(self.addr_val[reg] % size)
            self.p.ins(m, rs1=reg, rs2=self.src(), imm=off)
        def ld(reg):
            m = r.choice(['lw', 'lw', 'lb'])
            size = 4 if m == 'lw' else 1
            off = 0 if (self.addr_val[reg] % size == 0) else -(self.addr_val[reg] % size)
            self.p.ins(m, self.dst(), reg, imm=off)
        seq = {'sl': [st, ld], 'ss': [st, st], 'ls': [ld, st], 'sls': [st, ld, st]}[kind]
        regs = [a, b, a]
        for k, f in enumerate(seq):
            f(regs[k])
            if k + 1 < len(seq):
                for _ in range(dist):
                    self.alu()
        self.p.tags.add('stld-' + kind)

    def evict_pattern(self):
        """touch more lines than any cache holds (64-byte lines: > 16 for the 1 KB caches, > 32 of
        128 bytes for the 4 KB L3), dirtying some, then come back to the early ones"""
        r = self.rng
        ms = self.p.memsize
        nlines = ms // 64
        first = r.sample(range(nlines), min(nlines, r.randint(18, 40)))
        a = ADDR[0]
        written = {}
        for ln in first:
            if not self.room(6):
                break
            off = r.choice([0, 0, 4, 20, 60, 1, 33])
            addr = ln * 64 + off
            self.p.ins('li', a, imm=addr - addr % 4)
            self.addr_val[a] = addr - addr % 4
            c = r.random()
            if self.profile == 'evictlf':
                # load first (the line becomes resident), then usually dirty it: no store ever meets an absent line
                self.p.ins(r.choice(['lw', 'lb']), self.dst(), a, imm=0)
                if c < 0.7 and self.room(4):
                    self.p.ins(r.choice(['sw', 'sb']), rs1=a, rs2=self.src(), imm=0)
                    written[ln] = True
            elif c < 0.5:
                self.p.ins('sw', rs1=a, rs2=self.src(), imm=0)
                written[ln] = True
            elif c < 0.6:
                self.p.ins('sb', rs1=a, rs2=self.src(), imm=addr % 4)
                written[ln] = True
            else:
                self.p.ins(r.choice(['lw', 'lb']), self.dst(), a, imm=0)
        back = [ln for ln in first[:12] if r.random() < 0.7]
        for ln in back:
            if not self.room(4):
                break
            self.p.ins('li', a, imm=ln * 64)
            self.addr_val[a] = ln * 64
            if r.random() < 0.7 or self.profile == 'evictlf':
                self.p.ins(r.choice(['lw', 'lb']), self.dst(), a, imm=r.choice([0, 4, 20, 60]) if True else 0)
            else:
                self.p.ins('sw', rs1=a, rs2=self.src(), imm=0)
        self.p.tags.add('evict-%d-lines' % len(first))
        if written:
            self.p.tags.add('dirty-eviction')

    def tail(self):
        """long-latency work directly before the exit"""
        r = self.rng
        for _ in range(r.randint(1, 4)):
            c = r.random()
            if c < 0.4:
                self.load()
            elif c < 0.7:
                self.store()
            else:
                d = self.dst() or (0 if self.profile in ('ssa', 'ssald', 'ssamem', 'ssabr') else self.pool[0])
                self.p.ins('addi', d, self.src(), imm=r.randint(-5, 5))
                self.p.ins('add', self.dst(), d, d)
        self.p.tags.add('tail')

    # ---- whole programs --------------------------------------------------
    def build(self):
        r = self.rng
        p = self.p
        prof = self.profile
        for reg in self.pool + ADDR:
            if r.random() < 0.7:
                p.regs[reg] = rand_val(r) if reg in self.pool else 0
        for reg in ADDR:
            p.regs.pop(reg, None)
        nmem = r.randint(0, min(64, p.memsize))
        for _ in range(nmem):
            p.mem[r.randrange(p.memsize)] = r.randint(-128, 127)
        if prof in ('mem', 'stld', 'tail', 'mixed', 'ldonly', 'ldslow', 'disj', 'touched', 'evict', 'evictlf', 'ssamem', 'ssald', 'ssabr') and r.random() < 0.7:
            # dense image
            for a in range(0, p.memsize, r.choice([1, 3, 4])):
                p.mem[a] = r.randint(-128, 127)
        target = r.randint(4, self.max_len - 6)
        weights = {
            'alu': dict(alu=10),
            'ssa': dict(alu=8, branch=2, jump=1),
            'ssamem': dict(alu=4, load=3, store=3, branch=1),
            'ssald': dict(alu=4, load=5, branch=1),
            'ssabr': dict(alu=4, slowbranch=4, branch=1),
            'ldonly': dict(alu=3, load=5, branch=1, loop=1, setaddr=1),
            'ldslow': dict(alu=3, load=2, slowbranch=3, branch=1),
            'disj': dict(alu=3, load=3, store=3, branch=1),
            'evict': dict(alu=3, load=1, store=1),
            'evictlf': dict(alu=3),
            'touched': dict(alu=3, load=4, store=4, branch=1),
            'hazard': dict(alu=10, load=1),
            'waw': dict(alu=10),
            'branch': dict(alu=5, branch=3, jump=1, call=1),
            'shadow': dict(alu=3, branch=2, slowbranch=3, jump=2, load=1, store=1),
            'mem': dict(alu=3, load=4, store=4, branch=1, loop=1, setaddr=1),
            'stld': dict(alu=2, stld=5, load=1, store=1),
            'tail': dict(alu=4, load=1, store=1, branch=1),
            'loops': dict(alu=4, loop=4, branch=2, jump=1, call=1),
            'mixed': dict(alu=5, load=2, store=2, branch=2, slowbranch=1, jump=1, loop=1, stld=1, call=1),
            'err': dict(alu=6, branch=2),
        }[prof]
        kinds = list(weights)
        wts = [weights[k] for k in kinds]
        if prof == 'touched':
            nl = r.randint(1, min(8, max(1, p.memsize // 64)))
            self.lines = sorted(r.sample(range(0, p.memsize // 64 * 64, 64), nl))
            for b in self.lines:
                reg = r.choice(ADDR)
                self.p.ins('li', reg, imm=b)
                self.addr_val[reg] = b
                self.p.ins('lw', self.dst(), reg, imm=0)
            p.tags.add('touched-lines-%d' % nl)
        if prof == 'ssabr':
            # exactly one load, at a random (even or odd) instruction index, feeds the branch conditions
            for _ in range(r.randint(0, 3)):
                self.alu()
            a = r.randrange(0, min(p.memsize, 2048) - 4, 4)
            if r.random() < 0.5:
                areg = self.fresh.pop()
                self.p.ins('li', areg, imm=a)
                off = 0
            else:
                areg, off = 0, a          # absolute address off the zero register: no producer to wait for
            self.slow_reg = self.fresh.pop()
            self.p.ins(r.choice(['lw', 'lw', 'lb']), self.slow_reg, areg, imm=off)
            p.tags.add('load')
            if r.random() < 0.5:
                # the branch directly behind the load (both reach the control unit together)
                self.branch_fwd(slow_cond=True)
                self.single_done = True
        if prof in ('mem', 'stld', 'mixed', 'tail', 'ldonly', 'ldslow', 'evict'):
            self.set_addr()
        while self.n() < target and self.room(6):
            k = r.choices(kinds, wts)[0]
            if self.single and k in ('branch', 'slowbranch'):
                if self.single_done:
                    k = 'alu'
                else:
                    k = 'slowbranch'
                    self.single_done = True
            if k == 'alu':
                self.alu()
            elif k == 'load':
                self.load()
            elif k == 'store':
                self.store()
            elif k == 'setaddr':
                self.set_addr()
            elif k == 'branch':
                self.branch_fwd()
            elif k == 'slowbranch':
                self.branch_fwd(slow_cond=True)
            elif k == 'jump':
                self.jump_fwd()
            elif k == 'loop':
                self.loop()
            elif k == 'stld':
                self.stld_pair()
            elif k == 'call':
                self.call_pattern()
        if prof in ('evict', 'evictlf'):
            self.evict_pattern()
        if prof == 'tail':
            self.tail()
        if prof == 'err':
            c = r.random()
            if c < 0.5:
                self.p.ins(r.choice(['div', 'rem']), self.dst(), self.src(), 0)
                p.tags.add('err-divzero')
            else:
                self.p.ins(r.choice(['j', 'beq']), rs1=0, rs2=0, label=999)
                p.tags.add('err-label')
            self.alu()
        exit_kind = r.random()
        if exit_kind < 0.75:
            p.ins('ret')
            p.tags.add('exit-ret')
            if r.random() < 0.3:
                self.alu()      # dead code after ret
        else:
            p.tags.add('exit-end')
        return p


def gen_program(rng, profile, memsize=None, max_len=None):
    if memsize is None:
        memsize = rng.choice([64, 128, 256, 256, 512, 2048]) if profile not in ('alu', 'hazard', 'waw', 'branch', 'ssa') else rng.choice([0, 64])
        if profile == 'disj':
            memsize = rng.choice([512, 1024, 2048])
        if profile == 'touched':
            memsize = rng.choice([128, 256, 512, 1024])
        if profile in ('ssamem', 'ssald', 'ssabr', 'ssabr1'):
            memsize = rng.choice([64, 128, 256, 2048])
        if profile in ('evict', 'evictlf'):
            memsize = rng.choice([2048, 4096, 8192])
            max_len = rng.choice([120, 180, 240])
        if profile in ('mem',) and rng.random() < 0.3:
            memsize = rng.choice([4096, 8192])
    if memsize < 16 and profile not in ('alu', 'hazard', 'waw', 'branch', 'err', 'loops', 'ssa'):
        memsize = 64
    if max_len is None:
        max_len = rng.choice([12, 25, 40, 60]) if rng.random() < 0.9 else rng.choice([120, 240])
    g = Gen(rng, profile, memsize=memsize, max_len=max_len)
    if memsize < 16:
        # no memory instructions possible
        g.load = g.alu
        g.store = g.alu
        g.set_addr = lambda *a, **k: None
        g.stld_pair = g.alu
    return g.build()
