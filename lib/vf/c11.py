"""C11 - the assembler front end is total and resolves labels to the right instruction.

Proof: coq/theories/Props/C11.v about the hand-written model Parser/Model.v of risc.Parse
       (parse_total, instr_count, label_address, roundtrip, decoration_invariant,
       register_table_injective, and the *_refuted witnesses).
Tie:   the real risc.Parse (tools/harness/parse.go) and the extracted model
       (build/parser_oracle) parse the same texts; result lines are compared textually.  A
       parsed instruction is rendered through the InstructionRunner interface only
       (InstructionType, ReadRegisters, WriteRegisters, MemoryRead/Write, Run probes).
Property on the implementation: a small independent reference in this file (line
       classification, label addresses, expected instructions of the generated programs,
       decimal immediates, plain-vs-decorated comparison) judges the implementation's
       outputs clause by clause, so that a failure is classified: the property fails on a
       concrete text => counterexample (replay = the text); model and implementation differ
       but the property holds => broken correspondence.
"""
import collections
import re

from . import common as C
from . import isa
from .progs import gen_program

PID = 'C11'
WS = b' \t\n\x0b\x0c\r'
MNEMS = ('add addi and andi auipc beq beqz bge bgeu ble blt bltu bne bnez div j jal jalr lui lb lh li lw nop '
         'mul mv or ori rem ret sb sh sll slli slt sltu slti sra srai srl srli sub sw xor xori').split()   # InstructionType order
TYPE_OF = {m: i for i, m in enumerate(MNEMS)}
REGS = C.REG_NAMES
PROFILES = ['alu', 'branch', 'mem', 'loops', 'mixed', 'shadow', 'stld', 'err']
LABEL_POOL = ['loop', 'end', 'L1', '.L2', 'a_b', 'main', 'x', 'done:', '$t0', 't0', 'nop', '(1)', 'l.3', 'Z9', 'ret', 'a:b']
HUGE = ['2147483647', '2147483648', '-2147483648', '-2147483649', '99999999999999999999', '-99999999999999999999',
        '+5', '007', '-0', '0x10', '010', '0b11', '0o17', '1_0', '', '-', '+', '- 5', '5 ', '1e3', '4294967296', '٣']
CANON_WITNESSES = [b'foo: # c', b'ret#done', b'nop#x:']     # repaired comment handling (commit 24eb26f): ordinary cases now


# ----------------------------------------------------------------------------------------------
# independent reference of the property (not derived from the Coq model)
# ----------------------------------------------------------------------------------------------

def classify(line):
    l = line.strip(WS)
    if not l or l[:1] == b'#':
        return ('skip', None)
    if b'#' in l:                      # a trailing comment is not part of the line
        l = l[:l.index(b'#')].strip(WS)
    if b' ' not in l and l.endswith(b':'):
        return ('label', l[:-1])
    return ('instr', l)


def reference(text):
    """number of instruction lines and label -> 4 * (instruction lines before the last definition)"""
    n, labels = 0, {}
    for line in text.split(b'\n'):
        k, v = classify(line)
        if k == 'label':
            labels[v] = 4 * n
        elif k == 'instr':
            n += 1
    return n, labels


def decimal_value(tok):
    """strconv.ParseInt(tok, 10, 32) as the property reads it: optional sign, decimal digits, int32"""
    if not re.fullmatch(rb'[+-]?[0-9]+', tok):
        return None
    v = int(tok)
    return v if -2 ** 31 <= v <= 2 ** 31 - 1 else None


def parse_result(res):
    """result line -> ('err'|'panic'|'crash', None) or ('ok', dict(n, labels, ins))"""
    if res is None or res.startswith('CRASH'):
        return ('crash', None)
    if res in ('err', 'panic'):
        return (res, None)
    m = re.fullmatch(r'ok n=(\d+) labels=(\S*) ins=(.*)', res)
    if not m:
        return ('crash', None)
    labels = {}
    if m.group(2):
        for kv in m.group(2).split(','):
            k, v = kv.split(':')
            labels[bytes.fromhex(k)] = int(v)
    ins = m.group(3).split(';') if m.group(3) else []
    return ('ok', {'n': int(m.group(1)), 'labels': labels, 'ins': ins})


def ins_fields(s):
    """rendered instruction -> (type, reads, writes, probes...)"""
    p = s.split('/')

    def lst(x):
        x = x[x.index('[') + 1:-1]
        return [int(v) for v in x.split(',')] if x else []
    try:
        return int(p[0][1:]), lst(p[1]), lst(p[2]), p[5:]
    except (ValueError, IndexError):
        return None


PROBE_RE = re.compile(r'^(\d),(-?\d+),(-?\d+),(\d),\[(.*)\],(-?\d+),(\d),(\d)$')


def probe(s):
    """one Run probe -> dict or None (error)"""
    m = PROBE_RE.match(s)
    if not m:
        return None
    return {'rc': int(m.group(1)), 'reg': int(m.group(2)), 'val': int(m.group(3)), 'npc': int(m.group(6)), 'pcc': int(m.group(7))}


def p0(r):
    return 0 if r == 0 else 1000 + 37 * r


def judge_operands(i, ops, got, cand):
    """immediates, offsets and label operands of one canonical instruction, read off the rendered
    instruction `got` (reference semantics of the probes, independent of the Coq development);
    returns None or a message"""
    parts = got.split('/')
    pr = [probe(x) for x in parts[5:11]]
    m = i.m
    w = isa.wrap32

    def val(k):
        return pr[k]['val'] if pr[k] else None
    if m in isa.B2 or m in isa.B1 or m in ('j', 'jal'):
        name = ops[-1].encode('latin1')
        if name not in cand:
            return None
        want = 100000 + 4 * cand.index(name)
        taken = [x for x in pr if x and x['pcc']]
        for x in taken:
            if x['npc'] != want:
                return 'jumps to %d, the label operand %s is at %d in the probe map' % (x['npc'], ops[-1], want)
        sure = m in ('j', 'jal', 'beq', 'bge', 'ble', 'bgeu', 'beqz') or (m == 'bnez' and i.rs1 != 0)
        if sure and not taken:
            return 'never resolves its label operand %s (probes: %s)' % (ops[-1], ' '.join(parts[5:11]))
        return None
    if m in isa.LD or m in isa.ST:
        f = parts[3] if m in isa.LD else parts[4]
        addr = f[f.index('[') + 1:-1].split(',')
        if not addr or addr[0] == '':
            return 'declares no memory address'
        if int(addr[0]) != w(p0(i.rs1) + i.imm):
            return 'accesses address %s with base register value %d, the offset is %d' % (addr[0], p0(i.rs1), i.imm)
        return None
    if i.rd == 0 and m not in ('jalr',):
        return None
    imm = i.imm
    exp = None
    if m in ('addi', 'ori', 'xori', 'li'):
        exp, have = imm, val(2)
    elif m == 'andi' and i.rs1 != 0:
        exp, have = imm, val(3)
    elif m == 'slli' and i.rs1 != 0:
        exp, have = w(1 << (imm & 31)), val(4)
    elif m in ('srli', 'srai') and i.rs1 != 0:
        exp, have = (w((2 ** 31) >> (imm & 31)) if m == 'srli' else (-2 ** 31) >> (imm & 31)), val(5)
    elif m == 'lui':
        exp, have = w(imm << 12), val(2)
    elif m == 'auipc':
        exp, have = w(64 + (imm << 12)), val(2)
    elif m == 'jalr':
        exp, have = w(imm) & ~1, (pr[2]['npc'] if pr[2] else None)
    elif m == 'slti' and i.rs1 != 0:
        exp, have = imm, (int(parts[11][1:]) if len(parts) > 11 and parts[11][1:] not in ('', '-') else None)
    if exp is not None and have != exp:
        return 'shows %s where the immediate %d gives %s' % (have, imm, exp)
    return None


def judge_accepted(text, parsed):
    """count and label clauses on an accepted ASCII text; returns None or (clause, message)"""
    n, labels = reference(text)
    if parsed['n'] != n or len(parsed['ins']) != n:
        return ('instr-count', 'the text has %d instruction line(s), the parser returns %d instruction(s)' % (n, parsed['n']))
    if parsed['labels'] != labels:
        for k in sorted(set(labels) | set(parsed['labels'])):
            if labels.get(k) != parsed['labels'].get(k):
                return ('label-address', 'label %r: expected address %s (4 x instruction lines before its last definition), parser gives %s'
                        % (k.decode('latin1'), labels.get(k), parsed['labels'].get(k)))
    return None


# ----------------------------------------------------------------------------------------------
# texts
# ----------------------------------------------------------------------------------------------

def candidates(text):
    """label names the Run probes should know: every comma / '#' separated piece, trimmed, and what
    follows its first / last blank"""
    out = []
    for line in text.split(b'\n')[:300]:
        for piece in line.replace(b'#', b',').split(b','):
            p = piece.strip(WS)
            for q in (p, p.split(b' ', 1)[-1].strip(WS), p.split(b' ')[-1]):
                if q and q not in out:
                    out.append(q)
    return out[:96]


def case_line(text, cand_text=None):
    """cand_text: the text the candidate label names are taken from (a decorated text uses the names of
    its plain text, so that the two result lines are comparable)"""
    return text.hex() + '\t' + (','.join(x.hex() for x in candidates(text if cand_text is None else cand_text)) or '-')


class Prog:
    """items: ('label', name) | ('ins', Ins, [operand strings]) ; canonical text one item per line"""

    def __init__(self, items):
        self.items = items

    def lines(self):
        out = []
        for it in self.items:
            if it[0] == 'label':
                out.append(it[1] + ':')
            else:
                out.append(it[1].m + (' ' + ', '.join(it[2]) if it[2] else ''))
        return out

    def text(self):
        return '\n'.join(self.lines()).encode('latin1')

    def instrs(self):
        return [it for it in self.items if it[0] == 'ins']

    def label_addrs(self):
        d, n = {}, 0
        for it in self.items:
            if it[0] == 'label':
                d[it[1].encode('latin1')] = 4 * n
            else:
                n += 1
        return d


def from_program(p, names):
    items = []
    for k, x in p.items:
        if k == 'label':
            items.append(('label', names(x)))
        else:
            a = x.asm()
            m, _, rest = a.partition(' ')
            ops = rest.split(', ') if rest else []
            ops = [names(int(o[1:])) if re.fullmatch(r'L\d+', o) else o for o in ops]
            items.append(('ins', x, ops))
    return Prog(items)


def rand_imm(rng):
    c = rng.random()
    if c < 0.3:
        return rng.choice(isa.LATTICE)
    if c < 0.5:
        return rng.randint(isa.INT_MIN, isa.INT_MAX)
    return rng.randint(-40, 40)


def rand_prog(rng, max_items=14):
    """every mnemonic, every register, boundary immediates, odd (but well-formed) label names,
    repeated label definitions"""
    labs = rng.sample(LABEL_POOL, rng.randint(1, 4))
    items = []
    for _ in range(rng.randint(1, max_items)):
        if rng.random() < 0.22:
            items.append(('label', rng.choice(labs)))
            continue
        m = rng.choice(MNEMS)
        i = isa.Ins(m, rd=rng.randrange(32), rs1=rng.randrange(32), rs2=rng.randrange(32), imm=rand_imm(rng), label=0)
        a = i.asm()
        _, _, rest = a.partition(' ')
        ops = rest.split(', ') if rest else []
        ops = [rng.choice(labs + ['undefined']) if o == 'L0' else o for o in ops]
        items.append(('ins', i, ops))
    if rng.random() < 0.3:
        items.append(('label', rng.choice(labs)))
    return Prog(items)


def hspace(rng, lo=0, hi=3):
    return ''.join(rng.choice(' \t \t\r\x0b\x0c') for _ in range(rng.randint(lo, hi)))


def comment_text(rng):
    return ''.join(rng.choice(' abc#:,()\t;x1-$') for _ in range(rng.randint(0, 8)))


def junk_lines(rng, stats):
    out = []
    for _ in range(rng.choice([0, 0, 0, 1, 1, 2])):
        if rng.random() < 0.5:
            out.append(hspace(rng))
            stats['blank-line'] += 1
        else:
            out.append(hspace(rng) + '#' + comment_text(rng))
            stats['comment-line'] += 1
    return out


def trailing_comment(rng, stats, what):
    gap = rng.choice(['', '', ' ', '\t', ' \t', '  '])
    stats['trailing-comment-after-' + what] += 1
    stats['comment-glued' if gap == '' else 'comment-after-gap'] += 1
    return gap + '#' + comment_text(rng)


def decorate(rng, prog, stats):
    """the decorations of theorem decoration_invariant: blank and comment lines, indentation, trailing
    white space, a trailing comment after a label definition or an instruction (glued or after white
    space), mnemonic case"""
    out = []
    for it in prog.items:
        out.extend(junk_lines(rng, stats))
        lead, trail = hspace(rng), hspace(rng)
        stats['indent'] += 1 if lead else 0
        stats['trailing-space'] += 1 if trail else 0
        if it[0] == 'label':
            body = it[1] + ':'
            if rng.random() < 0.35:
                body += trailing_comment(rng, stats, 'label')
            out.append(lead + body + trail)
            continue
        m = it[1].m
        if rng.random() < 0.4:
            m = ''.join(ch.upper() if rng.random() < 0.6 else ch for ch in m)
            stats['mnemonic-case'] += 1 if m != it[1].m else 0
        body = m + (' ' + ', '.join(it[2]) if it[2] else '')
        if rng.random() < 0.35:
            body += trailing_comment(rng, stats, 'operands' if it[2] else 'bare-mnemonic')
        out.append(lead + body + trail)
    out.extend(junk_lines(rng, stats))
    if rng.random() < 0.5:
        out.append('')
        stats['final-newline'] += 1
    return '\n'.join(out).encode('latin1')


def replace_operand(line, rng, new):
    """replace one operand of a canonical instruction line"""
    m, sp, rest = line.partition(' ')
    if not sp:
        return None
    ops = rest.split(', ')
    k = rng.randrange(len(ops))
    ops[k] = new(ops[k])
    return m + ' ' + ', '.join(ops)


MUTATIONS = ['truncate', 'stray-paren', 'missing-paren', 'tab-for-space', 'comment-after-label', 'comment-glued-to-bare-mnemonic',
             'comment-glued-to-operand', 'duplicate-label', 'huge-immediate', 'missing-comma', 'extra-comma', 'empty-operand',
             'dollar-register', 'unknown-register', 'unknown-mnemonic', 'upper-case-line', 'label-with-space', 'join-lines',
             'non-ascii', 'operand-padding', 'extra-operand', 'sh-offset-form', 'nul-byte']
# mutations that only add a comment: by the property they must not change the result
COMMENT_ONLY = ('comment-after-label', 'comment-glued-to-bare-mnemonic', 'comment-glued-to-operand')


def mutate(rng, prog, kind):
    """one edit of the canonical text; returns the mutated text (bytes) or None when not applicable"""
    lines = prog.lines()
    idx_ins = [i for i, it in enumerate(prog.items) if it[0] == 'ins']
    idx_ops = [i for i in idx_ins if prog.items[i][2]]
    idx_lab = [i for i, it in enumerate(prog.items) if it[0] == 'label']
    if kind == 'truncate':
        if not idx_ops:
            return None
        i = rng.choice(idx_ops)
        cut = rng.randint(len(prog.items[i][1].m), len(lines[i]) - 1)
        lines[i] = lines[i][:cut]
    elif kind == 'stray-paren':
        if not idx_ins:
            return None
        i = rng.choice(idx_ins)
        p = rng.randint(0, len(lines[i]))
        lines[i] = lines[i][:p] + rng.choice('()') + lines[i][p:]
    elif kind == 'missing-paren':
        c = [i for i in idx_ops if '(' in lines[i]]
        if not c:
            return None
        i = rng.choice(c)
        ch = rng.choice('()')
        lines[i] = lines[i].replace(ch, '', 1)
    elif kind == 'tab-for-space':
        if not idx_ops:
            return None
        i = rng.choice(idx_ops)
        sp = [p for p, ch in enumerate(lines[i]) if ch == ' ']
        p = sp[0] if rng.random() < 0.5 else rng.choice(sp)
        lines[i] = lines[i][:p] + '\t' + lines[i][p + 1:]
    elif kind == 'comment-after-label':
        if not idx_lab:
            return None
        i = rng.choice(idx_lab)
        lines[i] += rng.choice(['', '\t', ' ', '  ', ' \t']) + '#' + comment_text(rng)
    elif kind == 'comment-glued-to-bare-mnemonic':
        c = [i for i in idx_ins if not prog.items[i][2]]
        if not c:
            return None
        i = rng.choice(c)
        lines[i] += rng.choice(['', '\t']) + '#' + comment_text(rng)
    elif kind == 'comment-glued-to-operand':
        if not idx_ops:
            return None
        i = rng.choice(idx_ops)
        lines[i] += rng.choice(['', '\t']) + '#' + comment_text(rng)
    elif kind == 'duplicate-label':
        if not idx_lab:
            return None
        i = rng.choice(idx_lab)
        lines.insert(rng.randint(0, len(lines)), lines[i])
    elif kind == 'huge-immediate':
        c = [i for i in idx_ops if re.search(r'-?\d+(?=\(|$|, )', lines[i].partition(' ')[2])]
        if not c:
            return None
        i = rng.choice(c)
        m, _, rest = lines[i].partition(' ')
        nums = list(re.finditer(r'(?<![\w$.])-?\d+(?=\(|$|,)', rest))
        if not nums:
            return None
        mm = rng.choice(nums)
        lines[i] = m + ' ' + rest[:mm.start()] + rng.choice(HUGE) + rest[mm.end():]
    elif kind == 'missing-comma':
        c = [i for i in idx_ops if ',' in lines[i]]
        if not c:
            return None
        i = rng.choice(c)
        lines[i] = lines[i].replace(',', '', 1) if rng.random() < 0.5 else lines[i].replace(', ', ' ', 1)
    elif kind == 'extra-comma':
        if not idx_ops:
            return None
        i = rng.choice(idx_ops)
        p = rng.randint(len(prog.items[i][1].m), len(lines[i]))
        lines[i] = lines[i][:p] + ',' + lines[i][p:]
    elif kind == 'empty-operand':
        if not idx_ops:
            return None
        i = rng.choice(idx_ops)
        lines[i] = replace_operand(lines[i], rng, lambda o: rng.choice(['', ' ', '\t']))
    elif kind == 'dollar-register':
        c = [i for i in idx_ops if any(o in REGS for o in prog.items[i][2])]
        if not c:
            return None
        i = rng.choice(c)
        lines[i] = prog.items[i][1].m + ' ' + ', '.join('$' + o if o in REGS else re.sub(r'\((\w+)\)', r'($\1)', o) for o in prog.items[i][2])
    elif kind == 'unknown-register':
        c = [i for i in idx_ops if any(o in REGS for o in prog.items[i][2])]
        if not c:
            return None
        i = rng.choice(c)
        ops = list(prog.items[i][2])
        ks = [k for k, o in enumerate(ops) if o in REGS]
        k = rng.choice(ks)
        ops[k] = rng.choice(['x5', 'T0', 't7', 's12', 'zer0', 'a8', '$$t0', '$', 't0 t1', 'fp', 'r0', ops[k].upper(), ops[k] + '0'])
        lines[i] = prog.items[i][1].m + ' ' + ', '.join(ops)
    elif kind == 'unknown-mnemonic':
        if not idx_ins:
            return None
        i = rng.choice(idx_ins)
        m, sp, rest = lines[i].partition(' ')
        lines[i] = rng.choice([m + 'x', m[:-1], 'mov', 'la', 'call', 'ecall', m + ':', '.' + m, m + '.w']) + sp + rest
    elif kind == 'upper-case-line':
        if not idx_ins:
            return None
        i = rng.choice(idx_ins)
        lines[i] = lines[i].upper()
    elif kind == 'label-with-space':
        if not idx_lab:
            return None
        i = rng.choice(idx_lab)
        lines[i] = rng.choice(['my ', 'a ']) + lines[i] if rng.random() < 0.5 else lines[i][:-1] + ' :'
    elif kind == 'join-lines':
        if len(lines) < 2:
            return None
        i = rng.randrange(len(lines) - 1)
        lines[i:i + 2] = [lines[i] + rng.choice([' ', '', ', ']) + lines[i + 1]]
    elif kind == 'operand-padding':
        if not idx_ops:
            return None
        i = rng.choice(idx_ops)
        lines[i] = prog.items[i][1].m + ' ' + hspace(rng) + ','.join(hspace(rng) + o + hspace(rng) for o in prog.items[i][2])
    elif kind == 'extra-operand':
        if not idx_ins:
            return None
        i = rng.choice(idx_ins)
        lines[i] += (', ' if prog.items[i][2] else ' ') + rng.choice(['t0', '5', 'x', 't0, t1'])
    elif kind == 'sh-offset-form':
        i = rng.randint(0, len(lines))
        lines.insert(i, rng.choice(['sh t0, 4(t1)', 'sb t0, 4, t1', 'sw t0, 4, t1', 'lw t0, 4, t1', 'lh t0, t1', 'lw t0, (t1)', 'lw t0, 4(t1)(t2)',
                                    'lw t0, 4()', 'lw t0, (', 'lw t0, )', 'lw t0, )(', 'lw t0, 4(t1', 'lw t0, 4 (t1 )', 'sw t0, +4( t1)']))
    elif kind == 'non-ascii':
        b = [l.encode('latin1') for l in lines]
        i = rng.randrange(len(b))
        tok = rng.choice([b'\xc2\xa0', b'\xe2\x80\x80', b'\xe2\x80\xa8', b'\xc2\x85', b'\xe3\x80\x80', b'\xe1\x9a\x80', b'\xe2\x81\x9f',
                          b'\xff', b'\xc2', b'\x80', b'\xe2\x80', b'\xc4\xb0', b'\xe2\x84\xaa', b'\xc3\xa9', b'\xef\xbb\xbf'])
        p = rng.choice([0, len(b[i]), rng.randint(0, len(b[i]))])
        b[i] = b[i][:p] + tok + b[i][p:]
        return b'\n'.join(b)
    elif kind == 'nul-byte':
        b = [l.encode('latin1') for l in lines]
        i = rng.randrange(len(b))
        p = rng.randint(0, len(b[i]))
        b[i] = b[i][:p] + rng.choice([b'\x00', b'\x7f', b'\x1b', b'\x08']) + b[i][p:]
        return b'\n'.join(b)
    else:
        return None
    if any(l is None for l in lines):
        return None
    return '\n'.join(lines).encode('utf8')


TOKENS = ([m.encode() for m in MNEMS] + [r.encode() for r in REGS] + [b'$' + r.encode() for r in REGS[:6]] +
          [b' ', b' ', b' ', b'\t', b',', b',', b', ', b'#', b':', b'(', b')', b'\n', b'\n', b'-', b'+', b'0', b'1', b'42',
           b'2147483647', b'2147483648', b'-2147483648', b'-2147483649', b'99999999999999999999', b'L1', b'loop', b'loop:',
           b'\xc2\xa0', b'\xe2\x80\x80', b'\xe2\x80\xa8', b'\xc2\x85', b'\xe3\x80\x80', b'\xe1\x9a\x80', b'\xe2\x81\x9f', b'\xff', b'\xc2',
           b'\x80', b'\xe2\x80', b'\xc4\xb0', b'\xe2\x84\xaa', b'\x00', b'\x0b', b'\x0c', b'\r', b'ADD', b'Addi', b'x', b'_', b'0x10',
           b'4(t1)', b'-8(sp)', b'4(', b'(t0)'])


def random_bytes(rng):
    k = rng.random()
    if k < 0.45:
        return 'token-soup', b''.join(rng.choice(TOKENS) for _ in range(rng.randint(0, 14)))
    if k < 0.7:
        return 'ascii-soup', bytes(rng.choice(b' \t\n,#:()tT0a1$-+nopretjliLIsw4\r\x00') for _ in range(rng.randint(0, 12)))
    if k < 0.85:
        return 'utf8-soup', bytes(rng.choice(b' \t\n,#:t0a1nop\xc2\xa0\xe2\x80\x85\xff\xc4\xb0\xa8\x81\x9f\xe3\xe1\x9a') for _ in range(rng.randint(0, 10)))
    return 'random-bytes', bytes(rng.randrange(256) for _ in range(rng.randint(0, 10)))


def is_ascii(t):
    return all(c < 128 for c in t)


def nontrivial(text):
    """operand validation / decoding or label resolution decided the outcome, not just line classification"""
    for line in text.split(b'\n'):
        k, l = classify(line)
        if k == 'instr':
            w = l.split(b' ', 1)[0].lower()
            try:
                if w.decode('ascii') in TYPE_OF:
                    return True
            except UnicodeDecodeError:
                pass
    return False


def show(text, limit=400):
    s = text.decode('latin1').encode('unicode_escape').decode('ascii')
    return s if len(s) <= limit else s[:limit] + ' ...'


# ----------------------------------------------------------------------------------------------
# the check
# ----------------------------------------------------------------------------------------------

def run(ctx):
    C.prepare(ctx, PID)
    rng = ctx.rng
    quick = ctx.tier == 'quick'
    oracle_ok, oracle_msg = C.ensure_oracle(ctx, 'parser', ['theories/Parser/Model.vo', 'theories/Isa/Embed.vo'], ['Parser', 'Isa', 'Base'])
    if not oracle_ok:
        ctx.broken.append({'file': 'coq/theories/Parser/Model.v', 'line': None,
                           'lemma': 'model oracle build (extraction of Parser/Model.v)', 'error': oracle_msg[-1500:]})

    n_gen, n_rand, n_mut, n_bytes = (3000, 5000, 36000, 60000) if quick else (12000, 20000, 150000, 300000)
    stats = collections.Counter()        # decoration kinds
    cases = []                           # dicts: text, cat, kind, + what the reference expects

    def add(text, cat, kind, **kw):
        d = dict(text=text, cat=cat, kind=kind)
        d.update(kw)
        cases.append(d)
        return len(cases) - 1

    # corpus: witnesses of the refuted theorems and of the repaired defect
    for t in CANON_WITNESSES:
        plain = {b'foo: # c': b'foo:', b'ret#done': b'ret', b'nop#x:': b'nop'}[t]
        ip = add(plain, 'corpus', 'plain')
        add(t, 'corpus', 'comment-after-label' if t.startswith(b'foo') else 'comment-glued-to-bare-mnemonic', plain=ip, comment_only=True)
    for t in [b'lw t0, 4(', b'sw t0, 4(', b'lb t0, (', b'add\tt0,t1,t2', b'my label:', b'nop t0, 5, x', b'sh t0, 4(t1)', b'a:\nnop\na:',
              b'li t0, 2147483648', b'li t0, 0x10', b'li t0, 010', 'add\u0130 t0, t1, 5'.encode(), b'', b'\n', b':']:
        add(t, 'corpus', 'witness')

    # (a) grammar-directed: canonical text of random programs, and decorations of it
    progs = []
    for i in range(n_gen):
        p = gen_program(rng, PROFILES[i % len(PROFILES)], max_len=rng.choice([12, 16, 25, 40]))
        labs = {}
        progs.append(from_program(p, lambda k: labs.setdefault(k, 'L%d' % k if rng.random() < 0.7 else rng.choice(LABEL_POOL) + str(k))))
    for i in range(n_rand):
        progs.append(rand_prog(rng))
    mnem_seen = collections.Counter()
    for pr in progs:
        for it in pr.instrs():
            mnem_seen[it[1].m] += 1
        ip = add(pr.text(), 'canonical', 'plain', prog=pr)
        for _ in range(2):
            add(decorate(rng, pr, stats), 'decorated', 'proved-class', plain=ip, decorated=True, prog=pr)

    # immediates: every token of HUGE as the operand of li, judged by the decimal reading
    for tok in HUGE + [str(v) for v in isa.LATTICE[::3]]:
        for m, pre in (('li', 't0, '), ('addi', 't1, zero, '), ('lw', 't2, ')):
            tb = tok.encode('utf8')
            text = ('%s %s' % (m, pre)).encode() + tb + (b'(sp)' if m == 'lw' else b'')
            add(b'nop\n' + text + b'\nret', 'immediate', 'huge-immediate', imm=(m, tb))

    # (b) mutations of valid texts
    mut_kinds = collections.Counter()
    tries = 0
    while sum(mut_kinds.values()) < n_mut and tries < 20 * n_mut:
        tries += 1
        pr = progs[rng.randrange(len(progs))]
        if len(pr.items) > 30:
            continue
        kind = MUTATIONS[tries % len(MUTATIONS)]
        t = mutate(rng, pr, kind)
        if t is None:
            continue
        kw = {}
        if kind in COMMENT_ONLY:
            kw = dict(plain=add(pr.text(), 'canonical', 'plain', prog=pr), comment_only=True)
        add(t, 'mutation', kind, **kw)
        mut_kinds[kind] += 1

    # (c) random byte strings
    for _ in range(n_bytes):
        k, t = random_bytes(rng)
        add(t, 'bytes', k)

    texts = [c['text'] for c in cases]
    lines = [case_line(c['text'], texts[c['plain']] if 'plain' in c else None) for c in cases]
    impl = C.run_lines(C.BUILD + '/harness', 'parse', lines, ctx.work, 'go-parse') if ctx.harness_ok else None
    model = C.run_lines(C.BUILD + '/parser_oracle', 'parse', lines, ctx.work, 'coq-parse') if oracle_ok else None

    cex = []          # (priority text length, case index, clause, message)
    tie = []          # (len, index)
    outside = collections.Counter()
    classes = collections.Counter()
    per_cat = collections.defaultdict(collections.Counter)
    distinct_nt = set()
    judged = collections.Counter()
    if impl is not None:
        parsed = [parse_result(r) for r in impl]
        for k, c in enumerate(cases):
            text = c['text']
            cls, pr = parsed[k]
            classes[cls] += 1
            per_cat[c['cat'] + ':' + c['kind']][cls] += 1
            if nontrivial(text):
                distinct_nt.add(text)
            ascii_text = is_ascii(text)
            # -- totality
            if cls in ('panic', 'crash'):
                cex.append((len(text), k, 'totality', 'risc.Parse panics (result %r)' % (impl[k],)))
                continue
            judged['totality'] += 1
            # -- count and labels on accepted ASCII text
            if cls == 'ok' and ascii_text:
                judged['count-and-labels'] += 1
                v = judge_accepted(text, pr)
                if v:
                    cex.append((len(text), k, v[0], v[1]))
                    continue
            # -- canonical text of a well-formed program: accepted, with the instructions it was printed from
            if c['cat'] == 'canonical' and 'prog' in c:
                judged['roundtrip'] += 1
                p = c['prog']
                if cls != 'ok':
                    cex.append((len(text), k, 'roundtrip', 'the canonical text of a well-formed program is rejected'))
                    continue
                exp = p.instrs()
                bad = None
                cand = candidates(text)
                if pr['labels'] != p.label_addrs():
                    bad = 'labels %r, the program defines %r' % (pr['labels'], p.label_addrs())
                elif len(pr['ins']) != len(exp):
                    bad = '%d instructions, the program has %d' % (len(pr['ins']), len(exp))
                else:
                    for j, (it, got) in enumerate(zip(exp, pr['ins'])):
                        f = ins_fields(got)
                        i = it[1]
                        if f is None:
                            bad = 'instruction %d is rendered as %r' % (j, got)
                        elif f[0] != TYPE_OF[i.m]:
                            bad = 'instruction %d (%s) has InstructionType %d, expected %d' % (j, p.lines()[p.items.index(it)], f[0], TYPE_OF[i.m])
                        elif f[1] != i.reads() or f[2] != i.writes():
                            bad = ('instruction %d (%s) reads %s / writes %s, the named registers are %s / %s'
                                   % (j, p.lines()[p.items.index(it)], f[1], f[2], i.reads(), i.writes()))
                        else:
                            v = judge_operands(i, it[2], got, cand)
                            if v:
                                bad = 'instruction %d (%s) %s' % (j, p.lines()[p.items.index(it)], v)
                        if bad:
                            break
                if bad:
                    cex.append((len(text), k, 'operand-decoding', bad))
                    continue
            # -- decimal immediates
            if 'imm' in c:
                judged['decimal-immediate'] += 1
                m, tok = c['imm']
                want = decimal_value(tok.strip(WS)) if is_ascii(tok) else None
                if want is None and cls == 'ok' and is_ascii(tok):
                    cex.append((len(text), k, 'decimal-immediate', 'the operand %r is not a decimal int32 but the text is accepted' % tok.decode('latin1')))
                    continue
                if want is not None:
                    if cls != 'ok':
                        cex.append((len(text), k, 'decimal-immediate', 'the decimal immediate %r is rejected' % tok.decode('latin1')))
                        continue
                    f = ins_fields(pr['ins'][1])
                    got = None
                    if m == 'li':
                        got = int(f[3][0].split(',')[2])
                    elif m == 'addi':
                        got = int(f[3][2].split(',')[2])          # probe with all registers 0
                    elif m == 'lw':
                        got = isa.wrap32(int(pr['ins'][1].split('/')[3][3:-1].split(',')[0]) - (1000 + 37 * 2))   # MemoryRead: sp + offset
                    if got != want:
                        cex.append((len(text), k, 'decimal-immediate', 'the immediate %r is decoded as %s' % (tok.decode('latin1'), got)))
                        continue
            # -- decorations / comments do not change the result
            if 'plain' in c:
                judged['decoration'] += 1
                same = impl[k] == impl[c['plain']]
                if not same and parsed[c['plain']][0] == 'ok':
                    what = 'decoration' if c.get('decorated') else 'comment'
                    cex.append((len(text), k, 'decoration', 'the %s changes the result: plain text %r gives %s, this text gives %s'
                                % (what, show(texts[c['plain']], 200), impl[c['plain']][:160], impl[k][:160])))
                    continue
            # -- tie
            if model is not None and impl[k] != model[k]:
                mcls = parse_result(model[k])[0]
                if ascii_text or mcls != cls:
                    tie.append((len(text), k))
                else:
                    outside['non-ascii text: same outcome class, different detail'] += 1
            if not ascii_text:
                outside['non-ascii texts compared'] += 1

    found = False
    # ---- property failures on the implementation ---------------------------------------------
    if cex:
        found = True
        cex.sort()
        by_clause = collections.Counter(c[2] for c in cex)
        _, k, clause, msg = cex[0]
        rep = {'harness_cmd': 'parse', 'go_case': lines[k], 'text': show(texts[k], 4000), 'text_hex': texts[k].hex(), 'category': cases[k]['cat'],
               'kind': cases[k]['kind'], 'clause': clause, 'message': msg, 'implementation': impl[k], 'model': model[k] if model else None,
               'failures_by_clause': dict(by_clause),
               'replay_cmd': 'printf "%s\\n" "<go_case>" > c.txt; build/harness parse c.txt; build/parser_oracle parse c.txt'}
        if 'plain' in cases[k]:
            rep['plain_text'] = show(texts[cases[k]['plain']], 4000)
            rep['implementation_on_plain_text'] = impl[cases[k]['plain']]
        ctx.violation('counterexample', 'text "%s": %s (clause %s); %d text(s) fail the property %s, %d differ from the model'
                      % (show(texts[k], 300), msg, clause, len(cex), dict(by_clause), len(tie)), rep)
    elif tie:
        tie.sort()
        _, k = tie[0]
        ctx.broken.append({'file': 'coq/theories/Parser/Model.v', 'line': None,
                           'lemma': 'correspondence of the parser model with risc.Parse',
                           'error': 'text "%s" | implementation %s | model %s | %d of the texts differ, the property clauses hold on all of them'
                                    % (show(texts[k], 300), (impl[k] or '')[:300], (model[k] or '')[:300], len(tie)),
                           'harness_cmd': 'parse', 'go_case': lines[k], 'text': show(texts[k], 4000)})
    C.report_broken(ctx, found)

    # ---- evidence -------------------------------------------------------------------------------
    lens = collections.Counter()
    for t in texts:
        n = len(t)
        lens['0-15' if n < 16 else '16-63' if n < 64 else '64-255' if n < 256 else '256-1023' if n < 1024 else '1024+'] += 1
    cats = collections.Counter(c['cat'] for c in cases)
    samples = []
    for cat in ('canonical', 'decorated', 'mutation', 'immediate', 'bytes'):
        idx = [k for k, c in enumerate(cases) if c['cat'] == cat and len(c['text']) < 400]
        for k in rng.sample(idx, min(3, len(idx))):
            samples.append('%s/%s: "%s" -> %s' % (cat, cases[k]['kind'], show(texts[k], 300), (impl[k] if impl else '?')[:80]))
    cov = {
        'evaluations': len(texts) * ((1 if impl is not None else 0) + (1 if model is not None else 0)),
        'distinct_nontrivial': len(distinct_nt),
        'rule': 'texts: (corpus) witnesses of the refuted theorems and of the repaired parseOffsetReg defect; (canonical) the canonical text of %d '
                'random programs: %d from the shared program generator (profiles %s, label names L<k> or odd well-formed words) and %d with '
                'uniformly chosen mnemonics / registers / boundary immediates / repeated and undefined labels; (decorated) two decorations of each: '
                'inside the class of theorem decoration_invariant (blank and comment lines, indentation with blanks tabs \\v \\f \\r, '
                'trailing white space, a trailing comment after a label definition / a bare mnemonic / the last operand with or without '
                'white space before the #, mixed-case mnemonics, final newline); (immediate) every token of a list of %d number spellings as operand of '
                'li / addi / lw; (mutation) %d single edits of canonical texts, kinds %s; (bytes) %d strings: token soup over mnemonics, '
                'registers, punctuation, Unicode white space and invalid UTF-8, ASCII soup, UTF-8 soup, uniformly random bytes incl. NUL.  '
                'Every text is parsed by risc.Parse and by the extracted Coq model and the result lines are compared textually (full line '
                'for ASCII texts; for texts with bytes >= 0x80 a difference only counts when the outcome class differs).  The '
                'implementation output is also judged by the reference in lib/vf/c11.py: no panic (all texts); instruction count and label '
                'addresses (accepted ASCII texts); acceptance, InstructionType, named registers, li values, labels (canonical texts); '
                'decimal reading of immediates; decorated / commented text gives the same result line as the plain text.  '
                'distinct_nontrivial = distinct texts with at least one instruction line whose first word is, case-insensitively, one of '
                'the 45 mnemonics, so that operand validation and decoding, not only line classification, decided the outcome'
                % (len(progs), n_gen, ','.join(PROFILES), n_rand, len(HUGE) + len(isa.LATTICE[::3]), sum(mut_kinds.values()),
                   ', '.join(MUTATIONS), n_bytes),
        'samples': samples,
        'exhaustive': False,
        'texts_per_category': dict(cats),
        'outcome_classes_implementation': dict(classes),
        'outcome_classes_per_category_and_kind': {k: dict(v) for k, v in sorted(per_cat.items())},
        'mutation_kinds': dict(mut_kinds),
        'decoration_kinds_applied': dict(stats),
        'mnemonics_in_canonical_programs': dict(mnem_seen),
        'mnemonics_covered': '%d of 45' % len(mnem_seen),
        'text_length_distribution_bytes': dict(lens),
        'texts_with_non_ascii_bytes': sum(1 for t in texts if not is_ascii(t)),
        'outside_domain': dict(outside),
        'clauses_judged_on_implementation_outputs': dict(judged),
        'property_failures_on_implementation': len(cex),
        'mismatch_impl_vs_model': len(tie),
        'theorems': C.theorem_names(C.COQ + '/theories/Props/C11.v'),
    }
    return C.finish(ctx, 'proof', cov,
                    ['the model Parser/Model.v is exact for ASCII texts (all bytes < 128), which is what the theorems quantify over; for texts with bytes '
                     '>= 0x80 it implements the Unicode cases of strings.TrimSpace / strings.ToLower known to matter (white-space runes, U+0130, '
                     'U+212A) and is compared by outcome class; parse_total holds for all byte strings',
                     'correspondence of the hand-written model with risc/parser.go is sampled (generated texts), not proved',
                     'parsed instructions are observed through InstructionRunner (InstructionType, ReadRegisters, WriteRegisters, MemoryRead/Write, '
                     'six Run probes, bisection for slti); the oracle renders the model\'s instruction with Isa/Spec.v, which risc/opcodes.go '
                     'refines (C02); operands with no observable effect (e.g. the immediate of slti with rd = zero) are not compared',
                     'label_address_exact assumes a text shorter than 2^29 bytes (beyond that the int32 pc of the implementation wraps; '
                     'label_address states the wrapped value)',
                     'no known finding is excluded: the comment-handling defect found by this check was repaired in /repo (24eb26f) and its '
                     'witnesses (foo: # c, ret#done, nop#x:) run as ordinary cases'],
                    'make -C /verif/coq theories/Props/C11.vo (coqc 8.16.1)')
