"""C15 - speculative register state commits and rolls back by program order.

Decided by: the theorems of coq/theories/Props/C15.v about the hand-written
models Comp/Rat.v (proc/comp/rat.go) and Comp/Tx.v (risc/app.go Context,
registerRead of risc/opcodes.go)  -- proof, all histories.
Tie (this file, every run): the Go harness drives comp.RAT and risc.Context
through exported API only (commands rat, tx, txrat); the OCaml extraction of the
models executes the same histories; the result lines are compared textually.
Search / classification: a tiny independent reference (per register the list of
tagged writes since the last commit/rollback) evaluates the property's clauses on
the IMPLEMENTATION's outputs for the histories that satisfy the property's
hypotheses.  Property fails on the implementation => counterexample (replay =
shrunk history); model and implementation differ while the property holds =>
broken correspondence (no-failing-input-found).

History formats (one case line = one whole history, ops separated by spaces):
  rat   : <ring length> TAB ops   w:k:tag:val  r:k  f:k:t (Find tag<=t)  v (Values)  fv:s (FindValues tag<s)
  tx    : ops   (Transaction map, NewContext(rat=false))
  txrat : ops   (rename tables,   NewContext(rat=true))
          W:r:v WriteRegister   t:r:v:s speculative write of v to r by sequence id s
          r:r:s[:fr:fv] value `mv t6, r` computes for sequence id s (0 = plain) [with Forward{fr, fv}]
          c Commit/RATCommit   b:s Rollback/RATRollback(s)   i InitRAT   l RATFlush
Result: per-op outputs joined by ';' (reads: the value; W/c/b/i/l: Registers, sorted,
non-zero; t: -), then end=<Registers>.
"""
import itertools
from . import common as C

SLOTS_CTX = 10   # risc.ratLength


# ---------------------------------------------------------------- encoding
def enc(op):
    return ':'.join(str(x) for x in op)


def ops_line(ops):
    return ' '.join(enc(o) for o in ops)


def dump(regs):
    return '[' + ','.join('%d:%d' % (k, regs[k]) for k in sorted(regs) if regs[k] != 0) + ']'


# ---------------------------------------------------------------- independent reference of the property
def youngest(l, pred):
    """(tag, value) with the greatest tag satisfying pred among l (arrival order); later arrival wins ties."""
    best = None
    for tv in l:
        if pred(tv[0]) and (best is None or tv[0] >= best[0]):
            best = tv
    return best


class Res:
    __slots__ = ('fails', 'clauses', 'exceeds', 'separating', 'alive', 'disorder', 'maxpend')

    def __init__(self):
        self.fails = []        # (op index, expected, got)
        self.clauses = 0       # property clauses evaluated
        self.exceeds = False   # some register had more uncommitted writes than slots
        self.separating = False  # a rollback / FindValues whose tag separates >= 2 uncommitted writes of one register
        self.alive = True      # hypotheses held up to the end (all clauses evaluated)
        self.disorder = False  # some write arrived against tag order
        self.maxpend = 0


def eval_ctx(ops, out, rat):
    """Evaluate the property's clauses on the outputs `out` of the implementation for history `ops`."""
    res = Res()
    slots = SLOTS_CTX if rat else 1
    toks = out.split(';') if out is not None else []
    if len(toks) != len(ops) + 1:
        res.fails.append((-1, 'one output per operation', out))
        return res
    regs, arch, pend = {}, {}, {}
    disordered = set()
    seen_other = False
    for i, op in enumerate(ops):
        k, got, exp = op[0], toks[i], None
        if k == 'W':
            if rat and seen_other:
                res.alive = False     # Registers written behind the rename tables: outside the discipline
                break
            regs[op[1]] = op[2]
            exp = dump(regs)
        else:
            if rat and not seen_other and k != 'i' and regs:
                res.alive = False     # RAT discipline starts with InitRAT
                break
            seen_other = True
        if k == 't':
            r, v, s = op[1], op[2], op[3]
            l = pend.setdefault(r, [])
            if l and s <= max(t for t, _ in l):
                disordered.add(r)
                res.disorder = True
            l.append((s, v))
            res.maxpend = max(res.maxpend, len(l))
            if len(l) > slots:
                res.exceeds = True
            exp = '-'
        elif k == 'r':
            r, s = op[1], op[2]
            committed = arch.get(r, 0) if rat else regs.get(r, 0)
            l = pend.get(r, [])
            if len(op) == 5 and op[3] == r:
                exp = str(op[4])                       # forward register takes precedence
            elif len(op) == 3 and r == 0:
                exp = None                             # zero-value Forward names register 0: not the property's business
            elif s == 0:
                if r not in disordered:                # plain read: youngest uncommitted write, else committed value
                    y = youngest(l, lambda t: True)
                    exp = str(y[1] if y else committed)
            else:                                      # never a value written by a younger instruction
                res.clauses += 1
                allowed = set(v for t, v in l if t <= s)
                allowed.add(committed)
                try:
                    ok = int(got) in allowed
                except ValueError:
                    ok = False
                if not ok:
                    res.fails.append((i, 'one of %s' % sorted(allowed), got))
        elif k == 'c':
            if any(pend[r] and r in disordered for r in pend):
                res.alive = False
                break
            for r, l in pend.items():
                if l:
                    (arch if rat else regs)[r] = youngest(l, lambda t: True)[1]
            pend, disordered = {}, set()
            exp = dump(regs)
        elif k == 'b':
            s = op[1]
            for r, l in pend.items():
                ts = [t for t, _ in l]
                if len(ts) >= 2 and min(ts) < s <= max(ts):
                    res.separating = True
            if any(pend[r] and (r in disordered or len(pend[r]) > slots) for r in pend):
                res.alive = False
                break
            for r, l in pend.items():
                y = youngest(l, lambda t: t < s)
                if y:
                    (arch if rat else regs)[r] = y[1]
            pend, disordered = {}, set()
            exp = dump(regs)
        elif k == 'i':
            for r in regs:
                arch[r] = regs[r]
            exp = dump(regs)
        elif k == 'l':
            for r in arch:
                regs[r] = arch[r]
            exp = dump(regs)
        if exp is not None:
            res.clauses += 1
            if got != exp:
                res.fails.append((i, exp, got))
    if res.alive:
        res.clauses += 1
        if toks[-1] != 'end=' + dump(regs):
            res.fails.append((len(ops), 'end=' + dump(regs), toks[-1]))
    return res


def eval_ring(length, ops, out):
    """The ring alone: Read/Values = youngest write, Find/FindValues = youngest write satisfying the bound,
    while the writes to the key arrive in tag order and (for Find/FindValues) fit the ring."""
    res = Res()
    toks = out.split(';') if out is not None else []
    if length <= 0:
        res.alive = False
        return res
    if len(toks) != len(ops):
        res.fails.append((-1, 'one output per operation', out))
        return res
    pend, disordered = {}, set()

    def fm(tv):
        return 'none' if tv is None else '%d/%d' % tv

    for i, op in enumerate(ops):
        k, got, exp = op[0], toks[i], None
        if k == 'w':
            key, t, v = op[1], op[2], op[3]
            l = pend.setdefault(key, [])
            if l and t <= max(x for x, _ in l):
                disordered.add(key)
                res.disorder = True
            l.append((t, v))
            res.maxpend = max(res.maxpend, len(l))
            if len(l) > length:
                res.exceeds = True
            exp = '-'
        elif k == 'r':
            key = op[1]
            if key not in disordered:
                exp = fm(youngest(pend.get(key, []), lambda t: True))
        elif k == 'f':
            key, b = op[1], op[2]
            l = pend.get(key, [])
            if key not in disordered and len(l) <= length:
                exp = fm(youngest(l, lambda t: t <= b))
            else:
                res.clauses += 1
                if got != 'none' and got not in set(fm(tv) for tv in l if tv[0] <= b):
                    res.fails.append((i, 'a write with tag <= %d or none' % b, got))
        elif k == 'v':
            if not disordered:
                exp = '{' + ','.join('%d=%s' % (key, fm(youngest(pend[key], lambda t: True))) for key in sorted(pend)) + '}'
        elif k == 'fv':
            s = op[1]
            for key, l in pend.items():
                ts = [t for t, _ in l]
                if len(ts) >= 2 and min(ts) < s <= max(ts):
                    res.separating = True
            if not disordered and all(len(l) <= length for l in pend.values()):
                parts = []
                for key in sorted(pend):
                    y = youngest(pend[key], lambda t: t < s)
                    if y:
                        parts.append('%d=%s' % (key, fm(y)))
                exp = '{' + ','.join(parts) + '}'
        if exp is not None:
            res.clauses += 1
            if got != exp:
                res.fails.append((i, exp, got))
    return res


# ---------------------------------------------------------------- generators
TAGS5 = [1, 2, 3, 4, 5]
EXV = [100, 0, 102, 103, 104]   # values of the 1st, 2nd, ... write of an enumerated history (one of them 0)


def exhaustive_ring():
    """All write sequences over 2 keys x 5 tags up to length 4 (ring 2,3,4), length 5 over 3 tags (ring 2),
    each followed by every observation."""
    cases = []
    obs = [('r', 1), ('r', 2), ('v',)] + [('f', k, t) for k in (1, 2) for t in TAGS5] + [('fv', s) for s in range(1, 7)]

    def seqs(alpha, kmax):
        for k in range(kmax + 1):
            for ws in itertools.product(alpha, repeat=k):
                yield [('w', key, t, EXV[j]) for j, (key, t) in enumerate(ws)]

    alpha5 = [(key, t) for key in (1, 2) for t in TAGS5]
    alpha3 = [(key, t) for key in (1, 2) for t in (1, 3, 5)]
    for length in (2, 3, 4):
        for ws in seqs(alpha5, 4):
            cases.append((length, ws + obs))
    for ws in seqs(alpha3, 5):
        if len(ws) == 5:
            cases.append((2, ws + obs))
    for length in (0, 1, -1):
        for ws in seqs(alpha3, 2):
            cases.append((length, ws + obs))
    return cases


def exhaustive_ctx(rat):
    """(a) initial values, every write sequence over 2 registers x 5 tags up to length 4, every read, every
    commit / rollback(1..6), [flush], plain reads;  (b) two windows of up to 2 writes over 3 tags each."""
    cases = []
    init = [('W', 5, 7), ('W', 6, 9)] + ([('i',)] if rat else [])
    reads = [('r', r, t) for r in (5, 6) for t in [0] + TAGS5]
    after = ([('l',)] if rat else []) + [('r', 5, 0), ('r', 6, 0)]
    terms = [[('c',)]] + [[('b', s)] for s in range(1, 7)]
    alpha5 = [(r, t) for r in (5, 6) for t in TAGS5]
    for k in range(5):
        for ws in itertools.product(alpha5, repeat=k):
            wops = [('t', r, EXV[j], t) for j, (r, t) in enumerate(ws)]
            for term in terms:
                cases.append(init + wops + reads + term + after)
    alpha_a = [(r, t) for r in (5, 6) for t in (1, 3, 5)]
    alpha_b = [(r, t) for r in (5, 6) for t in (2, 4, 6)]
    terms2 = [[('c',)], [('b', 2)], [('b', 4)], [('b', 6)]]
    w1s = [list(ws) for k in range(3) for ws in itertools.product(alpha_a, repeat=k)]
    w2s = [list(ws) for k in range(3) for ws in itertools.product(alpha_b, repeat=k)]
    short_reads = [('r', 5, 0), ('r', 6, 3)]
    for w1 in w1s:
        o1 = [('t', r, EXV[j], t) for j, (r, t) in enumerate(w1)]
        for t1 in terms2:
            for w2 in w2s:
                o2 = [('t', r, 200 + j, t) for j, (r, t) in enumerate(w2)]
                for t2 in terms2:
                    cases.append(init + o1 + short_reads + t1 + ([('l',)] if rat else []) + o2 + short_reads + t2 + after)
    return cases


class Vals:
    """distinct values, so that "which write did this value come from" is decidable"""

    def __init__(self, rng):
        self.n = 100
        self.rng = rng

    def next(self):
        self.n += 1
        c = self.rng.random()
        if c < 0.04:
            return 0          # a speculative value 0 must overwrite a non-zero register too
        if c < 0.8:
            return self.n
        if c < 0.95:
            return -self.n
        return 2147483647 - self.n


def random_ctx(rng, rat, mode, n):
    """mode: within (tag order, within the slots) | beyond (tag order, no bound) | arbitrary (any tag order)"""
    slots = SLOTS_CTX if rat else 1
    vals = Vals(rng)
    ops = []
    for r in rng.sample([5, 6, 7], rng.randint(0, 3)):
        ops.append(('W', r, vals.next()))
    if rat and (ops or rng.random() < 0.5):
        ops.append(('i',))
    regs = [5, 6, 7]
    hot = rng.choice(regs)
    tagctr = rng.choice([0, 0, 5, 1000])
    pend = {}
    wr, cm, rb = (50, 8, 10) if mode != 'beyond' else (62, 3, 4)
    while len(ops) < n:
        c = rng.randint(1, 100)
        if c <= wr:
            r = hot if rng.random() < 0.5 else rng.choice(regs)
            if mode == 'within' and len(pend.get(r, [])) >= slots:
                free = [x for x in regs if len(pend.get(x, [])) < slots]
                if not free or rng.random() < 0.4:
                    c = 100 - rng.randint(0, cm + rb - 1)   # resolve instead
                    r = None
                else:
                    r = rng.choice(free)
            if r is not None:
                if mode == 'arbitrary':
                    s = rng.randint(1, 12) if rng.random() < 0.8 else tagctr + rng.randint(1, 20)
                else:
                    tagctr += rng.randint(1, 3)
                    s = tagctr
                pend.setdefault(r, []).append(s)
                ops.append(('t', r, vals.next(), s))
                continue
        if c <= wr + 28:
            r = rng.choice(regs)
            allt = [t for l in pend.values() for t in l]
            if rng.random() < 0.3:
                s = 0
            elif allt and rng.random() < 0.8:
                s = max(1, rng.choice(allt) + rng.choice([-1, 0, 0, 1]))
            else:
                s = rng.randint(1, max(2, tagctr + 3))
            q = rng.random()
            if q < 0.06:
                ops.append(('r', r, s, r, vals.next()))
            elif q < 0.12:
                ops.append(('r', r, s, rng.choice([x for x in regs if x != r]), vals.next()))
            elif q < 0.14:
                ops.append(('r', 0, s))
            else:
                ops.append(('r', r, s))
            continue
        if c > 100 - cm:
            ops.append(('c',))
            pend = {}
        elif c > 100 - cm - rb:
            allt = [t for l in pend.values() for t in l]
            if allt and rng.random() < 0.85:
                s = max(1, rng.choice(allt) + rng.choice([-1, 0, 1, 1]))
            else:
                s = rng.randint(1, max(2, tagctr + 3))
            ops.append(('b', s))
            pend = {}
        else:
            if rat and rng.random() < 0.6:
                ops.append(('l',))
            elif mode == 'arbitrary' and rng.random() < 0.3:
                ops.append(('W', rng.choice(regs), vals.next()))
            elif rat and mode == 'arbitrary' and rng.random() < 0.2:
                ops.append(('i',))
            continue
        if rat and rng.random() < 0.7:
            ops.append(('l',))
    return ops


def random_ring(rng, mode, n):
    length = rng.choice([1, 2, 2, 3, 3, 4, 5, 6, 7, 8, 9, 10, 10])
    vals = Vals(rng)
    keys = [1, 2, 3]
    hot = rng.choice(keys)
    tagctr = 0
    seen = []
    ops = []
    while len(ops) < n:
        c = rng.randint(1, 100)
        if c <= 50:
            key = hot if rng.random() < 0.5 else rng.choice(keys)
            if mode == 'arbitrary':
                t = rng.randint(1, 12)
            else:
                tagctr += rng.randint(1, 3)
                t = tagctr
            seen.append(t)
            ops.append(('w', key, t, vals.next()))
        elif c <= 60:
            ops.append(('r', rng.choice(keys)))
        elif c <= 80:
            t = rng.choice(seen) + rng.choice([-1, 0, 0, 1]) if seen else 1
            ops.append(('f', rng.choice(keys), t))
        elif c <= 88:
            ops.append(('v',))
        else:
            s = rng.choice(seen[-2 * length:]) + rng.choice([-1, 0, 1, 1]) if seen else 1
            ops.append(('fv', s))
    return length, ops


# ---------------------------------------------------------------- shrinking a failing history
def shrink(cmd, prefix, ops, fails_fn, workdir, with_model=False):
    """Remove operations one at a time while fails_fn(history, implementation output, model output) holds."""
    cur = list(ops)
    for _ in range(400):
        cands = [cur[:i] + cur[i + 1:] for i in range(len(cur))]
        if not cands:
            break
        lines = [prefix + ops_line(c) for c in cands]
        outs = C.run_lines(C.BUILD + '/harness', cmd, lines, workdir, 'shrink', shards=1)
        mouts = C.run_lines(C.BUILD + '/tx_oracle', cmd, lines, workdir, 'shrinkm', shards=1) if with_model else [None] * len(lines)
        nxt = None
        for c, o, m in zip(cands, outs, mouts):
            if fails_fn(c, o, m):
                nxt = c
                break
        if nxt is None:
            break
        cur = nxt
    return cur


def bucket(n):
    for b in (8, 16, 24, 50, 100, 150, 200):
        if n <= b:
            return '<=%d' % b
    return '>200'


# ---------------------------------------------------------------- the check
def run(ctx):
    C.prepare(ctx, 'C15')
    rng = ctx.rng
    thorough = ctx.tier == 'thorough'
    oracle_ok, oracle_log = C.ensure_oracle(ctx, 'tx', ['theories/Comp/Tx.vo'], ['Comp', 'Base'])
    if not oracle_ok:
        ctx.broken.append({'file': 'coq/theories/Extract/TxOracle.v', 'line': None,
                           'lemma': 'extraction of the models Comp/Rat.v, Comp/Tx.v (oracle tx)', 'error': oracle_log[-1500:]})

    n_rand = 12000 if thorough else 1500
    groups = {}     # name -> list of (cmd, prefix, ops, evaluator)
    ring_cases = exhaustive_ring()
    groups['ring_exhaustive'] = ('rat', [(l, o) for l, o in ring_cases])
    rr = []
    for mode in ('ordered', 'arbitrary'):
        for _ in range(n_rand):
            rr.append(random_ring(rng, mode, rng.randint(20, 200)))
    groups['ring_random'] = ('rat', rr)
    for rat, cmd in ((False, 'tx'), (True, 'txrat')):
        groups[cmd + '_exhaustive'] = (cmd, [(None, o) for o in exhaustive_ctx(rat)])
        rc = []
        for mode in ('within', 'beyond', 'arbitrary'):
            for _ in range(n_rand):
                rc.append((None, random_ctx(rng, rat, mode, rng.randint(20, 200))))
        groups[cmd + '_random'] = (cmd, rc)
    # the witnesses of the _refuted theorems and the examples of the proofs, as histories
    groups['tx_witnesses'] = ('tx', [(None, o) for o in [
        [('t', 5, 1, 1), ('t', 5, 2, 5), ('b', 3)],
        [('t', 5, 1, 9), ('t', 5, 2, 3), ('c',)],
        [('W', 5, 7), ('t', 5, 0, 3), ('c',)], [('W', 5, 7), ('t', 5, 0, 3), ('b', 4)],
        [('W', 5, 7), ('W', 6, 9), ('t', 5, 11, 3), ('t', 6, 12, 8), ('r', 5, 4), ('b', 5), ('t', 6, 13, 9), ('t', 7, 14, 10), ('c',)]]])
    groups['txrat_witnesses'] = ('txrat', [(None, o) for o in [
        [('t', 5, 100 + i, i) for i in range(1, 12)] + [('r', 5, 1), ('b', 2), ('l',)],
        [('t', 5, 1, 9), ('t', 5, 2, 3), ('c',), ('l',)],
        [('W', 5, 7), ('i',), ('t', 5, 0, 3), ('c',), ('l',)], [('W', 5, 7), ('i',), ('t', 5, 0, 3), ('b', 4), ('l',), ('r', 5, 0)],
        [('t', 5, 1, 4), ('t', 5, 2, 2), ('t', 5, 3, 9), ('b', 5), ('l',)],
        [('W', 5, 7), ('W', 6, 9), ('i',), ('t', 5, 11, 3), ('t', 6, 12, 8), ('t', 5, 15, 9), ('r', 5, 4), ('b', 5), ('l',),
         ('t', 6, 13, 9), ('t', 7, 14, 10), ('c',), ('l',)]]])

    stats = {}
    found = False
    total_hist = total_ops = total_clauses = 0
    nontrivial = set()
    opmix, lens = {}, {}
    samples = []
    tie_mismatch = {}
    prop_fail = {}
    for name, (cmd, cases) in groups.items():
        lines = []
        for length, ops in cases:
            lines.append(('%d\t' % length if cmd == 'rat' else '') + ops_line(ops))
        impl = C.run_lines(C.BUILD + '/harness', cmd, lines, ctx.work, 'go-' + name) if ctx.harness_ok else [None] * len(lines)
        model = C.run_lines(C.BUILD + '/tx_oracle', cmd, lines, ctx.work, 'ml-' + name) if oracle_ok else None
        st = {'histories': len(lines), 'operations': 0, 'property_clauses': 0, 'hypotheses_hold_to_the_end': 0,
              'exceed_slot_bound': 0, 'out_of_tag_order': 0, 'separating_rollback': 0, 'impl_vs_model_mismatch': 0,
              'property_failures': 0, 'max_uncommitted_writes_to_one_register': 0}
        for k, (length, ops) in enumerate(cases):
            if not ctx.harness_ok:
                break
            res = eval_ring(length, ops, impl[k]) if cmd == 'rat' else eval_ctx(ops, impl[k], cmd == 'txrat')
            st['operations'] += len(ops)
            st['property_clauses'] += res.clauses
            st['hypotheses_hold_to_the_end'] += res.alive and not res.disorder and not res.exceeds
            st['exceed_slot_bound'] += res.exceeds
            st['out_of_tag_order'] += res.disorder
            st['separating_rollback'] += res.separating
            st['max_uncommitted_writes_to_one_register'] = max(st['max_uncommitted_writes_to_one_register'], res.maxpend)
            if res.separating and res.maxpend >= 2:
                nontrivial.add(cmd + '|' + lines[k])
            for o in ops:
                key = cmd + ':' + o[0]
                opmix[key] = opmix.get(key, 0) + 1
            b = bucket(len(ops))
            lens[b] = lens.get(b, 0) + 1
            if res.fails:
                st['property_failures'] += 1
                cur = prop_fail.get(cmd)
                if cur is None or len(ops) < len(cur[1]):
                    prop_fail[cmd] = (length, ops, res.fails[0], impl[k])
            if model is not None and impl[k] != model[k]:
                st['impl_vs_model_mismatch'] += 1
                cur = tie_mismatch.get(cmd)
                if cur is None or len(ops) < len(cur[1]):
                    tie_mismatch[cmd] = (length, ops, impl[k], model[k])
        total_hist += len(lines)
        total_ops += st['operations']
        total_clauses += st['property_clauses']
        stats[name] = st
        short = [j for j in range(len(lines)) if len(lines[j]) <= 500] or list(range(len(lines)))
        for j in rng.sample(short, min(2, len(short))):
            samples.append({'command': cmd, 'history': lines[j], 'implementation': impl[j]})

    # ---- classification
    for cmd, (length, ops, fail, out) in prop_fail.items():
        found = True
        prefix = '%d\t' % length if cmd == 'rat' else ''
        if cmd == 'rat':
            fails_fn = lambda o, outp, _m, length=length: bool(eval_ring(length, o, outp).fails)
        else:
            fails_fn = lambda o, outp, _m, rat=(cmd == 'txrat'): bool(eval_ctx(o, outp, rat).fails)
        small = shrink(cmd, prefix, ops, fails_fn, ctx.work)
        line = prefix + ops_line(small)
        outp = C.run_lines(C.BUILD + '/harness', cmd, [line], ctx.work, 'final', shards=1)[0]
        res = eval_ring(length, small, outp) if cmd == 'rat' else eval_ctx(small, outp, cmd == 'txrat')
        f = res.fails[0] if res.fails else fail
        what = 'operation %d (%s)' % (f[0], enc(small[f[0]]) if 0 <= f[0] < len(small) else 'end state')
        ctx.violation('counterexample',
                      '%s history "%s": %s gave %s, the property requires %s | outputs: %s' % (cmd, line, what, f[2], f[1], outp),
                      {'command': cmd, 'history': line, 'failing_operation_index': f[0], 'observed': f[2], 'required': f[1],
                       'implementation_outputs': outp, 'unshrunk_history': prefix + ops_line(ops),
                       'replay_cmd': 'printf "%%s\\n" "<history>" > c.txt; build/harness %s c.txt' % cmd})
    for cmd, (length, ops, im, mo) in tie_mismatch.items():
        if cmd in prop_fail:
            continue
        prefix = '%d\t' % length if cmd == 'rat' else ''
        small = shrink(cmd, prefix, ops, lambda o, outp, m: outp != m, ctx.work, with_model=True)
        line = prefix + ops_line(small)
        im = C.run_lines(C.BUILD + '/harness', cmd, [line], ctx.work, 'final', shards=1)[0]
        mo = C.run_lines(C.BUILD + '/tx_oracle', cmd, [line], ctx.work, 'finalm', shards=1)[0]
        ctx.broken.append({'file': 'coq/theories/Comp/%s.v' % ('Rat' if cmd == 'rat' else 'Tx'), 'line': None,
                           'lemma': 'correspondence of the model with the implementation (command %s)' % cmd,
                           'error': 'the property holds on every generated history that satisfies its hypotheses, but the code no longer '
                                    'behaves as the model the theorems are about: history "%s" | implementation: %s | model: %s'
                                    % (line, im, mo),
                           'history': line, 'command': cmd})
    C.report_broken(ctx, found)

    cov = {
        'evaluations': total_hist,
        'distinct_nontrivial': len(nontrivial),
        'rule': 'a case is one whole history executed on the implementation and on the extracted model and compared textually; '
                'bounded exhaustive: ring = every sequence of <= 4 writes over 2 keys x 5 tags for ring lengths 2,3,4 (and of 5 writes '
                'over 3 tags for length 2, <= 2 writes for lengths 0,1,-1), each followed by every Read, Find(tag<=1..5), Values and '
                'FindValues(tag<1..6); Context (tx and txrat) = initial values, every sequence of <= 4 speculative writes over 2 registers '
                'x 5 tags, every read (plain and tags 1..5), each of commit / rollback(1..6), [flush], plain reads, plus two consecutive '
                'windows of <= 2 writes each with 4 terminal operations each; random: %d histories per mode and command, length 20-200, '
                '3 registers, modes = tag-ordered within the slots / tag-ordered beyond the slots / arbitrary tag order. '
                'non-trivial = distinct histories in which some register (key) has >= 2 uncommitted writes and a rollback '
                '(FindValues) tag s separates them (min tag < s <= max tag)' % n_rand,
        'samples': samples,
        'operations': total_ops,
        'property_clauses_evaluated_on_implementation': total_clauses,
        'groups': stats,
        'op_mix': dict(sorted(opmix.items())),
        'history_length_distribution': lens,
        'histories_exceeding_slot_bound': sum(s['exceed_slot_bound'] for s in stats.values()),
        'histories_out_of_tag_order': sum(s['out_of_tag_order'] for s in stats.values()),
        'impl_vs_model_mismatches': sum(s['impl_vs_model_mismatch'] for s in stats.values()),
        'property_failures_on_implementation': sum(s['property_failures'] for s in stats.values()),
        'model_oracle': oracle_ok,
        'exhaustive': False,
        'theorems': C.theorem_names(C.COQ + '/theories/Props/C15.v'),
    }
    return C.finish(ctx, 'proof', cov,
                    ['writes to one register arrive in increasing tag order (tags_increasing): guaranteed by the processors that block '
                     'write-after-write hazards; without it the committed value is the last arrival (C15_*_commit_last_arrival_refuted)',
                     'rollback and tagged reads: at most 1 (Transaction map) / 10 (ratLength) uncommitted writes per register; what is lost '
                     'beyond is C15_map_rollback_beyond_slot_refuted / C15_rat_rollback_beyond_slots_refuted',
                     'RAT discipline: InitRAT after the last WriteRegister (C15_rat_registers_agree); reads of a register equal to the '
                     'forward register return the forwarded value',
                     'Go map iteration order is a hint argument of the model; theorems hold for every hint '
                     '(C15_map_order_independent, C15_rat_order_independent, C15_iteration_orders)',
                     'register values and tags are int32; tag 0 means "plain read"'],
                    'make -C /verif/coq theories/Props/C15.vo (coqc 8.16.1)')
