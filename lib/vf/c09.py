"""C09 - returning from the program completes everything older than the return."""
from . import syscheck, sysdiff as S

PROFILES = [('tail', 3), ('ssamem', 2), ('ssald', 1.5), ('ldonly', 1), ('touched', 1), ('hazard', 1), ('mixed', 1), ('ssabr1', 1.5)]


def run(ctx):
    return syscheck.run(
        ctx, 'C09', ['C09', 'C05_mvp4s', 'C05_mvp5s'], PROFILES, S.PIPELINED, n_quick=100, n_thorough=1500,
        assumptions=['the exit is by ret (75 %) or by running past the last instruction (25 %)'],
        text_rule='programs whose last 1-4 instructions before the exit are cache-missing loads, stores to uncached lines and dependent chains; '
                  'MVP-4..8 x parallelism 1..4 inside the calibrated domains; non-trivial = a load or a store within the last four executed instructions (tag tail) or any load')
