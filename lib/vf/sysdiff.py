"""System-level differential: every processor variant against the extracted sequential machine."""
import collections
import os
from . import common as C
from .progs import gen_program

VARIANTS = ['1', '2', '3', '4', '5', '6.0', '6.1', '6.2', '6.3', '7.0', '7.1', '8.0']
PIPELINED = VARIANTS[3:]
MULTI = VARIANTS[5:]
FUEL = 200000
FEATURES = ['cold-store-then-load', 'store-then-load', 'store-store-line', 'load-then-store', 'stores', 'loads', 'gt16-lines']
PROFILES = ['alu', 'ssa', 'ssald', 'ssamem', 'ssabr', 'ssabr1', 'hazard', 'branch', 'loops', 'shadow', 'ldslow', 'ldonly', 'disj', 'touched', 'mem', 'evict', 'evictlf', 'stld', 'tail', 'mixed', 'err']


def pars_of(variant):
    return [1, 2, 3, 4] if variant in MULTI else [1]


def parse_spec(line):
    """ok steps=N r=.. m=..  |  err kind steps=N  | outoffuel"""
    if line is None:
        return ('crash', 0, '', '')
    t = line.split(' ')
    if t[0] == 'ok':
        d = dict(x.split('=', 1) for x in t[1:])
        return ('ok', int(d['steps']), d.get('r', ''), d.get('m', ''), d.get('acc', ''), d.get('path', ''))
    if t[0] == 'err':
        return ('err:' + t[1], int(t[2].split('=')[1]), '', '')
    return (t[0], 0, '', '')


def parse_impl(line):
    """ok c=N r=.. m=.. t=N | err kind | panic msg | budget ticks=N | CRASH ... | parse-error"""
    if line is None:
        return ('crash', 0, '', '', 0)
    t = line.split(' ')
    if t[0] == 'ok':
        d = dict(x.split('=', 1) for x in t[1:])
        return ('ok', int(d['c']), d.get('r', ''), d.get('m', ''), int(d.get('t', 0)))
    if t[0] == 'err':
        return ('err:' + t[1], 0, '', '', 0)
    if t[0] == 'CRASH':
        return ('crash', 0, '', '', 0)
    if t[0] == 'hang':
        return ('hang', 0, '', '', 0)
    return (t[0], 0, ' '.join(t[1:]), '', 0)


def budget_for(steps):
    # C07: a fixed multiple of executed instructions times the slowest memory latency
    return 4 * (309 + 60) * (steps + 20)


def run_spec(ctx, progs, tag='spec'):
    lines = [p.spec_case(FUEL) for p in progs]
    out = C.run_lines(C.BUILD + '/spec_oracle', 'seq', lines, ctx.work, tag)
    return [parse_spec(o) for o in out], lines


def run_impl(ctx, jobs, tag='impl', timeout=600):
    """jobs: list of (prog, variant, par, budget) -> parsed results, case lines"""
    lines = [p.go_case(v, par, b) for (p, v, par, b) in jobs]
    exe = os.environ.get('VERIF_HARNESS', C.BUILD + '/harness')
    out = C.run_lines(exe, 'run', lines, ctx.work, tag, timeout=timeout)
    # 'hang' (the harness's wall-clock watchdog) and a dead process depend on machine load, not
    # only on the code: such cases are run again, few at a time, with a generous wall-clock
    # limit, and the second answer stands (a real hang or crash repeats)
    again = [i for i, o in enumerate(out) if o is None or o.startswith('hang') or o.startswith('CRASH')]
    if again and len(again) <= 200:
        old_env = os.environ.get('VERIF_CASE_TIMEOUT')
        os.environ['VERIF_CASE_TIMEOUT'] = '120'
        try:
            out2 = C.run_lines(exe, 'run', [lines[i] for i in again], ctx.work, tag + '-again', timeout=max(timeout, 900), shards=4)
        finally:
            if old_env is None:
                os.environ.pop('VERIF_CASE_TIMEOUT', None)
            else:
                os.environ['VERIF_CASE_TIMEOUT'] = old_env
        for i, o in zip(again, out2):
            out[i] = o
        ctx.rerun_wallclock = getattr(ctx, 'rerun_wallclock', 0) + len(again)
    return [parse_impl(o) for o in out], lines, out


def verdict(spec, impl):
    """'' when the implementation result equals the sequential result, else a short reason"""
    sk = spec[0]
    ik = impl[0]
    if sk == 'ok':
        if ik != 'ok':
            return ik
        if impl[2] != spec[2]:
            return 'regs'
        if impl[3] != spec[3]:
            return 'mem'
        return ''
    if sk.startswith('err:'):
        if sk in ('err:divzero', 'err:label'):
            return '' if ik == sk else 'expected-%s-got-%s' % (sk, ik)
        return ''    # outside the supported subset (bounds): no requirement
    return ''


def clone_with_items(p, items):
    from .progs import Program
    q = Program()
    q.items = list(items)
    q.nlabels = p.nlabels
    q.memsize = p.memsize
    q.regs = dict(p.regs)
    q.mem = dict(p.mem)
    q.tags = set(p.tags)
    q.profile = p.profile
    return q


def eval_one(ctx, p, variant, par, tag='shrink'):
    spec, _ = run_spec(ctx, [p], tag + 's')
    s = spec[0]
    if s[0] not in ('ok',) and not s[0].startswith('err:'):
        return None, s, None
    impl, _, raw = run_impl(ctx, [(p, variant, par, budget_for(s[1]))], tag + 'i', timeout=60)
    return verdict(s, impl[0]), s, raw[0]


def shrink(ctx, p, variant, par, want=None, max_evals=400):
    """Delta-debugging on the instruction list (labels are kept), then on the initial state.
    Keeps any failure of the same class."""
    v0, s0, _ = eval_one(ctx, p, variant, par)
    if not v0:
        return p
    cls = want or v0
    evals = 0
    items = list(p.items)
    changed = True
    while changed and evals < max_evals:
        changed = False
        n = len(items)
        chunk = max(1, n // 2)
        while chunk >= 1 and evals < max_evals:
            i = 0
            while i < len(items) and evals < max_evals:
                cand = items[:i] + items[i + chunk:]
                if any(k == 'ins' for k, _ in items[i:i + chunk]):
                    q = clone_with_items(p, cand)
                    evals += 1
                    v, s, _ = eval_one(ctx, q, variant, par)
                    if v and (v == cls or v.split(':')[0] == cls.split(':')[0]) and s[0] == s0[0]:
                        items = cand
                        changed = True
                        continue
                i += chunk
            chunk //= 2
    q = clone_with_items(p, items)
    # initial state
    for d in ('regs', 'mem'):
        cur = dict(getattr(q, d))
        for k in list(cur):
            if evals >= max_evals:
                break
            trial = dict(cur)
            del trial[k]
            r = clone_with_items(q, q.items)
            setattr(r, d, trial)
            if d == 'regs':
                r.mem = dict(q.mem)
            else:
                r.regs = dict(q.regs)
            evals += 1
            v, s, _ = eval_one(ctx, r, variant, par)
            if v and v.split(':')[0] == cls.split(':')[0] and s[0] == s0[0]:
                cur = trial
                setattr(q, d, dict(cur))
    return q


def accesses(spec):
    """[(kind, addr, size)] of a parsed spec result"""
    if len(spec) < 5 or not spec[4]:
        return []
    out = []
    for t in spec[4].split(','):
        if t:
            k, a, n = t.split(':')
            out.append((k, int(a), int(n)))
    return out


def features(prog, spec):
    """Dynamic features of a run used by the per-variant domains (DESIGN.md section 6)."""
    f = set()
    acc = accesses(spec)
    seen = {}
    for k, a, n in acc:
        for line in {a // 64, (a + n - 1) // 64}:
            h = seen.setdefault(line, '')
            if k == 'l' and 's' in h and not h.startswith('l'):
                f.add('cold-store-then-load')       # load of a line first touched by a store
            if k == 'l' and 's' in h:
                f.add('store-then-load')
            if k == 's' and 's' in h:
                f.add('store-store-line')
            if k == 's' and 'l' in h:
                f.add('load-then-store')
            seen[line] = h + k
    if any(k == 's' for k, _, _ in acc):
        f.add('stores')
    if any(k == 'l' for k, _, _ in acc):
        f.add('loads')
    lines = {a // 64 for _, a, _ in acc}
    if len(lines) > 16:
        f.add('gt16-lines')
    return f
