"""C06 - MSI coherence invariants hold at every cycle on the multi-core variants.

Proof: coq/theories/Props/C06.v about the abstract machine Msi/Protocol.v (mvp7-0 / mvp7-1): the
       invariant is inductive for the code as it is without flush and for the repaired protocol with
       flush; cacheController.flush as coded is refuted by three witness traces.
       coq/theories/Props/C06_l3.v about the three-level machine Msi/L3Protocol.v (mvp8-0: L1s / shared
       L3 / memory): with the repaired L3 refill the invariant (next level = L3 copy if present, else
       memory), the L3 clauses (one copy per line, aligned, within capacity) and the data-value
       property (current value = last value written) hold in every reachable state; for the L3 refill
       AS CODED clauses 1, 3, 5 and the L3 structure are proved and clause 2, occupancy and data value
       are refuted by witness traces (the three L3 findings of known_findings.json).
Property on the implementation, per cycle: the cache controllers + MSI directory of mvp7-0, mvp7-1,
       mvp8-0 are driven (a) without a pipeline by scripts of load/store requests in the order CPU.Run
       uses (tools/harness/msi.go `msi-rig`; hook proc/<variant>/verif_rig.go) and (b) by whole programs
       on the real CPU (`msi-run`, snapshot at every VerifTick); after every cycle the state is
       snapshotted and the extracted boolean invariants (Msi/Invariant.v `violated`: clauses 1-5 of the
       property + the supporting conjuncts; Msi/L3Invariant.v `violated3`: L3 well-formed / within
       capacity / clean lines equal memory, and - rig only - the current value of every written line
       is the last completed write) are evaluated on it by build/msi_oracle.
       A violated clause or a panic of the controllers on a concrete script / program is a
       counterexample, unless the trace shows the trigger of a listed defect of cacheController.flush
       (known_findings.json), which is recognised from two consecutive snapshots (`flush_marks`).
"""
import collections
import concurrent.futures
import itertools
import os
import re
import subprocess

from . import common as C
from .progs import gen_program

PID = 'C06'
VARIANTS = ['7.0', '7.1', '8.0']
CLAUSES = ['C1_single_writer', 'C2_shared_clean', 'C3_l1_iff_valid', 'C4_l1_wellformed', 'C5_lock_counters']
SUPPORT = ['S_command_matches_state', 'S_counters_match_transactions', 'S_wellformed', 'S_read_returns_latest_write']
# Msi/L3Invariant.v (violated3): the L3 clauses of MVP-8.0 and the data-value clause (rig scripts, all variants)
L3_CLAUSES = ['L3_wellformed', 'L3_within_capacity', 'L3_clean_matches_memory', 'D_current_value_is_last_write']
# what the stale L3 line of the refill race produces first
L3_STALE_FIRST = {'S_read_returns_latest_write', 'L3_clean_matches_memory', 'D_current_value_is_last_write'}


def l3_capacity():
    """number of lines of the shared L3 of MVP-8.0, read off the source (the snapshot exporter does not
    report it): l3CacheSize / l3CacheLineSize of proc/mvp8-0/cpu.go"""
    try:
        src = open(os.path.join(C.REPO, 'proc/mvp8-0/cpu.go')).read()
        unit = {'bytes': 1, 'kilobytes': 1024}
        line = re.search(r'l3CacheLineSize\s*=\s*(\d+)\s*\*\s*(\w+)', src)
        size = re.search(r'l3CacheSize\s*=\s*(\d+)\s*\*\s*(\w+)', src)
        return (int(size.group(1)) * unit[size.group(2)]) // (int(line.group(1)) * unit[line.group(2)])
    except Exception:
        return 32
# panics raised by the controllers / the semaphore / the cache on a protocol error
PROTOCOL_PANICS = ['write is negative', 'read is negative', 'invalid state', "cache line doesn't exist",
                   'memory address should exist', 'unknown ']
# unambiguous in every setting: the semaphore's own checks
SEM_PANICS = ['write is negative', 'read is negative']


# ----------------------------------------------------------------------------------------------
# running harness | oracle
# ----------------------------------------------------------------------------------------------

def _run_shard(args):
    cmd, path, n, timeout = args
    harness = os.environ.get('VERIF_HARNESS', C.BUILD + '/harness')
    res = [None] * n
    start = 0
    while start < n:
        sh = '%s %s %s %d | %s cases -' % (harness, cmd, path, start, C.BUILD + '/msi_oracle')
        try:
            p = subprocess.run(sh, shell=True, capture_output=True, text=True, timeout=timeout,
                               env=dict(C.ENV, MSI_L3CAP=str(l3_capacity())))
            out = p.stdout
        except subprocess.TimeoutExpired as e:
            out = e.stdout.decode() if isinstance(e.stdout, bytes) else (e.stdout or '')
        got = -1
        for l in out.split('\n'):
            if l.startswith('case '):
                idx = int(l.split(' ', 2)[1])
                if 0 <= idx < n:
                    res[idx] = l
                    got = max(got, idx)
        nxt = max(got, start - 1) + 1
        if nxt >= n:
            break
        # the pipeline died on case nxt (fatal Go error / watchdog): mark it, go on behind it
        res[nxt] = 'CRASH'
        start = nxt + 1
    return res


def run_cases(ctx, cmd, lines, tag, timeout=600, shards=16):
    """harness <cmd> | msi_oracle cases, sharded round-robin (long and short cases are mixed evenly).
    One oracle line (or 'CRASH') per case."""
    n = len(lines)
    if n == 0:
        return []
    shards = max(1, min(shards, n))
    jobs = []
    for k in range(shards):
        mine = lines[k::shards]
        path = os.path.join(ctx.work, '%s.%d.cases' % (tag, k))
        with open(path, 'w') as f:
            for l in mine:
                f.write(l + '\n')
        jobs.append((cmd, path, len(mine), timeout))
    with concurrent.futures.ThreadPoolExecutor(max_workers=shards) as ex:
        parts = list(ex.map(_run_shard, jobs))
    out = [None] * n
    for k, p in enumerate(parts):
        out[k::shards] = p
    return out


def parse_result(line):
    """oracle line -> dict"""
    if line is None or line == 'CRASH':
        return {'crash': True, 'viol': [], 'marks': [], 'outcome': 'crash', 'snaps': 0, 'cycles': 0, 'nviol': 0,
                'tr': {}, 'l1evict': 0, 'l1max': 0, 'cmds': 0, 'panic': None}
    head, _, tail = line.partition(' | ')
    d = {'crash': False}
    for w in head.split(' ')[4:]:
        k, _, v = w.partition('=')
        d[k] = v
    d['snaps'], d['cycles'], d['nviol'] = int(d['snaps']), int(d['cycles']), int(d['nviol'])
    d['viol'] = [] if d['viol'] == '-' else [tuple(x.rsplit('@', 1)) for x in d['viol'].split(',')]
    d['marks'] = [] if d['marks'] == '-' else [tuple(x.rsplit('@', 1)) for x in d['marks'].split(',')]
    d['viol'] = [(n, int(c)) for n, c in d['viol']]
    d['marks'] = [(n, int(c)) for n, c in d['marks']]
    d['panic'] = None
    toks = tail.split(' ')
    d['outcome'] = toks[0]
    d['site'] = ''
    if toks[0] == 'panic':
        i = next((k for k, t in enumerate(toks) if t.startswith('at=')), len(toks))
        msg = toks[1:i]
        if msg and msg[-1].startswith('in='):
            d['site'] = msg[-1][3:]
            msg = msg[:-1]
        d['panic'] = ' '.join(msg)
    d['tr'] = {}
    d['l1evict'] = d['l1max'] = d['cmds'] = 0
    d['tail'] = tail
    for t in toks:
        if t.startswith('tr=') and t != 'tr=-':
            for kv in t[3:].split(','):
                a, b = kv.split(':')
                d['tr'][a] = int(b)
        elif t.startswith('l1evict='):
            d['l1evict'] = int(t[8:])
        elif t.startswith('l1max='):
            d['l1max'] = int(t[6:])
        elif t.startswith('cmds='):
            d['cmds'] = int(t[5:])
        elif t.startswith('completed='):
            d['completed'] = int(t[10:])
        elif t.startswith('dataerrs='):
            d['dataerrs'] = int(t[9:])
        elif t.startswith('dataerr=') and t != 'dataerr=-':
            # rig only: a completed read did not return the last completed write (harness-level reference)
            w = t[8:].split(':')
            cyc = next((int(x.split('@')[1]) for x in w if '@' in x), d['cycles'])
            d['viol'].append(('S_read_returns_latest_write', cyc))
            d['dataerr'] = t[8:]
    return d


# ----------------------------------------------------------------------------------------------
# rig scripts
# ----------------------------------------------------------------------------------------------

def req(core, delay, kind, addr, val=None):
    if kind == 'R':
        return 'q %d %d R %d 4' % (core, delay, addr)
    return 'q %d %d W %d %s' % (core, delay, addr, ','.join(str(v) for v in (val or [7, 7, 7, 7])))


def rig_case(variant, cores, items, memsize=1024, maxcycles=None, seed=3):
    nreq = sum(1 for i in items if i.startswith('q'))
    if maxcycles is None:
        maxcycles = 1200 * (nreq + 2) + max([int(i.split()[2]) for i in items if i.startswith('q')] + [0])
    return '%s\t%d\t%d\tpat:%d\t%d\t%s' % (variant, cores, memsize, seed, maxcycles, ';'.join(items))


def window(variant):
    """every start offset at which a second request can meet a first one in a different phase"""
    return 330 if variant != '8.0' else 480


def coarse_offsets(variant):
    if variant != '8.0':
        return [0, 1, 2, 4, 150, 307, 308, 309, 310, 311, 312, 313, 314, 316, 400, 618, 622, 626, 640]
    return [0, 1, 3, 49, 50, 51, 52, 53, 54, 57, 200, 357, 359, 360, 361, 362, 364, 409, 410, 411, 412, 413, 414, 415, 416, 420, 470, 520, 780]


def exhaustive_scripts(variant, quick):
    """bounded-exhaustive scripts without flush: (case line, descr)"""
    out = []
    W = window(variant)
    # k = 2: two cores, one line, every kind, every start offset in the window, either core first
    for ka, kb in itertools.product('RW', repeat=2):
        for d in range(0, W + 1):
            for first in (0, 1):
                a = req(first, 0, ka, 64 + 4)
                b = req(1 - first, d, kb, 64 + 8, [9, 9])
                out.append((rig_case(variant, 2, [a, b, 'x']), 'k2'))
    co = coarse_offsets(variant)
    # k = 3: three cores, one request each, one line, coarse offsets
    for kinds in itertools.product('RW', repeat=3):
        for d1 in co:
            for d2 in co:
                items = [req(0, 0, kinds[0], 64), req(1, d1, kinds[1], 64 + 4, [5]), req(2, d2, kinds[2], 64 + 9, [6, 6])]
                out.append((rig_case(variant, 3, items + ['x']), 'k3-3cores'))
    # k = 3: two cores, the first issues two requests back to back (gap 0..1), lines 64 / 128
    for kinds in itertools.product('RW', repeat=3):
        for l2 in (64, 128):
            for gap in (0, 1):
                for d in co:
                    items = [req(0, 0, kinds[0], 64), req(0, gap, kinds[1], l2 + 3, [4]), req(1, d, kinds[2], 64 + 5, [8])]
                    out.append((rig_case(variant, 2, items + ['x']), 'k3-2cores'))
    # k = 4: two cores, two requests each, two lines, coarse offsets
    co4 = co
    for kinds in itertools.product('RW', repeat=4):
        for lines in itertools.product((64, 128), repeat=2):
            for d in co4:
                for gap in (0, 1):
                    items = [req(0, 0, kinds[0], 64), req(0, gap, kinds[1], lines[0] + 1, [3]),
                             req(1, d, kinds[2], 64 + 2, [2]), req(1, gap, kinds[3], lines[1] + 7, [1, 1])]
                    out.append((rig_case(variant, 2, items + ['x']), 'k4'))
    return out


def flush_scripts(variant, quick):
    """one request flushed at every cycle of its life, in every start state of the line, followed by
    requests of the same and of another core (the triggers of the listed flush defects are in here)"""
    out = []
    W = window(variant)
    step = 1 if not quick else 1
    for prep in ('', 'R', 'W'):              # state of the line at core 0 before: Invalid / Shared / Modified
        for kind in 'RW':
            for f in range(0, W + 8, step):
                for after in ('R', 'W'):
                    items = []
                    t0 = 0
                    if prep:
                        items.append(req(0, 0, prep, 64))
                        t0 = 700 if variant != '8.0' else 1000
                    items.append(req(0, t0 if not prep else t0 - (320 if variant != '8.0' else 470), kind, 64 + 1, [5]))
                    items.append('f %d 0' % (t0 + f + 1))
                    items.append(req(0, 3, after, 64 + 2, [6]))
                    items.append(req(1, t0 + f + 5, 'W' if after == 'R' else 'R', 64 + 3, [7]))
                    out.append((rig_case(variant, 2, items), 'flush-%s%s' % (prep or 'I', kind)))
    return out


def random_script(rng, variant, cores, nreq, nlines, memsize, flush_p=0.0):
    lines = rng.sample(range(0, memsize // 64), min(nlines, memsize // 64))
    items = []
    for c in range(cores):
        for _ in range(nreq):
            l = rng.choice(lines) * 64
            kind = 'W' if rng.random() < 0.45 else 'R'
            off = rng.randrange(0, 61)
            delay = rng.choice([0, 0, 0, 1, 2, 5, 20, 300])
            items.append(req(c, delay, kind, l + off, [rng.randrange(-128, 128) for _ in range(rng.choice([1, 2, 4]))]))
    rng.shuffle(items)
    if not flush_p:
        items.append('x')
    if flush_p:
        horizon = nreq * 330
        for _ in range(max(1, int(flush_p * nreq * cores))):
            items.append('f %d %d' % (rng.randrange(1, horizon), rng.randrange(cores)))
    return rig_case(variant, cores, items, memsize=memsize, maxcycles=nreq * cores * 1300 + 2000, seed=rng.randrange(1, 200))


# ----------------------------------------------------------------------------------------------
# attribution of a failing case to the listed defects of cacheController.flush
# ----------------------------------------------------------------------------------------------

PANIC_OF_ORPHAN = ("cache line doesn't exist", 'memory address should exist', 'invalid state: expected')


def first_bad(r):
    """cycle at which the first clause is violated (None when only a panic / nothing)"""
    return min((c for _, c in r['viol']), default=None)


def is_protocol_panic(r, pipeline=False):
    """rig scripts keep to the controllers' contract (addresses >= 0, a request inside one line), so every
    panic of the controllers there is a protocol error.  In pipeline runs the execute units also send
    requests outside that contract (negative / line-crossing addresses computed on a wrong path), which
    makes getFromL1 / GetSubCacheLine panic without any protocol error: there only the semaphore's own
    panics count by themselves; any other panic counts when a clause was violated before it."""
    if r['outcome'] != 'panic':
        return False
    if pipeline and r['marks'] and any(p in (r['panic'] or '') for p in PROTOCOL_PANICS):
        return True     # a flush trigger was seen before: to be attributed (or reported)
    return any(p in (r['panic'] or '') for p in (SEM_PANICS if pipeline else PROTOCOL_PANICS))


def failing(r, pipeline=False):
    return bool(r['viol']) or is_protocol_panic(r, pipeline)


def attribute(r, has_flush):
    """-> mark kind of the known finding this failure is an instance of, or None (= new).
    A finding is recognised by its trigger (a flush mark in the snapshots) occurring no later than
    the first thing that goes wrong, and by the first thing that goes wrong being what that trigger
    produces.  Scripts without any flush can never be attributed."""
    fb = first_bad(r)
    if r['variant_hint'] == '8.0' and any(m.startswith('l3_double_victim') for m, c in r['marks']) and \
            'memory address should exist' in (r['panic'] or '') and 'coSnoop' in r.get('site', '') and fb is None:
        return 'l3_double_victim'
    # the same defect seen as occupancy: more lines than capacity + outstanding victim commands means that a
    # victim was named twice (two cores with l3Evict commands, or one core whose read did not wait for its command)
    if r['variant_hint'] == '8.0' and fb is not None and \
            set(n for n, c in r['viol'] if c == fb) == {'L3_within_capacity'}:
        return 'l3_double_victim'
    # an l3Evict command (fixed when the victim was named) ran on a line that was written into meanwhile
    if r['variant_hint'] == '8.0' and fb is not None and \
            set(n for n, c in r['viol'] if c == fb) <= {'D_current_value_is_last_write', 'S_read_returns_latest_write'} and \
            any(m.startswith('l3_evict_dirty') and c <= fb for m, c in r['marks']):
        return 'l3_evict_dirty'
    if r['variant_hint'] == '8.0' and fb is not None and \
            set(n for n, c in r['viol'] if c == fb) <= L3_STALE_FIRST and \
            any(m.startswith('l3_stale') and c <= fb for m, c in r['marks']):
        return 'l3_stale'
    if not has_flush:
        return None
    limit = fb if fb is not None else 10 ** 12
    marks = [(m.split(':')[0], c) for m, c in r['marks'] if c <= limit]
    kinds = set(k for k, _ in marks)
    firstv = set(n for n, c in r['viol'] if c == fb) if fb is not None else set()
    panic = r['panic'] or ''
    if 'own_read' in kinds and ('C5_lock_counters' in firstv or 'read is negative' in panic):
        return 'own_read'
    if 'filled' in kinds and 'C3_l1_iff_valid' in firstv and any(k == 'filled' and c == fb for k, c in marks):
        return 'filled'
    if 'orphan_cmd' in kinds and (any(p in panic for p in PANIC_OF_ORPHAN) and fb is None
                                  or firstv & {'S_counters_match_transactions', 'S_command_matches_state', 'C3_l1_iff_valid'}):
        return 'orphan_cmd'
    if 'stale_lock' in kinds and (firstv & {'S_counters_match_transactions', 'C5_lock_counters'}
                                  or (fb is None and 'is negative' in panic)):
        return 'stale_lock'
    return None


def shrink_script(ctx, line, want):
    """drop script items while the case keeps failing with the same first clause"""
    f = line.split('\t')
    items = f[5].split(';')
    evals = 0
    changed = True
    while changed and evals < 40:
        changed = False
        for k in range(len(items)):
            cand = items[:k] + items[k + 1:]
            if not any(x.startswith('q') for x in cand):
                continue
            l2 = '\t'.join(f[:5] + [';'.join(cand)])
            evals += 1
            r = parse_result(run_cases(ctx, 'msi-rig', [l2], 'shrink', timeout=60, shards=1)[0])
            if failing(r) and signature(r) == want:
                items = cand
                changed = True
                break
    return '\t'.join(f[:5] + [';'.join(items)])


def signature(r):
    fb = first_bad(r)
    return (tuple(sorted(n for n, c in r['viol'] if c == fb)) if fb is not None else ()), (r['panic'] or '')[:30]


def describe(r):
    fb = first_bad(r)
    parts = []
    if r['viol']:
        parts.append('violated: ' + ', '.join('%s (first at cycle %d)' % (n, c) for n, c in sorted(r['viol'], key=lambda x: x[1])))
    if r['outcome'] == 'panic':
        parts.append('Go panic: "%s"' % r['panic'])
    if r['marks']:
        parts.append('flush marks: ' + ', '.join('%s@%d' % m for m in r['marks']))
    return '; '.join(parts)


# ----------------------------------------------------------------------------------------------
# the check
# ----------------------------------------------------------------------------------------------

def run(ctx):
    C.prepare(ctx, ['C06', 'C06_l3', 'C06_mvp70'])
    rng = ctx.rng
    quick = ctx.tier == 'quick'
    ok_or, out_or = C.ensure_oracle(ctx, 'msi', ['theories/Msi/Invariant.vo', 'theories/Msi/L3Invariant.vo'], ['Msi'])
    if not ok_or:
        ctx.broken.append({'file': 'coq/theories/Extract/MsiOracle.v', 'line': None,
                           'lemma': 'extraction of the snapshot judges inv_b / l3_b', 'error': out_or[-800:]})
    found = False
    known = [e for e in C.load_known(PID) if e.get('status') == 'known']
    by_mark = {e.get('mark'): e for e in known}
    known_hits = collections.Counter()
    known_example = {}
    stats = collections.Counter()
    trans = collections.Counter()
    by_kind = collections.Counter()
    cores_hist = collections.Counter()
    lines_hist = collections.Counter()
    outcomes = collections.Counter()
    nontrivial = set()
    contended = set()
    samples = []
    evaluations = 0
    snaps_total = 0
    reported = collections.Counter()

    def account(kind, line, r, variant, cores):
        nonlocal evaluations, snaps_total
        evaluations += r['cycles']
        snaps_total += r['snaps']
        by_kind[kind] += 1
        cores_hist[cores] += 1
        outcomes[variant + ':' + r['outcome']] += 1
        for k, v in r['tr'].items():
            trans[variant + ':' + k] += v
        stats['l1_lines_leaving'] += r['l1evict']
        stats['snoop_commands'] += r['cmds']
        if r['l1max'] > 16:
            stats['cases_with_capacity_eviction'] += 1
        if r['cmds'] >= 1 and (r['tr'].get('MI', 0) + r['tr'].get('SI', 0)) >= 1:
            nontrivial.add(line)
        if r['tr'].get('MI', 0) >= 1 and sum(r['tr'].values()) >= 3:
            contended.add(line)
        f = line.split('\t')
        if len(f) == 6 and f[0] in VARIANTS:       # a rig script: distinct L1 lines it touches
            ls = set(int(it.split()[4]) // 64 for it in f[5].split(';') if it.startswith('q'))
            n = len(ls)
            lines_hist['1' if n == 1 else '2' if n == 2 else '3-16' if n <= 16 else '17-32' if n <= 32 else '>32'] += 1

    def judge(kind, cmd, line, r, variant, cores, has_flush):
        """classify one case; report a new violation"""
        nonlocal found
        r['variant_hint'] = variant
        pipeline = cmd == 'msi-run'
        if r['crash']:
            stats['harness_crashes'] += 1
            return
        if r['outcome'] in ('maxcycles', 'budget'):
            stats['not_completed:' + variant + (':flush' if has_flush else '')] += 1
        if r['outcome'] == 'panic' and not failing(r, pipeline):
            stats['panics_without_invariant_violation:%s:%s' % (variant, (r['panic'] or '')[:40])] += 1
        if not failing(r, pipeline):
            return
        mark = attribute(r, has_flush)
        if mark is not None and mark in by_mark:
            known_hits[mark] += 1
            if mark not in known_example:
                known_example[mark] = (cmd, line, describe(r))
            return
        sig = (variant,) + signature(r)
        reported[sig] += 1
        if reported[sig] > 1 or len(reported) > 6:
            stats['further_violating_cases_not_listed'] += 1
            found = True
            return
        found = True
        small = line
        if cmd == 'msi-rig':
            try:
                small = shrink_script(ctx, line, signature(r))
                r2 = parse_result(run_cases(ctx, 'msi-rig', [small], 'shrunk', timeout=60, shards=1)[0])
                r2['variant_hint'] = variant
                if failing(r2):
                    r = r2
                else:
                    small = line
            except Exception as e:       # shrinking is best effort
                small = line
        ctx.violation('counterexample',
                      'MVP-%s, %d cores, %s: %s -- %s' % (variant, cores, cmd, describe(r),
                                                          small.split('\t')[-1][:300] if cmd == 'msi-rig' else 'program of %d instructions' % (small.split('\t')[6].count('|') + 1)),
                      {'command': 'harness ' + cmd, 'case': small, 'original_case': line, 'variant': variant, 'cores': cores,
                       'violated': r['viol'], 'outcome': r['outcome'], 'panic': r['panic'], 'flush_marks': r['marks'],
                       'generator': kind,
                       'how_to_replay': 'printf "%%s\\n" "$CASE" > c; build/harness %s c | build/msi_oracle snap -' % cmd})

    if ctx.harness_ok and ok_or:
        # ---- (0) witnesses of the known findings, replayed first --------------------------------
        for e in known:
            wl = e.get('witness_case')
            if not wl:
                continue
            for variant in VARIANTS:
                if e.get('variants') and variant not in e['variants']:
                    continue
                line = e.get('witness_cases', {}).get(variant, wl).replace('VARIANT', variant)
                r = parse_result(run_cases(ctx, 'msi-rig', [line], 'known', timeout=60, shards=1)[0])
                r['variant_hint'] = variant
                account('known-witness', line, r, variant, int(line.split('\t')[1]))
                if failing(r) and attribute(r, True) == e.get('mark'):
                    known_hits[e['mark']] += 1
                    known_example.setdefault(e['mark'], ('msi-rig', line, describe(r)))
                elif failing(r):
                    judge('known-witness', 'msi-rig', line, r, variant, int(line.split('\t')[1]), True)
                else:
                    ctx.notes.append('witness of %s no longer fails on MVP-%s' % (e['id'], variant))

        # ---- (1) bounded-exhaustive rig scripts, no flush ---------------------------------------
        batches = []
        for variant in VARIANTS:
            for line, kind in exhaustive_scripts(variant, quick):
                batches.append((kind, 'msi-rig', line, variant, False))
        # ---- (2) one request flushed at every cycle of its life ---------------------------------
        for variant in VARIANTS:
            for line, kind in flush_scripts(variant, quick):
                batches.append((kind, 'msi-rig', line, variant, True))
        # ---- (3) random long scripts with capacity evictions (no flush) and with random flushes -
        n_long = 24 if quick else 200
        for variant in VARIANTS:
            for k in range(n_long):
                cores = 1 + k % 4
                memsize = 8192 if variant == '8.0' else rng.choice([2048, 4096])
                nlines = rng.randint(18, 30) if variant != '8.0' else rng.randint(40, 70)
                batches.append(('random-capacity', 'msi-rig',
                                random_script(rng, variant, cores, rng.randint(30, 45) if quick else rng.randint(40, 80), nlines, memsize), variant, False))
            for k in range(n_long * 12):
                cores = rng.choice([2, 3, 4])
                batches.append(('random-contention', 'msi-rig',
                                random_script(rng, variant, cores, rng.randint(4, 12), rng.choice([1, 2, 3]), 1024), variant, False))
            for k in range(n_long * 20):
                cores = rng.choice([2, 3, 4])
                batches.append(('random-flush', 'msi-rig',
                                random_script(rng, variant, cores, rng.randint(3, 8), rng.choice([1, 2, 3]), 1024,
                                              flush_p=rng.choice([0.1, 0.2, 0.5])), variant, True))
        lines = [b[2] for b in batches]
        t_rig = C.time.time()
        res = run_cases(ctx, 'msi-rig', lines, 'rig', timeout=600)
        C.log('[C06] %d rig scripts in %.1fs' % (len(lines), C.time.time() - t_rig))
        for (kind, cmd, line, variant, has_flush), raw in zip(batches, res):
            r = parse_result(raw)
            cores = int(line.split('\t')[1])
            account(kind, line, r, variant, cores)
            judge(kind, cmd, line, r, variant, cores, has_flush)
        for kind in ('k2', 'k3-3cores', 'k4', 'flush-IR', 'random-capacity', 'random-flush'):
            s = next((b[2] for b in batches if b[0] == kind), None)
            if s:
                samples.append({'generator': kind, 'msi-rig case': s[:400]})

        # ---- (4) whole programs on the real CPU, snapshot at every tick --------------------------
        n_prog = 4500 if quick else 30000
        jobs = []
        for k in range(n_prog):
            prof = ['mem', 'stld', 'mixed', 'touched', 'disj'][k % 5]
            p = gen_program(rng, prof, max_len=rng.choice([12, 25, 40, 60]))
            variant = VARIANTS[k % 3]
            par = 1 + (k // 3) % 4
            jobs.append((prof, p.go_case(variant, par, 120000), variant, par))
        t_run = C.time.time()
        res = run_cases(ctx, 'msi-run', [j[1] for j in jobs], 'run', timeout=600)
        C.log('[C06] %d pipeline runs in %.1fs' % (len(jobs), C.time.time() - t_run))
        for (prof, line, variant, par), raw in zip(jobs, res):
            r = parse_result(raw)
            account('program-' + prof, line, r, variant, par)
            judge('program-' + prof, 'msi-run', line, r, variant, par, True)
        samples.append({'generator': 'program-mem', 'msi-run case': jobs[0][1][:400]})

    for mark, n in sorted(known_hits.items()):
        e = by_mark[mark]
        cmd, line, what = known_example[mark]
        ctx.known_finding('%s: %s [%d case(s) in this run; e.g. %s: %s]' %
                          (e['id'], e['what'][:220], n, what[:200], line.split('\t')[-1][:160] if cmd == 'msi-rig' else 'a generated program'))
    C.report_broken(ctx, found)
    coverage = {
        'evaluations': evaluations,
        'distinct_snapshots_judged': snaps_total,
        'distinct_nontrivial': len(nontrivial),
        'rule': 'evaluations = cycles of the implementation whose snapshot was judged by the extracted invariant (a snapshot '
                'equal to the previous one is judged once and counted with its multiplicity). Cases: bounded-exhaustive rig '
                'scripts without flush (k=2: every kind pair x either core first x EVERY start offset in the window 0..330 '
                '(8.0: 0..480); k=3: three cores one line, and two cores with two back-to-back requests, on a coarse offset '
                'grid around the latency boundaries; k=4: two cores x two requests on two lines, coarse grid), one request '
                'flushed at every cycle of its life from every start state, random long scripts touching > 16 lines per core '
                '(8.0: > 32 L3 lines), random contention scripts with and without random flushes, and whole programs '
                '(profiles mem/stld/mixed/touched/disj) on the real CPU with 1..4 cores. A case is non-trivial when at least '
                'one snoop command was sent and a core lost a line (transition M->I or S->I), i.e. two cores contended for '
                'a line with a write involved, or a capacity eviction happened; distinct = distinct case lines. Rig scripts are '
                'additionally checked against a harness-level data reference (a completed read returns the last completed '
                'write, memory after Export holds the last writes): supporting clause S_read_returns_latest_write; the same '
                'reference is exported per cycle (field REF of the S line) and the extracted clause D_current_value_is_last_write '
                'checks that the Modified copy, else the L3 copy, else memory of every written line equals it. On MVP-8.0 the '
                'extracted L3 clauses are judged on every snapshot: L3_wellformed (no two copies, aligned, full lines), '
                'L3_within_capacity (lines <= capacity + outstanding L3 victim commands; capacity read off cpu.go), '
                'L3_clean_matches_memory (a line not marked dirty equals memory).',
        'samples': samples,
        'cases_by_generator': dict(by_kind),
        'cores': {str(k): v for k, v in sorted(cores_hist.items())},
        'distinct_lines_per_rig_script': dict(lines_hist),
        'outcomes': dict(outcomes),
        'state_transitions_seen': dict(trans),
        'cases_with_M_to_I_and_3plus_transitions': len(contended),
        'statistics': dict(stats),
        'known_finding_instances': dict(known_hits),
        'exhaustive': False,
        'notes': ctx.notes,
        'l3_capacity_lines_read_off_source': l3_capacity(),
        'clauses_judged': CLAUSES + SUPPORT + L3_CLAUSES,
        'not_covered': 'no step_ok refinement check between consecutive snapshots and the abstract transitions; the '
                       'per-line L3 mutex (msi.l3Lock) is not in the three-level machine (it is exported and ignored); '
                       'the data-value clause needs a reference of completed writes and is therefore judged on rig '
                       'scripts only (not on whole-program runs, not after the first injected flush)',
    }
    assumptions = [
        'the snapshot hooks (proc/comp/verif_msi.go, proc/mvp7-0|7-1|8-0/verif_rig.go) copy the state faithfully; the rig '
        'drives the controllers in the order CPU.Run does (snoop of every core, then the cores in order)',
        'latencies inside the coroutines are abstracted to "eventually" in the machine; the implementation is observed once per cycle',
        'transfer in progress (clause 3) on a snapshot = the core is inside a read/write transaction on that line '
        '(coroutine past its start and line in rlockSems/lockSems); in the machine = the phases between fill and settle',
        'random exploration is sampled; the proofs cover every interleaving of the abstract machines (Msi/Protocol.v for '
        'MVP-7.0/7.1, Msi/L3Protocol.v for MVP-8.0); the L3 capacity is not in the snapshot and is read off '
        'proc/mvp8-0/cpu.go (l3CacheSize / l3CacheLineSize)',
    ]
    return C.finish(ctx, 'proof', coverage, assumptions,
                    'cd coq && make theories/Props/C06.vo theories/Props/C06_l3.vo  (coqc 8.16.1; Print Assumptions: closed)')
