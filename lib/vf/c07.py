"""C07 - every run terminates: no deadlock, livelock or panic; defined errors are values."""
from . import syscheck, sysdiff as S

PROFILES = [('err', 2), ('alu', 1), ('ssa', 1), ('ssamem', 1), ('ssald', 1), ('evictlf', 0.3), ('branch', 1), ('loops', 1), ('shadow', 1), ('ldonly', 1), ('touched', 1), ('disj', 1), ('mem', 1), ('mixed', 1), ('tail', 1)]


def run(ctx):
    return syscheck.run(
        ctx, 'C07', ['C07', 'C05_mvp3', 'C01_mvp4', 'C05_mvp4', 'C01_mvp5', 'C05_mvp5', 'C12_mvp61', 'C01_mvp60', 'C12_mvp62', 'C12_mvp63', 'C01_mvp61', 'C01_mvp62'], PROFILES, S.VARIANTS, n_quick=50, n_thorough=1500,
        assumptions=['cycle budget per run = 4*(MemoryAccess+60)*(executed instructions+20) VerifTick ticks, derived from the sequential run; '
                     'exceeding it, a recovered Go panic, or a dead harness process (Go-level deadlock) is a violation inside the domain',
                     'programs of the err profile reach a division by zero or an undefined label: the run must return that error value'],
        text_rule='all program profiles plus programs that reach a defined error; 12 variants x parallelism 1..4 inside the calibrated domains; '
                  'non-trivial = any program with a tagged mechanism; failures are classified budget / panic / crash / wrong-error')
