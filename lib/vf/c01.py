"""C01 - every processor variant computes the sequential architectural result."""
from . import syscheck, sysdiff as S

PROFILES = [('alu', 1), ('ssa', 1), ('hazard', 1), ('branch', 1), ('loops', 1), ('shadow', 1), ('ldslow', 0.7),
            ('ldonly', 0.7), ('disj', 0.7), ('touched', 0.7), ('mem', 1), ('evict', 0.3), ('evictlf', 0.3), ('ssald', 1), ('ssamem', 1.5), ('stld', 0.7), ('tail', 0.7), ('mixed', 1), ('ssabr1', 1.5), ('ssabr', 1)]


def run(ctx):
    return syscheck.run(
        ctx, 'C01', ['C01', 'C01_mvp4', 'C01_mvp5', 'C01_mvp60', 'C01_mvp61', 'C01_mvp62', 'C01_mvp63', 'C01_mvp63_fwd', 'C01_mvp70', 'C01_mvp70_fwd', 'C01_mvp71', 'C01_mvp80', 'C05_mvp3', 'C05_mvp4', 'C05_mvp5'], PROFILES, S.VARIANTS, n_quick=80, n_thorough=1500,
        assumptions=['programs are generated terminating, aligned and in bounds; the sequential result comes from the OCaml extraction of Isa/Seq.v',
                     'theorems cover MVP-1/2 (faithful models) and the abstract policies; MVP-3..8 glue is covered by this differential inside the calibrated domains only (DESIGN.md section 6)'],
        text_rule='programs from 15 profiles (register-only, control flow, loops, loads/stores with hits, misses and evictions, store/load pairs, '
                  'exit tails) x 12 variants x parallelism 1..4, judged only inside the calibrated domain of each (profile, variant, parallelism) cell; '
                  'non-trivial = the program exercises at least one tagged mechanism (branch, loop, load, store, slow-branch, ...); distinct = distinct spec case lines')
