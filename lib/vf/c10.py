"""C10 - memory dependences between in-flight loads and stores are honoured."""
from . import syscheck, sysdiff as S

PROFILES = [('stld', 3), ('ssamem', 3), ('evictlf', 0.5), ('touched', 2), ('disj', 1), ('mem', 1), ('evict', 0.5)]


def run(ctx):
    return syscheck.run(
        ctx, 'C10', ['C10', 'C10_order', 'C12_mvp70', 'C12_mvp80', 'C05_mvp4s', 'C05_mvp5s'], PROFILES, S.PIPELINED, n_quick=80, n_thorough=1500,
        assumptions=['a reorder of conflicting accesses is observed as a wrong loaded value (register) or a wrong final memory byte'],
        text_rule='store->load, load->store and store->store pairs to the same byte / word / line at distance 0..3 with independent address registers, hits and misses mixed; '
                  'MVP-4..8 x parallelism 1..4 inside the calibrated domains; non-trivial = at least one such pair (tags stld-*) or a store and a load to one line')
