"""C12 - cycle accounting follows the documented latency model."""
import collections
from . import common as C
from . import sysdiff as S
from . import syscheck
from .progs import gen_program

WIDTH = {'1': 1, '2': 1, '3': 1, '4': 1, '5': 1}


def strip(line):
    return ' '.join(t for t in (line or '').split(' ') if not t.startswith('t='))


def run(ctx):
    C.prepare(ctx, ['C12', 'C12_mvp60', 'C12_mvp61', 'C12_mvp62', 'C12_mvp63', 'C12_mvp70', 'C12_mvp80', 'C01_mvp60', 'C01_mvp61', 'C01_mvp62', 'C01_mvp4', 'C05_mvp4', 'C01_mvp5', 'C05_mvp5'], need_gen_oracle=False)
    ok_mvp, out = C.ensure_oracle(ctx, 'mvp', ['theories/Mvp/Mvp12.vo', 'theories/Mvp/Mvp3.vo', 'theories/Mvp/Mvp4.vo', 'theories/Mvp/Mvp5.vo', 'theories/Mvp/Mvp60.vo', 'theories/Mvp/Mvp61.vo', 'theories/Mvp/Mvp62.vo', 'theories/Mvp/Mvp63.vo', 'theories/Mvp/Mvp70.vo', 'theories/Mvp/Mvp71.vo', 'theories/Mvp/Mvp80.vo', 'theories/Isa/Refine.vo'], ['Mvp', 'Isa', 'Gen', 'Base', 'Comp'])
    if not ok_mvp:
        ctx.broken.append({'file': 'coq/theories/Mvp/Mvp12.v', 'line': None, 'lemma': 'extraction of the MVP-1/2 cycle model (depends on the regenerated opcode model)', 'error': out[-1500:]})
    cells = syscheck.load_domains()
    rng = ctx.rng
    n = 60 if ctx.tier == 'quick' else 2000
    found = False
    cov = {}
    if ctx.harness_ok:
        progs = []
        for prof in ['alu', 'ssa', 'ssald', 'ssamem', 'hazard', 'branch', 'loops', 'ldonly', 'mem', 'mixed', 'tail', 'shadow', 'touched', 'evict']:
            for _ in range(n if prof != 'evict' else max(3, n // 8)):
                progs.append(gen_program(rng, prof))
        # value-independence families: the same program from several initial data states
        fam = []
        for k in range(0, len(progs), 3):
            p = progs[k]
            for j in range(2):
                q = S.clone_with_items(p, p.items)
                for r in list(q.regs):
                    if r not in (10, 11, 12, 13, 14, 15) and rng.random() < 0.7:
                        q.regs[r] = rng.choice([0, 1, -1, 7, 2 ** 31 - 1, -2 ** 31, rng.randint(-10 ** 6, 10 ** 6)])
                for a in list(q.mem):
                    if rng.random() < 0.5:
                        q.mem[a] = rng.randint(-128, 127)
                fam.append((k, q))
        allp = progs + [q for _, q in fam]
        fam_of = list(range(len(progs))) + [k for k, _ in fam]
        spec, slines = S.run_spec(ctx, allp, 'c12-s')
        # 1. MVP-1 / MVP-2: exact cycles against the proved model
        mism = []
        c1c2 = {}
        tie3 = []
        for v in ('1', '2', '3', '4', '5'):
            def mfuel(k):
                # MVP-4's model counts cycles, the others instructions
                return 1000 * (spec[k][1] + 20) if v in ('4', '5') and spec[k][0] == 'ok' else (S.FUEL if v not in ('4', '5') else 20000)
            mlines = [v + '\t' + p.spec_case(mfuel(k), acc=False).rsplit('\t', 1)[0] for k, p in enumerate(allp)]
            model = C.run_lines(C.BUILD + '/mvp_oracle', 'mvp', mlines, ctx.work, 'c12-m' + v) if ok_mvp else None
            impl, il, raw = S.run_impl(ctx, [(p, v, 1, S.budget_for(spec[k][1]) if v in ('4', '5') else 10 ** 9) for k, p in enumerate(allp)], 'c12-i' + v)
            for k, p in enumerate(allp):
                r = strip(raw[k])
                if r.startswith('panic'):
                    r = 'panic'
                if model is not None and spec[k][0] == 'ok' and model[k] != r:
                    (tie3 if v in ('3', '4', '5') else mism).append((v, k, model[k], r, il[k]))
                if impl[k][0] == 'ok':
                    c1c2.setdefault(k, {})[v] = impl[k][1]
        for (v, k, m, r, line) in mism[:3]:
            found = True
            ctx.violation('counterexample',
                          'MVP-%s: returned (cycles, registers, memory) differ from the latency model: model %s | implementation %s | %s' %
                          (v, m, r, allp[k].asm().replace('|', '; ')[:300]),
                          {'variant': v, 'program': allp[k].asm(), 'regs': allp[k].regs, 'mem': allp[k].mem, 'memsize': allp[k].memsize,
                           'expected': m, 'observed': r, 'harness_cmd': 'run', 'go_case': line, 'mismatches': len(mism)})
        if tie3 and not mism:
            v, k, m, r, line = tie3[0]
            ctx.broken.append({'file': 'coq/theories/Mvp/Mvp%s.v' % v, 'line': None,
                               'lemma': 'correspondence of the MVP-%s cycle-level model with proc/mvp%s (cycles, registers, memory)' % (v, v),
                               'error': 'model %s | implementation %s | %d cases differ' % (m, r, len(tie3)),
                               'harness_cmd': 'run', 'go_case': line})
        # 1b. MVP-6.0 and MVP-6.1 (superscalar, 1..4 execute/write units): exact (cycles, registers, memory) against the
        # faithful models Mvp/Mvp60.v, Mvp/Mvp61.v.  The model runs with the number of ticks the Go run took as fuel; runs whose
        # result can depend on Go's map iteration order (the model's ghost flag os=1) and runs that exhaust the
        # tick budget are not compared here (bin/tie_m60.py compares those too: all sampled orders, state at the budget).
        tie60, n60, os60, bud60 = [], 0, 0, 0
        step60 = 6 if ctx.tier == 'quick' else 3
        sel = [k for k in range(0, len(allp), step60) if spec[k][0] == 'ok']
        for v6, par in [(v6, par) for v6 in ('6.0', '6.1', '6.2', '6.3', '7.0', '7.1', '8.0') for par in (1, 2, 3, 4)]:
            cap6 = 40000 if ctx.tier == 'quick' else 150000
            impl6, il6, raw6 = S.run_impl(ctx, [(allp[k], v6, par, min(cap6, S.budget_for(spec[k][1]))) for k in sel], 'c12-i%sx%d' % (v6, par))
            cmpk, mlines = [], []
            for j, k in enumerate(sel):
                kind = impl6[j][0]
                if kind in ('budget', 'hang', 'crash'):
                    bud60 += 1
                    continue
                fuel = (impl6[j][4] + 8) if kind == 'ok' and impl6[j][4] else min(S.budget_for(spec[k][1]), 40000)
                cmpk.append((j, k))
                mlines.append('%sx%d' % (v6, par) + '\t' + allp[k].spec_case(fuel, acc=False).rsplit('\t', 1)[0])
            model6 = C.run_lines(C.BUILD + '/mvp_oracle', 'mvp', mlines, ctx.work, 'c12-m%sx%d' % (v6, par)) if ok_mvp else None
            if model6 is None:
                continue
            for (j, k), m in zip(cmpk, model6):
                m = m or 'CRASH'
                if m.endswith(' os=1'):
                    os60 += 1
                    continue
                m = m[:-5] if m.endswith(' os=0') else m
                r = strip(raw6[j])
                if r.startswith('panic'):
                    r = 'panic'
                n60 += 1
                if m != r:
                    tie60.append((v6, par, k, m, r, il6[j]))
        if tie60:
            v6, par, k, m, r, line = tie60[0]
            ctx.broken.append({'file': 'coq/theories/Mvp/Mvp%s.v' % v6.replace('.', ''), 'line': None,
                               'lemma': 'correspondence of the MVP-%s cycle-level model with proc/mvp%s (cycles, registers, memory) at %d units' % (v6, v6.replace('.', '-'), par),
                               'error': 'model %s | implementation %s | %d of %d compared cases differ | %s' % (m, r, len(tie60), n60, allp[k].asm().replace('|', '; ')[:300]),
                               'harness_cmd': 'run', 'go_case': line})
        slower = [(k, d) for k, d in c1c2.items() if '1' in d and '2' in d and d['2'] > d['1']]
        for k, d in slower[:2]:
            found = True
            ctx.violation('counterexample', 'MVP-2 slower than MVP-1 (%d > %d cycles) on %s' % (d['2'], d['1'], allp[k].asm().replace('|', '; ')[:300]),
                          {'program': allp[k].asm(), 'regs': allp[k].regs, 'mem': allp[k].mem, 'memsize': allp[k].memsize, 'cycles': d})
        # 2. all variants inside their domains: positivity, lower bound, value independence
        jobs, jm = [], []
        for k, p in enumerate(allp):
            s = spec[k]
            if s[0] != 'ok' or s[1] == 0:
                continue
            fs = S.features(p, s)
            for v in S.VARIANTS:
                for par in S.pars_of(v):
                    rule = syscheck.cell_rule(cells, p.profile, v, par)
                    if rule is None or any(F in fs for F in rule):
                        continue
                    if v in S.MULTI and par not in (1, 2):
                        continue
                    jobs.append((p, v, par, S.budget_for(s[1])))
                    jm.append((k, v, par))
        impl, il, raw = S.run_impl(ctx, jobs, 'c12-a')
        groups = collections.defaultdict(list)
        lows = []
        for (k, v, par), i, line in zip(jm, impl, il):
            if i[0] != 'ok':
                continue
            steps = spec[k][1]
            width = 1 if v in ('1', '2', '3', '4', '5') else 2
            if i[1] <= 0 or i[1] * width < steps:
                lows.append((k, v, par, i[1], steps, line))
            groups[(fam_of[k], v, par, spec[k][4], spec[k][5])].append((k, i[1], line))
        for (k, v, par, c, steps, line) in lows[:2]:
            found = True
            ctx.violation('counterexample', 'MVP-%s x%d returned %d cycles for %d executed instructions (issue width bound violated or count not positive)' % (v, par, c, steps),
                          {'variant': v, 'parallelism': par, 'cycles': c, 'executed': steps, 'harness_cmd': 'run', 'go_case': line})
        dep = []
        pairs_checked = 0
        for key, l in groups.items():
            if len(l) < 2:
                continue
            pairs_checked += len(l) - 1
            cs = {c for _, c, _ in l}
            if len(cs) > 1:
                dep.append((key, l))
        for key, l in dep[:2]:
            found = True
            ctx.violation('counterexample', 'MVP-%s x%d: cycle count depends on operand values: same executed path and addresses, cycles %s' %
                          (key[1], key[2], sorted({c for _, c, _ in l})),
                          {'variant': key[1], 'parallelism': key[2], 'cases': [ln for _, _, ln in l], 'cycles': [c for _, c, _ in l], 'harness_cmd': 'run', 'go_case': l[0][2]})
        cov = {
            'evaluations': 2 * len(allp) * (2 if ok_mvp else 1) + len(jobs),
            'distinct_nontrivial': len({s for s in slines}),
            'rule': 'programs from 12 profiles, each also re-run from two other initial data states; MVP-1/2: (cycles, registers, memory) compared with the extracted proved model on '
                    'every program; MVP-2 <= MVP-1 on every program; every variant inside its calibrated domain (parallelism 1-2): cycles > 0, cycles*width >= executed instructions, '
                    'and equal cycles within each family of runs with the same executed path and the same access addresses; non-trivial = distinct spec cases',
            'samples': [slines[i] for i in rng.sample(range(len(slines)), 3)],
            'programs': len(allp), 'mvp60_compared': n60, 'mvp60_order_sensitive_skipped': os60, 'mvp60_budget_skipped': bud60, 'model_mismatches_mvp60': len(tie60), 'model_mismatches_mvp12': len(mism), 'model_mismatches_mvp3': len(tie3), 'mvp2_slower': len(slower),
            'lower_bound_violations': len(lows), 'value_independence_pairs_checked': pairs_checked, 'value_dependence_found': len(dep),
            'theorems': sum([C.theorem_names(C.COQ + '/theories/Props/%s.v' % pf) for pf in ['C12', 'C12_mvp60', 'C12_mvp61', 'C01_mvp4', 'C05_mvp4', 'C01_mvp5', 'C05_mvp5']], []),
        }
    C.report_broken(ctx, found)
    cov.setdefault('evaluations', 0)
    cov.setdefault('distinct_nontrivial', 0)
    cov.setdefault('rule', '')
    cov.setdefault('samples', ['(harness did not build)'])
    return C.finish(ctx, 'proof', cov,
                    ['MVP-1/2 theorems are about the faithful model Mvp/Mvp12.v, tied to the code by exact equality of the returned triple on every generated program',
                     'MVP-3 (Props/C05_mvp3.v: cost3) and MVP-4 / MVP-5 (Props/C01_mvp4.v, C05_mvp4.v, C01_mvp5.v, C05_mvp5.v: the count is a function of the program and the path / the (pc, address) events, at least one per executed instruction, independent of operand values; register-only programs and programs whose stores hit in L1D) have theorems about their faithful models; MVP-6.0 (Props/C12_mvp60.v: count >= 1, issue width two at any number of units; faithful model tied by exact equality at 1..4 units); for MVP-6.1..8 no theorem about the cycle count is claimed: bounds and value independence are checked per run'],
                    'make -C /verif/coq theories/Props/C12.vo theories/Props/C12_mvp60.vo theories/Props/C12_mvp61.vo theories/Props/C12_mvp62.vo theories/Props/C12_mvp63.vo theories/Props/C12_mvp70.vo theories/Props/C12_mvp80.vo theories/Props/C01_mvp60.vo theories/Props/C01_mvp61.vo theories/Props/C01_mvp62.vo theories/Props/C01_mvp4.vo theories/Props/C05_mvp4.vo theories/Props/C01_mvp5.vo theories/Props/C05_mvp5.vo (coqc 8.16.1)')
