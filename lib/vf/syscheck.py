"""Generic system-level check: every processor variant against the extracted sequential
machine on generated programs, inside the per-variant domains of domains.json
(DESIGN.md section 6).  Used by C01, C03, C04, C05, C07, C09, C10."""
import collections
import json
import os

from . import common as C
from . import sysdiff as S
from .progs import gen_program, Program
from .isa import Ins

MIN_N = 1000          # a cell needs that many calibration runs to be in the domain
MIN_N_WITHOUT = 400


def load_domains():
    path = C.V + '/domains.json'
    if not os.path.exists(path):
        return {}
    return json.load(open(path))['cells']


SSA_ONLY = ('6.3', '7.0', '7.1', '8.0')          # unsound renaming (known finding): only single-assignment profiles
SSA_PROFILES = ('ssa', 'ssald', 'ssamem', 'ssabr', 'ssabr1')
FEATURE_WHITELIST = {'4': ['cold-store-then-load'], '5': ['cold-store-then-load']}
DEFAULT_FEATURES = []      # feature exclusions proved unreliable for the 6.x+ variants: whole cells only


ALWAYS_EXCLUDED = {'4': ['cold-store-then-load'], '5': ['cold-store-then-load']}


def cell_rule(cells, profile, variant, par):
    """None = cell outside the domain; [] = whole cell; [F] = programs without feature F"""
    if variant in SSA_ONLY and profile not in SSA_PROFILES:
        return None
    c = cells.get('%s|%s|%d' % (profile, variant, par))
    if not c or c['n'] < MIN_N:
        return None
    if c['fail'] == 0:
        # MVP-4/5: the store-buffer defect (finding SYS-store-buffer-mvp45, witness theorems
        # C05_mvp4_cold_store_then_load_refuted / C05_mvp5_...) is excluded by its mechanism in EVERY cell,
        # also where calibration happened not to hit it (it needs three cold stores and a load of the last line)
        return list(ALWAYS_EXCLUDED.get(variant, []))
    for F in FEATURE_WHITELIST.get(variant, DEFAULT_FEATURES):
        if c['fail_without'].get(F, 0) == 0 and c['n_without'].get(F, 0) >= MIN_N_WITHOUT:
            return [F]
    return None


def prog_from_witness(w):
    """rebuild a Program from a sys_witnesses.json entry (asm text is enough for the Go side;
    the spec side uses spec_prog/labels)"""
    p = Program()
    p.memsize = w['memsize']
    p.regs = {int(k): v for k, v in w['regs'].items()}
    p.mem = {int(k): v for k, v in w['mem'].items()}
    p._asm = w['asm']
    p._spec = w['spec_prog']
    p._labels = {int(k): v for k, v in w['labels'].items()}
    p.asm = lambda: p._asm
    p.spec = lambda: p._spec
    p.label_addrs = lambda: p._labels
    return p


def replay_known(ctx, pid, profiles):
    """Replays the witnesses of the known findings that exclude cells of these profiles;
    prints one KNOWN-FINDING line per finding that still fails."""
    known = C.load_known(pid)
    path = C.V + '/sys_witnesses.json'
    wits = json.load(open(path)) if os.path.exists(path) else {}
    progs, meta = [], []
    for f in known:
        for key in f.get('witness_cells', []):
            w = wits.get(key)
            if w:
                progs.append(prog_from_witness(w))
                meta.append((f, key, w))
                break
    if not progs:
        return 0
    spec, _ = S.run_spec(ctx, progs, 'kf-s')
    jobs = [(p, w['variant'], w['par'], S.budget_for(s[1])) for p, s, (_, _, w) in zip(progs, spec, meta)]
    impl, il, raw = S.run_impl(ctx, jobs, 'kf-i', timeout=120)
    n = 0
    for (f, key, w), s, i, r in zip(meta, spec, impl, raw):
        v = S.verdict(s, i)
        if v:
            n += 1
            ctx.known_finding('%s: %s | witness MVP-%s x%d: %s | expected r=%s m=%s | observed %s' %
                              (f['id'], f['what'][:300], w['variant'], w['par'], w['asm'].replace('|', '; ')[:300],
                               s[2], s[3], (r or '')[:200]))
    return n


def run(ctx, pid, props_file, profiles, variants, n_quick, n_thorough, assumptions, text_rule,
        repeats=1, extra=None, obligations_note='', pre=None):
    """profiles: list of (profile, weight).  variants: list of variant names to judge."""
    C.prepare(ctx, props_file)
    cells = load_domains()
    rng = ctx.rng
    n_per = n_quick if ctx.tier == 'quick' else n_thorough
    found = False
    stats = collections.OrderedDict()
    outside = collections.Counter()
    tagcount = collections.Counter()
    samples = []
    evaluations = 0
    nontrivial = set()
    pre_cov = {}
    if ctx.harness_ok and pre is not None:
        pre_found, pre_cov = pre(ctx)
        found = found or pre_found
    if ctx.harness_ok:
        kf = replay_known(ctx, pid, [p for p, _ in profiles])
        progs = []
        for prof, w in profiles:
            for _ in range(max(1, int(n_per * w))):
                progs.append(gen_program(rng, prof))
        spec, slines = S.run_spec(ctx, progs, 'sys-s')
        jobs, jmeta = [], []
        for k, (p, s) in enumerate(zip(progs, spec)):
            if not (s[0] == 'ok' or s[0] in ('err:divzero', 'err:label')):
                outside['spec-' + s[0]] += 1
                continue
            fs = S.features(p, s)
            for t in p.tags:
                tagcount[t] += 1
            for v in variants:
                for par in S.pars_of(v):
                    rule = cell_rule(cells, p.profile, v, par)
                    if rule is None or any(F in fs for F in rule):
                        outside['%s|%s' % (p.profile, v)] += 1
                        continue
                    for rep in range(repeats):
                        jobs.append((p, v, par, S.budget_for(s[1])))
                        jmeta.append((k, v, par))
        impl, ilines, raw = S.run_impl(ctx, jobs, 'sys-i')
        evaluations = len(jobs)
        # exact tie of the faithful models of MVP-4/5/6.0 on the same programs, outside the clean domain too
        try:
            from . import modeltie
            mt_cex, mt_broken, mt_stats = modeltie.tie(ctx, progs, spec, variants, tag='sys-mt', step=6 if ctx.tier == 'quick' else 5)
        except Exception as e:     # the tie must never hide the differential's own result
            mt_cex, mt_broken, mt_stats = [], [], {'error': repr(e)[:300]}
        pre_cov['model_tie'] = mt_stats
        evaluations += 2 * mt_stats.get('compared', 0)
        for rec in mt_cex[:2]:
            found = True
            p, s = progs[rec['k']], spec[rec['k']]
            ctx.violation('counterexample',
                          'MVP-%s x%d no longer computes the sequential result on a program on which the pinned code (its faithful model) does: %s | expected r=%s m=%s | model %s | observed %s' %
                          (rec['variant'], rec['par'], p.asm().replace('|', '; ')[:400], s[2], s[3], rec['model'][:200], rec['impl'][:200]),
                          {'variant': rec['variant'], 'parallelism': rec['par'], 'profile': p.profile, 'program': p.asm(), 'regs': p.regs, 'mem': p.mem,
                           'memsize': p.memsize, 'expected': {'kind': s[0], 'steps': s[1], 'regs': s[2], 'mem': s[3]}, 'model': rec['model'], 'observed': rec['impl'],
                           'harness_cmd': 'run', 'go_case': rec['line'], 'oracle_cmd': 'seq', 'spec_case': p.spec_case(S.FUEL), 'source': 'model tie (outside or inside the calibrated domain)'})
        if mt_broken:
            rec = mt_broken[0]
            ctx.broken.append({'file': 'coq/theories/Mvp/Mvp%s.v' % rec['variant'].replace('.', ''), 'line': None,
                               'lemma': 'correspondence of the MVP-%s cycle-level model with the Go variant (cycles, registers, memory) at %d unit(s)' % (rec['variant'], rec['par']),
                               'error': 'model %s | implementation %s | %d disagreement(s) | %s' % (rec['model'][:200], rec['impl'][:200], len(mt_broken), progs[rec['k']].asm().replace('|', '; ')[:300]),
                               'harness_cmd': 'run', 'go_case': rec['line']})
        fails = []
        for (k, v, par), i, line, r in zip(jmeta, impl, ilines, raw):
            p, s = progs[k], spec[k]
            key = '%s|%s|%d' % (p.profile, v, par)
            st = stats.setdefault(key, [0, 0])
            st[0] += 1
            verdict = S.verdict(s, i)
            if extra and not verdict:
                verdict = extra(p, s, i, v, par) or ''
            if p.tags:
                nontrivial.add(slines[k])
            if verdict:
                st[1] += 1
                fails.append((k, v, par, verdict, line, r))
        reported = set()
        for (k, v, par, verdict, line, r) in fails:
            cls = (progs[k].profile, v, verdict.split(':')[0])
            if cls in reported or len(reported) >= 6:
                continue
            reported.add(cls)
            found = True
            p, s = progs[k], spec[k]
            try:
                q = S.shrink(ctx, p, v, par, max_evals=120)
                v2, s2, r2 = S.eval_one(ctx, q, v, par)
                if not v2:
                    q, s2, r2 = p, s, r
            except Exception:
                q, s2, r2 = p, s, r
            ctx.violation('counterexample',
                          'MVP-%s x%d differs from the sequential machine (%s) on: %s | expected r=%s m=%s | observed: %s' %
                          (v, par, verdict, q.asm().replace('|', '; ')[:400], s2[2], s2[3], (r2 or '')[:200]),
                          {'variant': v, 'parallelism': par, 'profile': p.profile, 'verdict': verdict,
                           'program': q.asm(), 'regs': q.regs, 'mem': q.mem, 'memsize': q.memsize,
                           'expected': {'kind': s2[0], 'steps': s2[1], 'regs': s2[2], 'mem': s2[3]}, 'observed': r2,
                           'harness_cmd': 'run', 'go_case': q.go_case(v, par, S.budget_for(s2[1])),
                           'oracle_cmd': 'seq', 'spec_case': q.spec_case(S.FUEL),
                           'unshrunk_case': line, 'failures_in_this_run': len(fails)})
        samples = [ilines[i] for i in rng.sample(range(len(ilines)), min(4, len(ilines)))] if ilines else []
    C.report_broken(ctx, found)
    per_cell = {k: {'runs': v[0], 'failures': v[1]} for k, v in stats.items()}
    cov = {
        'evaluations': evaluations,
        'distinct_nontrivial': len(nontrivial),
        'rule': text_rule,
        'samples': samples,
        'programs': len(progs) if ctx.harness_ok else 0,
        'per_cell': per_cell,
        'outside_domain': dict(outside),
        'mechanisms_exercised': dict(tagcount),
        'domain_source': 'domains.json (calibrated on the pinned tree by bin/calibrate.py; cells with 0 failures in >= %d runs, '
                         'or 0 failures among >= %d programs without the excluded feature)' % (MIN_N, MIN_N_WITHOUT),
        'theorems': sum([C.theorem_names(C.COQ + '/theories/Props/%s.v' % pf) for pf in (props_file if isinstance(props_file, (list, tuple)) else [props_file])], []),
        'obligations_note': obligations_note,
    }
    cov.update(pre_cov)
    cov['evaluations'] += pre_cov.get('component_evaluations', 0)
    return C.finish(ctx, 'proof', cov, assumptions,
                    'make -C /verif/coq ' + ' '.join('theories/Props/%s.vo' % pf for pf in (props_file if isinstance(props_file, (list, tuple)) else [props_file])) + ' (coqc 8.16.1)')
