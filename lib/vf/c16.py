"""C16 - word encoding is a little-endian bijection on all 32-bit values."""
import concurrent.futures
from . import common as C
from .isa import LATTICE, INT_MIN, INT_MAX


def le_bytes(n):
    b = (n % 2 ** 32).to_bytes(4, 'little')
    return [x - 256 if x > 127 else x for x in b]


def run(ctx):
    C.prepare(ctx, 'C16', need_gen_oracle=True)
    rng = ctx.rng
    vals = set(LATTICE)
    for k in range(32):
        for d in (-1, 0, 1):
            for sgn in (1, -1):
                v = sgn * (2 ** k) + d
                if INT_MIN <= v <= INT_MAX:
                    vals.add(v)
    for pos in range(4):
        for b in range(256):
            v = b << (8 * pos)
            vals.add(v - 2 ** 32 if v >= 2 ** 31 else v)
    n_random = 100000 if ctx.tier == 'quick' else 1000000
    for _ in range(n_random):
        vals.add(rng.randint(INT_MIN, INT_MAX))
    vals = sorted(vals)
    lines = ['s\t%d' % v for v in vals]
    quads = []
    for v in vals[::3]:
        quads.append(le_bytes(v))
    for _ in range(2000):
        quads.append([rng.choice([0, -1, 127, -128, 1, rng.randint(-128, 127)]) for _ in range(4)])
    lines += ['j\t%d\t%d\t%d\t%d' % tuple(q) for q in quads]
    found = False
    mism_spec = mism_gen = 0
    if ctx.harness_ok:
        impl = C.run_lines(C.BUILD + '/harness', 'bytes', lines, ctx.work, 'go')
        gen = C.run_lines(C.BUILD + '/gen_oracle', 'bytes', lines, ctx.work, 'gen') if ctx.gen_oracle_ok else None
        first_gen = None
        for k, l in enumerate(lines):
            f = l.split('\t')
            if f[0] == 's':
                exp = ','.join(str(b) for b in le_bytes(int(f[1])))
            else:
                q = [int(x) for x in f[1:]]
                u = sum((b % 256) << (8 * i) for i, b in enumerate(q))
                exp = str(u - 2 ** 32 if u >= 2 ** 31 else u)
            if impl[k] != exp:
                mism_spec += 1
                if not found:
                    found = True
                    ctx.violation('counterexample', 'bytes %s: implementation %s, little-endian encoding %s' % (l.replace('\t', ' '), impl[k], exp),
                                  {'case': l, 'observed': impl[k], 'expected': exp,
                                   'replay_cmd': 'printf "<case>\\n" > c.txt; build/harness bytes c.txt'})
            if gen is not None and impl[k] != gen[k]:
                mism_gen += 1
                first_gen = first_gen or (l, impl[k], gen[k])
        if first_gen and not found:
            ctx.broken.append({'file': 'coq/theories/Gen/BytesGo.v', 'line': None,
                               'lemma': 'translation validation (generated model vs implementation)',
                               'error': 'case %s | impl %s | model %s' % first_gen})
        swept = 0
        if ctx.tier == 'thorough' or (ctx.broken and not found):
            # exhaustive search over all 2^32 words / byte quadruples against encoding/binary (search, not proof)
            shards = 64
            def one(i):
                return C.sh([C.BUILD + '/harness', 'bytes-sweep', str(i), str(shards)], timeout=3600).stdout.strip()
            with concurrent.futures.ThreadPoolExecutor(max_workers=16) as ex:
                res = list(ex.map(one, range(shards)))
            for r in res:
                if r.startswith('OK'):
                    swept += int(r.split()[1])
                elif not found:
                    found = True
                    ctx.violation('counterexample', 'exhaustive sweep: ' + r, {'case': r, 'replay_cmd': 'build/harness bytes-sweep <shard> 64'})
    C.report_broken(ctx, found)
    cov = {
        'evaluations': len(lines) * (2 if ctx.gen_oracle_ok else 1) + (swept if ctx.harness_ok else 0),
        'distinct_nontrivial': len([v for v in vals if v < 0 or v > 65535]) + len(quads),
        'rule': 'split cases: all +-2^k, +-2^k+-1, every single-byte pattern in every byte position, the operand lattice, %d random int32; '
                'join cases: the byte quadruples of every third value + 2000 random quadruples; non-trivial = value negative or > 65535 '
                '(more than two significant bytes or sign bits involved), every join case; thorough adds the sweep of all 2^32 values' % n_random,
        'samples': [lines[i] for i in rng.sample(range(len(lines)), 6)],
        'split_cases': len(vals), 'join_cases': len(quads), 'exhaustive_sweep_values': swept,
        'exhaustive': swept == 2 ** 32,
        'mismatch_impl_vs_little_endian': mism_spec, 'mismatch_impl_vs_generated_model': mism_gen,
        'theorems': C.theorem_names(C.COQ + '/theories/Props/C16.v'),
    }
    return C.finish(ctx, 'proof', cov, ['int32 / int8 arguments (the Go types guarantee it)'],
                    'make -C /verif/coq theories/Props/C16.vo (coqc 8.16.1)')
