"""C02 - each instruction has RV32IM semantics on all operand values.

Decided by: theorems of coq/theories/Props/C02.v about the model regenerated
from risc/opcodes.go (proof), tie = regeneration + translation validation,
search = differential of the implementation against the extracted spec."""
from . import common as C
from .isa import *


def gen_cases(ctx, n_random):
    rng = ctx.rng
    cases = []   # (Ins, regs dict, pc, mem list, labels dict id->addr, label_lines)

    def add(ins, regs, pc=0, mem=(), labels=None):
        cases.append((ins, dict(regs), pc, list(mem), dict(labels or {})))

    shapes = [(5, 6, 7), (5, 5, 7), (5, 6, 5), (5, 6, 6), (5, 5, 5), (0, 6, 7), (5, 0, 7), (5, 6, 0), (0, 0, 0), (31, 1, 28)]
    for m in R3:
        for a in LATTICE:
            for b in LATTICE:
                add(Ins(m, 5, 6, 7), {6: a, 7: b})
        for (rd, r1, r2) in shapes[1:]:
            for a in SMALL:
                for b in SMALL:
                    regs = {}
                    if r1:
                        regs[r1] = a
                    if r2 and r2 != r1:
                        regs[r2] = b
                    if rd and rd not in regs:
                        regs[rd] = 77
                    add(Ins(m, rd, r1, r2), regs)
    for m in I2:
        for a in LATTICE:
            for imm in LATTICE:
                add(Ins(m, 5, 6, imm=imm), {6: a}, pc=rng.choice([0, 4, 400, INT_MAX - 3]))
        for (rd, r1) in [(5, 5), (0, 6), (5, 0), (0, 0)]:
            for a in SMALL:
                for imm in SMALL:
                    add(Ins(m, rd, r1, imm=imm), {r1: a} if r1 else {}, pc=8)
    for m in U1:
        for imm in LATTICE:
            for pc in [0, 4, 4096, INT_MAX - 3, 1000]:
                add(Ins(m, 5, imm=imm), {5: 3}, pc=pc)
            add(Ins(m, 0, imm=imm), {}, pc=4)
    for a in LATTICE:
        add(Ins('mv', 5, 6), {6: a})
        add(Ins('mv', 0, 6), {6: a})
        add(Ins('mv', 5, 5), {5: a})
        add(Ins('mv', 5, 0), {5: a})
    for m in B2:
        for a in LATTICE:
            for b in LATTICE:
                add(Ins(m, rs1=6, rs2=7, label=1), {6: a, 7: b}, labels={1: 12})
        for a in SMALL:
            for b in SMALL:
                add(Ins(m, rs1=6, rs2=7, label=2), {6: a, 7: b}, labels={})          # undefined label
                add(Ins(m, rs1=6, rs2=6, label=1), {6: a}, labels={1: 4})
                add(Ins(m, rs1=0, rs2=7, label=1), {7: b}, labels={1: 8})
    for m in B1:
        for a in LATTICE:
            add(Ins(m, rs1=6, label=1), {6: a}, labels={1: 16})
            add(Ins(m, rs1=6, label=3), {6: a}, labels={})
        add(Ins(m, rs1=0, label=1), {}, labels={1: 4})
    for pc in [0, 4, 400, INT_MAX - 3, INT_MAX - 7]:
        add(Ins('j', label=1), {}, pc=pc, labels={1: 20})
        add(Ins('j', label=2), {}, pc=pc, labels={})
        for rd in (5, 0, 1):
            add(Ins('jal', rd=rd, label=1), {1: 99}, pc=pc, labels={1: 8})
            add(Ins('jal', rd=rd, label=2), {1: 99}, pc=pc, labels={})
    bytevals = [0, 1, -1, 127, -128, 2, 64, -2, 85, -86]
    for m in LD:
        k = LOAD_SIZE[m]
        for base in [0, 4, 100, -4, INT_MAX - 10, 1 << 20]:
            for off in [0, 4, -4, 2047, 12, INT_MAX]:
                mem = [rng.choice(bytevals) for _ in range(k)]
                add(Ins(m, 5, 6, imm=off), {6: base, 5: 9}, mem=mem)
        for _ in range(300):
            mem = [rng.choice(bytevals + [rng.randint(-128, 127)]) for _ in range(k)]
            rd, r1 = rng.choice([(5, 6), (5, 5), (0, 6), (5, 0)])
            add(Ins(m, rd, r1, imm=rng.choice([0, 8, -8, 1000])), {r1: rng.choice(SMALL)} if r1 else {}, mem=mem)
        import itertools
        for mem in itertools.product([0, -1, 127, -128, 1], repeat=k):
            add(Ins(m, 5, 6, imm=0), {6: 0}, mem=mem)
    for m in ST:
        for v in LATTICE:
            for base, off in [(0, 0), (100, 4), (8, -4), (INT_MAX - 1, 0), (INT_MAX, 4), (-8, 8), (4, INT_MIN)]:
                add(Ins(m, rs1=6, rs2=7, imm=off), {6: base, 7: v})
        for v in SMALL:
            add(Ins(m, rs1=6, rs2=6, imm=4), {6: v})
            add(Ins(m, rs1=0, rs2=7, imm=16), {7: v})
            add(Ins(m, rs1=6, rs2=0, imm=16), {6: v})
    add(Ins('nop'), {5: 1})
    add(Ins('ret'), {5: 1, 1: 44})
    # random
    for _ in range(n_random):
        m = rng.choice(ALL)
        def rv():
            c = rng.random()
            if c < 0.4:
                return rng.choice(LATTICE)
            if c < 0.7:
                return rng.randint(INT_MIN, INT_MAX)
            return rng.randint(-40, 40)
        rd, r1, r2 = rng.randint(0, 31), rng.randint(0, 31), rng.randint(0, 31)
        regs = {r: rv() for r in (r1, r2) if r}
        ins = Ins(m, rd, r1, r2, imm=rv(), label=1)
        labels = {1: 4 * rng.randint(0, 50)} if rng.random() < 0.9 else {}
        mem = [rng.randint(-128, 127) for _ in range(LOAD_SIZE.get(m, 0))]
        add(ins, regs, pc=4 * rng.randint(0, 100), mem=mem, labels=labels)
    return cases


def case_lines(case):
    ins, regs, pc, mem, labels = case
    # Go side: the instruction first, then nops, with label definitions at the requested addresses
    lines = [ins.asm()]
    if labels:
        maxi = max(labels.values()) // 4
        by_idx = {}
        for lid, addr in labels.items():
            by_idx.setdefault(addr // 4, []).append(lid)
        text = []
        for i in range(maxi + 1):
            for lid in by_idx.get(i, []):
                text.append('L%d:' % lid)
            if i == 0:
                text.append(lines[0])
            elif i < maxi:
                text.append('nop')
        # labels at index maxi come after the last emitted instruction
        lines = text
    go = '|'.join(lines) + '\t0\t' + pairs(regs) + '\t%d\t' % pc + lst(mem)
    orc = ins.spec() + '\t' + pairs(regs) + '\t%d\t' % pc + lst(mem) + '\t' + pairs(labels)
    return go, orc


def core(line):
    """The part of a result line compared with the specification (drop T=)."""
    if line is None:
        return None
    return ' '.join(t for t in line.split(' ') if not t.startswith('T='))


def nontrivial(case):
    ins, regs, pc, mem, labels = case
    vals = list(regs.values()) + [ins.imm]
    return any(v < 0 or v >= 1024 for v in vals) or ins.rd == 0 or len(set([ins.rd] + ins.reads())) < 1 + len(ins.reads())


def run(ctx):
    C.prepare(ctx, 'C02', need_gen_oracle=True)
    n_random = 20000 if ctx.tier == 'quick' else 2000000
    cases = gen_cases(ctx, n_random)
    go_lines, orc_lines = [], []
    for c in cases:
        g, o = case_lines(c)
        go_lines.append(g)
        orc_lines.append(o)
    found = False
    mism_spec, mism_gen = [], []
    if ctx.harness_ok:
        impl = C.run_lines(C.BUILD + '/harness', 'isa', go_lines, ctx.work, 'go')
        spec = C.run_lines(C.BUILD + '/spec_oracle', 'isa', orc_lines, ctx.work, 'spec')
        gen = C.run_lines(C.BUILD + '/gen_oracle', 'isa', orc_lines, ctx.work, 'gen') if ctx.gen_oracle_ok else None
        for k, c in enumerate(cases):
            if core(impl[k]) != spec[k]:
                mism_spec.append(k)
            if gen is not None and impl[k] != gen[k]:
                mism_gen.append(k)
        seen = set()
        for k in mism_spec:
            ins = cases[k][0]
            if ins.m in seen:
                continue
            seen.add(ins.m)
            found = True
            ctx.violation('counterexample',
                          '%s: implementation differs from the RV32IM specification on %s | impl: %s | spec: %s' %
                          (ins.m, go_lines[k], impl[k], spec[k]),
                          {'mnemonic': ins.m, 'go_case': go_lines[k], 'spec_case': orc_lines[k],
                           'observed': impl[k], 'expected': spec[k],
                           'replay_cmd': 'printf "%%s\\n" "<go_case>" > c.txt; build/harness isa c.txt; build/spec_oracle isa <spec_case file>',
                           'mismatches_for_this_mnemonic': sum(1 for j in mism_spec if cases[j][0].m == ins.m)})
        if gen is not None and mism_gen and not found:
            k = mism_gen[0]
            ctx.broken.append({'file': 'coq/theories/Gen/Opcodes.v', 'line': None,
                               'lemma': 'translation validation (generated model vs implementation)',
                               'error': 'case %s | impl: %s | model: %s' % (go_lines[k], impl[k], gen[k])})
    C.report_broken(ctx, found)
    dist = {}
    for c in cases:
        dist[c[0].m] = dist.get(c[0].m, 0) + 1
    distinct = len(set(orc_lines))
    nontriv = len(set(o for c, o in zip(cases, orc_lines) if nontrivial(c)))
    cov = {
        'evaluations': len(cases) * (3 if ctx.gen_oracle_ok else 2),
        'distinct_nontrivial': nontriv,
        'rule': 'cases = 45 mnemonics x operand values from a %d-point boundary lattice (all pairs for the distinct-register shape, '
                'a 9-point sublattice for the aliasing shapes rd=rs1, rd=rs2, rs1=rs2, rd=x0, rs=x0) + %d random; '
                'a case is non-trivial when an operand/immediate is negative or >= 1024, or a register is x0, or registers alias '
                '(the pinned tests use small positive operands and distinct registers); distinct = distinct case lines' % (len(LATTICE), n_random),
        'samples': [{'go': go_lines[i], 'spec': orc_lines[i]} for i in ctx.rng.sample(range(len(cases)), 5)],
        'cases': len(cases), 'distinct_cases': distinct, 'cases_per_mnemonic': dist,
        'mismatch_impl_vs_spec': len(mism_spec), 'mismatch_impl_vs_generated_model': len(mism_gen),
        'generated_model_oracle': ctx.gen_oracle_ok,
        'theorems': C.theorem_names(C.COQ + '/theories/Props/C02.v'),
    }
    return C.finish(ctx, 'proof', cov,
                    ['registers hold int32 values; immediates are int32 (strconv.ParseInt(.,10,32)); loads receive exactly the bytes MemoryRead names',
                     'registerRead is abstracted to a read function here; its model is Comp/Tx.v (C15)'],
                    'make -C /verif/coq theories/Props/C02.vo (coqc 8.16.1)')
