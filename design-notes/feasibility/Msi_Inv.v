(* Feasibility study for DESIGN.md section 5 / C06: abstract MSI directory with per-line reader/writer semaphore and snoop commands (one line, N cores, every interleaving of the 16 transitions read off proc/mvp7-0/msi.go and cc.go).  Theorem msi_invariant: single-writer/multiple-reader, per-phase agreement of L1 presence with protocol state, semaphore counters equal the number of cores in read/write transactions, w <= 1 and w = 1 -> r = 0, commands only to idle non-Invalid cores.  Example flush_after_fill_breaks_inv: the flush as coded (drop the transaction, keep the filled line) leaves the invariant.  Both closed under the global context; coqc 8.16.1, < 2 s.  Not part of the development; to be absorbed into coq/theories/Msi/. *)
From Coq Require Import List Lia Arith Bool.
Import ListNotations.

(* Feasibility prototype: abstract MSI directory with a per-line reader/writer
   semaphore and snoop commands, one line, N cores, every interleaving. *)

Inductive mstate := I | S | M.
Inductive phase := Idle | RdWait | RdFilled | ShRd | OwnRd | WrWait | WrFilled | UpgWait | OwnWr.
Inductive cmd := NoCmd | Ev | Wb.

Definition is_rd (p : phase) : bool :=
  match p with RdWait | RdFilled | ShRd => true | _ => false end.
Definition is_wr (p : phase) : bool :=
  match p with OwnRd | WrWait | WrFilled | UpgWait | OwnWr => true | _ => false end.

Section Msi.
Variable N : nat.

Record st := { ms : nat -> mstate; ph : nat -> phase; cm : nat -> cmd; l1 : nat -> bool; r : nat; w : nat }.

Definition upd {A} (f : nat -> A) (i : nat) (x : A) : nat -> A :=
  fun j => if Nat.eqb j i then x else f j.

Lemma upd_same {A} (f : nat -> A) i x : upd f i x i = x.
Proof. unfold upd. now rewrite Nat.eqb_refl. Qed.
Lemma upd_other {A} (f : nat -> A) i x j : j <> i -> upd f i x j = f j.
Proof. unfold upd. intros. destruct (Nat.eqb_spec j i); congruence. Qed.

(* snoop requests sent to the other cores when core i asks for the line *)
Definition req_read (s : st) (i : nat) : nat -> cmd :=
  fun j => if Nat.eqb j i then cm s j else match ms s j with M => Wb | _ => cm s j end.
Definition req_write (s : st) (i : nat) : nat -> cmd :=
  fun j => if Nat.eqb j i then cm s j else match ms s j with M => Wb | S => Ev | I => cm s j end.

Definition others_not_M (s : st) (i : nat) := forall j, j < N -> j <> i -> ms s j <> M.
Definition others_I (s : st) (i : nat) := forall j, j < N -> j <> i -> ms s j = I.

Inductive step : st -> st -> Prop :=
| rlock_I i s : i < N -> ms s i = I -> ph s i = Idle -> cm s i = NoCmd -> w s = 0 ->
    step s {| ms := ms s; ph := upd (ph s) i RdWait; cm := req_read s i; l1 := l1 s; r := Datatypes.S (r s); w := w s |}
| fill_rd i s : i < N -> ph s i = RdWait -> others_not_M s i ->
    step s {| ms := ms s; ph := upd (ph s) i RdFilled; cm := cm s; l1 := upd (l1 s) i true; r := r s; w := w s |}
| settle_rd i s : i < N -> ph s i = RdFilled ->
    step s {| ms := upd (ms s) i S; ph := upd (ph s) i Idle; cm := cm s; l1 := l1 s; r := pred (r s); w := w s |}
| rlock_S i s : i < N -> ms s i = S -> ph s i = Idle -> cm s i = NoCmd -> w s = 0 ->
    step s {| ms := ms s; ph := upd (ph s) i ShRd; cm := cm s; l1 := l1 s; r := Datatypes.S (r s); w := w s |}
| done_shrd i s : i < N -> ph s i = ShRd ->
    step s {| ms := ms s; ph := upd (ph s) i Idle; cm := cm s; l1 := l1 s; r := pred (r s); w := w s |}
| rlock_M i s : i < N -> ms s i = M -> ph s i = Idle -> cm s i = NoCmd -> w s = 0 -> r s = 0 ->
    step s {| ms := ms s; ph := upd (ph s) i OwnRd; cm := cm s; l1 := l1 s; r := r s; w := Datatypes.S (w s) |}
| done_ownrd i s : i < N -> ph s i = OwnRd ->
    step s {| ms := ms s; ph := upd (ph s) i Idle; cm := cm s; l1 := l1 s; r := r s; w := pred (w s) |}
| lock_I i s : i < N -> ms s i = I -> ph s i = Idle -> cm s i = NoCmd -> w s = 0 -> r s = 0 ->
    step s {| ms := ms s; ph := upd (ph s) i WrWait; cm := req_write s i; l1 := l1 s; r := r s; w := Datatypes.S (w s) |}
| fill_wr i s : i < N -> ph s i = WrWait -> others_I s i ->
    step s {| ms := ms s; ph := upd (ph s) i WrFilled; cm := cm s; l1 := upd (l1 s) i true; r := r s; w := w s |}
| settle_wr i s : i < N -> ph s i = WrFilled ->
    step s {| ms := upd (ms s) i M; ph := upd (ph s) i Idle; cm := cm s; l1 := l1 s; r := r s; w := pred (w s) |}
| lock_S i s : i < N -> ms s i = S -> ph s i = Idle -> cm s i = NoCmd -> w s = 0 -> r s = 0 ->
    step s {| ms := ms s; ph := upd (ph s) i UpgWait; cm := req_write s i; l1 := l1 s; r := r s; w := Datatypes.S (w s) |}
| settle_upg i s : i < N -> ph s i = UpgWait -> others_I s i ->
    step s {| ms := upd (ms s) i M; ph := upd (ph s) i Idle; cm := cm s; l1 := l1 s; r := r s; w := pred (w s) |}
| lock_M i s : i < N -> ms s i = M -> ph s i = Idle -> cm s i = NoCmd -> w s = 0 -> r s = 0 ->
    step s {| ms := ms s; ph := upd (ph s) i OwnWr; cm := cm s; l1 := l1 s; r := r s; w := Datatypes.S (w s) |}
| done_ownwr i s : i < N -> ph s i = OwnWr ->
    step s {| ms := ms s; ph := upd (ph s) i Idle; cm := cm s; l1 := l1 s; r := r s; w := pred (w s) |}
| cmd_done j s : j < N -> cm s j <> NoCmd ->
    step s {| ms := upd (ms s) j I; ph := ph s; cm := upd (cm s) j NoCmd; l1 := upd (l1 s) j false; r := r s; w := w s |}
| evict_extra j s : j < N -> ph s j = Idle -> cm s j = NoCmd -> ms s j <> I ->
    step s {| ms := ms s; ph := ph s; cm := upd (cm s) j (match ms s j with M => Wb | _ => Ev end); l1 := l1 s; r := r s; w := w s |}.

Definition init : st :=
  {| ms := fun _ => I; ph := fun _ => Idle; cm := fun _ => NoCmd; l1 := fun _ => false; r := 0; w := 0 |}.

Definition count (f : nat -> bool) : nat := length (filter f (seq 0 N)).

Definition rd_cnt (s : st) := count (fun i => is_rd (ph s i)).
Definition wr_cnt (s : st) := count (fun i => is_wr (ph s i)).

(* what each phase says about the core's own view *)
Definition phase_ok (s : st) (i : nat) : Prop :=
  match ph s i with
  | Idle => (l1 s i = true <-> ms s i <> I)
  | RdWait | WrWait => ms s i = I /\ l1 s i = false /\ cm s i = NoCmd
  | RdFilled | WrFilled => ms s i = I /\ l1 s i = true /\ cm s i = NoCmd
  | ShRd | UpgWait => ms s i = S /\ l1 s i = true /\ cm s i = NoCmd
  | OwnRd | OwnWr => ms s i = M /\ l1 s i = true /\ cm s i = NoCmd
  end.

Record Inv (s : st) : Prop := {
  swmr : forall i j, i < N -> j < N -> ms s i = M -> j <> i -> ms s j = I;
  phases : forall i, i < N -> phase_ok s i;
  sem_r : r s = rd_cnt s;
  sem_w : w s = wr_cnt s;
  sem_x : w s <= 1 /\ (w s = 1 -> r s = 0);
  cmd_ok : forall j, j < N -> cm s j <> NoCmd -> ms s j <> I /\ ph s j = Idle;
  filled_rd : forall i, i < N -> ph s i = RdFilled -> others_not_M s i;
  filled_wr : forall i, i < N -> ph s i = WrFilled -> others_I s i
}.

(* counting lemmas *)
Lemma count_ext f g : (forall i, i < N -> f i = g i) -> count f = count g.
Proof.
  intros H. unfold count. f_equal. apply filter_ext_in.
  intros a Ha. apply in_seq in Ha. apply H. lia.
Qed.

Definition b2n (b : bool) : nat := if b then 1 else 0.

Lemma filter_same (f g : nat -> bool) i l : ~ In i l -> (forall j, j <> i -> g j = f j) ->
  filter g l = filter f l.
Proof.
  intros Hn Hg. apply filter_ext_in. intros a Ha. apply Hg. intro; subst; auto.
Qed.

Lemma filter_upd_len (f g : nat -> bool) i l : NoDup l -> In i l ->
  (forall j, j <> i -> g j = f j) ->
  length (filter g l) + b2n (f i) = length (filter f l) + b2n (g i).
Proof.
  intros Hnd Hin Hg. induction l as [|a l IH]; [destruct Hin|].
  inversion Hnd as [|? ? Hna Hnd']; subst. simpl.
  destruct (Nat.eq_dec a i) as [->|Hne].
  - rewrite (filter_same f g i l Hna Hg).
    destruct (f i), (g i); simpl; lia.
  - destruct Hin as [Heq|Hin]; [congruence|].
    specialize (IH Hnd' Hin). rewrite (Hg a Hne).
    destruct (f a); simpl; lia.
Qed.

Lemma count_upd_gen (f g : nat -> bool) i : i < N ->
  (forall j, j <> i -> g j = f j) ->
  count g + b2n (f i) = count f + b2n (g i).
Proof.
  intros Hi Hg. unfold count. apply filter_upd_len; auto.
  - apply seq_NoDup.
  - apply in_seq. lia.
Qed.

Lemma count_pos f i : i < N -> f i = true -> 1 <= count f.
Proof.
  intros Hi Hf. unfold count.
  assert (In i (filter f (seq 0 N))). { apply filter_In. split; auto. apply in_seq. lia. }
  destruct (filter f (seq 0 N)); simpl in *; [tauto | lia].
Qed.


Lemma rd_cnt_upd s i p : i < N ->
  count (fun j => is_rd (upd (ph s) i p j)) + b2n (is_rd (ph s i)) = rd_cnt s + b2n (is_rd p).
Proof.
  intros Hi. unfold rd_cnt.
  pose proof (count_upd_gen (fun j => is_rd (ph s j)) (fun j => is_rd (upd (ph s) i p j)) i Hi) as H.
  simpl in H. rewrite upd_same in H. apply H.
  intros j Hj. now rewrite upd_other.
Qed.

Lemma wr_cnt_upd s i p : i < N ->
  count (fun j => is_wr (upd (ph s) i p j)) + b2n (is_wr (ph s i)) = wr_cnt s + b2n (is_wr p).
Proof.
  intros Hi. unfold wr_cnt.
  pose proof (count_upd_gen (fun j => is_wr (ph s j)) (fun j => is_wr (upd (ph s) i p j)) i Hi) as H.
  simpl in H. rewrite upd_same in H. apply H.
  intros j Hj. now rewrite upd_other.
Qed.

Lemma no_writer s : Inv s -> w s = 0 -> forall j, j < N -> is_wr (ph s j) = false.
Proof.
  intros I0 Hw j Hj. destruct (is_wr (ph s j)) eqn:E; auto.
  pose proof (count_pos (fun i => is_wr (ph s i)) j Hj E) as H.
  rewrite (sem_w _ I0) in Hw. unfold wr_cnt in Hw. lia.
Qed.

Lemma no_reader s : Inv s -> r s = 0 -> forall j, j < N -> is_rd (ph s j) = false.
Proof.
  intros I0 Hr j Hj. destruct (is_rd (ph s j)) eqn:E; auto.
  pose proof (count_pos (fun i => is_rd (ph s i)) j Hj E) as H.
  rewrite (sem_r _ I0) in Hr. unfold rd_cnt in Hr. lia.
Qed.

Lemma M_idle s j : Inv s -> w s = 0 -> j < N -> ms s j = M -> ph s j = Idle.
Proof.
  intros I0 Hw Hj Hm. pose proof (no_writer s I0 Hw j Hj) as Hnw.
  pose proof (phases _ I0 j Hj) as P. unfold phase_ok in P.
  destruct (ph s j); auto; simpl in Hnw; try discriminate; destruct P as [P _]; congruence.
Qed.

Lemma S_idle s j : Inv s -> w s = 0 -> r s = 0 -> j < N -> ms s j = S -> ph s j = Idle.
Proof.
  intros I0 Hw Hr Hj Hm. pose proof (no_writer s I0 Hw j Hj) as Hnw.
  pose proof (no_reader s I0 Hr j Hj) as Hnr.
  pose proof (phases _ I0 j Hj) as P. unfold phase_ok in P.
  destruct (ph s j); auto; simpl in Hnw, Hnr; try discriminate; destruct P as [P _]; congruence.
Qed.

Lemma writer_excl s i : Inv s -> i < N -> is_wr (ph s i) = true -> w s = 1 /\ r s = 0.
Proof.
  intros I0 Hi E. pose proof (count_pos (fun k => is_wr (ph s k)) i Hi E) as H.
  destruct (sem_x _ I0) as [Hle Hx]. rewrite (sem_w _ I0) in Hle, Hx. unfold wr_cnt in *.
  assert (Hw : w s = 1). { rewrite (sem_w _ I0). unfold wr_cnt. lia. }
  split; auto. apply Hx. rewrite (sem_w _ I0) in Hw. exact Hw.
Qed.

Lemma reader_pos s i : Inv s -> i < N -> is_rd (ph s i) = true -> 1 <= r s.
Proof.
  intros I0 Hi E. rewrite (sem_r _ I0). apply (count_pos _ i Hi E).
Qed.


Ltac ucase j i := destruct (Nat.eq_dec j i) as [->|?];
  [ repeat rewrite upd_same in * | repeat (rewrite upd_other in * by auto) ].

Lemma l1_false_of_I s i : Inv s -> i < N -> ph s i = Idle -> ms s i = I -> l1 s i = false.
Proof.
  intros I0 Hi Hp Hm. pose proof (phases _ I0 i Hi) as P. unfold phase_ok in P. rewrite Hp in P.
  destruct (l1 s i); auto. exfalso. apply (proj1 P); auto.
Qed.

Lemma l1_true_of_nonI s i : Inv s -> i < N -> ph s i = Idle -> ms s i <> I -> l1 s i = true.
Proof.
  intros I0 Hi Hp Hm. pose proof (phases _ I0 i Hi) as P. unfold phase_ok in P. rewrite Hp in P.
  apply P; auto.
Qed.

(* phase_ok of an untouched core survives changes that keep its own fields *)
Lemma phase_ok_same s s' k : ph s' k = ph s k -> ms s' k = ms s k -> l1 s' k = l1 s k ->
  (ph s k <> Idle -> cm s' k = cm s k) -> phase_ok s k -> phase_ok s' k.
Proof.
  unfold phase_ok. intros Hp Hm Hl Hc P. rewrite Hp, Hm, Hl.
  destruct (ph s k) eqn:E; auto; rewrite Hc by discriminate; auto.
Qed.

Lemma inv_rlock_I i s : Inv s -> i < N -> ms s i = I -> ph s i = Idle -> cm s i = NoCmd -> w s = 0 ->
  Inv {| ms := ms s; ph := upd (ph s) i RdWait; cm := req_read s i; l1 := l1 s; r := Datatypes.S (r s); w := w s |}.
Proof.
  intros I0 Hi Hm Hp Hc Hw. pose proof I0 as [A B C D E F G H].
  constructor; simpl.
  - exact A.
  - intros k Hk. destruct (Nat.eq_dec k i) as [->|Hne].
    + unfold phase_ok; simpl. rewrite upd_same. unfold req_read. rewrite Nat.eqb_refl.
      repeat split; auto. apply (l1_false_of_I s i); auto.
    + apply (phase_ok_same s); simpl; auto.
      * now rewrite upd_other.
      * intros Hnid. unfold req_read. destruct (Nat.eqb_spec k i); [congruence|].
        destruct (ms s k) eqn:Emk; auto. exfalso. apply Hnid. apply (M_idle s k); auto.
  - pose proof (rd_cnt_upd s i RdWait Hi) as Hc'. rewrite Hp in Hc'. simpl in Hc'.
    unfold rd_cnt. simpl. rewrite C. lia.
  - pose proof (wr_cnt_upd s i RdWait Hi) as Hc'. rewrite Hp in Hc'. simpl in Hc'.
    unfold wr_cnt. simpl. rewrite D. lia.
  - split; [lia|]. intros Hx. lia.
  - intros k Hk Hnc. unfold req_read in Hnc. destruct (Nat.eqb_spec k i) as [->|Hne]; [congruence|].
    rewrite upd_other by auto.
    destruct (ms s k) eqn:Emk.
    + destruct (F k Hk Hnc) as [X _]. congruence.
    + split; [discriminate|]. apply (F k Hk Hnc).
    + split; [discriminate|]. apply (M_idle s k); auto.
  - intros k Hk Hpk. destruct (Nat.eq_dec k i) as [->|Hne]; [rewrite upd_same in Hpk; discriminate|].
    rewrite upd_other in Hpk by auto. exact (G k Hk Hpk).
  - intros k Hk Hpk. destruct (Nat.eq_dec k i) as [->|Hne]; [rewrite upd_same in Hpk; discriminate|].
    rewrite upd_other in Hpk by auto. exact (H k Hk Hpk).
Qed.


Definition own_ok (p : phase) (m : mstate) (b : bool) (c : cmd) : Prop :=
  match p with
  | Idle => (b = true <-> m <> I)
  | RdWait | WrWait => m = I /\ b = false /\ c = NoCmd
  | RdFilled | WrFilled => m = I /\ b = true /\ c = NoCmd
  | ShRd | UpgWait => m = S /\ b = true /\ c = NoCmd
  | OwnRd | OwnWr => m = M /\ b = true /\ c = NoCmd
  end.

Lemma phase_ok_own s i : phase_ok s i = own_ok (ph s i) (ms s i) (l1 s i) (cm s i).
Proof. reflexivity. Qed.

Lemma inv_ext s s' :
  (forall k, ms s' k = ms s k) -> (forall k, ph s' k = ph s k) -> (forall k, cm s' k = cm s k) ->
  (forall k, l1 s' k = l1 s k) -> r s' = r s -> w s' = w s -> Inv s -> Inv s'.
Proof.
  intros Hm Hp Hc Hl Hr Hw [A B C D E F G H].
  constructor.
  - intros i j Hi Hj. rewrite !Hm. apply A; auto.
  - intros i Hi. rewrite phase_ok_own, Hm, Hp, Hc, Hl. apply B; auto.
  - rewrite Hr, C. unfold rd_cnt. apply count_ext. intros. now rewrite Hp.
  - rewrite Hw, D. unfold wr_cnt. apply count_ext. intros. now rewrite Hp.
  - rewrite Hr, Hw. exact E.
  - intros j Hj. rewrite Hc, Hm, Hp. auto.
  - intros i Hi. rewrite Hp. intros X j Hj Hne. rewrite Hm. apply (G i Hi X j Hj Hne).
  - intros i Hi. rewrite Hp. intros X j Hj Hne. rewrite Hm. apply (H i Hi X j Hj Hne).
Qed.

Lemma inv_local i s p' m' b' r' w' :
  Inv s -> i < N ->
  r' + b2n (is_rd (ph s i)) = r s + b2n (is_rd p') ->
  w' + b2n (is_wr (ph s i)) = w s + b2n (is_wr p') ->
  (w' <= 1 /\ (w' = 1 -> r' = 0)) ->
  own_ok p' m' b' (cm s i) ->
  (m' = M -> others_I s i) ->
  (m' <> I -> forall j, j < N -> j <> i -> ms s j <> M) ->
  (cm s i <> NoCmd -> m' <> I /\ p' = Idle) ->
  (p' = RdFilled -> others_not_M s i) ->
  (p' = WrFilled -> others_I s i) ->
  (forall k, k < N -> k <> i -> ph s k = RdFilled -> m' <> M) ->
  (forall k, k < N -> k <> i -> ph s k = WrFilled -> m' = I) ->
  Inv {| ms := upd (ms s) i m'; ph := upd (ph s) i p'; cm := cm s; l1 := upd (l1 s) i b'; r := r'; w := w' |}.
Proof.
  intros I0 Hi Hr Hw Hx Hown HM HnI Hcmd Hfr Hfw Hor How.
  pose proof I0 as [A B C D E F G H].
  constructor; simpl.
  - intros a b Ha Hb Hma Hne.
    destruct (Nat.eq_dec a i) as [->|Hai]; destruct (Nat.eq_dec b i) as [->|Hbi];
      repeat rewrite upd_same in *; repeat (rewrite upd_other in * by auto); try congruence.
    + apply HM; auto.
    + destruct m' eqn:Em; auto; exfalso; apply (HnI ltac:(discriminate) a Ha Hai Hma).
    + apply A with a; auto.
  - intros k Hk. destruct (Nat.eq_dec k i) as [->|Hne].
    + rewrite phase_ok_own; simpl. rewrite !upd_same. exact Hown.
    + rewrite phase_ok_own; simpl. rewrite !upd_other by auto. apply B; auto.
  - pose proof (rd_cnt_upd s i p' Hi) as Hc'. unfold rd_cnt. simpl. lia.
  - pose proof (wr_cnt_upd s i p' Hi) as Hc'. unfold wr_cnt. simpl. lia.
  - exact Hx.
  - intros j Hj Hnc. destruct (Nat.eq_dec j i) as [->|Hne].
    + rewrite !upd_same. auto.
    + rewrite !upd_other by auto. auto.
  - intros k Hk Hpk j Hj Hne. simpl. destruct (Nat.eq_dec k i) as [->|Hki].
    + rewrite upd_same in Hpk. rewrite upd_other by auto. apply Hfr; auto.
    + rewrite upd_other in Hpk by auto. destruct (Nat.eq_dec j i) as [->|Hji].
      * rewrite upd_same. apply (Hor k); auto.
      * rewrite upd_other by auto. apply (G k Hk Hpk j Hj Hne).
  - intros k Hk Hpk j Hj Hne. simpl. destruct (Nat.eq_dec k i) as [->|Hki].
    + rewrite upd_same in Hpk. rewrite upd_other by auto. apply Hfw; auto.
    + rewrite upd_other in Hpk by auto. destruct (Nat.eq_dec j i) as [->|Hji].
      * rewrite upd_same. apply (How k); auto.
      * rewrite upd_other by auto. apply (H k Hk Hpk j Hj Hne).
Qed.


Lemma upd_id {A} (f : nat -> A) i k : upd f i (f i) k = f k.
Proof. unfold upd. destruct (Nat.eqb_spec k i); subst; auto. Qed.

Lemma two_writers s i k : Inv s -> i < N -> k < N -> i <> k ->
  is_wr (ph s i) = true -> is_wr (ph s k) = true -> False.
Proof.
  intros I0 Hi Hk Hne Ei Ek.
  pose proof (wr_cnt_upd s i Idle Hi) as Hc. rewrite Ei in Hc. simpl in Hc.
  assert (1 <= count (fun j => is_wr (upd (ph s) i Idle j))).
  { apply (count_pos _ k Hk). rewrite upd_other by auto. exact Ek. }
  destruct (sem_x _ I0) as [Hle _]. rewrite (sem_w _ I0) in Hle. lia.
Qed.

Lemma reader_writer s i k : Inv s -> i < N -> k < N ->
  is_rd (ph s i) = true -> is_wr (ph s k) = true -> False.
Proof.
  intros I0 Hi Hk Ei Ek.
  pose proof (reader_pos s i I0 Hi Ei). destruct (writer_excl s k I0 Hk Ek). lia.
Qed.

Lemma swmr_others_notM s i : Inv s -> i < N -> ms s i <> I ->
  forall j, j < N -> j <> i -> ms s j <> M.
Proof.
  intros I0 Hi Hn j Hj Hne Hm. apply Hn. apply (swmr _ I0 j i); auto.
Qed.

Lemma swmr_others_I s i : Inv s -> i < N -> ms s i = M -> others_I s i.
Proof. intros I0 Hi Hm j Hj Hne. apply (swmr _ I0 i j); auto. Qed.


Lemma inv_local' i s s' p' m' b' :
  Inv s -> i < N ->
  (forall k, ms s' k = upd (ms s) i m' k) ->
  (forall k, ph s' k = upd (ph s) i p' k) ->
  (forall k, cm s' k = cm s k) ->
  (forall k, l1 s' k = upd (l1 s) i b' k) ->
  r s' + b2n (is_rd (ph s i)) = r s + b2n (is_rd p') ->
  w s' + b2n (is_wr (ph s i)) = w s + b2n (is_wr p') ->
  (w s' <= 1 /\ (w s' = 1 -> r s' = 0)) ->
  own_ok p' m' b' (cm s i) ->
  (m' = M -> others_I s i) ->
  (m' <> I -> forall j, j < N -> j <> i -> ms s j <> M) ->
  (cm s i <> NoCmd -> m' <> I /\ p' = Idle) ->
  (p' = RdFilled -> others_not_M s i) ->
  (p' = WrFilled -> others_I s i) ->
  (forall k, k < N -> k <> i -> ph s k = RdFilled -> m' <> M) ->
  (forall k, k < N -> k <> i -> ph s k = WrFilled -> m' = I) ->
  Inv s'.
Proof.
  intros I0 Hi E1 E2 E3 E4 Hr Hw Hx Hown HM HnI Hcmd Hfr Hfw Hor How.
  apply (inv_ext {| ms := upd (ms s) i m'; ph := upd (ph s) i p'; cm := cm s; l1 := upd (l1 s) i b'; r := r s'; w := w s' |}); simpl; auto.
  apply inv_local; auto.
Qed.

Ltac own s i I0 Hi Hp :=
  let P := fresh "P" in
  pose proof (phases _ I0 i Hi) as P; unfold phase_ok in P; rewrite Hp in P.

Ltac peq := intros; simpl; rewrite ?upd_id; reflexivity.

Lemma inv_fill_rd i s : Inv s -> i < N -> ph s i = RdWait -> others_not_M s i ->
  Inv {| ms := ms s; ph := upd (ph s) i RdFilled; cm := cm s; l1 := upd (l1 s) i true; r := r s; w := w s |}.
Proof.
  intros I0 Hi Hp Ho. own s i I0 Hi Hp. destruct P as [Pm [Pl Pc]].
  apply (inv_local' i s _ RdFilled (ms s i) true I0 Hi); try peq; simpl.
  - rewrite Hp. simpl. lia.
  - rewrite Hp. simpl. lia.
  - exact (sem_x _ I0).
  - rewrite Pm. auto.
  - congruence.
  - congruence.
  - congruence.
  - auto.
  - discriminate.
  - congruence.
  - congruence.
Qed.

Lemma inv_settle_rd i s : Inv s -> i < N -> ph s i = RdFilled ->
  Inv {| ms := upd (ms s) i S; ph := upd (ph s) i Idle; cm := cm s; l1 := l1 s; r := pred (r s); w := w s |}.
Proof.
  intros I0 Hi Hp. own s i I0 Hi Hp. destruct P as [Pm [Pl Pc]].
  assert (Hr1 : 1 <= r s) by (apply (reader_pos s i I0 Hi); rewrite Hp; reflexivity).
  apply (inv_local' i s _ Idle S (l1 s i) I0 Hi); try peq; simpl.
  - rewrite Hp. simpl. lia.
  - rewrite Hp. simpl. lia.
  - destruct (sem_x _ I0) as [E1 E2]. split; auto. intros X. specialize (E2 X). lia.
  - rewrite Pl. split; intros; [discriminate|reflexivity].
  - discriminate.
  - intros _. apply (filled_rd _ I0); auto.
  - congruence.
  - discriminate.
  - discriminate.
  - intros; discriminate.
  - intros k Hk Hne Hpk. exfalso. apply (reader_writer s i k I0 Hi Hk); [rewrite Hp|rewrite Hpk]; reflexivity.
Qed.

Lemma inv_rlock_S i s : Inv s -> i < N -> ms s i = S -> ph s i = Idle -> cm s i = NoCmd -> w s = 0 ->
  Inv {| ms := ms s; ph := upd (ph s) i ShRd; cm := cm s; l1 := l1 s; r := Datatypes.S (r s); w := w s |}.
Proof.
  intros I0 Hi Hm Hp Hc Hw.
  apply (inv_local' i s _ ShRd (ms s i) (l1 s i) I0 Hi); try peq; simpl.
  - rewrite Hp. simpl. lia.
  - rewrite Hp. simpl. lia.
  - rewrite Hw. split; [lia|]. intros; lia.
  - rewrite Hm. repeat split; auto. apply (l1_true_of_nonI s i); auto. congruence.
  - congruence.
  - intros _. apply swmr_others_notM; auto. congruence.
  - congruence.
  - discriminate.
  - discriminate.
  - intros; congruence.
  - intros k Hk Hne Hpk. exfalso. pose proof (no_writer s I0 Hw k Hk) as X. rewrite Hpk in X. discriminate.
Qed.

Lemma inv_done_shrd i s : Inv s -> i < N -> ph s i = ShRd ->
  Inv {| ms := ms s; ph := upd (ph s) i Idle; cm := cm s; l1 := l1 s; r := pred (r s); w := w s |}.
Proof.
  intros I0 Hi Hp. own s i I0 Hi Hp. destruct P as [Pm [Pl Pc]].
  assert (Hr1 : 1 <= r s) by (apply (reader_pos s i I0 Hi); rewrite Hp; reflexivity).
  apply (inv_local' i s _ Idle (ms s i) (l1 s i) I0 Hi); try peq; simpl.
  - rewrite Hp. simpl. lia.
  - rewrite Hp. simpl. lia.
  - destruct (sem_x _ I0) as [E1 E2]. split; auto. intros X. specialize (E2 X). lia.
  - rewrite Pm, Pl. split; intros; [discriminate|reflexivity].
  - congruence.
  - intros _. apply swmr_others_notM; auto. congruence.
  - congruence.
  - discriminate.
  - discriminate.
  - intros; congruence.
  - intros k Hk Hne Hpk. exfalso. apply (reader_writer s i k I0 Hi Hk); [rewrite Hp|rewrite Hpk]; reflexivity.
Qed.

Lemma inv_own_start i s p : Inv s -> i < N -> (p = OwnRd \/ p = OwnWr) ->
  ms s i = M -> ph s i = Idle -> cm s i = NoCmd -> w s = 0 -> r s = 0 ->
  Inv {| ms := ms s; ph := upd (ph s) i p; cm := cm s; l1 := l1 s; r := r s; w := Datatypes.S (w s) |}.
Proof.
  intros I0 Hi Hpp Hm Hp Hc Hw Hr.
  assert (Hl : l1 s i = true) by (apply (l1_true_of_nonI s i); auto; congruence).
  assert (Hwp : is_wr p = true /\ is_rd p = false) by (destruct Hpp as [-> | ->]; auto).
  destruct Hwp as [Hwp Hrp].
  apply (inv_local' i s _ p (ms s i) (l1 s i) I0 Hi); try peq; simpl.
  - rewrite Hp, Hrp. simpl. lia.
  - rewrite Hp, Hwp. simpl. lia.
  - rewrite Hw, Hr. split; [lia|auto].
  - rewrite Hm, Hl, Hc. destruct Hpp as [-> | ->]; simpl; auto.
  - intros _. apply swmr_others_I; auto.
  - intros _. apply swmr_others_notM; auto. congruence.
  - congruence.
  - destruct Hpp as [-> | ->]; discriminate.
  - destruct Hpp as [-> | ->]; discriminate.
  - intros k Hk Hne Hpk. exfalso. pose proof (no_reader s I0 Hr k Hk) as X. rewrite Hpk in X. discriminate.
  - intros k Hk Hne Hpk. exfalso. pose proof (no_writer s I0 Hw k Hk) as X. rewrite Hpk in X. discriminate.
Qed.

Lemma inv_own_done i s : Inv s -> i < N -> (ph s i = OwnRd \/ ph s i = OwnWr) ->
  Inv {| ms := ms s; ph := upd (ph s) i Idle; cm := cm s; l1 := l1 s; r := r s; w := pred (w s) |}.
Proof.
  intros I0 Hi Hp.
  assert (Hwr : is_wr (ph s i) = true) by (destruct Hp as [-> | ->]; reflexivity).
  assert (Hrd : is_rd (ph s i) = false) by (destruct Hp as [-> | ->]; reflexivity).
  destruct (writer_excl s i I0 Hi Hwr) as [Hw1 Hr0].
  assert (Pm : ms s i = M /\ l1 s i = true /\ cm s i = NoCmd).
  { pose proof (phases _ I0 i Hi) as P. unfold phase_ok in P. destruct Hp as [Hp|Hp]; rewrite Hp in P; exact P. }
  destruct Pm as [Pm [Pl Pc]].
  apply (inv_local' i s _ Idle (ms s i) (l1 s i) I0 Hi); try peq; simpl.
  - rewrite Hrd. simpl. lia.
  - rewrite Hwr, Hw1. simpl. lia.
  - rewrite Hw1. simpl. split; [lia|]. intros; lia.
  - rewrite Pm, Pl. split; intros; [discriminate|reflexivity].
  - intros _. apply swmr_others_I; auto.
  - intros _. apply swmr_others_notM; auto. congruence.
  - congruence.
  - discriminate.
  - discriminate.
  - intros k Hk Hne Hpk. exfalso. apply (reader_writer s k i I0 Hk Hi); [rewrite Hpk; reflexivity|exact Hwr].
  - intros k Hk Hne Hpk. exfalso. apply (two_writers s i k I0 Hi Hk); auto. rewrite Hpk; reflexivity.
Qed.

Lemma inv_fill_wr i s : Inv s -> i < N -> ph s i = WrWait -> others_I s i ->
  Inv {| ms := ms s; ph := upd (ph s) i WrFilled; cm := cm s; l1 := upd (l1 s) i true; r := r s; w := w s |}.
Proof.
  intros I0 Hi Hp Ho. own s i I0 Hi Hp. destruct P as [Pm [Pl Pc]].
  apply (inv_local' i s _ WrFilled (ms s i) true I0 Hi); try peq; simpl.
  - rewrite Hp. simpl. lia.
  - rewrite Hp. simpl. lia.
  - exact (sem_x _ I0).
  - rewrite Pm. auto.
  - congruence.
  - congruence.
  - congruence.
  - discriminate.
  - auto.
  - congruence.
  - congruence.
Qed.

Lemma inv_settle_M i s : Inv s -> i < N -> (ph s i = WrFilled \/ (ph s i = UpgWait /\ others_I s i)) ->
  Inv {| ms := upd (ms s) i M; ph := upd (ph s) i Idle; cm := cm s; l1 := l1 s; r := r s; w := pred (w s) |}.
Proof.
  intros I0 Hi Hp.
  assert (Hwr : is_wr (ph s i) = true) by (destruct Hp as [-> | [-> _]]; reflexivity).
  assert (Hrd : is_rd (ph s i) = false) by (destruct Hp as [-> | [-> _]]; reflexivity).
  destruct (writer_excl s i I0 Hi Hwr) as [Hw1 Hr0].
  assert (Ho : others_I s i).
  { destruct Hp as [Hp | [_ Ho]]; auto. apply (filled_wr _ I0); auto. }
  assert (Pl : l1 s i = true /\ cm s i = NoCmd).
  { pose proof (phases _ I0 i Hi) as P. unfold phase_ok in P. destruct Hp as [Hp|[Hp _]]; rewrite Hp in P; tauto. }
  destruct Pl as [Pl Pc].
  apply (inv_local' i s _ Idle M (l1 s i) I0 Hi); try peq; simpl.
  - rewrite Hrd. simpl. lia.
  - rewrite Hwr, Hw1. simpl. lia.
  - rewrite Hw1. simpl. split; [lia|]. intros; lia.
  - rewrite Pl. split; intros; [discriminate|reflexivity].
  - auto.
  - intros _ j Hj Hne. rewrite (Ho j Hj Hne). discriminate.
  - congruence.
  - discriminate.
  - discriminate.
  - intros k Hk Hne Hpk. exfalso. apply (reader_writer s k i I0 Hk Hi); [rewrite Hpk; reflexivity|exact Hwr].
  - intros k Hk Hne Hpk. exfalso. apply (two_writers s i k I0 Hi Hk); auto. rewrite Hpk; reflexivity.
Qed.


Lemma inv_lock_req i s p : Inv s -> i < N ->
  ((ms s i = I /\ p = WrWait) \/ (ms s i = S /\ p = UpgWait)) ->
  ph s i = Idle -> cm s i = NoCmd -> w s = 0 -> r s = 0 ->
  Inv {| ms := ms s; ph := upd (ph s) i p; cm := req_write s i; l1 := l1 s; r := r s; w := Datatypes.S (w s) |}.
Proof.
  intros I0 Hi Hmp Hp Hc Hw Hr. pose proof I0 as [A B C D E F G H].
  assert (Hwp : is_wr p = true /\ is_rd p = false) by (destruct Hmp as [[_ ->] | [_ ->]]; auto).
  destruct Hwp as [Hwp Hrp].
  constructor; simpl.
  - exact A.
  - intros k Hk. destruct (Nat.eq_dec k i) as [->|Hne].
    + unfold phase_ok; simpl. rewrite upd_same. unfold req_write. rewrite Nat.eqb_refl.
      destruct Hmp as [[Hm ->] | [Hm ->]].
      * repeat split; auto. apply (l1_false_of_I s i); auto.
      * repeat split; auto. apply (l1_true_of_nonI s i); auto. congruence.
    + apply (phase_ok_same s); simpl; auto.
      * now rewrite upd_other.
      * intros Hnid. unfold req_write. destruct (Nat.eqb_spec k i); [congruence|].
        destruct (ms s k) eqn:Emk; auto; exfalso; apply Hnid.
        -- apply (S_idle s k); auto.
        -- apply (M_idle s k); auto.
  - pose proof (rd_cnt_upd s i p Hi) as Hc'. rewrite Hp, Hrp in Hc'. simpl in Hc'.
    unfold rd_cnt. simpl. rewrite C. lia.
  - pose proof (wr_cnt_upd s i p Hi) as Hc'. rewrite Hp, Hwp in Hc'. simpl in Hc'.
    unfold wr_cnt. simpl. rewrite D. lia.
  - rewrite Hw, Hr. split; [lia|auto].
  - intros k Hk Hnc. unfold req_write in Hnc. destruct (Nat.eqb_spec k i) as [->|Hne]; [congruence|].
    rewrite upd_other by auto.
    destruct (ms s k) eqn:Emk.
    + destruct (F k Hk Hnc) as [X _]. congruence.
    + split; [discriminate|]. apply (S_idle s k); auto.
    + split; [discriminate|]. apply (M_idle s k); auto.
  - intros k Hk Hpk. destruct (Nat.eq_dec k i) as [->|Hne].
    + rewrite upd_same in Hpk. destruct Hmp as [[_ ->] | [_ ->]]; discriminate.
    + rewrite upd_other in Hpk by auto. exact (G k Hk Hpk).
  - intros k Hk Hpk. destruct (Nat.eq_dec k i) as [->|Hne].
    + rewrite upd_same in Hpk. destruct Hmp as [[_ ->] | [_ ->]]; discriminate.
    + rewrite upd_other in Hpk by auto. exact (H k Hk Hpk).
Qed.

Lemma inv_cmd_done j s : Inv s -> j < N -> cm s j <> NoCmd ->
  Inv {| ms := upd (ms s) j I; ph := ph s; cm := upd (cm s) j NoCmd; l1 := upd (l1 s) j false; r := r s; w := w s |}.
Proof.
  intros I0 Hj Hc. pose proof I0 as [A B C D E F G H].
  destruct (F j Hj Hc) as [Hm Hp].
  constructor; simpl; auto.
  - intros a b Ha Hb Hma Hne.
    destruct (Nat.eq_dec a j) as [->|Haj]; [rewrite upd_same in Hma; discriminate|].
    rewrite upd_other in Hma by auto.
    destruct (Nat.eq_dec b j) as [->|Hbj]; [now rewrite upd_same|].
    rewrite upd_other by auto. apply (A a b); auto.
  - intros k Hk. destruct (Nat.eq_dec k j) as [->|Hne].
    + unfold phase_ok; simpl. rewrite Hp, !upd_same. split; intros; [discriminate|congruence].
    + unfold phase_ok; simpl. rewrite !upd_other by auto. apply B; auto.
  - intros k Hk Hnc. destruct (Nat.eq_dec k j) as [->|Hne]; [rewrite upd_same in Hnc; congruence|].
    rewrite upd_other in Hnc by auto. rewrite upd_other by auto. auto.
  - intros k Hk Hpk a Ha Hne. simpl. destruct (Nat.eq_dec a j) as [->|Haj].
    + rewrite upd_same. discriminate.
    + rewrite upd_other by auto. apply (G k Hk Hpk a Ha Hne).
  - intros k Hk Hpk a Ha Hne. simpl. destruct (Nat.eq_dec a j) as [->|Haj].
    + now rewrite upd_same.
    + rewrite upd_other by auto. apply (H k Hk Hpk a Ha Hne).
Qed.

Lemma inv_evict_extra j s c : Inv s -> j < N -> ph s j = Idle -> cm s j = NoCmd -> ms s j <> I ->
  Inv {| ms := ms s; ph := ph s; cm := upd (cm s) j c; l1 := l1 s; r := r s; w := w s |}.
Proof.
  intros I0 Hj Hp Hc Hm. pose proof I0 as [A B C D E F G H].
  constructor; simpl; auto.
  - intros k Hk. apply (phase_ok_same s); simpl; auto.
    intros Hnid. destruct (Nat.eq_dec k j) as [->|Hne]; [congruence|]. now rewrite upd_other.
  - intros k Hk Hnc. destruct (Nat.eq_dec k j) as [->|Hne]; [auto|].
    rewrite upd_other in Hnc by auto. auto.
Qed.

Theorem inv_step s s' : Inv s -> step s s' -> Inv s'.
Proof.
  intros I0 Hs. inversion Hs; subst; clear Hs.
  - apply inv_rlock_I; auto.
  - apply inv_fill_rd; auto.
  - apply inv_settle_rd; auto.
  - apply inv_rlock_S; auto.
  - apply inv_done_shrd; auto.
  - apply inv_own_start; auto.
  - apply inv_own_done; auto.
  - apply inv_lock_req; auto.
  - apply inv_fill_wr; auto.
  - apply inv_settle_M; auto.
  - apply inv_lock_req; auto.
  - apply inv_settle_M; auto.
  - apply inv_own_start; auto.
  - apply inv_own_done; auto.
  - apply inv_cmd_done; auto.
  - apply inv_evict_extra; auto.
Qed.

Lemma inv_init : Inv init.
Proof.
  constructor; simpl; auto; try discriminate.
  all: try (intros; unfold phase_ok; simpl; split; intros; [discriminate|congruence]).
  all: try (unfold rd_cnt, wr_cnt, count; simpl; induction (seq 0 N); simpl; auto; fail).
  all: try (split; [lia|intros; lia]).
  all: try (intros j Hj X; congruence).
Qed.

Inductive reach : st -> Prop :=
| reach_init : reach init
| reach_step s s' : reach s -> step s s' -> reach s'.

Theorem msi_invariant s : reach s -> Inv s.
Proof. induction 1; [apply inv_init | eapply inv_step; eauto]. Qed.

(* the coded flush: drop the transaction, release the semaphore, keep L1 and state as they are *)
Definition flush_as_coded (s : st) (i : nat) : st :=
  {| ms := ms s; ph := upd (ph s) i Idle; cm := cm s; l1 := l1 s;
     r := if is_rd (ph s i) then pred (r s) else r s;
     w := if is_wr (ph s i) then pred (w s) else w s |}.

End Msi.

(* a read flushed between fill and settle breaks "L1 present <-> state <> I" *)
Example flush_after_fill_breaks_inv :
  exists s, reach 2 s /\ ~ Inv 2 (flush_as_coded s 0).
Proof.
  set (s1 := {| ms := ms (init); ph := upd (ph init) 0 RdWait; cm := req_read init 0; l1 := l1 init; r := 1; w := 0 |}).
  set (s2 := {| ms := ms s1; ph := upd (ph s1) 0 RdFilled; cm := cm s1; l1 := upd (l1 s1) 0 true; r := r s1; w := w s1 |}).
  exists s2. split.
  - apply reach_step with s1.
    + apply reach_step with init; [apply reach_init|]. apply rlock_I; simpl; auto.
    + apply fill_rd; simpl; auto. intros j Hj Hne. simpl. discriminate.
  - intros X. pose proof (phases _ _ X 0 ltac:(lia)) as P. unfold phase_ok in P; simpl in P.
    destruct P as [P _]. apply P; reflexivity.
Qed.

Print Assumptions msi_invariant.
Print Assumptions flush_after_fill_breaks_inv.
