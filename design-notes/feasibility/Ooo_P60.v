(* Feasibility study for DESIGN.md section 5, "The shared abstract machine Ooo": the scoreboard
   policy P60 (dispatch in program order iff no RAW/WAW/WAR hazard; execute and write-back in any
   order, any latency, any number of units) computes the sequential register file.  ~280 lines,
   compiles with coqc 8.16.1 in < 2 s, closed under the global context except the section
   variables.  Not part of the development; to be absorbed into coq/theories/Ooo/. *)
From Coq Require Import ZArith List Lia Arith Bool.
Import ListNotations.

(* Feasibility prototype: scoreboard machine with policy P60 (no RAW/WAW/WAR),
   in-order dispatch, arbitrary execute / write-back interleaving. *)

Definition reg := nat.
Definition rfile := reg -> Z.
Definition upd (rf : rfile) (d : reg) (v : Z) : rfile :=
  fun r => if Nat.eqb r d then v else rf r.

Record instr := { srcs : list reg; dst : option reg; sem : rfile -> Z }.

Definition nop : instr := {| srcs := []; dst := None; sem := fun _ => 0%Z |}.

Section Machine.
Variable prog : list instr.
Variable rf0 : rfile.
Hypothesis sem_ext : forall i, In i prog -> forall a b,
  (forall r, In r (srcs i) -> a r = b r) -> sem i a = sem i b.

Definition ins (k : nat) : instr := nth k prog nop.
Definition n := length prog.

Definition seq_step (rf : rfile) (i : instr) : rfile :=
  match dst i with Some d => upd rf d (sem i rf) | None => rf end.

Fixpoint seq_upto (k : nat) : rfile :=
  match k with O => rf0 | S k' => seq_step (seq_upto k') (ins k') end.

Inductive status := NotYet | Disp | Exec (v : Z) | Done.

Record st := { rf : rfile; nxt : nat; stat : nat -> status }.

Definition pending (s : st) (j : nat) : Prop :=
  j < nxt s /\ stat s j <> Done.

Definition writes (j : nat) (r : reg) : Prop := dst (ins j) = Some r.
Definition reads (j : nat) (r : reg) : Prop := In r (srcs (ins j)).

Definition dispatch_ok (s : st) : Prop :=
  let k := nxt s in
  (forall r, reads k r -> forall j, pending s j -> ~ writes j r) /\
  (forall d, writes k d -> forall j, pending s j -> ~ writes j d /\ ~ reads j d).

Definition setstat (f : nat -> status) (j : nat) (x : status) : nat -> status :=
  fun i => if Nat.eqb i j then x else f i.

Inductive step : st -> st -> Prop :=
| s_dispatch s : nxt s < n -> dispatch_ok s ->
    step s {| rf := rf s; nxt := S (nxt s); stat := setstat (stat s) (nxt s) Disp |}
| s_execute s j : j < nxt s -> stat s j = Disp ->
    step s {| rf := rf s; nxt := nxt s; stat := setstat (stat s) j (Exec (sem (ins j) (rf s))) |}
| s_writeback s j v : j < nxt s -> stat s j = Exec v ->
    step s {| rf := match dst (ins j) with Some d => upd (rf s) d v | None => rf s end;
              nxt := nxt s; stat := setstat (stat s) j Done |}.

Definition init : st := {| rf := rf0; nxt := 0; stat := fun _ => NotYet |}.

Inductive reach : st -> Prop :=
| r_init : reach init
| r_step s s' : reach s -> step s s' -> reach s'.

(* invariant *)
Record Inv (s : st) : Prop := {
  i_bound : nxt s <= n;
  i_notyet : forall j, nxt s <= j -> stat s j = NotYet;
  i_started : forall j, j < nxt s -> stat s j <> NotYet;
  (* a pending writer of r is the last writer of r among dispatched ones *)
  i_waw : forall j r, pending s j -> writes j r -> forall m, j < m < nxt s -> ~ writes m r;
  (* a pending reader of r has no younger dispatched writer of r *)
  i_war : forall j r, pending s j -> reads j r -> forall m, j < m < nxt s -> ~ writes m r;
  (* registers without pending writer are up to date *)
  i_clean : forall r, (forall j, pending s j -> ~ writes j r) -> rf s r = seq_upto (nxt s) r;
  (* a register with a pending writer j still has the value before j *)
  i_dirty : forall j r, pending s j -> writes j r -> rf s r = seq_upto j r;
  (* sources of a not-yet-executed instruction are right *)
  i_src : forall j r, j < nxt s -> stat s j = Disp -> reads j r -> rf s r = seq_upto j r;
  i_exec : forall j v, j < nxt s -> stat s j = Exec v -> v = sem (ins j) (seq_upto j);
  i_raw : forall i r, i < nxt s -> stat s i = Disp -> reads i r ->
          forall j, j < i -> pending s j -> ~ writes j r
}.

Lemma seq_upto_S k : seq_upto (S k) = seq_step (seq_upto k) (ins k).
Proof. reflexivity. Qed.

Lemma upd_same rf0' d v : upd rf0' d v d = v.
Proof. unfold upd. now rewrite Nat.eqb_refl. Qed.

Lemma upd_other rf0' d v r : r <> d -> upd rf0' d v r = rf0' r.
Proof. unfold upd. intros H. destruct (Nat.eqb_spec r d); congruence. Qed.

Lemma seq_step_other rf' i r : dst i <> Some r -> seq_step rf' i r = rf' r.
Proof.
  unfold seq_step. destruct (dst i) as [d|]; auto. intros H.
  apply upd_other. congruence.
Qed.

Lemma seq_upto_stable a b r : a <= b -> (forall m, a <= m < b -> ~ writes m r) ->
  seq_upto b r = seq_upto a r.
Proof.
  induction 1 as [|b Hle IH]; intros H; auto.
  rewrite seq_upto_S, seq_step_other.
  - apply IH. intros m Hm. apply H. lia.
  - apply (H b). lia.
Qed.

Lemma seq_upto_write j r : writes j r -> seq_upto (S j) r = sem (ins j) (seq_upto j).
Proof.
  unfold writes. intros H. rewrite seq_upto_S. unfold seq_step. rewrite H. apply upd_same.
Qed.

Lemma setstat_same f j x : setstat f j x j = x.
Proof. unfold setstat. now rewrite Nat.eqb_refl. Qed.
Lemma setstat_other f j x i : i <> j -> setstat f j x i = f i.
Proof. unfold setstat. intros. destruct (Nat.eqb_spec i j); congruence. Qed.

Lemma ins_in k : k < n -> In (ins k) prog.
Proof. intros. apply nth_In. exact H. Qed.

Lemma inv_init : Inv init.
Proof.
  constructor; simpl; intros; try lia; auto; try discriminate;
  try (match goal with H : pending init _ |- _ => destruct H as [H _]; simpl in H; lia end).
Qed.

Lemma inv_step s s' : Inv s -> step s s' -> Inv s'.
Proof.
  intros I Hs. destruct I. inversion Hs; subst; clear Hs.
  - (* dispatch *)
    rename H into Hlt. destruct H0 as [Hraw Hwaw].
    set (k := nxt s) in *.
    assert (Hpend : forall j, pending {| rf := rf s; nxt := S k; stat := setstat (stat s) k Disp |} j ->
                     j = k \/ pending s j).
    { intros j [Hj Hd]. simpl in *. destruct (Nat.eq_dec j k); auto. right.
      rewrite setstat_other in Hd by auto. split; [fold k; lia|auto]. }
    constructor; simpl.
    + lia.
    + intros j Hj. rewrite setstat_other by lia. apply i_notyet0. fold k. lia.
    + intros j Hj. destruct (Nat.eq_dec j k) as [->|].
      * rewrite setstat_same. discriminate.
      * rewrite setstat_other by auto. apply i_started0. fold k. lia.
    + intros j r Hp Hw m Hm. destruct (Hpend _ Hp) as [->|Hp']; [lia|].
      destruct (Nat.eq_dec m k) as [->|].
      * intro Hk. destruct (Hwaw _ Hk _ Hp') as [Hc _]. auto.
      * apply (i_waw0 j r Hp' Hw). fold k. lia.
    + intros j r Hp Hr m Hm. destruct (Hpend _ Hp) as [->|Hp']; [lia|].
      destruct (Nat.eq_dec m k) as [->|].
      * intro Hk. destruct (Hwaw _ Hk _ Hp') as [_ Hc]. auto.
      * apply (i_war0 j r Hp' Hr). fold k. lia.
    + intros r Hno.
      assert (Hk : ~ writes k r).
      { apply Hno. split; simpl; [lia|]. rewrite setstat_same. discriminate. }
      try rewrite seq_upto_S; rewrite seq_step_other by exact Hk.
      apply i_clean0. intros j Hp. apply Hno.
      destruct Hp as [Hj Hd]. split; simpl; [fold k in Hj; lia|].
      rewrite setstat_other; auto. fold k in Hj. lia.
    + intros j r Hp Hw. destruct (Hpend _ Hp) as [->|Hp'].
      * apply i_clean0. intros j Hpj Hwj. destruct (Hwaw _ Hw _ Hpj) as [Hc _]. auto.
      * apply i_dirty0; auto.
    + intros j r Hj Hst Hr. destruct (Nat.eq_dec j k) as [->|].
      * apply i_clean0. intros j Hpj Hwj. apply (Hraw _ Hr _ Hpj Hwj).
      * rewrite setstat_other in Hst by auto. apply i_src0; auto. fold k. lia.
    + intros j v Hj Hst. destruct (Nat.eq_dec j k) as [->|].
      * rewrite setstat_same in Hst. discriminate.
      * rewrite setstat_other in Hst by auto. apply i_exec0; auto. fold k. lia.
    + intros i r Hi Hsti Hr j Hji Hp. destruct (Hpend _ Hp) as [->|Hp']; [lia|].
      destruct (Nat.eq_dec i k) as [->|].
      * intro Hw. apply (Hraw _ Hr _ Hp' Hw).
      * rewrite setstat_other in Hsti by auto. apply (i_raw0 i r); auto. fold k. lia.
  - (* execute *)
    rename H into Hj. rename H0 into Hst.
    assert (Hpend : forall i, pending {| rf := rf s; nxt := nxt s; stat := setstat (stat s) j (Exec (sem (ins j) (rf s))) |} i <-> pending s i).
    { intros i. unfold pending; simpl. destruct (Nat.eq_dec i j) as [->|].
      - rewrite setstat_same, Hst. split; intros [A B]; split; auto; discriminate.
      - rewrite setstat_other by auto. tauto. }
    constructor; simpl; auto.
    + intros i Hi. rewrite setstat_other by lia. auto.
    + intros i Hi. destruct (Nat.eq_dec i j) as [->|].
      * rewrite setstat_same. discriminate.
      * rewrite setstat_other by auto. auto.
    + intros i r Hp. apply Hpend in Hp. eauto.
    + intros i r Hp. apply Hpend in Hp. eauto.
    + intros r Hno. apply i_clean0. intros i Hp. apply Hno. apply Hpend. auto.
    + intros i r Hp. apply Hpend in Hp. eauto.
    + intros i r Hi Hsti Hr. destruct (Nat.eq_dec i j) as [->|].
      * rewrite setstat_same in Hsti. discriminate.
      * rewrite setstat_other in Hsti by auto. auto.
    + intros i v Hi Hsti. destruct (Nat.eq_dec i j) as [->|].
      * rewrite setstat_same in Hsti. inversion Hsti; subst.
        apply sem_ext. { apply ins_in. lia. }
        intros r Hr. apply i_src0; auto.
      * rewrite setstat_other in Hsti by auto. auto.
    + intros i r Hi Hsti Hr i' Hlt Hp. apply Hpend in Hp.
      destruct (Nat.eq_dec i j) as [->|].
      * rewrite setstat_same in Hsti. discriminate.
      * rewrite setstat_other in Hsti by auto. eauto.
  - (* writeback *)
    rename H into Hj. rename H0 into Hst.
    assert (Hpj : pending s j). { split; auto. rewrite Hst. discriminate. }
    assert (Hv : v = sem (ins j) (seq_upto j)) by (apply i_exec0; auto).
    assert (Hpend : forall i, pending {| rf := match dst (ins j) with Some d => upd (rf s) d v | None => rf s end; nxt := nxt s; stat := setstat (stat s) j Done |} i <-> (pending s i /\ i <> j)).
    { intros i. unfold pending; simpl. destruct (Nat.eq_dec i j) as [->|].
      - rewrite setstat_same. split; [intros [A B]; congruence | intros [_ B]; congruence].
      - rewrite setstat_other by auto. tauto. }
    (* uniqueness of pending writer *)
    assert (Huniq : forall i r, pending s i -> writes i r -> writes j r -> i = j).
    { intros i r Hpi Hwi Hwj.
      destruct (lt_eq_lt_dec i j) as [[Hlt|]|Hlt]; auto.
      - exfalso. apply (i_waw0 i r Hpi Hwi j); auto; try (destruct Hpj; lia).
      - exfalso. apply (i_waw0 j r Hpj Hwj i); auto; try (destruct Hpi; lia). }
    constructor; simpl; auto.
    + intros i Hi. rewrite setstat_other by lia. auto.
    + intros i Hi. destruct (Nat.eq_dec i j) as [->|].
      * rewrite setstat_same. discriminate.
      * rewrite setstat_other by auto. auto.
    + intros i r Hp. apply Hpend in Hp. destruct Hp. eauto.
    + intros i r Hp. apply Hpend in Hp. destruct Hp. eauto.
    + (* clean *)
      intros r Hno.
      destruct (dst (ins j)) as [d|] eqn:Hd.
      * destruct (Nat.eq_dec r d) as [->|Hne].
        -- rewrite upd_same. subst v.
           rewrite <- (seq_upto_write j d Hd).
           symmetry. apply seq_upto_stable. { destruct Hpj; lia. }
           intros m Hm. apply (i_waw0 j d Hpj Hd m). lia.
        -- rewrite upd_other by auto. apply i_clean0.
           intros i Hpi Hwi. destruct (Nat.eq_dec i j) as [->|].
           ++ unfold writes in Hwi. congruence.
           ++ apply (Hno i); auto. apply Hpend. auto.
      * apply i_clean0. intros i Hpi Hwi. destruct (Nat.eq_dec i j) as [->|].
        -- unfold writes in Hwi. congruence.
        -- apply (Hno i); auto. apply Hpend; auto.
    + (* dirty *)
      intros i r Hp Hw. apply Hpend in Hp. destruct Hp as [Hp Hne].
      destruct (dst (ins j)) as [d|] eqn:Hd.
      * destruct (Nat.eq_dec r d) as [->|Hnr].
        -- exfalso. apply Hne. apply (Huniq i d); auto.
        -- rewrite upd_other by auto. auto.
      * auto.
    + (* src *)
      intros i r Hi Hsti Hr. destruct (Nat.eq_dec i j) as [->|Hne].
      * rewrite setstat_same in Hsti. discriminate.
      * rewrite setstat_other in Hsti by auto.
        assert (Hpi : pending s i). { split; auto. rewrite Hsti. discriminate. }
        destruct (dst (ins j)) as [d|] eqn:Hd.
        -- destruct (Nat.eq_dec r d) as [->|Hnr].
           ++ exfalso.
              (* i reads d, j writes d, both pending: j < i contradicts src clean-at-dispatch;
                 use: if j < i then i_src says rf d = seq_upto i d, but i_dirty says rf d = seq_upto j d ...
                 we need a structural fact instead: RAW guard. *)
              destruct (lt_eq_lt_dec i j) as [[Hlt|]|Hlt]; [|congruence|].
              ** apply (i_war0 i d Hpi Hr j); auto; try (destruct Hpj; lia).
              ** apply (i_raw0 i d Hi Hsti Hr j Hlt Hpj Hd).
           ++ rewrite upd_other by auto. auto.
        -- auto.
    + intros i v' Hi Hsti. destruct (Nat.eq_dec i j) as [->|].
      * rewrite setstat_same in Hsti. discriminate.
      * rewrite setstat_other in Hsti by auto. auto.
    + intros i r Hi Hsti Hr i' Hlt Hp. apply Hpend in Hp. destruct Hp as [Hp _].
      destruct (Nat.eq_dec i j) as [->|].
      * rewrite setstat_same in Hsti. discriminate.
      * rewrite setstat_other in Hsti by auto. eauto.
Qed.

Lemma reach_inv s : reach s -> Inv s.
Proof. induction 1 as [|s0 s1 Hr0 IH Hs]; [apply inv_init | exact (inv_step _ _ IH Hs)]. Qed.

Theorem p60_correct s : reach s -> nxt s = n -> (forall j, j < n -> stat s j = Done) ->
  forall r, rf s r = seq_upto n r.
Proof.
  intros Hr Hn Hd.
  assert (I : Inv s) by (apply reach_inv; auto).
  intros r. rewrite <- Hn. apply (i_clean _ I).
  intros j [Hj Hnd]. exfalso. apply Hnd. apply Hd. lia.
Qed.

Print Assumptions p60_correct.
End Machine.
