(* Feasibility study for DESIGN.md section 5 (C02/C16): int32 modelled on Z with explicit wrap,
   two's-complement bit facts via Z.testbit.  Compiles with coqc 8.16.1 in < 3 s.  Not part of the
   development; to be absorbed into coq/theories/Base/GoInt.v. *)
From Coq Require Import ZArith Lia Bool.
Open Scope Z_scope.
Ltac Zify.zify_post_hook ::= Z.div_mod_to_equations.

Definition M32 := 4294967296.
Definition H32 := 2147483648.
Definition int32 (x:Z) := -H32 <= x < H32.
Definition u32 (x:Z) := x mod M32.
Definition wrap32 (x:Z) : Z := let y := x mod M32 in if y <? H32 then y else y - M32.

Lemma wrap32_id x : int32 x -> wrap32 x = x.
Proof. unfold int32, wrap32, M32, H32. intros. destruct (Z.ltb_spec (x mod 4294967296) 2147483648); lia. Qed.

Lemma wrap32_u32 x : int32 x -> wrap32 (u32 x) = x.
Proof. unfold int32, wrap32, u32, M32, H32. intros. rewrite Z.mod_mod by lia. destruct (Z.ltb_spec (x mod 4294967296) 2147483648); lia. Qed.

(* testbit characterisation *)
Lemma u32_testbit x i : 0 <= i -> Z.testbit (u32 x) i = if i <? 32 then Z.testbit x i else false.
Proof.
  intros Hi. unfold u32, M32. change 4294967296 with (2^32).
  destruct (Z.ltb_spec i 32).
  - apply Z.mod_pow2_bits_low; lia.
  - apply Z.mod_pow2_bits_high; lia.
Qed.

Lemma int32_testbit_high x i : int32 x -> 31 <= i -> Z.testbit x i = Z.testbit x 31.
Proof.
  intros [Hlo Hhi] Hi. unfold H32 in *.
  destruct (Z.leb_spec 0 x).
  - rewrite !(Z.bits_above_log2 x) ; try lia; auto.
    + destruct (Z.eq_dec x 0); [subst; simpl; lia|]. assert (Z.log2 x < 31) by (apply Z.log2_lt_pow2; lia). lia.
    + destruct (Z.eq_dec x 0); [subst; simpl; lia|]. assert (Z.log2 x < 31) by (apply Z.log2_lt_pow2; lia). lia.
  - rewrite !(Z.bits_above_log2_neg x); try lia; auto.
    + assert (Z.log2 (Z.pred (-x)) < 31). { destruct (Z.eq_dec (Z.pred (-x)) 0) as [e|e]; [rewrite e; simpl; lia|]. apply Z.log2_lt_pow2; lia. } lia.
    + assert (Z.log2 (Z.pred (-x)) < 31). { destruct (Z.eq_dec (Z.pred (-x)) 0) as [e|e]; [rewrite e; simpl; lia|]. apply Z.log2_lt_pow2; lia. } lia.
Qed.

