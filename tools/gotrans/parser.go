package main

func genParser(repo, out string) {}
