// gotrans regenerates the Gallina models of the pure parts of teivah/majorana
// from the Go sources (DESIGN.md 4.2 and Appendix C).  It parses and
// type-checks the packages with go/parser + go/types (it never executes them)
// and emits one .v file per source unit:
//
//	Latency.v     common/latency/latency.go   (constants)
//	BytesGo.v     common/bytes/bytes.go        (all functions)
//	RiscTables.v  risc/risc.go                 (enumerations, Cycles, Is* predicates, IsRegisterChange)
//	Opcodes.v     risc/opcodes.go              (one record per instruction struct, Run / ReadRegisters /
//	                                            WriteRegisters / MemoryRead / MemoryWrite / InstructionType,
//	                                            the instr sum type and its dispatchers)
//	ParserTable.v risc/parser.go               (operand table of Parse, register-name table)
//
// Anything outside the supported subset is a translation failure (exit 2 with
// the source position), which the checks treat as a broken tie.
package main

import (
	"fmt"
	"go/ast"
	"go/constant"
	"go/importer"
	"go/parser"
	"go/token"
	"go/types"
	"os"
	"path/filepath"
	"sort"
	"strconv"
	"strings"
)

type failure struct{ msg string }

var fset = token.NewFileSet()

func fail(n ast.Node, format string, args ...any) {
	pos := ""
	if n != nil {
		pos = fset.Position(n.Pos()).String() + ": "
	}
	panic(failure{pos + fmt.Sprintf(format, args...)})
}

type pkgInfo struct {
	files []*ast.File
	info  *types.Info
	pkg   *types.Package
}

func loadPkg(repo, rel, path string) *pkgInfo {
	dir := filepath.Join(repo, rel)
	pkgs, err := parser.ParseDir(fset, dir, func(fi os.FileInfo) bool {
		return !strings.HasSuffix(fi.Name(), "_test.go") && !strings.HasPrefix(fi.Name(), "verif_")
	}, parser.ParseComments)
	if err != nil {
		panic(failure{"parse " + dir + ": " + err.Error()})
	}
	var files []*ast.File
	var names []string
	for _, p := range pkgs {
		for n := range p.Files {
			names = append(names, n)
		}
		sort.Strings(names)
		for _, n := range names {
			files = append(files, p.Files[n])
		}
	}
	conf := types.Config{Importer: importer.ForCompiler(fset, "source", nil)}
	info := &types.Info{
		Types: map[ast.Expr]types.TypeAndValue{},
		Defs:  map[*ast.Ident]types.Object{},
		Uses:  map[*ast.Ident]types.Object{},
	}
	pkg, err := conf.Check(path, fset, files, info)
	if err != nil {
		panic(failure{"typecheck " + dir + ": " + err.Error()})
	}
	return &pkgInfo{files: files, info: info, pkg: pkg}
}

// ---------------------------------------------------------------------------
// Types

type intKind struct {
	signed bool
	width  int
}

func basicKind(t types.Type) (intKind, bool) {
	b, ok := t.Underlying().(*types.Basic)
	if !ok {
		return intKind{}, false
	}
	switch b.Kind() {
	case types.Int8:
		return intKind{true, 8}, true
	case types.Int16:
		return intKind{true, 16}, true
	case types.Int32, types.UntypedRune:
		return intKind{true, 32}, true
	case types.Int64, types.Int, types.UntypedInt:
		return intKind{true, 64}, true
	case types.Uint8:
		return intKind{false, 8}, true
	case types.Uint16:
		return intKind{false, 16}, true
	case types.Uint32:
		return intKind{false, 32}, true
	case types.Uint64, types.Uint, types.Uintptr:
		return intKind{false, 64}, true
	}
	return intKind{}, false
}

func (k intKind) contains(o intKind) bool {
	if k.signed == o.signed {
		return k.width >= o.width
	}
	if k.signed && !o.signed {
		return k.width > o.width
	}
	return false
}

func wrapFn(k intKind) string {
	if k.signed {
		return fmt.Sprintf("wrapS %d", k.width)
	}
	return fmt.Sprintf("wrapU %d", k.width)
}

func coqType(t types.Type) string {
	if _, ok := basicKind(t); ok {
		return "Z"
	}
	switch u := t.Underlying().(type) {
	case *types.Basic:
		if u.Kind() == types.Bool || u.Kind() == types.UntypedBool {
			return "bool"
		}
		if u.Kind() == types.String {
			return "Z" // labels are abstract identifiers
		}
	case *types.Slice:
		return "(list " + coqType(u.Elem()) + ")"
	case *types.Array:
		parts := make([]string, u.Len())
		for i := range parts {
			parts[i] = coqType(u.Elem())
		}
		return "(" + strings.Join(parts, " * ") + ")"
	case *types.Map:
		if coqType(u.Key()) == "Z" {
			if b, ok := u.Key().Underlying().(*types.Basic); ok && b.Kind() == types.String {
				return "(Z -> option " + coqType(u.Elem()) + ")"
			}
			return "(list (Z * " + coqType(u.Elem()) + "))"
		}
	case *types.Struct:
		if n, ok := t.(*types.Named); ok {
			if n.Obj().Name() == "Execution" {
				return "execution"
			}
			return n.Obj().Name() + "_t"
		}
	case *types.Pointer:
		return coqType(u.Elem())
	}
	panic(failure{"unsupported type " + t.String()})
}

func zeroValue(t types.Type) string {
	switch coqType(t) {
	case "Z":
		return "0"
	case "bool":
		return "false"
	}
	if strings.HasPrefix(coqType(t), "(list") {
		return "[]"
	}
	panic(failure{"no zero value for " + t.String()})
}

// ---------------------------------------------------------------------------
// Function translation

type fnCtx struct {
	p        *pkgInfo
	monadic  bool
	usedG    bool // a guard / panic / monadic call was needed
	pre      []preItem
	tmp      int
	recvName string
	recvType string           // struct name when receiver is an instruction struct
	monFns   map[string]bool  // names of monadic functions (by generated name)
	names    map[string]string // Go object name -> Coq name (for renamed params)
	results  *types.Tuple
	hasErr   bool
}

type preItem struct {
	guard bool
	name  string
	term  string
}

func (c *fnCtx) typeOf(e ast.Expr) types.Type {
	t := c.p.info.TypeOf(e)
	if t == nil {
		fail(e, "no type")
	}
	return t
}

func constVal(p *pkgInfo, e ast.Expr) (string, bool) {
	tv, ok := p.info.Types[e]
	if !ok || tv.Value == nil {
		return "", false
	}
	switch tv.Value.Kind() {
	case constant.Int:
		s := tv.Value.ExactString()
		if strings.HasPrefix(s, "-") {
			return "(" + s + ")", true
		}
		return s, true
	case constant.Bool:
		return strconv.FormatBool(constant.BoolVal(tv.Value)), true
	}
	return "", false
}

func (c *fnCtx) guard(cond string) {
	c.usedG = true
	c.pre = append(c.pre, preItem{guard: true, term: cond})
}

func (c *fnCtx) bindCall(term string) string {
	c.usedG = true
	c.tmp++
	n := fmt.Sprintf("tmp%d", c.tmp)
	c.pre = append(c.pre, preItem{name: n, term: term})
	return n
}

func snake(pkg, name string) string {
	return name
}

func (c *fnCtx) ident(id *ast.Ident) string {
	if id.Name == "nil" {
		return "[]"
	}
	if id.Name == "true" || id.Name == "false" {
		return id.Name
	}
	if id.Name == "_" {
		return "_"
	}
	if n, ok := c.names[id.Name]; ok {
		return n
	}
	return id.Name
}

func (c *fnCtx) expr(e ast.Expr) string {
	if v, ok := constVal(c.p, e); ok {
		// typed constant expressions are folded by go/types exactly as the
		// compiler folds them (including overflow checks)
		return v
	}
	switch x := e.(type) {
	case *ast.ParenExpr:
		return c.expr(x.X)
	case *ast.Ident:
		return c.ident(x)
	case *ast.BasicLit:
		fail(e, "non-integer literal %s", x.Value)
	case *ast.SelectorExpr:
		// op.field
		if id, ok := x.X.(*ast.Ident); ok {
			if id.Name == c.recvName && c.recvType != "" {
				return fmt.Sprintf("(%s_%s %s)", c.recvType, x.Sel.Name, c.recvName)
			}
			// pkg.Const handled by constVal; anything else unsupported
		}
		fail(e, "unsupported selector %s", exprString(e))
	case *ast.UnaryExpr:
		t := c.typeOf(e)
		switch x.Op {
		case token.NOT:
			return "(negb " + c.expr(x.X) + ")"
		case token.SUB:
			k, ok := basicKind(t)
			if !ok {
				fail(e, "unary - on non-integer")
			}
			return fmt.Sprintf("(%s (0 - %s))", wrapFn(k), c.expr(x.X))
		case token.XOR:
			k, ok := basicKind(t)
			if !ok {
				fail(e, "unary ^ on non-integer")
			}
			if k.signed {
				return "(Z.lnot " + c.expr(x.X) + ")"
			}
			return fmt.Sprintf("(%s (Z.lnot %s))", wrapFn(k), c.expr(x.X))
		case token.ADD:
			return c.expr(x.X)
		}
		fail(e, "unsupported unary operator %s", x.Op)
	case *ast.BinaryExpr:
		return c.binary(x)
	case *ast.CallExpr:
		return c.call(x)
	case *ast.IndexExpr:
		return c.index(x)
	case *ast.CompositeLit:
		return c.composite(x)
	}
	fail(e, "unsupported expression %T", e)
	return ""
}

func exprString(e ast.Expr) string {
	var sb strings.Builder
	ast.Fprint(&sb, fset, e, nil)
	return fset.Position(e.Pos()).String()
}

func (c *fnCtx) binary(x *ast.BinaryExpr) string {
	a := c.expr(x.X)
	switch x.Op {
	case token.LAND:
		// Go short-circuits: guards raised by the right operand would be
		// conditional; refuse them rather than over-approximate
		n := len(c.pre)
		b := c.expr(x.Y)
		if len(c.pre) != n {
			fail(x, "partial operation on the right of &&")
		}
		return fmt.Sprintf("(andb %s %s)", a, b)
	case token.LOR:
		n := len(c.pre)
		b := c.expr(x.Y)
		if len(c.pre) != n {
			fail(x, "partial operation on the right of ||")
		}
		return fmt.Sprintf("(orb %s %s)", a, b)
	}
	b := c.expr(x.Y)
	tx := c.typeOf(x.X)
	switch x.Op {
	case token.EQL, token.NEQ, token.LSS, token.LEQ, token.GTR, token.GEQ:
		if _, ok := basicKind(tx); !ok {
			if coqType(tx) == "bool" && (x.Op == token.EQL || x.Op == token.NEQ) {
				if x.Op == token.EQL {
					return fmt.Sprintf("(Bool.eqb %s %s)", a, b)
				}
				return fmt.Sprintf("(negb (Bool.eqb %s %s))", a, b)
			}
			if coqType(tx) != "Z" {
				fail(x, "comparison of non-integers")
			}
		}
		switch x.Op {
		case token.EQL:
			return fmt.Sprintf("(%s =? %s)", a, b)
		case token.NEQ:
			return fmt.Sprintf("(negb (%s =? %s))", a, b)
		case token.LSS:
			return fmt.Sprintf("(%s <? %s)", a, b)
		case token.LEQ:
			return fmt.Sprintf("(%s <=? %s)", a, b)
		case token.GTR:
			return fmt.Sprintf("(%s <? %s)", b, a)
		case token.GEQ:
			return fmt.Sprintf("(%s <=? %s)", b, a)
		}
	}
	t := c.typeOf(x)
	k, ok := basicKind(t)
	if !ok {
		fail(x, "arithmetic on non-integer type %s", t)
	}
	sfx := "U"
	if k.signed {
		sfx = "S"
	}
	switch x.Op {
	case token.ADD:
		return fmt.Sprintf("(add%s %d %s %s)", sfx, k.width, a, b)
	case token.SUB:
		return fmt.Sprintf("(sub%s %d %s %s)", sfx, k.width, a, b)
	case token.MUL:
		return fmt.Sprintf("(mul%s %d %s %s)", sfx, k.width, a, b)
	case token.QUO:
		c.guard(fmt.Sprintf("(negb (%s =? 0))", b))
		if k.signed {
			return fmt.Sprintf("(quoS %d %s %s)", k.width, a, b)
		}
		return fmt.Sprintf("(Z.div %s %s)", a, b)
	case token.REM:
		c.guard(fmt.Sprintf("(negb (%s =? 0))", b))
		if k.signed {
			return fmt.Sprintf("(remS %d %s %s)", k.width, a, b)
		}
		return fmt.Sprintf("(Z.modulo %s %s)", a, b)
	case token.AND:
		return fmt.Sprintf("(Z.land %s %s)", a, b)
	case token.OR:
		return fmt.Sprintf("(Z.lor %s %s)", a, b)
	case token.XOR:
		return fmt.Sprintf("(Z.lxor %s %s)", a, b)
	case token.AND_NOT:
		return fmt.Sprintf("(Z.ldiff %s %s)", a, b)
	case token.SHL, token.SHR:
		ky, ok := basicKind(c.typeOf(x.Y))
		if !ok {
			fail(x, "shift count is not an integer")
		}
		if ky.signed {
			if _, isConst := constVal(c.p, x.Y); !isConst {
				// Go: a negative shift count is a run-time panic
				c.guard(fmt.Sprintf("(0 <=? %s)", b))
			}
		}
		if x.Op == token.SHL {
			return fmt.Sprintf("(shl%s %d %s %s)", sfx, k.width, a, b)
		}
		return fmt.Sprintf("(shr%s %d %s %s)", sfx, k.width, a, b)
	}
	fail(x, "unsupported binary operator %s", x.Op)
	return ""
}

func (c *fnCtx) call(x *ast.CallExpr) string {
	// conversion?
	if tv, ok := c.p.info.Types[x.Fun]; ok && tv.IsType() {
		if len(x.Args) != 1 {
			fail(x, "conversion with %d args", len(x.Args))
		}
		to, ok1 := basicKind(tv.Type)
		from, ok2 := basicKind(c.typeOf(x.Args[0]))
		if !ok1 || !ok2 {
			fail(x, "unsupported conversion to %s", tv.Type)
		}
		a := c.expr(x.Args[0])
		if to.contains(from) {
			return a
		}
		return fmt.Sprintf("(%s %s)", wrapFn(to), a)
	}
	var name string
	var recvArg string
	switch f := x.Fun.(type) {
	case *ast.Ident:
		name = f.Name
	case *ast.SelectorExpr:
		if id, ok := f.X.(*ast.Ident); ok {
			if obj, ok := c.p.info.Uses[id].(*types.PkgName); ok {
				_ = obj
				name = f.Sel.Name // bytes.I32FromBytes -> I32FromBytes
				break
			}
		}
		// method call on a value: ins.IsUnconditionalBranch()
		rt := c.typeOf(f.X)
		if n, ok := rt.(*types.Named); ok {
			name = n.Obj().Name() + "_" + f.Sel.Name
			recvArg = c.expr(f.X)
		} else {
			fail(x, "unsupported method call")
		}
	default:
		fail(x, "unsupported call")
	}
	switch name {
	case "registerRead":
		// registerRead(ctx, op.forward, reg, sequenceID): abstracted as the
		// read function rr (its own model is Comp/Tx.v, tied by C15)
		if len(x.Args) != 4 {
			fail(x, "registerRead arity")
		}
		return fmt.Sprintf("(rr %s)", c.expr(x.Args[2]))
	case "len":
		return fmt.Sprintf("(Z.of_nat (length %s))", c.expr(x.Args[0]))
	case "panic":
		fail(x, "panic in expression position")
	}
	var args []string
	if recvArg != "" {
		args = append(args, recvArg)
	}
	for _, a := range x.Args {
		args = append(args, c.expr(a))
	}
	term := "(" + name + " " + strings.Join(args, " ") + ")"
	if len(args) == 0 {
		term = name
	}
	if c.monFns[name] {
		return c.bindCall(term)
	}
	return term
}

func (c *fnCtx) index(x *ast.IndexExpr) string {
	t := c.typeOf(x.X)
	switch u := t.Underlying().(type) {
	case *types.Slice:
		a := c.expr(x.X)
		i := c.expr(x.Index)
		c.guard(fmt.Sprintf("(andb (0 <=? %s) (%s <? Z.of_nat (length %s)))", i, i, a))
		return fmt.Sprintf("(nth (Z.to_nat %s) %s 0)", i, a)
	case *types.Array:
		iv, ok := constVal(c.p, x.Index)
		if !ok {
			fail(x, "array index is not constant")
		}
		if u.Len() != 4 {
			fail(x, "array of length %d", u.Len())
		}
		return fmt.Sprintf("(a4_%s %s)", iv, c.expr(x.X))
	}
	fail(x, "unsupported index expression")
	return ""
}

var executionFields = []string{"RegisterChange", "Register", "RegisterValue", "MemoryChange", "MemoryChanges", "NextPc", "PcChange", "Return"}
var executionDefaults = []string{"false", "0", "0", "false", "[]", "0", "false", "false"}

func (c *fnCtx) composite(x *ast.CompositeLit) string {
	t := c.typeOf(x)
	switch u := t.Underlying().(type) {
	case *types.Slice:
		var parts []string
		for _, e := range x.Elts {
			parts = append(parts, c.expr(e))
		}
		return "[" + strings.Join(parts, "; ") + "]"
	case *types.Array:
		var parts []string
		for _, e := range x.Elts {
			parts = append(parts, c.expr(e))
		}
		if int64(len(parts)) != u.Len() {
			fail(x, "partial array literal")
		}
		return "(" + strings.Join(parts, ", ") + ")"
	case *types.Map:
		var parts []string
		for _, e := range x.Elts {
			kv := e.(*ast.KeyValueExpr)
			parts = append(parts, fmt.Sprintf("(%s, %s)", c.expr(kv.Key), c.expr(kv.Value)))
		}
		return "[" + strings.Join(parts, "; ") + "]"
	case *types.Struct:
		n, ok := t.(*types.Named)
		if !ok || n.Obj().Name() != "Execution" {
			fail(x, "unsupported struct literal %s", t)
		}
		vals := append([]string{}, executionDefaults...)
		for _, e := range x.Elts {
			kv, ok := e.(*ast.KeyValueExpr)
			if !ok {
				fail(x, "positional struct literal")
			}
			key := kv.Key.(*ast.Ident).Name
			found := false
			for i, f := range executionFields {
				if f == key {
					vals[i] = c.expr(kv.Value)
					found = true
				}
			}
			if !found {
				fail(x, "unknown Execution field %s", key)
			}
		}
		return "(mk_execution " + strings.Join(vals, " ") + ")"
	}
	fail(x, "unsupported composite literal")
	return ""
}

// wrapPre wraps term with the guards / binds accumulated since mark.
func (c *fnCtx) wrapPre(mark int, term string) string {
	items := c.pre[mark:]
	c.pre = c.pre[:mark]
	for i := len(items) - 1; i >= 0; i-- {
		it := items[i]
		if it.guard {
			term = fmt.Sprintf("guard %s (%s)", it.term, term)
		} else {
			term = fmt.Sprintf("%s <- %s ;; %s", it.name, it.term, term)
		}
	}
	return term
}

func (c *fnCtx) ret(val string) string {
	if c.monadic {
		return "Ok " + val
	}
	return val
}

func isDebugIf(s *ast.IfStmt) bool {
	if sel, ok := s.Cond.(*ast.SelectorExpr); ok && sel.Sel.Name == "Debug" {
		return true
	}
	return false
}

// alwaysReturns: every path through the statements ends in return/panic
func alwaysReturns(stmts []ast.Stmt) bool {
	if len(stmts) == 0 {
		return false
	}
	switch s := stmts[len(stmts)-1].(type) {
	case *ast.ReturnStmt:
		return true
	case *ast.ExprStmt:
		if call, ok := s.X.(*ast.CallExpr); ok {
			if id, ok := call.Fun.(*ast.Ident); ok && id.Name == "panic" {
				return true
			}
		}
	case *ast.IfStmt:
		if s.Else == nil {
			return false
		}
		eb, ok := s.Else.(*ast.BlockStmt)
		if !ok {
			return alwaysReturns(s.Body.List) && alwaysReturns([]ast.Stmt{s.Else})
		}
		return alwaysReturns(s.Body.List) && alwaysReturns(eb.List)
	case *ast.SwitchStmt:
		hasDefault := false
		for _, cc := range s.Body.List {
			cl := cc.(*ast.CaseClause)
			if cl.List == nil {
				hasDefault = true
			}
			if !alwaysReturns(cl.Body) {
				return false
			}
		}
		return hasDefault
	case *ast.BlockStmt:
		return alwaysReturns(s.List)
	}
	return false
}

func containsReturn(n ast.Node) bool {
	found := false
	ast.Inspect(n, func(m ast.Node) bool {
		switch x := m.(type) {
		case *ast.ReturnStmt:
			found = true
		case *ast.CallExpr:
			if id, ok := x.Fun.(*ast.Ident); ok && id.Name == "panic" {
				found = true
			}
		}
		return !found
	})
	return found
}

// assignedVars lists, in first-assignment order, the variables assigned in
// stmts that are not declared inside stmts.
func assignedVars(stmts []ast.Stmt) []string {
	declared := map[string]bool{}
	var out []string
	seen := map[string]bool{}
	add := func(e ast.Expr) {
		if id, ok := e.(*ast.Ident); ok && id.Name != "_" && !declared[id.Name] && !seen[id.Name] {
			seen[id.Name] = true
			out = append(out, id.Name)
		}
	}
	for _, s := range stmts {
		ast.Inspect(s, func(m ast.Node) bool {
			switch x := m.(type) {
			case *ast.AssignStmt:
				if x.Tok == token.DEFINE {
					for _, l := range x.Lhs {
						if id, ok := l.(*ast.Ident); ok {
							declared[id.Name] = true
						}
					}
				} else {
					for _, l := range x.Lhs {
						add(l)
					}
				}
			case *ast.IncDecStmt:
				add(x.X)
			case *ast.DeclStmt:
				for _, sp := range x.Decl.(*ast.GenDecl).Specs {
					for _, id := range sp.(*ast.ValueSpec).Names {
						declared[id.Name] = true
					}
				}
			}
			return true
		})
	}
	return out
}

func tuple(vs []string) string {
	if len(vs) == 1 {
		return vs[0]
	}
	return "(" + strings.Join(vs, ", ") + ")"
}

func pattern(vs []string) string {
	if len(vs) == 1 {
		return vs[0]
	}
	return "'(" + strings.Join(vs, ", ") + ")"
}

// block translates a statement list.  k is the term that follows the list when
// it falls through ("" when falling through is impossible / an error).
func (c *fnCtx) block(stmts []ast.Stmt, k string) string {
	if len(stmts) == 0 {
		if k == "" {
			panic(failure{"fall-through without continuation"})
		}
		return k
	}
	s := stmts[0]
	rest := func() string { return c.block(stmts[1:], k) }
	mark := len(c.pre)
	switch x := s.(type) {
	case *ast.ReturnStmt:
		var term string
		switch {
		case c.hasErr:
			last := x.Results[len(x.Results)-1]
			if id, ok := last.(*ast.Ident); ok && id.Name == "nil" {
				var vals []string
				for _, r := range x.Results[:len(x.Results)-1] {
					vals = append(vals, c.expr(r))
				}
				term = "Ok " + tuple(vals)
			} else {
				term = "Err " + errClass(last)
			}
		default:
			var vals []string
			for _, r := range x.Results {
				vals = append(vals, c.expr(r))
			}
			term = c.ret(tuple(vals))
		}
		return c.wrapPre(mark, term)
	case *ast.ExprStmt:
		if call, ok := x.X.(*ast.CallExpr); ok {
			if id, ok := call.Fun.(*ast.Ident); ok && id.Name == "panic" {
				c.usedG = true
				return "Panic"
			}
			if sel, ok := call.Fun.(*ast.SelectorExpr); ok {
				if id, ok := sel.X.(*ast.Ident); ok && id.Name == "fmt" {
					return rest() // debug printing
				}
			}
		}
		fail(s, "unsupported expression statement")
	case *ast.DeclStmt:
		gd := x.Decl.(*ast.GenDecl)
		if gd.Tok != token.VAR {
			fail(s, "unsupported declaration")
		}
		type nv struct{ n, v string }
		var binds []nv
		for _, sp := range gd.Specs {
			vs := sp.(*ast.ValueSpec)
			for i, id := range vs.Names {
				v := ""
				if len(vs.Values) > i {
					v = c.expr(vs.Values[i])
				} else {
					v = zeroValue(c.p.info.Defs[id].Type())
				}
				binds = append(binds, nv{id.Name, v})
			}
		}
		if len(c.pre) != mark {
			fail(s, "partial operation in var declaration")
		}
		body := rest()
		for i := len(binds) - 1; i >= 0; i-- {
			body = fmt.Sprintf("let %s := %s in\n  %s", binds[i].n, binds[i].v, body)
		}
		return body
	case *ast.IncDecStmt:
		id, ok := x.X.(*ast.Ident)
		if !ok {
			fail(s, "unsupported ++ target")
		}
		k0, ok := basicKind(c.typeOf(x.X))
		if !ok {
			fail(s, "++ on non-integer")
		}
		op := "+"
		if x.Tok == token.DEC {
			op = "-"
		}
		v := fmt.Sprintf("(%s (%s %s 1))", wrapFn(k0), id.Name, op)
		return fmt.Sprintf("let %s := %s in\n  %s", id.Name, v, rest())
	case *ast.AssignStmt:
		if len(x.Rhs) == 1 && len(x.Lhs) == 2 {
			// a, ok := m[k]   or   a, b := f(...)
			if ix, ok := x.Rhs[0].(*ast.IndexExpr); ok {
				if _, isMap := c.typeOf(ix.X).Underlying().(*types.Map); isMap {
					m := c.expr(ix.X)
					key := c.expr(ix.Index)
					a := c.ident(x.Lhs[0].(*ast.Ident))
					okn := c.ident(x.Lhs[1].(*ast.Ident))
					body := rest()
					return c.wrapPre(mark, fmt.Sprintf("let '(%s, %s) := match %s %s with Some v => (v, true) | None => (0, false) end in\n  %s", a, okn, m, key, body))
				}
			}
			rhs := c.expr(x.Rhs[0])
			var names []string
			for _, l := range x.Lhs {
				names = append(names, c.ident(l.(*ast.Ident)))
			}
			// continuation is translated after the rhs so that pre items of
			// the rhs wrap the whole let
			inner := mark
			_ = inner
			pre := append([]preItem{}, c.pre[mark:]...)
			c.pre = c.pre[:mark]
			body := rest()
			c.pre = append(c.pre[:mark], pre...)
			return c.wrapPre(mark, fmt.Sprintf("let '(%s) := %s in\n  %s", strings.Join(names, ", "), rhs, body))
		}
		if len(x.Lhs) != len(x.Rhs) {
			fail(s, "unsupported assignment shape")
		}
		if x.Tok != token.DEFINE && x.Tok != token.ASSIGN {
			fail(s, "unsupported assignment operator %s", x.Tok)
		}
		var names, vals []string
		for i, l := range x.Lhs {
			id, ok := l.(*ast.Ident)
			if !ok {
				fail(s, "assignment to a non-variable (side effect outside the modelled subset)")
			}
			names = append(names, c.ident(id))
			vals = append(vals, c.expr(x.Rhs[i]))
		}
		pre := append([]preItem{}, c.pre[mark:]...)
		c.pre = c.pre[:mark]
		body := rest()
		c.pre = append(c.pre[:mark], pre...)
		if len(names) == 1 {
			return c.wrapPre(mark, fmt.Sprintf("let %s := %s in\n  %s", names[0], vals[0], body))
		}
		return c.wrapPre(mark, fmt.Sprintf("let '(%s) := (%s) in\n  %s", strings.Join(names, ", "), strings.Join(vals, ", "), body))
	case *ast.IfStmt:
		if isDebugIf(x) {
			return rest()
		}
		if x.Init != nil {
			fail(s, "if with init statement")
		}
		cond := c.expr(x.Cond)
		var elseList []ast.Stmt
		if x.Else != nil {
			if eb, ok := x.Else.(*ast.BlockStmt); ok {
				elseList = eb.List
			} else {
				elseList = []ast.Stmt{x.Else}
			}
		}
		pre := append([]preItem{}, c.pre[mark:]...)
		c.pre = c.pre[:mark]
		var term string
		if alwaysReturns(x.Body.List) {
			thenT := c.block(x.Body.List, "")
			elseT := c.block(append(append([]ast.Stmt{}, elseList...), stmts[1:]...), k)
			term = fmt.Sprintf("if %s then (\n  %s)\n  else (\n  %s)", cond, thenT, elseT)
		} else if !containsReturn(x.Body) && (x.Else == nil || !containsReturn(x.Else)) {
			vars := assignedVars(append(append([]ast.Stmt{}, x.Body.List...), elseList...))
			if len(vars) == 0 {
				term = rest() // no observable effect in the modelled subset
			} else {
				tail := c.ret(tuple(vars))
				thenT := c.block(x.Body.List, tail)
				elseT := c.block(elseList, tail)
				body := rest()
				if c.monadic {
					term = fmt.Sprintf("%s <- (if %s then (%s) else (%s)) ;;\n  %s", pattern(vars), cond, thenT, elseT, body)
				} else {
					term = fmt.Sprintf("let %s := (if %s then (%s) else (%s)) in\n  %s", pattern(vars), cond, thenT, elseT, body)
				}
			}
		} else {
			fail(s, "if statement that returns on some paths only")
		}
		c.pre = append(c.pre[:mark], pre...)
		return c.wrapPre(mark, term)
	case *ast.ForStmt:
		// for i := a; i < b; i++ { body } with literal bounds: unrolled
		init, ok1 := x.Init.(*ast.AssignStmt)
		cond, ok2 := x.Cond.(*ast.BinaryExpr)
		post, ok3 := x.Post.(*ast.IncDecStmt)
		if !ok1 || !ok2 || !ok3 || init.Tok != token.DEFINE || len(init.Lhs) != 1 || cond.Op != token.LSS || post.Tok != token.INC {
			fail(s, "unsupported loop shape")
		}
		iv := init.Lhs[0].(*ast.Ident).Name
		lo, okl := constVal(c.p, init.Rhs[0])
		hi, okh := constVal(c.p, cond.Y)
		if !okl || !okh || containsReturn(x.Body) {
			fail(s, "loop bounds are not literal (or the body returns)")
		}
		a, _ := strconv.Atoi(lo)
		b, _ := strconv.Atoi(hi)
		if b < a {
			b = a
		}
		// the loop becomes a fold over the state = variables assigned in the body
		vars := assignedVars(x.Body.List)
		if len(vars) == 0 {
			return rest()
		}
		for _, v := range vars {
			if v == iv {
				fail(s, "loop variable assigned in the body")
			}
		}
		tail := c.ret(tuple(vars))
		body := c.block(x.Body.List, tail)
		contT := rest()
		pat := pattern(vars)
		if c.monadic {
			return fmt.Sprintf("%s <- for_loopM %d%%nat %d (fun %s %s =>\n  %s) %s ;;\n  %s", pat, b-a, a, iv, pat, body, tuple(vars), contT)
		}
		return fmt.Sprintf("let %s := for_loop %d%%nat %d (fun %s %s =>\n  %s) %s in\n  %s", pat, b-a, a, iv, pat, body, tuple(vars), contT)
	case *ast.SwitchStmt:
		if x.Init != nil || x.Tag == nil {
			fail(s, "unsupported switch")
		}
		tag := c.expr(x.Tag)
		if len(c.pre) != mark {
			fail(s, "partial operation in switch tag")
		}
		// cases in order; default last
		var def []ast.Stmt
		hasDef := false
		type cse struct {
			cond string
			body []ast.Stmt
		}
		var cases []cse
		for _, cc := range x.Body.List {
			cl := cc.(*ast.CaseClause)
			if cl.List == nil {
				def = cl.Body
				hasDef = true
				continue
			}
			var conds []string
			for _, e := range cl.List {
				conds = append(conds, fmt.Sprintf("(%s =? %s)", tag, c.expr(e)))
			}
			cond := conds[0]
			for _, o := range conds[1:] {
				cond = fmt.Sprintf("(orb %s %s)", cond, o)
			}
			if !alwaysReturns(cl.Body) {
				fail(cl, "switch case that falls out of the switch")
			}
			cases = append(cases, cse{cond, cl.Body})
		}
		var tail string
		if hasDef {
			if alwaysReturns(def) {
				tail = c.block(def, "")
			} else {
				tail = c.block(append(append([]ast.Stmt{}, def...), stmts[1:]...), k)
			}
		} else {
			tail = rest()
		}
		for i := len(cases) - 1; i >= 0; i-- {
			tail = fmt.Sprintf("if %s then (%s)\n  else %s", cases[i].cond, c.block(cases[i].body, ""), tail)
		}
		return tail
	case *ast.BlockStmt:
		return c.block(append(append([]ast.Stmt{}, x.List...), stmts[1:]...), k)
	}
	fail(s, "unsupported statement %T", s)
	return ""
}

func errClass(e ast.Expr) string {
	s := ""
	ast.Inspect(e, func(n ast.Node) bool {
		if bl, ok := n.(*ast.BasicLit); ok && bl.Kind == token.STRING && s == "" {
			s, _ = strconv.Unquote(bl.Value)
		}
		return true
	})
	switch {
	case strings.HasPrefix(s, "division by zero"):
		return "EDivZero"
	case strings.HasPrefix(s, "label"):
		return "ELabel"
	}
	return "EOther"
}

type genFn struct {
	name    string
	params  []string // "(n : Z)"
	retType string
	body    string
	monadic bool
}

func (g genFn) String() string {
	rt := g.retType
	if g.monadic {
		rt = "outcome " + rt
	}
	return fmt.Sprintf("Definition %s %s : %s :=\n  %s.\n", g.name, strings.Join(g.params, " "), rt, g.body)
}

// translateFunc translates fd; genName is the Coq name.
func translateFunc(p *pkgInfo, fd *ast.FuncDecl, genName string, monFns map[string]bool, structName string) genFn {
	sig := p.info.Defs[fd.Name].Type().(*types.Signature)
	c := &fnCtx{p: p, monFns: monFns, names: map[string]string{}, results: sig.Results()}
	var params []string
	if fd.Recv != nil && len(fd.Recv.List) == 1 {
		r := fd.Recv.List[0]
		rn := "self"
		if len(r.Names) == 1 && r.Names[0].Name != "_" {
			rn = r.Names[0].Name
		}
		c.recvName = rn
		if structName != "" {
			c.recvType = structName
			params = append(params, fmt.Sprintf("(%s : %s_t)", rn, structName))
		} else {
			params = append(params, fmt.Sprintf("(%s : Z)", rn))
		}
	}
	pi := 0
	for _, f := range fd.Type.Params.List {
		t := p.info.TypeOf(f.Type)
		names := f.Names
		if len(names) == 0 {
			names = []*ast.Ident{{Name: "_"}}
		}
		for _, n := range names {
			pi++
			nm := n.Name
			if nm == "_" {
				nm = fmt.Sprintf("p%d_", pi)
			}
			if pt, ok := t.(*types.Pointer); ok {
				if nmd, ok := pt.Elem().(*types.Named); ok && nmd.Obj().Name() == "Context" {
					// the context is only reachable through registerRead
					params = append(params, "(rr : Z -> Z)")
					continue
				}
			}
			params = append(params, fmt.Sprintf("(%s : %s)", nm, coqType(t)))
		}
	}
	res := sig.Results()
	var rts []string
	for i := 0; i < res.Len(); i++ {
		if res.At(i).Type().String() == "error" {
			if i != res.Len()-1 {
				fail(fd, "error result not last")
			}
			c.hasErr = true
			continue
		}
		rts = append(rts, coqType(res.At(i).Type()))
	}
	retType := "unit"
	if len(rts) == 1 {
		retType = rts[0]
	} else if len(rts) > 1 {
		retType = "(" + strings.Join(rts, " * ") + ")"
	}
	c.monadic = c.hasErr || monFns[genName]
	body := c.block(fd.Body.List, "")
	if c.usedG && !c.monadic {
		// needs the monad: signal to the caller to retry
		return genFn{name: genName, monadic: true, body: "\x00RETRY"}
	}
	return genFn{name: genName, params: params, retType: retType, body: body, monadic: c.monadic}
}

// translateAll translates the given functions to a fixpoint of the set of
// monadic functions.
type fnSpec struct {
	fd         *ast.FuncDecl
	genName    string
	structName string
}

func translateAll(p *pkgInfo, specs []fnSpec, monFns map[string]bool) []genFn {
	for {
		changed := false
		var out []genFn
		for _, s := range specs {
			g := translateFunc(p, s.fd, s.genName, monFns, s.structName)
			if g.body == "\x00RETRY" {
				monFns[s.genName] = true
				changed = true
				break
			}
			out = append(out, g)
		}
		if !changed {
			return out
		}
	}
}

const header = `(* GENERATED by /verif/tools/gotrans from %s -- do not edit.
   Regenerated from /repo on every check run; see DESIGN.md section 4.2. *)
From Coq Require Import ZArith List Bool.
From Maj Require Import Base.Outcome Base.GoInt Base.GoTypes.
Import ListNotations.
Open Scope Z_scope.

`

func funcsOf(p *pkgInfo, file string) []*ast.FuncDecl {
	var out []*ast.FuncDecl
	for _, f := range p.files {
		if filepath.Base(fset.Position(f.Pos()).Filename) != file {
			continue
		}
		for _, d := range f.Decls {
			if fd, ok := d.(*ast.FuncDecl); ok {
				out = append(out, fd)
			}
		}
	}
	return out
}

func writeIfChanged(path, content string) {
	old, err := os.ReadFile(path)
	if err == nil && string(old) == content {
		return
	}
	if err := os.WriteFile(path, []byte(content), 0o644); err != nil {
		panic(err)
	}
}

// ---------------------------------------------------------------------------

func genLatency(repo, out string) {
	p := loadPkg(repo, "common/latency", "github.com/teivah/majorana/common/latency")
	var sb strings.Builder
	fmt.Fprintf(&sb, header, "common/latency/latency.go")
	scope := p.pkg.Scope()
	for _, n := range scope.Names() {
		if cst, ok := scope.Lookup(n).(*types.Const); ok {
			fmt.Fprintf(&sb, "Definition %s : Z := %s.\n", n, cst.Val().ExactString())
		}
	}
	writeIfChanged(filepath.Join(out, "Latency.v"), sb.String())
}

func genBytes(repo, out string) {
	p := loadPkg(repo, "common/bytes", "github.com/teivah/majorana/common/bytes")
	var specs []fnSpec
	fds := funcsOf(p, "bytes.go")
	// callees first: helpers are declared after their callers in the source
	order := map[string]int{}
	for i, fd := range fds {
		order[fd.Name.Name] = i
	}
	sort.SliceStable(fds, func(i, j int) bool {
		return calls(fds[j], fds[i].Name.Name) && !calls(fds[i], fds[j].Name.Name)
	})
	fds = topo(fds)
	for _, fd := range fds {
		specs = append(specs, fnSpec{fd: fd, genName: fd.Name.Name})
	}
	gs := translateAll(p, specs, map[string]bool{})
	var sb strings.Builder
	fmt.Fprintf(&sb, header, "common/bytes/bytes.go")
	for _, g := range gs {
		sb.WriteString(g.String())
		sb.WriteString("\n")
	}
	writeIfChanged(filepath.Join(out, "BytesGo.v"), sb.String())
}

func calls(fd *ast.FuncDecl, name string) bool {
	found := false
	ast.Inspect(fd.Body, func(n ast.Node) bool {
		if c, ok := n.(*ast.CallExpr); ok {
			switch f := c.Fun.(type) {
			case *ast.Ident:
				if f.Name == name {
					found = true
				}
			case *ast.SelectorExpr:
				if f.Sel.Name == name {
					found = true
				}
			}
		}
		return true
	})
	return found
}

// topo orders functions so that callees come before callers.
func topo(fds []*ast.FuncDecl) []*ast.FuncDecl {
	var out []*ast.FuncDecl
	done := map[*ast.FuncDecl]bool{}
	var visit func(fd *ast.FuncDecl)
	visit = func(fd *ast.FuncDecl) {
		if done[fd] {
			return
		}
		done[fd] = true
		for _, o := range fds {
			if o != fd && calls(fd, o.Name.Name) {
				visit(o)
			}
		}
		out = append(out, fd)
	}
	for _, fd := range fds {
		visit(fd)
	}
	return out
}

func recvTypeName(fd *ast.FuncDecl) string {
	if fd.Recv == nil || len(fd.Recv.List) != 1 {
		return ""
	}
	t := fd.Recv.List[0].Type
	if st, ok := t.(*ast.StarExpr); ok {
		t = st.X
	}
	if id, ok := t.(*ast.Ident); ok {
		return id.Name
	}
	return ""
}

func genRisc(repo, out string) {
	p := loadPkg(repo, "risc", "github.com/teivah/majorana/risc")
	// ---- RiscTables.v
	var sb strings.Builder
	fmt.Fprintf(&sb, header, "risc/risc.go")
	scope := p.pkg.Scope()
	type cv struct {
		name string
		val  int64
	}
	enums := map[string][]cv{}
	for _, n := range scope.Names() {
		if cst, ok := scope.Lookup(n).(*types.Const); ok {
			if nmd, ok := cst.Type().(*types.Named); ok {
				tn := nmd.Obj().Name()
				if tn == "RegisterType" || tn == "InstructionType" {
					v, _ := constant.Int64Val(cst.Val())
					enums[tn] = append(enums[tn], cv{n, v})
				}
			}
		}
	}
	for _, tn := range []string{"RegisterType", "InstructionType"} {
		l := enums[tn]
		sort.Slice(l, func(i, j int) bool { return l[i].val < l[j].val })
		for _, c := range l {
			fmt.Fprintf(&sb, "Definition %s : Z := %d.\n", c.name, c.val)
		}
		var names []string
		for _, c := range l {
			names = append(names, c.name)
		}
		fmt.Fprintf(&sb, "Definition all_%s : list Z := [%s].\n\n", tn, strings.Join(names, "; "))
	}
	var specs []fnSpec
	for _, fd := range funcsOf(p, "risc.go") {
		if fd.Name.Name == "String" {
			continue
		}
		name := fd.Name.Name
		if r := recvTypeName(fd); r != "" {
			name = r + "_" + name
		}
		specs = append(specs, fnSpec{fd: fd, genName: name})
	}
	// callees first
	{
		var fds []*ast.FuncDecl
		byFd := map[*ast.FuncDecl]fnSpec{}
		for _, s := range specs {
			fds = append(fds, s.fd)
			byFd[s.fd] = s
		}
		fds = topo(fds)
		specs = specs[:0]
		for _, fd := range fds {
			specs = append(specs, byFd[fd])
		}
	}
	monFns := map[string]bool{}
	for _, g := range translateAll(p, specs, monFns) {
		sb.WriteString(g.String())
		sb.WriteString("\n")
	}
	writeIfChanged(filepath.Join(out, "RiscTables.v"), sb.String())

	// ---- Opcodes.v
	sb.Reset()
	fmt.Fprintf(&sb, header, "risc/opcodes.go")
	sb.WriteString("From Maj Require Import Gen.BytesGo Gen.RiscTables.\n\n")
	// instruction structs: those with a Run method
	methods := map[string]map[string]*ast.FuncDecl{}
	var order []string
	for _, fd := range funcsOf(p, "opcodes.go") {
		r := recvTypeName(fd)
		if r == "" {
			if fd.Name.Name == "registerRead" {
				continue // modelled by hand in Comp/Tx.v (C15)
			}
			fail(fd, "unexpected top-level function %s in opcodes.go", fd.Name.Name)
		}
		if methods[r] == nil {
			methods[r] = map[string]*ast.FuncDecl{}
			order = append(order, r)
		}
		methods[r][fd.Name.Name] = fd
	}
	wanted := []string{"Run", "InstructionType", "ReadRegisters", "WriteRegisters", "MemoryRead", "MemoryWrite"}
	var opSpecs []fnSpec
	for _, sn := range order {
		obj := scope.Lookup(sn)
		st, ok := obj.Type().Underlying().(*types.Struct)
		if !ok {
			fail(nil, "%s is not a struct", sn)
		}
		var fields []string
		for i := 0; i < st.NumFields(); i++ {
			f := st.Field(i)
			if f.Name() == "forward" {
				continue // forwarding state: modelled in Comp/Tx.v
			}
			fields = append(fields, fmt.Sprintf("%s_%s : %s", sn, f.Name(), coqType(f.Type())))
		}
		if len(fields) == 0 {
			fmt.Fprintf(&sb, "Record %s_t := mk_%s { }.\n", sn, sn)
		} else {
			fmt.Fprintf(&sb, "Record %s_t := mk_%s { %s }.\n", sn, sn, strings.Join(fields, "; "))
		}
		for _, m := range wanted {
			fd := methods[sn][m]
			if fd == nil {
				fail(nil, "%s has no method %s", sn, m)
			}
			opSpecs = append(opSpecs, fnSpec{fd: fd, genName: sn + "_" + m, structName: sn})
		}
		for m, fd := range methods[sn] {
			known := m == "Forward"
			for _, w := range wanted {
				if w == m {
					known = true
				}
			}
			if !known {
				fail(fd, "unexpected method %s.%s", sn, m)
			}
		}
	}
	sb.WriteString("\n")
	opMon := map[string]bool{}
	for k, v := range monFns {
		opMon[k] = v
	}
	// bytes functions that are monadic
	bp := loadPkg(repo, "common/bytes", "github.com/teivah/majorana/common/bytes")
	bm := map[string]bool{}
	{
		var bs []fnSpec
		for _, fd := range topo(funcsOf(bp, "bytes.go")) {
			bs = append(bs, fnSpec{fd: fd, genName: fd.Name.Name})
		}
		translateAll(bp, bs, bm)
	}
	for k, v := range bm {
		opMon[k] = v
	}
	gs := translateAll(p, opSpecs, opMon)
	byName := map[string]genFn{}
	for _, g := range gs {
		sb.WriteString(g.String())
		sb.WriteString("\n")
		byName[g.name] = g
	}
	{
		var ns []string
		for _, g := range gs {
			ns = append(ns, g.name)
		}
		fmt.Fprintf(&sb, "#[global] Hint Unfold %s : opcodes.\n\n", strings.Join(ns, " "))
	}
	// sum type and dispatchers
	sb.WriteString("Inductive instr : Type :=\n")
	for _, sn := range order {
		fmt.Fprintf(&sb, "| I_%s (o : %s_t)\n", sn, sn)
	}
	sb.WriteString(".\n\n")
	disp := func(m, args, argDecl, rt string) {
		mon := false
		for _, sn := range order {
			if byName[sn+"_"+m].monadic {
				mon = true
			}
		}
		if mon {
			rt = "outcome " + rt
		}
		fmt.Fprintf(&sb, "Definition instr_%s (i : instr) %s : %s :=\n  match i with\n", m, argDecl, rt)
		for _, sn := range order {
			call := fmt.Sprintf("%s_%s o%s", sn, m, args)
			if mon && !byName[sn+"_"+m].monadic {
				call = "Ok (" + call + ")"
			}
			fmt.Fprintf(&sb, "  | I_%s o => %s\n", sn, call)
		}
		sb.WriteString("  end.\n\n")
	}
	disp("Run", " rr labels pc memory sequenceID", "(rr : Z -> Z) (labels : Z -> option Z) (pc : Z) (memory : list Z) (sequenceID : Z)", "execution")
	disp("InstructionType", "", "", "Z")
	disp("ReadRegisters", "", "", "(list Z)")
	disp("WriteRegisters", "", "", "(list Z)")
	disp("MemoryRead", " rr sequenceID", "(rr : Z -> Z) (sequenceID : Z)", "(list Z)")
	disp("MemoryWrite", " rr sequenceID", "(rr : Z -> Z) (sequenceID : Z)", "(list Z)")
	writeIfChanged(filepath.Join(out, "Opcodes.v"), sb.String())
}

func main() {
	if len(os.Args) != 3 {
		fmt.Fprintln(os.Stderr, "usage: gotrans <repo> <outdir>   (run with cwd = <repo>)")
		os.Exit(2)
	}
	repo, out := os.Args[1], os.Args[2]
	defer func() {
		if r := recover(); r != nil {
			if f, ok := r.(failure); ok {
				fmt.Fprintln(os.Stderr, "gotrans: cannot translate:", f.msg)
				os.Exit(2)
			}
			panic(r)
		}
	}()
	if err := os.MkdirAll(out, 0o755); err != nil {
		panic(err)
	}
	genLatency(repo, out)
	genBytes(repo, out)
	genRisc(repo, out)
	genParser(repo, out)
}
