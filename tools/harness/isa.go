package main

import (
	"encoding/binary"
	"fmt"
	"strings"

	"github.com/teivah/majorana/common/bytes"
	"github.com/teivah/majorana/risc"
)

func init() {
	commands["isa"] = isaCase
	commands["bytes"] = bytesCase
}

// isa case: asm (| = newline) \t index \t regs r:v,... \t pc \t mem b,b,...
func isaCase(n int, f []string) {
	asm := strings.ReplaceAll(f[0], "|", "\n")
	idx := atoi(f[1])
	regs := parsePairs(f[2])
	pc := int32(atoi(f[3]))
	var memory []int8
	for _, b := range parseList(f[4]) {
		memory = append(memory, int8(b))
	}
	res := func() (s string) {
		defer func() {
			if r := recover(); r != nil {
				s = "R=panic"
			}
		}()
		app, err := risc.Parse(asm)
		if err != nil {
			return "R=parse-error"
		}
		ctx := risc.NewContext(false, 0, false)
		for _, kv := range regs {
			ctx.Registers[risc.RegisterType(kv[0])] = int32(kv[1])
		}
		r := app.Instructions[idx]
		rr := fmtList(r.ReadRegisters())
		wr := fmtList(r.WriteRegisters())
		mr := fmtList(r.MemoryRead(ctx, 0))
		mw := fmtList(r.MemoryWrite(ctx, 0))
		decl := fmt.Sprintf("T=%d RR=%s WR=%s MR=%s MW=%s", r.InstructionType(), rr, wr, mr, mw)
		before := fmt.Sprint(ctx.Registers)
		exe, err := r.Run(ctx, app.Labels, pc, memory, 0)
		side := ""
		if fmt.Sprint(ctx.Registers) != before {
			side = " SIDE-EFFECT-ON-CONTEXT"
		}
		if err != nil {
			return "R=err:" + errClass(err) + " " + decl + side
		}
		b := func(x bool) int {
			if x {
				return 1
			}
			return 0
		}
		return fmt.Sprintf("R=ok rc=%d reg=%d val=%d mc=%d mcs=%s npc=%d pcc=%d ret=%d %s%s",
			b(exe.RegisterChange), exe.Register, exe.RegisterValue, b(exe.MemoryChange),
			sortedPairs(exe.MemoryChanges), exe.NextPc, b(exe.PcChange), b(exe.Return), decl, side)
	}()
	emit("%s", res)
}

// bytes case: "s" n   |   "j" b0 b1 b2 b3
func bytesCase(n int, f []string) {
	res := func() (s string) {
		defer func() {
			if r := recover(); r != nil {
				s = "panic"
			}
		}()
		switch f[0] {
		case "s":
			b := bytes.BytesFromLowBits(int32(atoi(f[1])))
			return fmt.Sprintf("%d,%d,%d,%d", b[0], b[1], b[2], b[3])
		case "j":
			return fmt.Sprintf("%d", bytes.I32FromBytes(int8(atoi(f[1])), int8(atoi(f[2])), int8(atoi(f[3])), int8(atoi(f[4]))))
		}
		return "bad-case"
	}()
	emit("%s", res)
}

// bytesSweep shard nshards: every 32-bit value of the shard against
// encoding/binary (little endian), both directions.  Search, not proof.
func bytesSweep(args []string) {
	shard, nshards := uint64(atoi(args[0])), uint64(atoi(args[1]))
	total := uint64(1) << 32
	lo := total * shard / nshards
	hi := total * (shard + 1) / nshards
	var buf [4]byte
	count := uint64(0)
	for v := lo; v < hi; v++ {
		n := int32(uint32(v))
		b := bytes.BytesFromLowBits(n)
		binary.LittleEndian.PutUint32(buf[:], uint32(n))
		if uint8(b[0]) != buf[0] || uint8(b[1]) != buf[1] || uint8(b[2]) != buf[2] || uint8(b[3]) != buf[3] {
			emit("MISMATCH split %d got %d,%d,%d,%d", n, b[0], b[1], b[2], b[3])
			return
		}
		j := bytes.I32FromBytes(int8(buf[0]), int8(buf[1]), int8(buf[2]), int8(buf[3]))
		if j != n {
			emit("MISMATCH join %d,%d,%d,%d got %d want %d", int8(buf[0]), int8(buf[1]), int8(buf[2]), int8(buf[3]), j, n)
			return
		}
		count++
	}
	emit("OK %d", count)
}
