// harness drives the implementation (/repo, built with -tags verif) on case
// files and prints one canonical result line per case.  The same case files
// are executed by the OCaml oracles extracted from the Coq development; the
// comparison is done by bin/check.py.
package main

import (
	"bufio"
	"fmt"
	"os"
	"sort"
	"strconv"
	"strings"
)

func errClass(err error) string {
	s := err.Error()
	switch {
	case strings.Contains(s, "division by zero"):
		return "divzero"
	case strings.Contains(s, "label"):
		return "label"
	}
	return "other"
}

func atoi(s string) int {
	v, err := strconv.Atoi(strings.TrimSpace(s))
	if err != nil {
		panic("bad integer in case file: " + s)
	}
	return v
}

func parsePairs(s string) [][2]int {
	var out [][2]int
	s = strings.TrimSpace(s)
	if s == "" || s == "-" {
		return nil
	}
	for _, kv := range strings.Split(s, ",") {
		p := strings.SplitN(kv, ":", 2)
		out = append(out, [2]int{atoi(p[0]), atoi(p[1])})
	}
	return out
}

func parseList(s string) []int {
	var out []int
	s = strings.TrimSpace(s)
	if s == "" || s == "-" {
		return nil
	}
	for _, v := range strings.Split(s, ",") {
		out = append(out, atoi(v))
	}
	return out
}

func fmtList[T ~int | ~int32 | ~int8 | ~uint64](l []T) string {
	parts := make([]string, len(l))
	for i, v := range l {
		parts[i] = strconv.FormatInt(int64(v), 10)
	}
	return "[" + strings.Join(parts, ",") + "]"
}

func sortedPairs(m map[int32]int8) string {
	keys := make([]int, 0, len(m))
	for k := range m {
		keys = append(keys, int(k))
	}
	sort.Ints(keys)
	parts := make([]string, len(keys))
	for i, k := range keys {
		parts[i] = fmt.Sprintf("%d:%d", k, m[int32(k)])
	}
	return "[" + strings.Join(parts, ",") + "]"
}

var out = bufio.NewWriterSize(os.Stdout, 1<<16)

func emit(format string, args ...any) {
	fmt.Fprintf(out, format, args...)
	out.WriteByte('\n')
}

func main() {
	if len(os.Args) < 2 {
		fmt.Fprintln(os.Stderr, "usage: harness <isa|bytes|bytes-sweep|run|...> [casefile] [start]")
		os.Exit(2)
	}
	defer out.Flush()
	cmd := os.Args[1]
	switch cmd {
	case "bytes-sweep":
		bytesSweep(os.Args[2:])
		return
	}
	if len(os.Args) < 3 {
		fmt.Fprintln(os.Stderr, "missing case file")
		os.Exit(2)
	}
	start := 0
	if len(os.Args) > 3 {
		start = atoi(os.Args[3])
	}
	f, err := os.Open(os.Args[2])
	if err != nil {
		panic(err)
	}
	defer f.Close()
	sc := bufio.NewScanner(f)
	sc.Buffer(make([]byte, 1<<20), 1<<26)
	handler, ok := commands[cmd]
	if !ok {
		fmt.Fprintln(os.Stderr, "unknown command", cmd)
		os.Exit(2)
	}
	n := 0
	for sc.Scan() {
		line := sc.Text()
		if n >= start {
			handler(n, strings.Split(line, "\t"))
			if commandsFlushEach[cmd] {
				out.Flush()
			}
		}
		n++
	}
}

// commands are registered by the init() functions of the per-component files
var commands = map[string]func(n int, f []string){}

// commands whose cases may kill the process: output is flushed after each case
var commandsFlushEach = map[string]bool{}
