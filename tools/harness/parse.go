package main

import (
	"encoding/hex"
	"fmt"
	"sort"
	"strings"

	"github.com/teivah/majorana/risc"
)

func init() {
	commands["parse"] = parseCase
}

// C11.  parse case:  <text as hex> \t <candidate label names as hex, comma separated | ->
// result:  err | panic | ok n=<count> labels=<namehex:addr,... sorted> ins=<instr;instr;...>
// One instruction is rendered through the InstructionRunner interface only:
//   T<InstructionType>/R<ReadRegisters>/W<WriteRegisters>/MR<MemoryRead>/MW<MemoryWrite>/<probe 0>/.../<probe 5>[/B<imm>]
// A probe is Run(ctx, probeLabels, 64, [17 34 51 -124], 0) on a register file with known
// values (register 0 reads 0): 1000+37i | -(2000+53i) | all 0 | all -1 | all 1 | all INT_MIN,
// printed as the Execution fields or e:<class>.  probeLabels maps the k-th candidate name to
// 100000+4k, so a taken branch or jump reveals its label operand (unknown name => e:label).
// For slti (whose only observable is a comparison) the immediate is recovered by bisection
// over the source register.  The same line is computed by build/parser_oracle from the model.

var probeFiles = []func(i int) int32{
	func(i int) int32 { return int32(1000 + 37*i) },
	func(i int) int32 { return int32(-(2000 + 53*i)) },
	func(i int) int32 { return 0 },
	func(i int) int32 { return -1 },
	func(i int) int32 { return 1 },
	func(i int) int32 { return -2147483648 },
}

func probeCtx(f func(i int) int32) *risc.Context {
	ctx := risc.NewContext(false, 0, false)
	for i := 1; i < 32; i++ {
		ctx.Registers[risc.RegisterType(i)] = f(i)
	}
	ctx.Registers[risc.Zero] = 0
	return ctx
}

func fmtProbe(r risc.InstructionRunner, ctx *risc.Context, labels map[string]int32) (s string) {
	defer func() {
		if rec := recover(); rec != nil {
			s = "P"
		}
	}()
	b := func(x bool) int {
		if x {
			return 1
		}
		return 0
	}
	exe, err := r.Run(ctx, labels, 64, []int8{17, 34, 51, -124}, 0)
	if err != nil {
		return "e:" + errClass(err)
	}
	return fmt.Sprintf("%d,%d,%d,%d,%s,%d,%d,%d", b(exe.RegisterChange), exe.Register, exe.RegisterValue,
		b(exe.MemoryChange), sortedPairs(exe.MemoryChanges), exe.NextPc, b(exe.PcChange), b(exe.Return))
}

func renderInstr(r risc.InstructionRunner, labels map[string]int32) (s string) {
	defer func() {
		if rec := recover(); rec != nil {
			s = "P"
		}
	}()
	ctx0 := probeCtx(probeFiles[0])
	parts := []string{
		fmt.Sprintf("T%d", r.InstructionType()),
		"R" + fmtList(r.ReadRegisters()),
		"W" + fmtList(r.WriteRegisters()),
		"MR" + fmtList(r.MemoryRead(ctx0, 0)),
		"MW" + fmtList(r.MemoryWrite(ctx0, 0)),
	}
	for _, pf := range probeFiles {
		parts = append(parts, fmtProbe(r, probeCtx(pf), labels))
	}
	if r.InstructionType() == risc.Slti {
		rs, rd := r.ReadRegisters(), r.WriteRegisters()
		if len(rs) == 1 && len(rd) == 1 && rd[0] != risc.Zero && rs[0] != risc.Zero {
			ctx := risc.NewContext(false, 0, false)
			less := func(v int64) bool {
				ctx.Registers[rs[0]] = int32(v)
				exe, err := r.Run(ctx, labels, 64, []int8{17, 34, 51, -124}, 0)
				return err == nil && exe.RegisterValue == 1
			}
			lo, hi := int64(-2147483648), int64(2147483647)
			for lo < hi {
				mid := lo + (hi-lo)/2
				if less(mid) {
					lo = mid + 1
				} else {
					hi = mid
				}
			}
			parts = append(parts, fmt.Sprintf("B%d", lo))
		} else {
			parts = append(parts, "B-")
		}
	}
	return strings.Join(parts, "/")
}

func parseCase(n int, f []string) {
	raw, err := hex.DecodeString(strings.TrimSpace(f[0]))
	if err != nil {
		panic("bad hex in case file")
	}
	text := string(raw)
	labels := map[string]int32{}
	if len(f) > 1 && strings.TrimSpace(f[1]) != "" && strings.TrimSpace(f[1]) != "-" {
		for k, h := range strings.Split(strings.TrimSpace(f[1]), ",") {
			nb, err := hex.DecodeString(h)
			if err != nil {
				panic("bad hex in case file")
			}
			if _, dup := labels[string(nb)]; !dup {
				labels[string(nb)] = int32(100000 + 4*k)
			}
		}
	}
	res := func() (s string) {
		defer func() {
			if r := recover(); r != nil {
				s = "panic"
			}
		}()
		app, err := risc.Parse(text)
		if err != nil {
			return "err"
		}
		names := make([]string, 0, len(app.Labels))
		for k := range app.Labels {
			names = append(names, hex.EncodeToString([]byte(k)))
		}
		sort.Strings(names)
		labs := make([]string, len(names))
		for i, h := range names {
			nb, _ := hex.DecodeString(h)
			labs[i] = fmt.Sprintf("%s:%d", h, app.Labels[string(nb)])
		}
		ins := make([]string, len(app.Instructions))
		for i, r := range app.Instructions {
			ins[i] = renderInstr(r, labels)
		}
		return fmt.Sprintf("ok n=%d labels=%s ins=%s", len(app.Instructions), strings.Join(labs, ","), strings.Join(ins, ";"))
	}()
	emit("%s", res)
}
