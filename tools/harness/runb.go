package main

import (
	"fmt"
	"reflect"
	"sort"
	"strings"

	"github.com/teivah/majorana/risc"
)

// runb: like `run`, but when the tick budget is exhausted the part of the machine state that is
// reachable through risc.Context at that moment (registers, memory, the two scoreboard maps) is
// printed too: budget ticks=N r=.. m=.. pw=.. pr=..   (used by bin/tie_m60.py on hanging runs)
func init() {
	commands["runb"] = runbCase
	commandsFlushEach["runb"] = true
}

func fmtCounts(m map[risc.RegisterType]int) string {
	keys := make([]int, 0, len(m))
	for k, v := range m {
		if v != 0 && k != risc.Zero {
			keys = append(keys, int(k))
		}
	}
	sort.Ints(keys)
	parts := make([]string, len(keys))
	for i, k := range keys {
		parts[i] = fmt.Sprintf("%d:%d", k, m[risc.RegisterType(k)])
	}
	return strings.Join(parts, ",")
}

func runOnceB(variant string, par int, budget int64, memsize int, regs, meminit [][2]int, app risc.Application) (res string) {
	var ctx *risc.Context
	var init []int8
	defer func() {
		if r := recover(); r != nil {
			if ctx != nil {
				risc.VerifUnwatch(ctx)
			}
			if b, ok := r.(risc.VerifBudgetExceeded); ok {
				rs := map[risc.RegisterType]int32{}
				for k, v := range ctx.Registers {
					if k != risc.Zero {
						rs[k] = v
					}
				}
				res = fmt.Sprintf("budget ticks=%d r=%s m=%s pw=%s pr=%s", b.Ticks, fmtRegs(rs), fmtMemDiff(ctx.Memory, init),
					fmtCounts(ctx.PendingWriteRegisters), fmtCounts(ctx.PendingReadRegisters))
				return
			}
			res = "panic"
		}
	}()
	m := newMachine(variant, par, memsize)
	ctx = m.Context()
	for _, kv := range regs {
		ctx.Registers[risc.RegisterType(kv[0])] = int32(kv[1])
	}
	for _, kv := range meminit {
		ctx.Memory[kv[0]] = int8(kv[1])
	}
	init = make([]int8, len(ctx.Memory))
	copy(init, ctx.Memory)
	risc.VerifWatch(ctx, budget, nil)
	cycles, err := m.Run(app)
	ticks := risc.VerifUnwatch(ctx)
	if err != nil {
		return "err " + errClass(err)
	}
	return fmt.Sprintf("ok c=%d r=%s m=%s t=%d", cycles, fmtRegs(ctx.Registers), fmtMemDiff(ctx.Memory, init), ticks)
}

func runbCase(n int, f []string) {
	asm := strings.ReplaceAll(f[6], "|", "\n")
	app, err := risc.Parse(asm)
	if err != nil {
		emit("parse-error %v", err)
		return
	}
	emit("%s", withWatchdog(func() string {
		return runOnceB(f[0], atoi(f[1]), int64(atoi(f[2])), atoi(f[3]), parsePairs(f[4]), parsePairs(f[5]), app)
	}))
}

// runc: like `runb`, and for the variants whose speculative register state lives in the register alias
// tables of risc.Context (MVP-6.3) the budget line also carries rat=..: for every register the value
// registerRead(ctx, Forward{}, reg, 0) would return at that moment (newest slot of transactionRAT, else
// newest slot of committedRAT, else 0), read through reflection (the tables are unexported).
// Used by bin/tie_m63.py on hanging runs.
func init() {
	commands["runc"] = runcCase
	commandsFlushEach["runc"] = true
}

// ratNewest returns key -> newest slot of the RAT stored in the unexported field `name` of ctx;
// pick selects the int32 of a slot (the slot itself, or its field `value`).
func ratNewest(ctx *risc.Context, name string, pick func(reflect.Value) int64) map[int]int64 {
	out := map[int]int64{}
	rat := reflect.ValueOf(ctx).Elem().FieldByName(name)
	if !rat.IsValid() || rat.IsNil() {
		return out
	}
	r := rat.Elem()
	idx := r.FieldByName("idx")
	values := r.FieldByName("values")
	it := idx.MapRange()
	for it.Next() {
		k := it.Key()
		slots := values.MapIndex(k)
		out[int(k.Uint())] = pick(slots.Index(int(it.Value().Int())))
	}
	return out
}

func fmtRat(ctx *risc.Context) string {
	committed := ratNewest(ctx, "committedRAT", func(v reflect.Value) int64 { return v.Int() })
	transaction := ratNewest(ctx, "transactionRAT", func(v reflect.Value) int64 { return v.FieldByName("value").Int() })
	var parts []string
	for reg := 1; reg < 32; reg++ {
		v, ok := transaction[reg]
		if !ok {
			v = committed[reg]
		}
		if v != 0 {
			parts = append(parts, fmt.Sprintf("%d:%d", reg, v))
		}
	}
	return strings.Join(parts, ",")
}

func runOnceC(variant string, par int, budget int64, memsize int, regs, meminit [][2]int, app risc.Application) (res string) {
	var ctx *risc.Context
	var init []int8
	defer func() {
		if r := recover(); r != nil {
			if ctx != nil {
				risc.VerifUnwatch(ctx)
			}
			if b, ok := r.(risc.VerifBudgetExceeded); ok {
				rs := map[risc.RegisterType]int32{}
				for k, v := range ctx.Registers {
					if k != risc.Zero {
						rs[k] = v
					}
				}
				res = fmt.Sprintf("budget ticks=%d r=%s m=%s pw=%s pr=%s rat=%s", b.Ticks, fmtRegs(rs), fmtMemDiff(ctx.Memory, init),
					fmtCounts(ctx.PendingWriteRegisters), fmtCounts(ctx.PendingReadRegisters), fmtRat(ctx))
				return
			}
			res = "panic"
		}
	}()
	m := newMachine(variant, par, memsize)
	ctx = m.Context()
	for _, kv := range regs {
		ctx.Registers[risc.RegisterType(kv[0])] = int32(kv[1])
	}
	for _, kv := range meminit {
		ctx.Memory[kv[0]] = int8(kv[1])
	}
	init = make([]int8, len(ctx.Memory))
	copy(init, ctx.Memory)
	risc.VerifWatch(ctx, budget, nil)
	cycles, err := m.Run(app)
	ticks := risc.VerifUnwatch(ctx)
	if err != nil {
		return "err " + errClass(err)
	}
	return fmt.Sprintf("ok c=%d r=%s m=%s t=%d", cycles, fmtRegs(ctx.Registers), fmtMemDiff(ctx.Memory, init), ticks)
}

func runcCase(n int, f []string) {
	asm := strings.ReplaceAll(f[6], "|", "\n")
	app, err := risc.Parse(asm)
	if err != nil {
		emit("parse-error %v", err)
		return
	}
	emit("%s", withWatchdog(func() string {
		return runOnceC(f[0], atoi(f[1]), int64(atoi(f[2])), atoi(f[3]), parsePairs(f[4]), parsePairs(f[5]), app)
	}))
}
