package main

import (
	"fmt"
	"sort"
	"strings"

	"github.com/teivah/majorana/risc"
)

func init() {
	commands["sb"] = sbCase
}

func sbShowMap(m map[risc.RegisterType]int) string {
	keys := make([]int, 0, len(m))
	for k, v := range m {
		if v != 0 {
			keys = append(keys, int(k))
		}
	}
	sort.Ints(keys)
	parts := make([]string, len(keys))
	for i, k := range keys {
		parts[i] = fmt.Sprintf("%d:%d", k, m[risc.RegisterType(k)])
	}
	return strings.Join(parts, ",")
}

func sbRegs(s string) []risc.RegisterType {
	var out []risc.RegisterType
	for _, v := range parseList(s) {
		out = append(out, risc.RegisterType(v))
	}
	return out
}

// sb case: op;op;...  with ops  A <asm> | D k | H <asm> | W w,w | X w,w | Q r,r | F
// drives the scoreboard functions of risc.Context exactly as the control units do.
func sbCase(n int, f []string) {
	res := func() (s string) {
		defer func() {
			if r := recover(); r != nil {
				s = "panic"
			}
		}()
		ctx := risc.NewContext(false, 0, false)
		var inflight []risc.InstructionRunner
		var outs []string
		for _, o := range strings.Split(f[0], ";") {
			o = strings.TrimSpace(o)
			if o == "" {
				continue
			}
			arg := ""
			if len(o) > 2 {
				arg = o[2:]
			}
			q := ""
			switch o[0] {
			case 'A', 'H':
				app, err := risc.Parse(arg)
				if err != nil || len(app.Instructions) != 1 {
					return "parse-error"
				}
				r := app.Instructions[0]
				if o[0] == 'A' {
					ctx.AddPendingRegisters(r)
					inflight = append(inflight, r)
				} else {
					hz, _ := ctx.IsDataHazard3(r)
					parts := make([]string, len(hz))
					for i, h := range hz {
						parts[i] = fmt.Sprintf("%d:%d", h.Type, h.Register)
					}
					q = " hz=" + strings.Join(parts, ",")
				}
			case 'D':
				k := atoi(arg)
				if k < len(inflight) {
					r := inflight[k]
					ctx.DeletePendingRegisters(r.ReadRegisters(), r.WriteRegisters())
					inflight = append(inflight[:k:k], inflight[k+1:]...)
				}
			case 'W':
				ctx.AddPendingWriteRegisters(sbRegs(arg))
			case 'X':
				ctx.DeletePendingWriteRegisters(sbRegs(arg))
			case 'Q':
				if ctx.IsWriteDataHazard(sbRegs(arg)) {
					q = " q=1"
				} else {
					q = " q=0"
				}
			case 'F':
				ctx.Flush()
				inflight = nil
			}
			outs = append(outs, fmt.Sprintf("pw={%s} pr={%s}%s", sbShowMap(ctx.PendingWriteRegisters), sbShowMap(ctx.PendingReadRegisters), q))
		}
		return strings.Join(outs, ";")
	}()
	emit("%s", res)
}
