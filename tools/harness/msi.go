package main

// C06 (MSI coherence invariants): drivers that make the implementation's MSI
// state observable per cycle.
//
//   msi-rig  plays a script of load/store requests (and injected flushes) on
//            the cache controllers of mvp7-0 / mvp7-1 / mvp8-0 without a
//            pipeline (hook proc/<variant>/verif_rig.go), in the order CPU.Run
//            uses: every cycle first the snoop coroutine of every core, then,
//            core by core, the read/write coroutine of the cores that have an
//            outstanding request (or a flush of that core).
//   msi-run  runs a whole program on the real CPU and snapshots the MSI state
//            at every VerifTick.
//
// Output of one case (input of build/msi_oracle):
//   C <case index> <variant> <cores>
//   S <cycle> <mult> \t <cores> <l1 line size> <l3 line size> \t ST.. \t L1.. \t SEM.. \t CMD.. \t TX.. \t L3.. \t L3D.. \t L3K.. \t MEM.. \t REF..
//   E <outcome and statistics>
// REF (msi-rig only, "-" otherwise and after the first injected flush): for every L1-sized line a
// completed write touched, the bytes the completed writes left in it (initial memory elsewhere) - the
// data-value reference of clause D_current_value_is_last_write (Msi/L3Invariant.v).
// A snapshot that equals the previous one is not repeated: <mult> is the
// number of consecutive cycles it was observed in.

import (
	"fmt"
	"os"
	"runtime/debug"
	"sort"
	"strconv"
	"strings"

	"github.com/teivah/majorana/proc/comp"
	mvp7_0 "github.com/teivah/majorana/proc/mvp7-0"
	mvp7_1 "github.com/teivah/majorana/proc/mvp7-1"
	mvp8_0 "github.com/teivah/majorana/proc/mvp8-0"
	"github.com/teivah/majorana/risc"
)

func init() {
	commands["msi-rig"] = msiRigCase
	commandsFlushEach["msi-rig"] = true
	commands["msi-run"] = msiRunCase
	commandsFlushEach["msi-run"] = true
}

type msiRig interface {
	Memory() []int8
	Snoop()
	ReadCycle(core int, addrs []int32) (bool, []int8)
	WriteCycle(core int, addrs []int32, data []int8) bool
	Flush(core int)
	Idle(core int) bool
	Export() int
	Snapshot() comp.VerifMsiSnapshot
	Fingerprint() uint64
}

func newMsiRig(variant string, cores, memsize int) msiRig {
	switch variant {
	case "7.0":
		return mvp7_0.VerifNewRig(cores, memsize)
	case "7.1":
		return mvp7_1.VerifNewRig(cores, memsize)
	case "8.0":
		return mvp8_0.VerifNewRig(cores, memsize)
	}
	panic("msi-rig: unknown variant " + variant)
}

const hexdigits = "0123456789abcdef"

func hexData(sb *strings.Builder, d []int8) {
	zero := true
	for _, v := range d {
		if v != 0 {
			zero = false
			break
		}
	}
	if zero {
		sb.WriteString("z")
		sb.WriteString(strconv.Itoa(len(d)))
		return
	}
	for _, v := range d {
		b := byte(v)
		sb.WriteByte(hexdigits[b>>4])
		sb.WriteByte(hexdigits[b&15])
	}
}

func joinInt32(l []int32) string {
	if len(l) == 0 {
		return "-"
	}
	p := make([]string, len(l))
	for i, v := range l {
		p[i] = strconv.Itoa(int(v))
	}
	return strings.Join(p, ",")
}

// fmtSnapshot renders everything but the "S cycle mult" prefix.
func fmtSnapshot(s *comp.VerifMsiSnapshot) string {
	var sb strings.Builder
	fmt.Fprintf(&sb, "%d %d %d\t", s.Cores, s.L1LineSize, s.L3LineSize)
	for i, e := range s.States {
		if i > 0 {
			sb.WriteByte(' ')
		}
		fmt.Fprintf(&sb, "%d:%d:%d", e.Core, e.Line, e.State)
	}
	sb.WriteByte('\t')
	first := true
	for c, ls := range s.L1 {
		for _, l := range ls {
			if !first {
				sb.WriteByte(' ')
			}
			first = false
			fmt.Fprintf(&sb, "%d:%d:", c, l.Base)
			hexData(&sb, l.Data)
		}
	}
	sb.WriteByte('\t')
	for i, e := range s.Sems {
		if i > 0 {
			sb.WriteByte(' ')
		}
		fmt.Fprintf(&sb, "%d:%d:%d", e.Line, e.Read, e.Write)
	}
	sb.WriteByte('\t')
	for i, e := range s.Cmds {
		if i > 0 {
			sb.WriteByte(' ')
		}
		fmt.Fprintf(&sb, "%d:%d:%d:%s", e.Core, e.Line, e.Kind, b01(e.Done))
	}
	sb.WriteByte('\t')
	for i, e := range s.Tx {
		if i > 0 {
			sb.WriteByte(' ')
		}
		fmt.Fprintf(&sb, "%d:%s:%s:%s:%s:%s", e.Core, b01(e.ReadActive), b01(e.WriteActive), b01(e.SnoopBusy), joinInt32(e.ReadLines), joinInt32(e.WriteLines))
	}
	sb.WriteByte('\t')
	for i, l := range s.L3 {
		if i > 0 {
			sb.WriteByte(' ')
		}
		fmt.Fprintf(&sb, "%d:", l.Base)
		hexData(&sb, l.Data)
	}
	sb.WriteByte('\t')
	sb.WriteString(strings.ReplaceAll(joinInt32(s.L3Dirty), ",", " "))
	sb.WriteByte('\t')
	sb.WriteString(strings.ReplaceAll(joinInt32(s.L3Locked), ",", " "))
	sb.WriteByte('\t')
	for i, l := range s.Mem {
		if i > 0 {
			sb.WriteByte(' ')
		}
		fmt.Fprintf(&sb, "%d:", l.Base)
		hexData(&sb, l.Data)
	}
	return sb.String()
}

// snapSink de-duplicates consecutive equal snapshots and gathers statistics.
type snapSink struct {
	lastFp    uint64
	haveFp    bool
	lastSnap  *comp.VerifMsiSnapshot
	last      string
	lastCycle int
	mult      int
	snaps     int
	cycles    int
	prevState map[[2]int32]int32
	trans     map[string]int
	l1max     int
	evictions int
	prevL1    map[[2]int32]bool
	cmdsSeen  map[string]bool
	every     int
	ref       func() string // data-value reference of the driver (nil: none)
	lastRef   string
}

func newSnapSink(every int) *snapSink {
	if every < 1 {
		every = 1
	}
	return &snapSink{prevState: map[[2]int32]int32{}, trans: map[string]int{}, prevL1: map[[2]int32]bool{}, cmdsSeen: map[string]bool{}, every: every}
}

var stateLetter = [...]string{"I", "S", "M"}

// observe takes the snapshot only when the fingerprint of the state changed
func (k *snapSink) observe(cycle int, fp uint64, snapshot func() comp.VerifMsiSnapshot) {
	if k.mult > 0 && k.haveFp && fp == k.lastFp {
		k.cycles++
		k.mult++
		return
	}
	s := snapshot()
	k.add(cycle, &s)
	k.lastFp, k.haveFp = fp, true
}

func (k *snapSink) add(cycle int, s *comp.VerifMsiSnapshot) {
	k.haveFp = false
	k.cycles++
	// statistics (cheap, on the structured snapshot)
	cur := map[[2]int32]int32{}
	for _, e := range s.States {
		cur[[2]int32{int32(e.Core), e.Line}] = e.State
	}
	for key, st := range cur {
		if old := k.prevState[key]; old != st && old >= 0 && old < 3 && st >= 0 && st < 3 {
			k.trans[stateLetter[old]+stateLetter[st]]++
		}
	}
	k.prevState = cur
	l1 := map[[2]int32]bool{}
	for c, ls := range s.L1 {
		if len(ls) > k.l1max {
			k.l1max = len(ls)
		}
		for _, l := range ls {
			l1[[2]int32{int32(c), l.Base}] = true
		}
	}
	for key := range k.prevL1 {
		if !l1[key] {
			k.evictions++
		}
	}
	k.prevL1 = l1
	for _, c := range s.Cmds {
		k.cmdsSeen[fmt.Sprintf("%d:%d:%d", c.Core, c.Line, c.Kind)] = true
	}
	ref := "-"
	if k.ref != nil {
		ref = k.ref()
	}
	if k.mult > 0 && k.lastSnap != nil && ref == k.lastRef && sameSnapshot(k.lastSnap, s) {
		k.mult++
		return
	}
	k.flush()
	k.last, k.lastCycle, k.mult = fmtSnapshot(s)+"\t"+ref, cycle, 1
	k.lastSnap = s
	k.lastRef = ref
}

func sameLines(a, b []comp.VerifMsiLine) bool {
	if len(a) != len(b) {
		return false
	}
	for i := range a {
		if a[i].Base != b[i].Base || len(a[i].Data) != len(b[i].Data) {
			return false
		}
		for j, v := range a[i].Data {
			if b[i].Data[j] != v {
				return false
			}
		}
	}
	return true
}

func sameInt32s(a, b []int32) bool {
	if len(a) != len(b) {
		return false
	}
	for i := range a {
		if a[i] != b[i] {
			return false
		}
	}
	return true
}

// sameSnapshot: structural equality (cheaper than rendering both)
func sameSnapshot(a, b *comp.VerifMsiSnapshot) bool {
	if a.Cores != b.Cores || len(a.States) != len(b.States) || len(a.Sems) != len(b.Sems) || len(a.Cmds) != len(b.Cmds) ||
		len(a.Tx) != len(b.Tx) || len(a.L1) != len(b.L1) {
		return false
	}
	for i := range a.States {
		if a.States[i] != b.States[i] {
			return false
		}
	}
	for i := range a.Sems {
		if a.Sems[i] != b.Sems[i] {
			return false
		}
	}
	for i := range a.Cmds {
		if a.Cmds[i] != b.Cmds[i] {
			return false
		}
	}
	for i := range a.Tx {
		x, y := a.Tx[i], b.Tx[i]
		if x.Core != y.Core || x.ReadActive != y.ReadActive || x.WriteActive != y.WriteActive || x.SnoopBusy != y.SnoopBusy ||
			!sameInt32s(x.ReadLines, y.ReadLines) || !sameInt32s(x.WriteLines, y.WriteLines) {
			return false
		}
	}
	for i := range a.L1 {
		if !sameLines(a.L1[i], b.L1[i]) {
			return false
		}
	}
	return sameLines(a.L3, b.L3) && sameInt32s(a.L3Dirty, b.L3Dirty) && sameInt32s(a.L3Locked, b.L3Locked) && sameLines(a.Mem, b.Mem)
}

func (k *snapSink) flush() {
	if k.mult > 0 {
		emit("S %d %d\t%s", k.lastCycle, k.mult, k.last)
		k.snaps++
	}
	k.mult = 0
}

func (k *snapSink) stats() string {
	keys := make([]string, 0, len(k.trans))
	for t := range k.trans {
		keys = append(keys, t)
	}
	sort.Strings(keys)
	parts := make([]string, len(keys))
	for i, t := range keys {
		parts[i] = fmt.Sprintf("%s:%d", t, k.trans[t])
	}
	tr := strings.Join(parts, ",")
	if tr == "" {
		tr = "-"
	}
	return fmt.Sprintf("cycles=%d snaps=%d tr=%s l1evict=%d l1max=%d cmds=%d", k.cycles, k.snaps, tr, k.evictions, k.l1max, len(k.cmdsSeen))
}

func panicMsg(r any) string {
	if os.Getenv("VERIF_STACK") != "" {
		// for replays: where the panic came from
		fmt.Fprintf(os.Stderr, "panic: %v\n%s\n", r, debug.Stack())
	}
	msg := strings.SplitN(fmt.Sprint(r), "\n", 2)[0]
	msg = strings.ReplaceAll(msg, "\t", " ")
	if len(msg) > 100 {
		msg = msg[:100]
	}
	return msg + " in=" + panicSite()
}

// panicSite names the innermost function of the repository on the stack of
// the panic being recovered (for the classification of panics).
func panicSite() string {
	for _, l := range strings.Split(string(debug.Stack()), "\n") {
		if i := strings.Index(l, "github.com/teivah/majorana/"); i == 0 {
			f := l[len("github.com/teivah/majorana/"):]
			if j := strings.LastIndex(f, "("); j > 0 {
				f = f[:j]
			}
			f = strings.NewReplacer(" ", "", "(*", "", ")", "").Replace(f)
			if strings.HasPrefix(f, "risc.VerifTick") || strings.Contains(f, "verif") {
				continue
			}
			return f
		}
	}
	return "?"
}

func initMemory(mem []int8, spec string) {
	spec = strings.TrimSpace(spec)
	if strings.HasPrefix(spec, "pat:") {
		seed := atoi(spec[4:])
		for i := range mem {
			mem[i] = int8((i*7 + i/64*13 + seed) % 251)
		}
		return
	}
	for _, kv := range parsePairs(spec) {
		mem[kv[0]] = int8(kv[1])
	}
}

type rigReq struct {
	delay int
	write bool
	addrs []int32
	data  []int8
}

type rigFlush struct {
	cycle, core int
}

// msi-rig case: variant \t cores \t memsize \t meminit \t maxcycles \t script
// script items, ';'-separated:
//
//	q <core> <delay> R <addr> <nbytes>       request queued on a core: starts <delay> cycles after the
//	q <core> <delay> W <addr> <b0,b1,..>     previous request of that core completed (or was flushed)
//	f <cycle> <core>                         at that cycle the core is flushed instead of cycling its request
//	x                                        Export() after the last cycle
func msiRigCase(n int, f []string) {
	variant, cores, memsize := f[0], atoi(f[1]), atoi(f[2])
	maxCycles := atoi(f[4])
	queues := make([][]rigReq, cores)
	var flushes []rigFlush
	export := false
	for _, it := range strings.Split(f[5], ";") {
		w := strings.Fields(it)
		if len(w) == 0 {
			continue
		}
		switch w[0] {
		case "q":
			c := atoi(w[1])
			rq := rigReq{delay: atoi(w[2]), write: w[3] == "W"}
			a := int32(atoi(w[4]))
			if rq.write {
				for i, v := range parseList(w[5]) {
					rq.addrs = append(rq.addrs, a+int32(i))
					rq.data = append(rq.data, int8(v))
				}
			} else {
				for i := 0; i < atoi(w[5]); i++ {
					rq.addrs = append(rq.addrs, a+int32(i))
				}
			}
			queues[c] = append(queues[c], rq)
		case "f":
			flushes = append(flushes, rigFlush{atoi(w[1]), atoi(w[2])})
		case "x":
			export = true
		default:
			panic("msi-rig: bad script item " + it)
		}
	}
	emit("C %d %s %d", n, variant, cores)
	sink := newSnapSink(1)
	var reads []string
	completed, flushed := 0, 0
	// data-value reference: a completed read returns, byte by byte, the value of the last completed
	// write to that address (the line semaphores serialise the transactions on a line), else initial memory
	ref := map[int32]int8{}
	var initMem []int8
	dataErrs := 0
	dataErr := "-"
	noteErr := func(what string) {
		dataErrs++
		if dataErr == "-" {
			dataErr = what
		}
	}
	refAt := func(a int32) int8 {
		if v, ok := ref[a]; ok {
			return v
		}
		if int(a) >= 0 && int(a) < len(initMem) {
			return initMem[a]
		}
		return 0
	}
	// the reference rendered per L1-sized line, cached until the next completed write
	refDirty, refStr := true, "-"
	lineSize := int32(64) // replaced by the L1 line size of the first snapshot
	sink.ref = func() string {
		if flushed > 0 {
			return "-"
		}
		if !refDirty {
			return refStr
		}
		refDirty = false
		lines := map[int32]bool{}
		for a := range ref {
			lines[a-((a%lineSize)+lineSize)%lineSize] = true
		}
		bases := make([]int32, 0, len(lines))
		for b := range lines {
			bases = append(bases, b)
		}
		sort.Slice(bases, func(i, j int) bool { return bases[i] < bases[j] })
		var sb strings.Builder
		d := make([]int8, lineSize)
		for i, b := range bases {
			if i > 0 {
				sb.WriteByte(' ')
			}
			for o := int32(0); o < lineSize; o++ {
				d[o] = refAt(b + o)
			}
			fmt.Fprintf(&sb, "%d:", b)
			hexData(&sb, d)
		}
		refStr = sb.String()
		if refStr == "" {
			refStr = "-"
		}
		return refStr
	}
	cycle := 0
	var rig msiRig
	outcome := func() (res string) {
		defer func() {
			if r := recover(); r != nil {
				res = "panic " + panicMsg(r)
				// the state the panic left behind (e.g. a negative semaphore counter)
				func() {
					defer func() { _ = recover() }()
					if rig != nil {
						s := rig.Snapshot()
						sink.add(cycle, &s)
					}
				}()
			}
		}()
		rig = newMsiRig(variant, cores, memsize)
		initMemory(rig.Memory(), f[3])
		initMem = append([]int8(nil), rig.Memory()...)
		s0 := rig.Snapshot()
		if s0.L1LineSize > 0 {
			lineSize = int32(s0.L1LineSize)
		}
		sink.add(0, &s0)
		next := make([]int, cores)    // index of the next request per core
		wait := make([]int, cores)    // cycles to wait before it starts
		active := make([]bool, cores) // request outstanding
		for c := 0; c < cores; c++ {
			if len(queues[c]) > 0 {
				wait[c] = queues[c][0].delay
			}
		}
		idleTail := 0
		for cycle = 1; cycle <= maxCycles; cycle++ {
			rig.Snoop()
			for c := 0; c < cores; c++ {
				fl := false
				for _, x := range flushes {
					if x.cycle == cycle && x.core == c {
						fl = true
					}
				}
				if !active[c] && next[c] < len(queues[c]) {
					if wait[c] > 0 {
						wait[c]--
					} else {
						active[c] = true
					}
				}
				if fl {
					rig.Flush(c)
					flushed++
					if active[c] {
						active[c] = false
						next[c]++
						if next[c] < len(queues[c]) {
							wait[c] = queues[c][next[c]].delay
						}
					}
					continue
				}
				if !active[c] {
					continue
				}
				rq := queues[c][next[c]]
				done := false
				if rq.write {
					done = rig.WriteCycle(c, rq.addrs, rq.data)
				} else {
					var d []int8
					done, d = rig.ReadCycle(c, rq.addrs)
					if done {
						reads = append(reads, fmt.Sprintf("%d.%d=%s", c, next[c], strings.Trim(fmtList(d), "[]")))
						for i, a := range rq.addrs {
							if i < len(d) && d[i] != refAt(a) {
								noteErr(fmt.Sprintf("read:%d.%d@%d:addr%d:got%d:want%d", c, next[c], cycle, a, d[i], refAt(a)))
								break
							}
						}
					}
				}
				if done && rq.write {
					for i, a := range rq.addrs {
						ref[a] = rq.data[i]
					}
					refDirty = true
				}
				if done {
					completed++
					active[c] = false
					next[c]++
					if next[c] < len(queues[c]) {
						wait[c] = queues[c][next[c]].delay
					}
				}
			}
			sink.observe(cycle, rig.Fingerprint(), rig.Snapshot)
			all := true
			for c := 0; c < cores; c++ {
				if active[c] || next[c] < len(queues[c]) || !rig.Idle(c) {
					all = false
				}
			}
			for _, x := range flushes {
				if x.cycle > cycle {
					all = false
				}
			}
			if all {
				idleTail++
				if idleTail >= 2 {
					break
				}
			} else {
				idleTail = 0
			}
		}
		res = "done"
		if cycle > maxCycles {
			res = "maxcycles"
		}
		if export {
			rig.Export()
			s := rig.Snapshot()
			sink.add(cycle+1, &s)
			res += "+export"
			if flushed == 0 {
				for a, v := range ref {
					if int(a) < len(rig.Memory()) && rig.Memory()[a] != v {
						noteErr(fmt.Sprintf("export:addr%d:got%d:want%d", a, rig.Memory()[a], v))
						break
					}
				}
			}
		}
		return res
	}()
	sink.flush()
	rd := strings.Join(reads, "|")
	if rd == "" {
		rd = "-"
	}
	if len(rd) > 300 {
		rd = rd[:300]
	}
	emit("E %s at=%d completed=%d flushed=%d %s dataerrs=%d dataerr=%s reads=%s", outcome, cycle, completed, flushed, sink.stats(), dataErrs, dataErr, rd)
}

type msiMachine interface {
	machine
	VerifSnapshot() comp.VerifMsiSnapshot
	VerifFingerprint() uint64
}

// msi-run case: variant \t par \t budget \t memsize \t regs \t meminit \t asm [\t every]
// (the fields of a `run` case; every = snapshot every n-th tick, default 1)
func msiRunCase(n int, f []string) {
	variant, par := f[0], atoi(f[1])
	emit("C %d %s %d", n, variant, par)
	every := 1
	if len(f) > 7 && strings.TrimSpace(f[7]) != "" {
		every = atoi(f[7])
	}
	sink := newSnapSink(every)
	asm := strings.ReplaceAll(f[6], "|", "\n")
	app, err := func() (a risc.Application, e error) {
		defer func() {
			if r := recover(); r != nil {
				e = fmt.Errorf("parse panic")
			}
		}()
		return risc.Parse(asm)
	}()
	if err != nil {
		emit("E parse-error")
		return
	}
	var ctx *risc.Context
	var m msiMachine
	lastTick := int64(0)
	res := func() (res string) {
		defer func() {
			if r := recover(); r != nil {
				if ctx != nil {
					risc.VerifUnwatch(ctx)
				}
				func() {
					defer func() { _ = recover() }()
					if m != nil {
						s := m.VerifSnapshot()
						sink.add(int(lastTick)+1, &s)
					}
				}()
				if b, ok := r.(risc.VerifBudgetExceeded); ok {
					res = fmt.Sprintf("budget ticks=%d", b.Ticks)
					return
				}
				res = "panic " + panicMsg(r)
			}
		}()
		m = newMachine(variant, par, atoi(f[3])).(msiMachine)
		ctx = m.Context()
		for _, kv := range parsePairs(f[4]) {
			ctx.Registers[risc.RegisterType(kv[0])] = int32(kv[1])
		}
		for _, kv := range parsePairs(f[5]) {
			ctx.Memory[kv[0]] = int8(kv[1])
		}
		init := make([]int8, len(ctx.Memory))
		copy(init, ctx.Memory)
		risc.VerifWatch(ctx, int64(atoi(f[2])), func(t int64) {
			lastTick = t
			if every > 1 && t%int64(every) != 0 {
				return
			}
			sink.observe(int(t), m.VerifFingerprint(), m.VerifSnapshot)
		})
		cycles, err := m.Run(app)
		ticks := risc.VerifUnwatch(ctx)
		s := m.VerifSnapshot()
		sink.add(int(ticks)+1, &s)
		if err != nil {
			return "err " + errClass(err)
		}
		return fmt.Sprintf("ok c=%d r=%s m=%s t=%d", cycles, fmtRegs(ctx.Registers), fmtMemDiff(ctx.Memory, init), ticks)
	}()
	sink.flush()
	emit("E %s at=%d %s", res, lastTick, sink.stats())
}
