package main

import (
	"fmt"
	"os"
	"sort"
	"strings"
	"time"

	"github.com/teivah/majorana/proc/mvp1"
	"github.com/teivah/majorana/proc/mvp2"
	"github.com/teivah/majorana/proc/mvp3"
	"github.com/teivah/majorana/proc/mvp4"
	"github.com/teivah/majorana/proc/mvp5"
	mvp6_0 "github.com/teivah/majorana/proc/mvp6-0"
	mvp6_1 "github.com/teivah/majorana/proc/mvp6-1"
	mvp6_2 "github.com/teivah/majorana/proc/mvp6-2"
	mvp6_3 "github.com/teivah/majorana/proc/mvp6-3"
	mvp7_0 "github.com/teivah/majorana/proc/mvp7-0"
	mvp7_1 "github.com/teivah/majorana/proc/mvp7-1"
	mvp8_0 "github.com/teivah/majorana/proc/mvp8-0"
	"github.com/teivah/majorana/risc"
)

type machine interface {
	Run(app risc.Application) (int, error)
	Context() *risc.Context
}

func newMachine(variant string, par int, memsize int) machine {
	switch variant {
	case "1":
		return mvp1.NewCPU(false, memsize)
	case "2":
		return mvp2.NewCPU(false, memsize)
	case "3":
		return mvp3.NewCPU(false, memsize)
	case "4":
		return mvp4.NewCPU(false, memsize)
	case "5":
		return mvp5.NewCPU(false, memsize)
	case "6.0":
		return mvp6_0.NewCPU(false, memsize, par, par)
	case "6.1":
		return mvp6_1.NewCPU(false, memsize, par, par)
	case "6.2":
		return mvp6_2.NewCPU(false, memsize, par, par)
	case "6.3":
		return mvp6_3.NewCPU(false, memsize, par, par)
	case "7.0":
		return mvp7_0.NewCPU(false, memsize, par)
	case "7.1":
		return mvp7_1.NewCPU(false, memsize, par)
	case "8.0":
		return mvp8_0.NewCPU(false, memsize, par)
	}
	panic("unknown variant " + variant)
}

func init() {
	commands["run"] = runCase
	commandsFlushEach["run"] = true
}

func fmtRegs(m map[risc.RegisterType]int32) string {
	keys := make([]int, 0, len(m))
	for k, v := range m {
		if v != 0 {
			keys = append(keys, int(k))
		}
	}
	sort.Ints(keys)
	parts := make([]string, len(keys))
	for i, k := range keys {
		parts[i] = fmt.Sprintf("%d:%d", k, m[risc.RegisterType(k)])
	}
	return strings.Join(parts, ",")
}

func fmtMemDiff(mem []int8, init []int8) string {
	var parts []string
	for i := range mem {
		if mem[i] != init[i] {
			parts = append(parts, fmt.Sprintf("%d:%d", i, mem[i]))
		}
	}
	return strings.Join(parts, ",")
}

// runOnce executes asm on a fresh machine and returns the canonical result line.
func runOnce(variant string, par int, budget int64, memsize int, regs, meminit [][2]int, app risc.Application) (res string) {
	var ctx *risc.Context
	defer func() {
		if r := recover(); r != nil {
			if ctx != nil {
				risc.VerifUnwatch(ctx)
			}
			if b, ok := r.(risc.VerifBudgetExceeded); ok {
				res = fmt.Sprintf("budget ticks=%d", b.Ticks)
				return
			}
			msg := strings.SplitN(fmt.Sprint(r), "\n", 2)[0]
			if len(msg) > 80 {
				msg = msg[:80]
			}
			res = "panic " + msg
		}
	}()
	m := newMachine(variant, par, memsize)
	ctx = m.Context()
	for _, kv := range regs {
		ctx.Registers[risc.RegisterType(kv[0])] = int32(kv[1])
	}
	for _, kv := range meminit {
		ctx.Memory[kv[0]] = int8(kv[1])
	}
	init := make([]int8, len(ctx.Memory))
	copy(init, ctx.Memory)
	risc.VerifWatch(ctx, budget, nil)
	cycles, err := m.Run(app)
	ticks := risc.VerifUnwatch(ctx)
	if err != nil {
		return "err " + errClass(err)
	}
	return fmt.Sprintf("ok c=%d r=%s m=%s t=%d", cycles, fmtRegs(ctx.Registers), fmtMemDiff(ctx.Memory, init), ticks)
}

// run case: variant \t par \t budget \t memsize \t regs \t meminit \t asm
func runCase(n int, f []string) {
	asm := strings.ReplaceAll(f[6], "|", "\n")
	app, err := func() (a risc.Application, e error) {
		defer func() {
			if r := recover(); r != nil {
				e = fmt.Errorf("parse panic")
			}
		}()
		return risc.Parse(asm)
	}()
	if err != nil {
		emit("parse-error %v", err)
		return
	}
	emit("%s", withWatchdog(func() string {
		return runOnce(f[0], atoi(f[1]), int64(atoi(f[2])), atoi(f[3]), parsePairs(f[4]), parsePairs(f[5]), app)
	}))
}

// withWatchdog runs one case; a case that neither returns nor exhausts its tick budget within the
// wall-clock limit (a loop that does not tick, a Go-level wait) is reported as "hang" and the
// process exits with status 3: the driver restarts the harness at the next case.
func withWatchdog(f func() string) string {
	ch := make(chan string, 1)
	go func() { ch <- f() }()
	limit := 8 * time.Second
	if v := os.Getenv("VERIF_CASE_TIMEOUT"); v != "" {
		limit = time.Duration(atoi(v)) * time.Second
	}
	select {
	case r := <-ch:
		return r
	case <-time.After(limit):
		emit("hang")
		out.Flush()
		os.Exit(3)
	}
	return ""
}

// reuse2: like reuse, but the FIRST machine runs from another initial state (fields 9, 10) and its
// outcome kind is printed in front of the second machine's line: "<first kind>\t<second result>".
func reuse2Case(n int, f []string) {
	asm := strings.ReplaceAll(f[8], "|", "\n")
	app, err := risc.Parse(asm)
	if err != nil {
		emit("parse-error")
		return
	}
	first := runOnce(f[0], atoi(f[1]), int64(atoi(f[4])), atoi(f[5]), parsePairs(f[9]), parsePairs(f[10]), app)
	kind := strings.SplitN(first, " ", 2)[0]
	emit("%s\t%s", kind, stripTicks(runOnce(f[2], atoi(f[3]), int64(atoi(f[4])), atoi(f[5]), parsePairs(f[6]), parsePairs(f[7]), app)))
}

func init() {
	commands["reuse2"] = reuse2Case
	commandsFlushEach["reuse2"] = true
	commands["repeat"] = repeatCase
	commandsFlushEach["repeat"] = true
	commands["reuse"] = reuseCase
	commandsFlushEach["reuse"] = true
}

func stripTicks(s string) string {
	var out []string
	for _, t := range strings.Split(s, " ") {
		if !strings.HasPrefix(t, "t=") {
			out = append(out, t)
		}
	}
	return strings.Join(out, " ")
}

// repeat case: count \t concurrent(0/1) \t variant \t par \t budget \t memsize \t regs \t meminit \t asm
// runs the same input count times in this process (fresh parse and fresh machine each time; with
// concurrent=1 another machine runs a different program in a goroutine meanwhile) and reports
// whether all (cycles, registers, memory) results are identical.
func repeatCase(n int, f []string) {
	count := atoi(f[0])
	concurrent := atoi(f[1]) == 1
	asm := strings.ReplaceAll(f[8], "|", "\n")
	var first string
	for i := 0; i < count; i++ {
		app, err := risc.Parse(asm)
		if err != nil {
			emit("parse-error")
			return
		}
		done := make(chan struct{})
		if concurrent {
			go func() {
				defer close(done)
				defer func() { _ = recover() }()
				other, err := risc.Parse("li t0, 7\nli t1, 9\nadd t2, t0, t1\nsw t2, 0(zero)\nlw t3, 0(zero)\nret")
				if err == nil {
					_ = runOnce(f[2], atoi(f[3]), 100000, 64, nil, nil, other)
				}
			}()
		} else {
			close(done)
		}
		r := stripTicks(runOnce(f[2], atoi(f[3]), int64(atoi(f[4])), atoi(f[5]), parsePairs(f[6]), parsePairs(f[7]), app))
		<-done
		if i == 0 {
			first = r
		} else if r != first {
			emit("DIFF run0: %s || run%d: %s", first, i, r)
			return
		}
	}
	emit("same %s", first)
}

// reuse case: variantA \t parA \t variantB \t parB \t budget \t memsize \t regs \t meminit \t asm
// parses once, runs the Application on machine A, then on a fresh machine B; prints B's result.
func reuseCase(n int, f []string) {
	asm := strings.ReplaceAll(f[8], "|", "\n")
	app, err := risc.Parse(asm)
	if err != nil {
		emit("parse-error")
		return
	}
	_ = runOnce(f[0], atoi(f[1]), int64(atoi(f[4])), atoi(f[5]), parsePairs(f[6]), parsePairs(f[7]), app)
	emit("%s", stripTicks(runOnce(f[2], atoi(f[3]), int64(atoi(f[4])), atoi(f[5]), parsePairs(f[6]), parsePairs(f[7]), app)))
}
