package main

// C13: drives comp.LRUCache (proc/comp/cache.go) and the generic
// cache.LRUCache (common/cache/lru.go) through their exported API on
// operation histories.
//
// cache case:  "lineLen cacheLen" \t op;op;...
//   P base b,b,..   PushLine                      -> nil | [b,..]
//   W base b,b,..   PushLineWithEvictionWarning   -> nil | lo:hi:[b,..]
//   G addr          Get                           -> miss | v
//   L addr          GetCacheLine                  -> nil | [b,..]
//   S a,a,.. n      GetSubCacheLine               -> miss | addr:[b,..]
//   E addr          EvictCacheLine                -> nil | [b,..]
//   U addr b,b,..   Write                         -> ok
// result: per op "<output>|<bases of Lines() in order>", joined by ';'.
// A panic of the component prints "panic" for that op and ends the history.
//
// lru case:  capacity \t op;op;...
//   P k v -> ok     G k -> miss | v     F k,k,.. -> miss | k
// result: per op "<output>|<order, oldest first>" (order is read with reflect:
// the type exports no accessor; reading does not change it).
//
// Go slices alias: every slice handed to the component is a fresh copy and
// every slice obtained from it is copied (formatted) before the next call.

import (
	"fmt"
	"reflect"
	"strconv"
	"strings"

	"github.com/teivah/majorana/common/cache"
	"github.com/teivah/majorana/proc/comp"
)

func init() {
	commands["cache"] = cacheCase
	commands["lru"] = lruCase
}

func int8s(s string) []int8 {
	l := parseList(s)
	out := make([]int8, len(l)) // never nil: nil is how PushLine says "nothing displaced"
	for i, v := range l {
		out[i] = int8(v)
	}
	return out
}

func int32s(s string) []int32 {
	l := parseList(s)
	if len(l) == 0 {
		return nil
	}
	out := make([]int32, len(l))
	for i, v := range l {
		out[i] = int32(v)
	}
	return out
}

func fmtData(d []int8) string {
	cp := make([]int8, len(d))
	copy(cp, d)
	return fmtList(cp)
}

func cacheBases(c *comp.LRUCache) string {
	ls := c.Lines()
	parts := make([]string, len(ls))
	for i, l := range ls {
		parts[i] = strconv.Itoa(int(l.Boundary[0]))
	}
	return strings.Join(parts, ",")
}

func cacheOp(c *comp.LRUCache, o string) (res string, ok bool) {
	defer func() {
		if r := recover(); r != nil {
			res, ok = "panic", false
		}
	}()
	t := strings.Split(strings.TrimSpace(o), " ")
	arg := func(i int) string {
		if i < len(t) {
			return t[i]
		}
		return "-"
	}
	switch t[0] {
	case "P":
		r := c.PushLine(comp.AlignedAddress(int32(atoi(t[1]))), int8s(arg(2)))
		if r == nil {
			return "nil", true
		}
		return fmtData(r), true
	case "W":
		r := c.PushLineWithEvictionWarning(comp.AlignedAddress(int32(atoi(t[1]))), int8s(arg(2)))
		if r == nil {
			return "nil", true
		}
		return fmt.Sprintf("%d:%d:%s", r.Boundary[0], r.Boundary[1], fmtData(r.Data)), true
	case "G":
		v, exists := c.Get(int32(atoi(t[1])))
		if !exists {
			return "miss", true
		}
		return strconv.Itoa(int(v)), true
	case "L":
		d, exists := c.GetCacheLine(comp.AlignedAddress(int32(atoi(t[1]))))
		if !exists {
			return "nil", true
		}
		return fmtData(d), true
	case "S":
		a, d, exists := c.GetSubCacheLine(int32s(t[1]), int32(atoi(t[2])))
		if !exists {
			return "miss", true
		}
		return fmt.Sprintf("%d:%s", a, fmtData(d)), true
	case "E":
		d, exists := c.EvictCacheLine(comp.AlignedAddress(int32(atoi(t[1]))))
		if !exists {
			return "nil", true
		}
		return fmtData(d), true
	case "U":
		c.Write(int32(atoi(t[1])), int8s(arg(2)))
		return "ok", true
	}
	panic("bad cache op in case file: " + o)
}

func cacheCase(n int, f []string) {
	geo := strings.Fields(f[0])
	var c *comp.LRUCache
	func() {
		defer func() {
			if r := recover(); r != nil {
				c = nil
			}
		}()
		c = comp.NewLRUCache(atoi(geo[0]), atoi(geo[1]))
	}()
	if c == nil {
		emit("panic")
		return
	}
	var outs []string
	if len(f) > 1 && strings.TrimSpace(f[1]) != "" {
		for _, o := range strings.Split(f[1], ";") {
			res, ok := cacheOp(c, o)
			if !ok {
				outs = append(outs, "panic")
				break
			}
			outs = append(outs, res+"|"+cacheBases(c))
		}
	}
	emit("%s", strings.Join(outs, ";"))
}

func lruOrder(l *cache.LRUCache[int, int]) string {
	v := reflect.ValueOf(l).Elem().FieldByName("order")
	if !v.IsValid() || v.Kind() != reflect.Slice {
		return "?"
	}
	parts := make([]string, v.Len())
	for i := range parts {
		parts[i] = strconv.FormatInt(v.Index(i).Int(), 10)
	}
	return strings.Join(parts, ",")
}

func lruOp(l *cache.LRUCache[int, int], o string) (res string, ok bool) {
	defer func() {
		if r := recover(); r != nil {
			res, ok = "panic", false
		}
	}()
	t := strings.Split(strings.TrimSpace(o), " ")
	switch t[0] {
	case "P":
		l.Put(atoi(t[1]), atoi(t[2]))
		return "ok", true
	case "G":
		v, exists := l.Get(atoi(t[1]))
		if !exists {
			return "miss", true
		}
		return strconv.Itoa(v), true
	case "F":
		ks := parseList(t[1])
		k, exists := l.Find(ks)
		if !exists {
			return "miss", true
		}
		return strconv.Itoa(k), true
	}
	panic("bad lru op in case file: " + o)
}

func lruCase(n int, f []string) {
	var l *cache.LRUCache[int, int]
	func() {
		defer func() {
			if r := recover(); r != nil {
				l = nil
			}
		}()
		l = cache.NewLRUCache[int, int](atoi(f[0]))
	}()
	if l == nil {
		emit("panic")
		return
	}
	var outs []string
	if len(f) > 1 && strings.TrimSpace(f[1]) != "" {
		for _, o := range strings.Split(f[1], ";") {
			res, ok := lruOp(l, o)
			if !ok {
				outs = append(outs, "panic")
				break
			}
			outs = append(outs, res+"|"+lruOrder(l))
		}
	}
	emit("%s", strings.Join(outs, ";"))
}
