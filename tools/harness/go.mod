module harness

go 1.22.1

require github.com/teivah/majorana v0.0.0

replace github.com/teivah/majorana => /repo
