package main

// C14: drives the real SimpleBus, BufferedBus, Queue and Broadcast of
// github.com/teivah/majorana/proc/comp through their exported API.  One case
// line = one whole history; the result line lists, for every operation, its
// return value and the observers afterwards.  Same formats as
// tools/oracle/bus_main.ml (the extracted Coq model).

import (
	"fmt"
	"strconv"
	"strings"

	"github.com/teivah/majorana/proc/comp"
)

func init() {
	commands["bus"] = busCase
	commands["simplebus"] = simpleBusCase
	commands["queue"] = queueCase
	commands["broadcast"] = broadcastCase
}

func b01(b bool) string {
	if b {
		return "1"
	}
	return "0"
}

// the family of predicates handed to Pick / Exists / the queue loop (Coq: pred_of)
func predOf(k int) func(int) bool {
	if k > 0 {
		return func(t int) bool { return t%k == 0 }
	}
	return func(t int) bool { return t == -k }
}

func splitOps(s string) [][]string {
	var out [][]string
	for _, o := range strings.Split(s, ";") {
		w := strings.Fields(o)
		if len(w) > 0 {
			out = append(out, w)
		}
	}
	return out
}

func field(f []string, i int) string {
	if i < len(f) {
		return f[i]
	}
	return ""
}

func fmtInts(l []int) string {
	parts := make([]string, len(l))
	for i, v := range l {
		parts[i] = strconv.Itoa(v)
	}
	return "[" + strings.Join(parts, ",") + "]"
}

// bus: "ql bl" \t "op;op;..."   ops: A t c | R t c | D | G | P k | E k | C c | X
func busCase(n int, f []string) {
	res := func() (s string) {
		defer func() {
			if r := recover(); r != nil {
				s = "panic"
			}
		}()
		caps := strings.Fields(f[0])
		b := comp.NewBufferedBus[int](atoi(caps[0]), atoi(caps[1]))
		obs := func() string {
			return fmt.Sprintf("%s,%d,%d,%s,%s", b01(b.IsEmpty()), b.PendingRead(), b.RemainingToAdd(), b01(b.CanAdd()), b01(b.CanGet()))
		}
		var sb strings.Builder
		fmt.Fprintf(&sb, "L%d,%d|%s", b.InLength(), b.OutLength(), obs())
		for _, w := range splitOps(field(f, 1)) {
			ret := "-"
			switch w[0] {
			case "A":
				b.Add(atoi(w[1]), atoi(w[2]))
			case "R":
				b.Revert(atoi(w[1]), atoi(w[2]))
			case "D":
				b.DeleteLast()
			case "G":
				t, ok := b.Get()
				ret = fmt.Sprintf("%d,%s", t, b01(ok))
			case "P":
				t, ok := b.Pick(predOf(atoi(w[1])))
				ret = fmt.Sprintf("%d,%s", t, b01(ok))
			case "E":
				ret = b01(b.Exists(predOf(atoi(w[1]))))
			case "C":
				b.Connect(atoi(w[1]))
			case "X":
				b.Clean()
			default:
				panic("bad bus op in case file: " + w[0])
			}
			sb.WriteString(";" + ret + "|" + obs())
		}
		return sb.String()
	}()
	emit("%s", res)
}

// simplebus: "op;op;..."   ops: A t | G | F | X
func simpleBusCase(n int, f []string) {
	res := func() (s string) {
		defer func() {
			if r := recover(); r != nil {
				s = "panic"
			}
		}()
		b := &comp.SimpleBus[int]{}
		obs := func() string { return b01(b.CanAdd()) + "," + b01(b.IsEmpty()) }
		var sb strings.Builder
		sb.WriteString("L|" + obs())
		for _, w := range splitOps(f[0]) {
			ret := "-"
			switch w[0] {
			case "A":
				b.Add(atoi(w[1]))
			case "G":
				t, ok := b.Get()
				ret = fmt.Sprintf("%d,%s", t, b01(ok))
			case "F":
				b.Flush()
			case "X":
				b.Clean()
			default:
				panic("bad simplebus op in case file: " + w[0])
			}
			sb.WriteString(";" + ret + "|" + obs())
		}
		return sb.String()
	}()
	emit("%s", res)
}

// queue: "cap" \t "op;op;..."   ops: U v | L | F | I k limit
// I: the loop of the control units: range over Iterator(), visit Value(elem),
// Remove(elem) when the predicate holds, stop after limit elements (limit < 0: never)
func queueCase(n int, f []string) {
	res := func() (s string) {
		defer func() {
			if r := recover(); r != nil {
				s = "panic"
			}
		}()
		q := comp.NewQueue[int](atoi(f[0]))
		obs := func() string { return fmt.Sprintf("%d,%s", q.Length(), b01(q.IsFull())) }
		var sb strings.Builder
		sb.WriteString("L|" + obs())
		for _, w := range splitOps(field(f, 1)) {
			ret := "-"
			switch w[0] {
			case "U":
				q.Push(atoi(w[1]))
			case "L":
				ret = strconv.Itoa(q.Length())
			case "F":
				ret = b01(q.IsFull())
			case "I":
				p := predOf(atoi(w[1]))
				limit := atoi(w[2])
				visited := []int{}
				cnt := 0
				for elem := range q.Iterator() {
					if cnt == limit {
						break
					}
					cnt++
					v := q.Value(elem)
					visited = append(visited, v)
					if p(v) {
						q.Remove(elem)
					}
				}
				ret = fmtInts(visited)
			default:
				panic("bad queue op in case file: " + w[0])
			}
			sb.WriteString(";" + ret + "|" + obs())
		}
		return sb.String()
	}()
	emit("%s", res)
}

// broadcast: "count" \t "op;op;..."   ops: N t | R id | K id i
// K id i calls the Commit closure of the i-th event returned by an earlier
// Read(id) (the most recent one that returned more than i events); when no
// Read(id) has returned that many events there is no closure: "nocommit".
// A panic of one call is recovered and the history goes on.
func broadcastCase(n int, f []string) {
	res := func() (s string) {
		defer func() {
			if r := recover(); r != nil {
				s = "panic"
			}
		}()
		b := comp.NewBroadcast[int](atoi(f[0]))
		commits := map[[2]int]func(){}
		var sb strings.Builder
		sb.WriteString("L")
		for _, w := range splitOps(field(f, 1)) {
			ret := func() (r string) {
				defer func() {
					if x := recover(); x != nil {
						r = "panic"
					}
				}()
				switch w[0] {
				case "N":
					b.Notify(atoi(w[1]))
					return "-"
				case "R":
					id := atoi(w[1])
					evs := b.Read(id)
					data := make([]int, len(evs))
					for i, e := range evs {
						data[i] = e.Data
						commits[[2]int{id, i}] = e.Commit
					}
					return fmtInts(data)
				case "K":
					c, ok := commits[[2]int{atoi(w[1]), atoi(w[2])}]
					if !ok {
						return "nocommit"
					}
					c()
					return "-"
				}
				panic("bad broadcast op in case file: " + w[0])
			}()
			sb.WriteString(";" + ret)
		}
		return sb.String()
	}()
	emit("%s", res)
}
