package main

import (
	"fmt"
	"strings"

	"github.com/teivah/majorana/risc"
)

// rund: `run` with the debug log of the simulator switched on (ctx.Debug = true); the log goes to stdout in
// front of the result line.  Investigation only (bin/tie_m80.py never uses it).
func init() {
	commands["rund"] = rundCase
	commandsFlushEach["rund"] = true
}

func rundCase(n int, f []string) {
	asm := strings.ReplaceAll(f[6], "|", "\n")
	app, err := risc.Parse(asm)
	if err != nil {
		emit("parse-error %v", err)
		return
	}
	res := func() (res string) {
		defer func() {
			if r := recover(); r != nil {
				res = fmt.Sprintf("panic %v", r)
			}
		}()
		m := newMachine(f[0], atoi(f[1]), atoi(f[3]))
		ctx := m.Context()
		ctx.Debug = true
		for _, kv := range parsePairs(f[4]) {
			ctx.Registers[risc.RegisterType(kv[0])] = int32(kv[1])
		}
		for _, kv := range parsePairs(f[5]) {
			ctx.Memory[kv[0]] = int8(kv[1])
		}
		risc.VerifWatch(ctx, int64(atoi(f[2])), nil)
		cycles, err := m.Run(app)
		risc.VerifUnwatch(ctx)
		if err != nil {
			return "err"
		}
		return fmt.Sprintf("ok c=%d r=%s", cycles, fmtRegs(ctx.Registers))
	}()
	emit("%s", res)
}
