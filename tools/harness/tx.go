package main

// C15: drivers of comp.RAT and of the speculative register state of
// risc.Context (Transaction map / rename tables / registerRead), through
// exported API only.  Case and result formats are those of
// tools/oracle/tx_main.ml.

import (
	"fmt"
	"sort"
	"strings"

	"github.com/teivah/majorana/proc/comp"
	"github.com/teivah/majorana/risc"
)

func init() {
	commands["rat"] = ratCase
	commands["tx"] = func(n int, f []string) { txCase(false, f) }
	commands["txrat"] = func(n int, f []string) { txCase(true, f) }
}

type tagged struct {
	tag int32
	val int32
}

func fmtTagged(v tagged, ok bool) string {
	if !ok {
		return "none"
	}
	return fmt.Sprintf("%d/%d", v.tag, v.val)
}

func fmtTaggedMap(m map[int]tagged) string {
	keys := make([]int, 0, len(m))
	for k := range m {
		keys = append(keys, k)
	}
	sort.Ints(keys)
	parts := make([]string, len(keys))
	for i, k := range keys {
		parts[i] = fmt.Sprintf("%d=%s", k, fmtTagged(m[k], true))
	}
	return "{" + strings.Join(parts, ",") + "}"
}

func txSplitOps(s string) []string {
	return strings.Fields(s)
}

// rat case: length \t ops
func ratCase(n int, f []string) {
	var outs []string
	func() {
		defer func() {
			if r := recover(); r != nil {
				outs = append(outs, "panic")
			}
		}()
		r := comp.NewRAT[int, tagged](atoi(f[0]))
		for _, o := range txSplitOps(f[1]) {
			p := strings.Split(o, ":")
			switch p[0] {
			case "w":
				r.Write(atoi(p[1]), tagged{int32(atoi(p[2])), int32(atoi(p[3]))})
				outs = append(outs, "-")
			case "r":
				v, ok := r.Read(atoi(p[1]))
				outs = append(outs, fmtTagged(v, ok))
			case "f":
				t := int32(atoi(p[2]))
				v, ok := r.Find(atoi(p[1]), func(u tagged) bool { return u.tag <= t })
				outs = append(outs, fmtTagged(v, ok))
			case "v":
				outs = append(outs, fmtTaggedMap(r.Values()))
			case "fv":
				s := int32(atoi(p[1]))
				outs = append(outs, fmtTaggedMap(r.FindValues(func(u tagged) bool { return u.tag < s })))
			default:
				panic("bad rat op in case file: " + o)
			}
		}
	}()
	emit("%s", strings.Join(outs, ";"))
}

var regNames = []string{"zero", "ra", "sp", "gp", "tp", "t0", "t1", "t2", "s0", "s1", "a0", "a1", "a2", "a3", "a4",
	"a5", "a6", "a7", "s2", "s3", "s4", "s5", "s6", "s7", "s8", "s9", "s10", "s11", "t3", "t4", "t5", "t6"}

var mvCache = map[int]risc.InstructionRunner{}

// the instruction `mv t6, <reg>`: its Run computes registerRead(ctx, forward, reg, sequenceID)
func mvOf(reg int) risc.InstructionRunner {
	if r, ok := mvCache[reg]; ok {
		return r
	}
	app, err := risc.Parse("mv t6, " + regNames[reg])
	if err != nil {
		panic(err)
	}
	mvCache[reg] = app.Instructions[0]
	return app.Instructions[0]
}

func txFmtRegs(ctx *risc.Context) string {
	keys := make([]int, 0, len(ctx.Registers))
	for k, v := range ctx.Registers {
		if v != 0 {
			keys = append(keys, int(k))
		}
	}
	sort.Ints(keys)
	parts := make([]string, len(keys))
	for i, k := range keys {
		parts[i] = fmt.Sprintf("%d:%d", k, ctx.Registers[risc.RegisterType(k)])
	}
	return "[" + strings.Join(parts, ",") + "]"
}

// tx / txrat case: ops
func txCase(rat bool, f []string) {
	var outs []string
	func() {
		defer func() {
			if r := recover(); r != nil {
				outs = append(outs, "panic")
			}
		}()
		ctx := risc.NewContext(false, 0, rat)
		exe := func(p []string) risc.Execution {
			return risc.Execution{RegisterChange: true, Register: risc.RegisterType(atoi(p[1])), RegisterValue: int32(atoi(p[2]))}
		}
		for _, o := range txSplitOps(f[0]) {
			p := strings.Split(o, ":")
			switch p[0] {
			case "W":
				ctx.WriteRegister(exe(p))
				outs = append(outs, txFmtRegs(ctx))
			case "t":
				if rat {
					ctx.TransactionRATWrite(exe(p), int32(atoi(p[3])))
				} else {
					ctx.TransactionWriteRegister(exe(p), int32(atoi(p[3])))
				}
				outs = append(outs, "-")
			case "r":
				in := mvOf(atoi(p[1]))
				fw := risc.Forward{}
				if len(p) >= 5 {
					fw = risc.Forward{Register: risc.RegisterType(atoi(p[3])), Value: int32(atoi(p[4]))}
				}
				in.Forward(fw)
				e, err := in.Run(ctx, nil, 0, nil, int32(atoi(p[2])))
				in.Forward(risc.Forward{})
				if err != nil {
					outs = append(outs, "err")
				} else {
					outs = append(outs, fmt.Sprint(e.RegisterValue))
				}
			case "c":
				if rat {
					ctx.RATCommit()
				} else {
					ctx.Commit()
				}
				outs = append(outs, txFmtRegs(ctx))
			case "b":
				if rat {
					ctx.RATRollback(int32(atoi(p[1])))
				} else {
					ctx.Rollback(int32(atoi(p[1])))
				}
				outs = append(outs, txFmtRegs(ctx))
			case "i":
				if !rat {
					panic("bad tx op in case file: " + o)
				}
				ctx.InitRAT()
				outs = append(outs, txFmtRegs(ctx))
			case "l":
				if !rat {
					panic("bad tx op in case file: " + o)
				}
				ctx.RATFlush()
				outs = append(outs, txFmtRegs(ctx))
			default:
				panic("bad tx op in case file: " + o)
			}
		}
		outs = append(outs, "end="+txFmtRegs(ctx))
	}()
	emit("%s", strings.Join(outs, ";"))
}
