(* use: util_isa *)
(* driver of the specification oracle (extracted Isa/Spec.v, Isa/Seq.v, ...) *)
let isa_case _ line =
  let f = fields line in
  let si = sinstr_of_string f.(0) in
  let rr = regfun (parse_pairs f.(1)) in
  let pc = zi f.(2) in
  let mem = parse_list f.(3) in
  let labels = labfun (parse_pairs f.(4)) in
  let r = omap embed (exec si rr labels pc mem) in
  Printf.printf "%s RR=%s WR=%s MR=%s MW=%s\n" (fmt_outcome r)
    (fmt_list (reads si)) (fmt_list (writes si)) (fmt_list (load_addrs si rr)) (fmt_list (store_addrs si rr))

(* seq case: memsize \t regs \t meminit \t labels \t fuel \t prog (instr;instr;...) *)
let seq_case _ line =
  let f = fields line in
  let memsize = int_of_string (String.trim f.(0)) in
  let regs = Array.make 32 Z0 in
  List.iter (fun (r, v) -> regs.(int_of_z r) <- v) (parse_pairs f.(1));
  let mem = Array.make memsize Z0 in
  List.iter (fun (a, v) -> mem.(int_of_z a) <- v) (parse_pairs f.(2));
  let labels = parse_pairs f.(3) in
  let fuel = int_of_string (String.trim f.(4)) in
  let prog = List.map sinstr_of_string (List.filter (fun x -> String.trim x <> "") (String.split_on_char ';' f.(5))) in
  let st = { regs = Array.to_list regs; mem = Array.to_list mem } in
  let want_acc = Array.length f > 6 && String.trim f.(6) = "acc" in
  match seq_run (nat_of_int fuel) prog (lookup labels) st with
  | Done (st', tr) when want_acc ->
    (* replay the trace to list the memory accesses (kind:addr:size) in program order *)
    let progv = Array.of_list prog in
    let acc = Buffer.create 256 in
    let stc = ref st in
    List.iter (fun pc ->
        let i = progv.(int_of_z pc / 4) in
        let rr = rget !stc.regs in
        (match load_addrs i rr with
         | a :: _ as l -> Buffer.add_string acc (Printf.sprintf "l:%d:%d," (int_of_z a) (List.length l))
         | [] -> ());
        (match store_addrs i rr with
         | a :: _ as l -> Buffer.add_string acc (Printf.sprintf "s:%d:%d," (int_of_z a) (List.length l))
         | [] -> ());
        (match step prog (lookup labels) !stc pc with
         | Next (s2, _) -> stc := s2
         | _ -> ())) (List.rev tr);
    let rs = List.mapi (fun i v -> (i, int_of_z v)) st'.regs in
    let rs = List.filter (fun (i, v) -> v <> 0 && i <> 0) rs in
    let ms = List.mapi (fun i v -> (i, int_of_z v)) st'.mem in
    let ms = List.filter (fun (i, v) -> v <> int_of_z mem.(i)) ms in
    let p l = String.concat "," (List.map (fun (a, b) -> Printf.sprintf "%d:%d" a b) l) in
    let h = List.fold_left (fun h pc -> (h * 1000003 + int_of_z pc + 1) land 0x3fffffffffffff) 7 (List.rev tr) in
    Printf.printf "ok steps=%d r=%s m=%s acc=%s path=%d\n" (List.length tr) (p rs) (p ms) (Buffer.contents acc) h
  | Done (st', tr) ->
    let rs = List.mapi (fun i v -> (i, int_of_z v)) st'.regs in
    let rs = List.filter (fun (i, v) -> v <> 0 && i <> 0) rs in
    let ms = List.mapi (fun i v -> (i, int_of_z v)) st'.mem in
    let ms = List.filter (fun (i, v) -> v <> int_of_z mem.(i)) ms in
    let p l = String.concat "," (List.map (fun (a, b) -> Printf.sprintf "%d:%d" a b) l) in
    Printf.printf "ok steps=%d r=%s m=%s\n" (List.length tr) (p rs) (p ms)
  | Failed (e, tr) -> Printf.printf "err %s steps=%d\n" (err_name e) (List.length tr)
  | OutOfFuel -> print_endline "outoffuel"

let () =
  let cmd = Sys.argv.(1) and file = Sys.argv.(2) in
  let start = if Array.length Sys.argv > 3 then int_of_string Sys.argv.(3) else 0 in
  let h = match cmd with
    | "isa" -> isa_case
    | "seq" -> seq_case
    | _ -> failwith ("unknown command " ^ cmd) in
  iter_lines file start h
