(* use: util_isa *)
(* driver of the specification oracle (extracted Isa/Spec.v, Isa/Seq.v, ...) *)
let isa_case _ line =
  let f = fields line in
  let si = sinstr_of_string f.(0) in
  let rr = regfun (parse_pairs f.(1)) in
  let pc = zi f.(2) in
  let mem = parse_list f.(3) in
  let labels = labfun (parse_pairs f.(4)) in
  let r = omap embed (exec si rr labels pc mem) in
  Printf.printf "%s RR=%s WR=%s MR=%s MW=%s\n" (fmt_outcome r)
    (fmt_list (reads si)) (fmt_list (writes si)) (fmt_list (load_addrs si rr)) (fmt_list (store_addrs si rr))

let () =
  let cmd = Sys.argv.(1) and file = Sys.argv.(2) in
  let start = if Array.length Sys.argv > 3 then int_of_string Sys.argv.(3) else 0 in
  let h = match cmd with
    | "isa" -> isa_case
    | _ -> failwith ("unknown command " ^ cmd) in
  iter_lines file start h
