(* use: util_isa *)
(* driver of the parser oracle (extracted Parser/Model.v + Isa/Spec.v): command
   parse; same case format and result format as tools/harness/parse.go.
   case line:  <text as hex> \t <candidate label names as hex, comma separated | ->
   result:     err | panic | ok n=<count> labels=<namehex:addr,...> ins=<instr;instr;...> *)
let bytes_of_hex (h : string) : z list =
  let h = String.trim h in
  let n = String.length h / 2 in
  List.init n (fun i -> z_of_int (int_of_string ("0x" ^ String.sub h (2 * i) 2)))
let hex_of_bytes (l : z list) : string =
  String.concat "" (List.map (fun c -> Printf.sprintf "%02x" (int_of_z c)) l)

let int_min = -2147483648
let int_max = 2147483647
(* register files of the probes: register 0 reads 0 *)
let probe_files : (int -> int) list =
  [ (fun i -> 1000 + 37 * i); (fun i -> - (2000 + 53 * i)); (fun _ -> 0); (fun _ -> -1); (fun _ -> 1);
    (fun _ -> int_min) ]
let rr_of (f : int -> int) : z -> z =
  fun r -> let i = int_of_z r in if i = 0 then Z0 else z_of_int (f i)
let probe_pc = z_of_int 64
let probe_mem = List.map z_of_int [17; 34; 51; -124]

let fmt_probe = function
  | Ok (e : execution) ->
    Printf.sprintf "%d,%d,%d,%d,%s,%d,%d,%d" (b2i e.registerChange) (int_of_z e.register) (int_of_z e.registerValue)
      (b2i e.memoryChange) (fmt_pairs e.memoryChanges) (int_of_z e.nextPc) (b2i e.pcChange) (b2i e.return)
  | Err c -> "e:" ^ err_name c
  | Panic -> "P"

let parse_case _ line =
  let f = fields line in
  let text = bytes_of_hex f.(0) in
  let cands = if Array.length f > 1 then List.map bytes_of_hex (split_on ',' f.(1)) else [] in
  let cands = Array.of_list cands in
  (* label name -> number: index in the candidate list, -1 when absent *)
  let lab (n : z list) : z =
    let r = ref (-1) in
    Array.iteri (fun k c -> if !r < 0 && bstr_eqb c n then r := k) cands;
    z_of_int !r in
  let labels (l : z) : z option =
    let k = int_of_z l in if k < 0 then None else Some (z_of_int (100000 + 4 * k)) in
  match parse text with
  | Err _ -> print_endline "err"
  | Panic -> print_endline "panic"
  | Ok (ins, labs) ->
    let labs = List.map (fun (n, a) -> (hex_of_bytes n, int_of_z a)) labs in
    let labs = List.sort compare labs in
    let one (pi : pinstr) : string =
      match to_sinstr lab pi with
      | None -> "unresolved"
      | Some si ->
        let PI (m, _) = pi in
        let rr0 = rr_of (List.hd probe_files) in
        let head = Printf.sprintf "T%d/R%s/W%s/MR%s/MW%s" (int_of_z (mnem_type m)) (fmt_list (reads si))
            (fmt_list (writes si)) (fmt_list (load_addrs si rr0)) (fmt_list (store_addrs si rr0)) in
        let probes = List.map (fun pf -> fmt_probe (omap embed (exec si (rr_of pf) labels probe_pc probe_mem))) probe_files in
        let bis =
          if int_of_z (mnem_type m) <> 36 then "" else
            match reads si, writes si with
            | [rs], [rd] when int_of_z rd <> 0 && int_of_z rs <> 0 ->
              let f v =
                let rr r = if int_of_z r = int_of_z rs then z_of_int v else Z0 in
                match omap embed (exec si rr labels probe_pc probe_mem) with
                | Ok e -> int_of_z e.registerValue = 1
                | _ -> false in
              let lo = ref int_min and hi = ref int_max in
              while !lo < !hi do
                let mid = !lo + (!hi - !lo) / 2 in
                if f mid then lo := mid + 1 else hi := mid
              done;
              Printf.sprintf "/B%d" !lo
            | _ -> "/B-" in
        head ^ "/" ^ String.concat "/" probes ^ bis in
    Printf.printf "ok n=%d labels=%s ins=%s\n" (List.length ins)
      (String.concat "," (List.map (fun (n, a) -> Printf.sprintf "%s:%d" n a) labs))
      (String.concat ";" (List.map one ins))

let () =
  let cmd = Sys.argv.(1) and file = Sys.argv.(2) in
  let start = if Array.length Sys.argv > 3 then int_of_string Sys.argv.(3) else 0 in
  let h = match cmd with
    | "parse" -> parse_case
    | _ -> failwith ("unknown command " ^ cmd) in
  iter_lines file start h
