(* use: util_isa *)
(* driver of the generated-model oracle (extracted Gen/*.v) *)
let isa_case _ line =
  let f = fields line in
  let si = sinstr_of_string f.(0) in
  let i = instr_of si in
  let rr = regfun (parse_pairs f.(1)) in
  let pc = zi f.(2) in
  let mem = parse_list f.(3) in
  let labels = labfun (parse_pairs f.(4)) in
  let r = instr_Run i rr labels pc mem Z0 in
  Printf.printf "%s T=%d RR=%s WR=%s MR=%s MW=%s\n" (fmt_outcome r)
    (int_of_z (instr_InstructionType i))
    (fmt_list (instr_ReadRegisters i)) (fmt_list (instr_WriteRegisters i))
    (fmt_list (instr_MemoryRead i rr Z0)) (fmt_list (instr_MemoryWrite i rr Z0))

let bytes_case _ line =
  let f = fields line in
  match f.(0) with
  | "s" ->
    (match bytesFromLowBits (zi f.(1)) with
     | Ok (((a, b), c), d) -> Printf.printf "%d,%d,%d,%d\n" (int_of_z a) (int_of_z b) (int_of_z c) (int_of_z d)
     | Err _ -> print_endline "err" | Panic -> print_endline "panic")
  | "j" ->
    (match i32FromBytes (zi f.(1)) (zi f.(2)) (zi f.(3)) (zi f.(4)) with
     | Ok w -> Printf.printf "%d\n" (int_of_z w)
     | Err _ -> print_endline "err" | Panic -> print_endline "panic")
  | _ -> print_endline "bad-case"

let () =
  let cmd = Sys.argv.(1) and file = Sys.argv.(2) in
  let start = if Array.length Sys.argv > 3 then int_of_string Sys.argv.(3) else 0 in
  let h = match cmd with
    | "isa" -> isa_case
    | "bytes" -> bytes_case
    | _ -> failwith ("unknown command " ^ cmd) in
  iter_lines file start h
