(* shared by the oracle drivers; included after `open <Extracted_module>` *)
let rec pos_of_int n =
  if n = 1 then XH else if n land 1 = 1 then XI (pos_of_int (n lsr 1)) else XO (pos_of_int (n lsr 1))
let z_of_int n = if n = 0 then Z0 else if n > 0 then Zpos (pos_of_int n) else Zneg (pos_of_int (-n))
let rec int_of_pos = function XH -> 1 | XO p -> 2 * int_of_pos p | XI p -> 2 * int_of_pos p + 1
let int_of_z = function Z0 -> 0 | Zpos p -> int_of_pos p | Zneg p -> - (int_of_pos p)
let rec nat_of_int n = let rec go acc k = if k = 0 then acc else go (S acc) (k - 1) in go O n
let zi s = z_of_int (int_of_string (String.trim s))
let split_on c s = if String.trim s = "" || String.trim s = "-" then [] else String.split_on_char c s
let parse_list s = List.map zi (split_on ',' s)
let parse_pairs s =
  List.map (fun kv -> match String.split_on_char ':' kv with
    | [a; b] -> (zi a, zi b) | _ -> failwith ("bad pair " ^ kv)) (split_on ',' s)
let fmt_list l = "[" ^ String.concat "," (List.map (fun z -> string_of_int (int_of_z z)) l) ^ "]"
let fmt_pairs l =
  let l = List.map (fun (a, b) -> (int_of_z a, int_of_z b)) l in
  let l = List.stable_sort (fun (a, _) (b, _) -> compare a b) l in
  (* a Go map literal with a repeated key keeps the last value *)
  let rec dedup = function
    | (a, _) :: ((b, _) :: _ as t) when a = b -> dedup t
    | x :: t -> x :: dedup t
    | [] -> [] in
  "[" ^ String.concat "," (List.map (fun (a, b) -> Printf.sprintf "%d:%d" a b) (dedup l)) ^ "]"
let fields line = Array.of_list (String.split_on_char '\t' line)
let iter_lines file start f =
  let ic = open_in file in
  let n = ref 0 in
  (try while true do
      let line = input_line ic in
      if !n >= start then f !n line;
      incr n
    done with End_of_file -> ());
  close_in ic
