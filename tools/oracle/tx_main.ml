(* driver of the C15 oracle: extracted Comp/Rat.v and Comp/Tx.v.
   Commands (same case format and result format as tools/harness/tx.go):
     rat   : <length> \t <ops>    generic comp.RAT, V = (tag, value)
               w:k:tag:val | r:k | f:k:t (Find tag<=t) | v (Values) | fv:s (FindValues tag<s)
     tx    : <ops>                risc.Context, map discipline (rat = false)
     txrat : <ops>                risc.Context, RAT discipline (rat = true)
               W:r:v | t:r:v:s | r:r:s[:fr:fv] | c | b:s | i | l
   Map iteration order: the model is run with the empty hint (keys in table order);
   Comp/TxProofs.v proves the observations do not depend on it. *)
let ops_of s = List.filter (fun x -> x <> "") (String.split_on_char ' ' (String.trim s))
let parts s = Array.of_list (String.split_on_char ':' s)
let fmt_tu (t, v) = Printf.sprintf "%d/%d" (int_of_z t) (int_of_z v)
let fmt_opt = function None -> "none" | Some u -> fmt_tu u
let fmt_tumap l =
  let l = List.map (fun (k, u) -> (int_of_z k, u)) l in
  let l = List.stable_sort (fun (a, _) (b, _) -> compare a b) l in
  "{" ^ String.concat "," (List.map (fun (k, u) -> Printf.sprintf "%d=%s" k (fmt_tu u)) l) ^ "}"
let fmt_regs c =
  fmt_pairs (List.filter (fun (_, v) -> int_of_z v <> 0) (regs c))

let rat_case _ line =
  let f = fields line in
  let len = zi f.(0) in
  let r = ref (rat_new len) in
  let outs = ref [] in
  let push s = outs := s :: !outs in
  (try
    List.iter (fun o ->
      let p = parts o in
      match p.(0) with
      | "w" -> (match rat_write_o tu_zero !r (zi p.(1)) (zi p.(2), zi p.(3)) with
                | Ok r' -> r := r'; push "-"
                | _ -> push "panic"; raise Exit)
      | "r" -> push (fmt_opt (rat_read tu_zero !r (zi p.(1))))
      | "f" -> push (fmt_opt (rat_find tu_zero !r (zi p.(1)) (tag_le (zi p.(2)))))
      | "v" -> push (fmt_tumap (rat_values tu_zero !r))
      | "fv" -> push (fmt_tumap (rat_findvalues tu_zero !r (tag_lt (zi p.(1)))))
      | _ -> failwith ("bad rat op " ^ o)) (ops_of f.(1))
  with Exit -> ());
  print_endline (String.concat ";" (List.rev !outs))

let fwd p = if Array.length p >= 5 then (zi p.(3), zi p.(4)) else (Z0, Z0)

let tx_case rat _ line =
  let f = fields line in
  let c = ref (new_context rat) in
  let outs = ref [] in
  let push s = outs := s :: !outs in
  let step_m o = (match mout o !c with Some v -> push (string_of_int (int_of_z v)) | None -> ());
                 c := mexec o !c in
  let step_r o = (match rout o !c with Some v -> push (string_of_int (int_of_z v)) | None -> ());
                 c := rexec o !c in
  List.iter (fun o ->
    let p = parts o in
    (if rat then
      match p.(0) with
      | "W" -> step_r (RWriteReg (zi p.(1), zi p.(2))); push (fmt_regs !c)
      | "t" -> step_r (RWrite (zi p.(1), zi p.(2), zi p.(3))); push "-"
      | "r" -> step_r (RRead (zi p.(1), zi p.(2), fwd p))
      | "c" -> step_r (RCommit []); push (fmt_regs !c)
      | "b" -> step_r (RRollback ([], zi p.(1))); push (fmt_regs !c)
      | "i" -> step_r (RInit []); push (fmt_regs !c)
      | "l" -> step_r (RFlush []); push (fmt_regs !c)
      | _ -> failwith ("bad txrat op " ^ o)
    else
      match p.(0) with
      | "W" -> step_m (MWriteReg (zi p.(1), zi p.(2))); push (fmt_regs !c)
      | "t" -> step_m (MTxWrite (zi p.(1), zi p.(2), zi p.(3))); push "-"
      | "r" -> step_m (MRead (zi p.(1), zi p.(2), fwd p))
      | "c" -> step_m (MCommit []); push (fmt_regs !c)
      | "b" -> step_m (MRollback ([], zi p.(1))); push (fmt_regs !c)
      | _ -> failwith ("bad tx op " ^ o))) (ops_of f.(0));
  push ("end=" ^ fmt_regs !c);
  print_endline (String.concat ";" (List.rev !outs))

let () =
  let cmd = Sys.argv.(1) and file = Sys.argv.(2) in
  let start = if Array.length Sys.argv > 3 then int_of_string Sys.argv.(3) else 0 in
  let h = match cmd with
    | "rat" -> rat_case
    | "tx" -> tx_case false
    | "txrat" -> tx_case true
    | _ -> failwith ("unknown command " ^ cmd) in
  iter_lines file start h
