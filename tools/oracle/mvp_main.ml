(* use: util_isa *)
(* driver of the MVP-1/2/3 model oracle.
   mvp case: variant \t memsize \t regs \t meminit \t labels \t fuel \t prog *)
let os_flag = ref ""
let mvp_case _ line =
  os_flag := "";
  let f = fields line in
  let variant = String.trim f.(0) in
  let memsize = int_of_string (String.trim f.(1)) in
  let regs = Array.make 32 Z0 in
  List.iter (fun (r, v) -> regs.(int_of_z r) <- v) (parse_pairs f.(2));
  let mem = Array.make memsize Z0 in
  List.iter (fun (a, v) -> mem.(int_of_z a) <- v) (parse_pairs f.(3));
  let labels = parse_pairs f.(4) in
  let fuel = int_of_string (String.trim f.(5)) in
  let prog = List.map (fun s -> instr_of (sinstr_of_string s))
      (List.filter (fun x -> String.trim x <> "") (String.split_on_char ';' f.(6))) in
  let st = { regs = Array.to_list regs; mem = Array.to_list mem } in
  let res = match variant with
    | "1" -> mvp12_run V1 (nat_of_int fuel) prog (lookup labels) st
    | "2" -> mvp12_run V2 (nat_of_int fuel) prog (lookup labels) st
    | "3" -> mvp3_run (nat_of_int fuel) prog (lookup labels) st
    | "4" -> mvp4_run (nat_of_int fuel) prog (lookup labels) st
    | "5" -> mvp5_run (nat_of_int fuel) prog (lookup labels) st
    | v when String.length v >= 5 && List.mem (String.sub v 0 4) ["6.0x"; "6.1x"; "6.2x"; "6.3x"; "7.0x"; "7.1x"; "8.0x"] ->
      (* "6.Nx<par>", "6.Nx<par>o<k>", "6.Nx<par>r<seed>" or "6.Nx<par>g<seed>": MVP-6.N (N = 0..3) with <par>
         execute/write units; "7.0x<par>...", "7.1x<par>...": MVP-7.0 / 7.1 with <par> cores (the maps whose order is an
         argument are those of the 6.3 front end); "8.0x<par>..." the same for MVP-8.0 (Mvp80.v; ord also orders the snoop requests of a core).  Go map iteration orders are arguments of the models:
           ord   - a store's MemoryChanges map (all four models); in Mvp63 the same function also orders
                   controlUnit.pushedRunnersInPreviousCycle (pc = the reading runner) and the RAT value maps (pc < 0);
           pord  - Mvp61: which of the n matching runners of pushedRunnersInPreviousCycle is taken.
         o<k> = the k-th permutation of the ascending keys (perm_of) everywhere (default 0);
         r<seed> = a pseudo-random permutation per (cycle, pc);
         g<seed> = what the Go runtime does with a map of at most 8 entries that has seen no deletion: a rotation of
                   the insertion order by a random offset 0..7 (the order itself when the offset is not below the size).
         A trailing 's' prints the state reached when the fuel is exhausted (as harness command runb), 'S' (6.3)
         also the speculative register file as rat=..  The ghost flag is printed as a last field os=0|1. *)
      let vv = String.sub v 0 4 in
      let rest = String.sub v 4 (String.length v - 4) in
      let last = rest.[String.length rest - 1] in
      let snap = last = 's' || last = 'S' in
      let showrat = last = 'S' in
      let rest = if snap then String.sub rest 0 (String.length rest - 1) else rest in
      let split c = match String.index_opt rest c with
        | None -> None
        | Some i -> Some (int_of_string (String.sub rest 0 i), int_of_string (String.sub rest (i + 1) (String.length rest - i - 1))) in
      (* b<k> / d<k> (8.0, for classifying order-sensitive runs): the k-th permutation only for the maps of the control
         unit's forwarding decision (pc >= 0) / only for the snoop requests of a core (pc <= -3), ascending elsewhere *)
      let only = match split 'b', split 'd' with
        | Some (par, k), _ -> Some (par, (fun cycle pc l -> if int_of_z pc >= 0 then perm_of (z_of_int k) l else l))
        | None, Some (par, k) -> Some (par, (fun cycle pc l -> if int_of_z pc <= -3 then perm_of (z_of_int k) l else l))
        | None, None -> None in
      let par, ord, pord = match only with Some (par, f) -> par, f, pord_policy Z0 | None ->
      match split 'o', split 'r', split 'g' with
        | Some (par, k), _, _ -> par, ord_policy (z_of_int k), pord_policy (z_of_int k)
        | None, Some (par, seed), _ ->
          par, (fun cycle pc l ->
              let h = Hashtbl.hash (seed, int_of_z cycle, int_of_z pc) in
              perm_of (z_of_int (h mod 24)) l),
          (fun cycle n -> z_of_int (Hashtbl.hash (seed, int_of_z cycle, 77) mod 24))
        | None, None, Some (par, seed) ->
          par, (fun cycle pc l ->
              let n = List.length l in
              let r = (Hashtbl.hash (seed, int_of_z cycle, int_of_z pc)) mod 8 in
              if r < n && r > 0 then
                let rec split_at k l = if k = 0 then ([], l) else
                    match l with [] -> ([], []) | x :: t -> let (a, b) = split_at (k - 1) t in (x :: a, b) in
                let (a, b) = split_at r l in b @ a
              else l),
          (fun cycle n -> z_of_int (Hashtbl.hash (seed, int_of_z cycle, 78) mod 8))
        | None, None, None -> int_of_string rest, ord_policy Z0, pord_policy Z0 in
      let norat r = match r with
        | Inl x -> Inl x
        | Inr ((((c, st'), pw), pr), os) -> Inr (((((c, st'), pw), pr), os), []) in
      let result = match vv with
        | "6.0x" -> norat (mvp60_run_snap (nat_of_int par) ord (nat_of_int fuel) prog (lookup labels) st)
        | "6.1x" -> norat (mvp61_run_snap (nat_of_int par) ord pord (nat_of_int fuel) prog (lookup labels) st)
        | "6.2x" -> norat (mvp62_run_snap (nat_of_int par) ord (nat_of_int fuel) prog (lookup labels) st)
        | "7.0x" -> mvp70_run_snap (nat_of_int par) ord (nat_of_int fuel) prog (lookup labels) st
        | "7.1x" -> mvp71_run_snap (nat_of_int par) ord (nat_of_int fuel) prog (lookup labels) st
        | "8.0x" -> mvp80_run_snap (nat_of_int par) ord (nat_of_int fuel) prog (lookup labels) st
        | _ -> mvp63_run_snap (nat_of_int par) ord (nat_of_int fuel) prog (lookup labels) st in
      (match result with
       | Inl (r, os) -> os_flag := (if os then " os=1" else " os=0"); r
       | Inr (((((c, st'), pw), pr), os), rat) ->
         ignore c;
         os_flag := (if os then " os=1" else " os=0");
         if snap then begin
           (* what the harness commands `runb` / `runc` print when the budget is exhausted *)
           let nz l = List.filter (fun (i, v) -> v <> 0 && i <> 0) (List.mapi (fun i v -> (i, int_of_z v)) l) in
           let ms = List.filter (fun (i, v) -> v <> int_of_z mem.(i)) (List.mapi (fun i v -> (i, int_of_z v)) st'.mem) in
           let p l = String.concat "," (List.map (fun (a, b) -> Printf.sprintf "%d:%d" a b) l) in
           os_flag := Printf.sprintf " r=%s m=%s pw=%s pr=%s%s%s" (p (nz st'.regs)) (p ms) (p (nz pw)) (p (nz pr))
               (if showrat then Printf.sprintf " rat=%s" (p (nz rat)) else "") !os_flag
         end;
         MOutOfFuel)
    | _ -> failwith ("unknown variant " ^ variant) in
  match res with
  | MDone (c, st') ->
    let rs = List.mapi (fun i v -> (i, int_of_z v)) st'.regs in
    let rs = List.filter (fun (i, v) -> v <> 0 && i <> 0) rs in
    let ms = List.mapi (fun i v -> (i, int_of_z v)) st'.mem in
    let ms = List.filter (fun (i, v) -> v <> int_of_z mem.(i)) ms in
    let p l = String.concat "," (List.map (fun (a, b) -> Printf.sprintf "%d:%d" a b) l) in
    Printf.printf "ok c=%d r=%s m=%s%s\n" (int_of_z c) (p rs) (p ms) !os_flag
  | MErr e -> Printf.printf "err %s%s\n" (err_name e) !os_flag
  | MPanic -> print_endline ("panic" ^ !os_flag)
  | MOutOfFuel -> print_endline ("outoffuel" ^ !os_flag)

let () =
  let cmd = Sys.argv.(1) and file = Sys.argv.(2) in
  let start = if Array.length Sys.argv > 3 then int_of_string Sys.argv.(3) else 0 in
  let h = match cmd with
    | "mvp" -> mvp_case
    | _ -> failwith ("unknown command " ^ cmd) in
  iter_lines file start h
