(* use: util_isa *)
(* driver of the MVP-1/2/3 model oracle.
   mvp case: variant \t memsize \t regs \t meminit \t labels \t fuel \t prog *)
let os_flag = ref ""
let mvp_case _ line =
  os_flag := "";
  let f = fields line in
  let variant = String.trim f.(0) in
  let memsize = int_of_string (String.trim f.(1)) in
  let regs = Array.make 32 Z0 in
  List.iter (fun (r, v) -> regs.(int_of_z r) <- v) (parse_pairs f.(2));
  let mem = Array.make memsize Z0 in
  List.iter (fun (a, v) -> mem.(int_of_z a) <- v) (parse_pairs f.(3));
  let labels = parse_pairs f.(4) in
  let fuel = int_of_string (String.trim f.(5)) in
  let prog = List.map (fun s -> instr_of (sinstr_of_string s))
      (List.filter (fun x -> String.trim x <> "") (String.split_on_char ';' f.(6))) in
  let st = { regs = Array.to_list regs; mem = Array.to_list mem } in
  let res = match variant with
    | "1" -> mvp12_run V1 (nat_of_int fuel) prog (lookup labels) st
    | "2" -> mvp12_run V2 (nat_of_int fuel) prog (lookup labels) st
    | "3" -> mvp3_run (nat_of_int fuel) prog (lookup labels) st
    | "4" -> mvp4_run (nat_of_int fuel) prog (lookup labels) st
    | "5" -> mvp5_run (nat_of_int fuel) prog (lookup labels) st
    | v when String.length v >= 5 && (String.sub v 0 4 = "6.0x" || String.sub v 0 4 = "6.1x") ->
      (* "6.0x<par>", "6.0x<par>o<k>" or "6.0x<par>r<seed>": MVP-6.0 with <par> execute/write units; the same
         with "6.1x" for MVP-6.1.
         The iteration order of a store's MemoryChanges map is the k-th permutation of its ascending
         keys (perm_of): o<k> = the same k for every store (default 0 = ascending; k mod #keys is the
         index of the first key); r<seed> = a pseudo-random k per (cycle, pc) of the store.
         MVP-6.1 also ranges over the map pushedRunnersInPreviousCycle (shouldUseForwarding): among the n
         runners that match, o<k> takes number k mod n (in the order they were pushed), r<seed> a
         pseudo-random one per cycle.
         The ghost flag of the model is recorded in os_flag and printed as a last field os=0|1. *)
      let is61 = String.sub v 0 4 = "6.1x" in
      let rest = String.sub v 4 (String.length v - 4) in
      (* a trailing 's': print the state reached when the fuel is exhausted *)
      let snap = rest.[String.length rest - 1] = 's' in
      let rest = if snap then String.sub rest 0 (String.length rest - 1) else rest in
      let split c = match String.index_opt rest c with
        | None -> None
        | Some i -> Some (int_of_string (String.sub rest 0 i), int_of_string (String.sub rest (i + 1) (String.length rest - i - 1))) in
      let par, ord, pord = match split 'o', split 'r' with
        | Some (par, k), _ -> par, ord_policy (z_of_int k), pord_policy (z_of_int k)
        | None, Some (par, seed) ->
          par, (fun cycle pc l ->
              let h = Hashtbl.hash (seed, int_of_z cycle, int_of_z pc) in
              perm_of (z_of_int (h mod 24)) l),
          (fun cycle n -> z_of_int (Hashtbl.hash (seed, int_of_z cycle, 77) mod 24))
        | None, None -> int_of_string rest, ord_policy Z0, pord_policy Z0 in
      let run = if is61 then mvp61_run_snap (nat_of_int par) ord pord (nat_of_int fuel) prog (lookup labels) st
        else mvp60_run_snap (nat_of_int par) ord (nat_of_int fuel) prog (lookup labels) st in
      (match run with
       | Inl (r, os) -> os_flag := (if os then " os=1" else " os=0"); r
       | Inr ((((c, st'), pw), pr), os) ->
         os_flag := (if os then " os=1" else " os=0");
         if snap then begin
           (* what the harness command `runb` prints when the budget is exhausted *)
           let nz l = List.filter (fun (i, v) -> v <> 0 && i <> 0) (List.mapi (fun i v -> (i, int_of_z v)) l) in
           let ms = List.filter (fun (i, v) -> v <> int_of_z mem.(i)) (List.mapi (fun i v -> (i, int_of_z v)) st'.mem) in
           let p l = String.concat "," (List.map (fun (a, b) -> Printf.sprintf "%d:%d" a b) l) in
           os_flag := Printf.sprintf " r=%s m=%s pw=%s pr=%s%s" (p (nz st'.regs)) (p ms) (p (nz pw)) (p (nz pr)) !os_flag
         end;
         MOutOfFuel)
    | _ -> failwith ("unknown variant " ^ variant) in
  match res with
  | MDone (c, st') ->
    let rs = List.mapi (fun i v -> (i, int_of_z v)) st'.regs in
    let rs = List.filter (fun (i, v) -> v <> 0 && i <> 0) rs in
    let ms = List.mapi (fun i v -> (i, int_of_z v)) st'.mem in
    let ms = List.filter (fun (i, v) -> v <> int_of_z mem.(i)) ms in
    let p l = String.concat "," (List.map (fun (a, b) -> Printf.sprintf "%d:%d" a b) l) in
    Printf.printf "ok c=%d r=%s m=%s%s\n" (int_of_z c) (p rs) (p ms) !os_flag
  | MErr e -> Printf.printf "err %s%s\n" (err_name e) !os_flag
  | MPanic -> print_endline ("panic" ^ !os_flag)
  | MOutOfFuel -> print_endline ("outoffuel" ^ !os_flag)

let () =
  let cmd = Sys.argv.(1) and file = Sys.argv.(2) in
  let start = if Array.length Sys.argv > 3 then int_of_string Sys.argv.(3) else 0 in
  let h = match cmd with
    | "mvp" -> mvp_case
    | _ -> failwith ("unknown command " ^ cmd) in
  iter_lines file start h
