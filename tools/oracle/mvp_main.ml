(* use: util_isa *)
(* driver of the MVP-1/2/3 model oracle.
   mvp case: variant \t memsize \t regs \t meminit \t labels \t fuel \t prog *)
let mvp_case _ line =
  let f = fields line in
  let variant = String.trim f.(0) in
  let memsize = int_of_string (String.trim f.(1)) in
  let regs = Array.make 32 Z0 in
  List.iter (fun (r, v) -> regs.(int_of_z r) <- v) (parse_pairs f.(2));
  let mem = Array.make memsize Z0 in
  List.iter (fun (a, v) -> mem.(int_of_z a) <- v) (parse_pairs f.(3));
  let labels = parse_pairs f.(4) in
  let fuel = int_of_string (String.trim f.(5)) in
  let prog = List.map (fun s -> instr_of (sinstr_of_string s))
      (List.filter (fun x -> String.trim x <> "") (String.split_on_char ';' f.(6))) in
  let st = { regs = Array.to_list regs; mem = Array.to_list mem } in
  let res = match variant with
    | "1" -> mvp12_run V1 (nat_of_int fuel) prog (lookup labels) st
    | "2" -> mvp12_run V2 (nat_of_int fuel) prog (lookup labels) st
    | "3" -> mvp3_run (nat_of_int fuel) prog (lookup labels) st
    | "4" -> mvp4_run (nat_of_int fuel) prog (lookup labels) st
    | "5" -> mvp5_run (nat_of_int fuel) prog (lookup labels) st
    | _ -> failwith ("unknown variant " ^ variant) in
  match res with
  | MDone (c, st') ->
    let rs = List.mapi (fun i v -> (i, int_of_z v)) st'.regs in
    let rs = List.filter (fun (i, v) -> v <> 0 && i <> 0) rs in
    let ms = List.mapi (fun i v -> (i, int_of_z v)) st'.mem in
    let ms = List.filter (fun (i, v) -> v <> int_of_z mem.(i)) ms in
    let p l = String.concat "," (List.map (fun (a, b) -> Printf.sprintf "%d:%d" a b) l) in
    Printf.printf "ok c=%d r=%s m=%s\n" (int_of_z c) (p rs) (p ms)
  | MErr e -> Printf.printf "err %s\n" (err_name e)
  | MPanic -> print_endline "panic"
  | MOutOfFuel -> print_endline "outoffuel"

let () =
  let cmd = Sys.argv.(1) and file = Sys.argv.(2) in
  let start = if Array.length Sys.argv > 3 then int_of_string Sys.argv.(3) else 0 in
  let h = match cmd with
    | "mvp" -> mvp_case
    | _ -> failwith ("unknown command " ^ cmd) in
  iter_lines file start h
