(* driver of the C06 oracle (extracted Msi/Invariant.v + Msi/L3Invariant.v): judges the snapshots
   printed by tools/harness/msi.go (commands msi-rig, msi-run).
     msi_oracle snap  <file|-> [start]   one output line per S line: "ok" or the violated clause names
     msi_oracle cases <file|-> [start]   one output line per case (C .. S* .. E):
         case <idx> <variant> <cores> snaps=<n> cycles=<c> nviol=<k> viol=<name@cycle,..|-> marks=<..|-> | <E line>
   Lines other than C/S/E are ignored. *)
let zs z = string_of_int (int_of_z z)
let words s = List.filter (fun x -> x <> "") (String.split_on_char ' ' s)
let hexv c = match c with
  | '0'..'9' -> Char.code c - 48 | 'a'..'f' -> Char.code c - 87 | 'A'..'F' -> Char.code c - 55
  | _ -> failwith "bad hex digit"
let byte_cache = Array.init 256 z_of_int
let parse_data s =
  if String.length s > 0 && s.[0] = 'z' then
    let n = int_of_string (String.sub s 1 (String.length s - 1)) in
    List.init n (fun _ -> byte_cache.(0))
  else
    List.init (String.length s / 2) (fun i -> byte_cache.(hexv s.[2*i] * 16 + hexv s.[2*i+1]))
let colon s = String.split_on_char ':' s
let int_list s = if s = "-" || s = "" then [] else List.map zi (String.split_on_char ',' s)
let parse_snap (f : string array) =
  let hd = Array.of_list (words f.(1)) in
  let cores = int_of_string hd.(0) in
  let get i = if i < Array.length f then f.(i) else "" in
  let states = List.map (fun w -> match colon w with
    | [c; l; s] -> ((nat_of_int (int_of_string c), zi l), zi s) | _ -> failwith ("bad state " ^ w)) (words (get 2)) in
  let l1 = List.map (fun w -> match colon w with
    | [c; l; d] -> ((nat_of_int (int_of_string c), zi l), parse_data d) | _ -> failwith ("bad l1 " ^ w)) (words (get 3)) in
  let sems = List.map (fun w -> match colon w with
    | [l; r; wr] -> ((zi l, zi r), zi wr) | _ -> failwith ("bad sem " ^ w)) (words (get 4)) in
  let cmds = List.map (fun w -> match colon w with
    | [c; l; k; d] -> (((nat_of_int (int_of_string c), zi l), zi k), d = "1") | _ -> failwith ("bad cmd " ^ w)) (words (get 5)) in
  let tx = List.map (fun w -> match colon w with
    | [c; ra; wa; _; rl; wl] -> ((((nat_of_int (int_of_string c), ra = "1"), wa = "1"), int_list rl), int_list wl)
    | _ -> failwith ("bad tx " ^ w)) (words (get 6)) in
  let lines i = List.map (fun w -> match colon w with
    | [l; d] -> (zi l, parse_data d) | _ -> failwith ("bad line " ^ w)) (words (get i)) in
  let l3size = int_of_string hd.(2) in
  (* capacity of L3 in lines: not in the snapshot of the exporter; a fourth header field if the harness
     prints one, else the environment (lib/vf/c06.py reads it off proc/mvp8-0/cpu.go), else 4 KB / line size *)
  let l3cap =
    if l3size = 0 then 0
    else if Array.length hd > 3 then int_of_string hd.(3)
    else match Sys.getenv_opt "MSI_L3CAP" with
      | Some v when v <> "" -> int_of_string v
      | _ -> 4096 / l3size in
  { sn_cores = nat_of_int cores; sn_l1size = zi hd.(1); sn_l3size = zi hd.(2);
    sn_states = states; sn_l1 = l1; sn_sems = sems; sn_cmds = cmds; sn_tx = tx;
    sn_l3 = lines 7; sn_l3dirty = List.map zi (words (let x = get 8 in if x = "-" then "" else x)); sn_mem = lines 10;
    sn_l3cap = z_of_int l3cap;
    sn_ref = (let x = get 11 in if x = "-" || x = "" then [] else lines 11) }
let name_of = function
  | C1_single_writer -> "C1_single_writer" | C2_shared_clean -> "C2_shared_clean"
  | C3_l1_iff_valid -> "C3_l1_iff_valid" | C4_l1_wellformed -> "C4_l1_wellformed"
  | C5_lock_counters -> "C5_lock_counters" | S_command_matches_state -> "S_command_matches_state"
  | S_counters_match_transactions -> "S_counters_match_transactions" | S_wellformed -> "S_wellformed"
let name3_of = function
  | L3_wellformed -> "L3_wellformed" | L3_within_capacity -> "L3_within_capacity"
  | L3_clean_matches_memory -> "L3_clean_matches_memory"
  | D_current_value_is_last_write -> "D_current_value_is_last_write"
(* clauses 1-5 + supporting conjuncts (Msi/Invariant.v), then the L3 / data-value clauses (Msi/L3Invariant.v) *)
let all_violated s = List.map name_of (violated s) @ List.map name3_of (violated3 s)
let rec int_of_nat = function O -> 0 | S n -> 1 + int_of_nat n
let mark_str = function
  | FM_filled (i, k) -> Printf.sprintf "filled:%d:%s" (int_of_nat i) (zs k)
  | FM_stale_lock (i, k) -> Printf.sprintf "stale_lock:%d:%s" (int_of_nat i) (zs k)
  | FM_own_read (i, k) -> Printf.sprintf "own_read:%d:%s" (int_of_nat i) (zs k)
  | FM_l3_double_victim k -> Printf.sprintf "l3_double_victim:-:%s" (zs k)
  | FM_l3_stale k -> Printf.sprintf "l3_stale:-:%s" (zs k)
  | FM_l3_evict_dirty k -> Printf.sprintf "l3_evict_dirty:-:%s" (zs k)
  | FM_orphan_cmd (i, k) -> Printf.sprintf "orphan_cmd:%d:%s" (int_of_nat i) (zs k)
let with_input file f =
  if file = "-" then f stdin else begin let ic = open_in file in f ic; close_in ic end
let each_line ic f = try while true do f (input_line ic) done with End_of_file -> ()
let snap_mode file =
  with_input file (fun ic -> each_line ic (fun line ->
    if String.length line > 1 && line.[0] = 'S' && line.[1] = ' ' then begin
      let s = parse_snap (fields line) in
      match all_violated s with
      | [] -> print_endline "ok"
      | l -> print_endline (String.concat " " l)
    end))
let cases_mode file =
  let hdr = ref "" and snaps = ref 0 and cycles = ref 0 and nviol = ref 0 in
  let viol = ref [] and marks = ref [] and prev = ref None in
  with_input file (fun ic -> each_line ic (fun line ->
    if String.length line > 1 && line.[1] = ' ' then
      match line.[0] with
      | 'C' -> hdr := String.sub line 2 (String.length line - 2);
               snaps := 0; cycles := 0; nviol := 0; viol := []; marks := []; prev := None
      | 'S' ->
          let f = fields line in
          let h = Array.of_list (words f.(0)) in
          let cyc = h.(1) and mult = int_of_string h.(2) in
          let s = parse_snap f in
          incr snaps; cycles := !cycles + mult;
          (match all_violated s with
           | [] -> ()
           | l -> nviol := !nviol + mult;
                  List.iter (fun n ->
                    if not (List.exists (fun (m, _) -> m = n) !viol) then viol := (n, cyc) :: !viol) l);
          (match !prev with
           | Some p -> List.iter (fun m -> let t = mark_str m in
               if not (List.exists (fun (u, _) -> u = t) !marks) && List.length !marks < 12 then marks := (t, cyc) :: !marks)
               (flush_marks p s)
           | None -> ());
          prev := Some s
      | 'E' ->
          let lst l = if l = [] then "-" else String.concat "," (List.rev_map (fun (n, c) -> n ^ "@" ^ c) l) in
          Printf.printf "case %s snaps=%d cycles=%d nviol=%d viol=%s marks=%s | %s\n" !hdr !snaps !cycles !nviol
            (lst !viol) (lst !marks) (String.sub line 2 (String.length line - 2))
      | _ -> ()))
let () =
  match Array.to_list Sys.argv with
  | _ :: "snap" :: file :: _ -> snap_mode file
  | _ :: "cases" :: file :: _ -> cases_mode file
  | _ -> prerr_endline "usage: msi_oracle snap|cases <file|->"; exit 2
