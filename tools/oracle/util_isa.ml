(* helpers that need the Isa types (sinstr, execution, outcome); included by the spec and gen drivers *)
let b2i b = if b then 1 else 0
let err_name = function EDivZero -> "divzero" | ELabel -> "label" | EBounds -> "bounds" | EOther -> "other"
let fmt_exec (e : execution) =
  Printf.sprintf "rc=%d reg=%d val=%d mc=%d mcs=%s npc=%d pcc=%d ret=%d"
    (b2i e.registerChange) (int_of_z e.register) (int_of_z e.registerValue) (b2i e.memoryChange)
    (fmt_pairs e.memoryChanges) (int_of_z e.nextPc) (b2i e.pcChange) (b2i e.return)
let fmt_outcome = function
  | Ok e -> "R=ok " ^ fmt_exec e
  | Err c -> "R=err:" ^ err_name c
  | Panic -> "R=panic"
let regfun (regs : (z * z) list) : z -> z =
  let a = Array.make 64 Z0 in
  List.iter (fun (r, v) -> a.(int_of_z r) <- v) regs;
  fun r -> let i = int_of_z r in if i >= 0 && i < 64 then a.(i) else Z0
let labfun (labs : (z * z) list) : z -> z option =
  fun l -> List.assoc_opt l labs
let sinstr_of_tokens (toks : string list) : sinstr =
  match toks with
  | [] -> failwith "empty instruction"
  | name :: args ->
    let a = Array.of_list (List.map zi args) in
    let g i = a.(i) in
    (match name with
     | "SAdd" -> SAdd (g 0, g 1, g 2) | "SAddi" -> SAddi (g 0, g 1, g 2)
     | "SAnd" -> SAnd (g 0, g 1, g 2) | "SAndi" -> SAndi (g 0, g 1, g 2)
     | "SAuipc" -> SAuipc (g 0, g 1)
     | "SBeq" -> SBeq (g 0, g 1, g 2) | "SBeqz" -> SBeqz (g 0, g 1)
     | "SBge" -> SBge (g 0, g 1, g 2) | "SBgeu" -> SBgeu (g 0, g 1, g 2)
     | "SBle" -> SBle (g 0, g 1, g 2) | "SBlt" -> SBlt (g 0, g 1, g 2) | "SBltu" -> SBltu (g 0, g 1, g 2)
     | "SBne" -> SBne (g 0, g 1, g 2) | "SBnez" -> SBnez (g 0, g 1)
     | "SDiv" -> SDiv (g 0, g 1, g 2)
     | "SJ" -> SJ (g 0) | "SJal" -> SJal (g 0, g 1) | "SJalr" -> SJalr (g 0, g 1, g 2)
     | "SLui" -> SLui (g 0, g 1)
     | "SLb" -> SLb (g 0, g 1, g 2) | "SLh" -> SLh (g 0, g 1, g 2)
     | "SLi" -> SLi (g 0, g 1)
     | "SLw" -> SLw (g 0, g 1, g 2)
     | "SNop" -> SNop
     | "SMul" -> SMul (g 0, g 1, g 2)
     | "SMv" -> SMv (g 0, g 1)
     | "SOr" -> SOr (g 0, g 1, g 2) | "SOri" -> SOri (g 0, g 1, g 2)
     | "SRem" -> SRem (g 0, g 1, g 2)
     | "SRet" -> SRet
     | "SSb" -> SSb (g 0, g 1, g 2) | "SSh" -> SSh (g 0, g 1, g 2)
     | "SSll" -> SSll (g 0, g 1, g 2) | "SSlli" -> SSlli (g 0, g 1, g 2)
     | "SSlt" -> SSlt (g 0, g 1, g 2) | "SSltu" -> SSltu (g 0, g 1, g 2) | "SSlti" -> SSlti (g 0, g 1, g 2)
     | "SSra" -> SSra (g 0, g 1, g 2) | "SSrai" -> SSrai (g 0, g 1, g 2)
     | "SSrl" -> SSrl (g 0, g 1, g 2) | "SSrli" -> SSrli (g 0, g 1, g 2)
     | "SSub" -> SSub (g 0, g 1, g 2)
     | "SSw" -> SSw (g 0, g 1, g 2)
     | "SXor" -> SXor (g 0, g 1, g 2) | "SXori" -> SXori (g 0, g 1, g 2)
     | _ -> failwith ("unknown instruction " ^ name))
let sinstr_of_string s =
  sinstr_of_tokens (List.filter (fun t -> t <> "") (String.split_on_char ' ' (String.trim s)))
