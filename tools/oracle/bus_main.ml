(* driver of the bus oracle (extracted Comp/Bus.v, Comp/Queue.v): commands
   bus, simplebus, queue, broadcast; same case format and result format as
   tools/harness/bus.go.  One case line = one whole history. *)
let b01 b = if b then "1" else "0"
let zs z = string_of_int (int_of_z z)
let ops_of s = List.filter (fun x -> x <> "") (List.map String.trim (String.split_on_char ';' s))
let words s = Array.of_list (List.filter (fun x -> x <> "") (String.split_on_char ' ' s))
let fmt_zlist l = "[" ^ String.concat "," (List.map zs l) ^ "]"

(* bus: "ql bl" \t "op;op;..."   ops: A t c | R t c | D | G | P k | E k | C c | X *)
let bus_obs b =
  Printf.sprintf "%s,%s,%s,%s,%s" (b01 (b_isempty b)) (zs (b_pendingread b)) (zs (b_remainingtoadd b))
    (b01 (b_canadd b)) (b01 (b_canget b))
let bus_op s =
  let w = words s in
  match w.(0) with
  | "A" -> BAdd (zi w.(1), zi w.(2))
  | "R" -> BRevert (zi w.(1), zi w.(2))
  | "D" -> BDeleteLast
  | "G" -> BGet
  | "P" -> BPick (pred_of (zi w.(1)))
  | "E" -> BExists (pred_of (zi w.(1)))
  | "C" -> BConnect (zi w.(1))
  | "X" -> BClean
  | _ -> failwith ("bad bus op " ^ s)
let fmt_out = function
  | ONone -> "-"
  | OItem (t, e) -> zs t ^ "," ^ b01 e
  | OBool b -> b01 b
let bus_case _ line =
  let f = fields line in
  let caps = words f.(0) in
  let b = ref (b_new (zi caps.(0)) (zi caps.(1))) in
  let buf = Buffer.create 256 in
  Buffer.add_string buf (Printf.sprintf "L%s,%s|%s" (zs (b_inlength !b)) (zs (b_outlength !b)) (bus_obs !b));
  List.iter (fun s ->
    let (b', o) = b_step !b (bus_op s) in
    b := b';
    Buffer.add_string buf (";" ^ fmt_out o ^ "|" ^ bus_obs !b)) (ops_of (if Array.length f > 1 then f.(1) else ""));
  print_endline (Buffer.contents buf)

(* simplebus: "op;op;..."   ops: A t | G | F | X *)
let sbus_obs b = Printf.sprintf "%s,%s" (b01 (s_canadd b)) (b01 (s_isempty b))
let sbus_case _ line =
  let f = fields line in
  let b = ref s_new in
  let buf = Buffer.create 256 in
  Buffer.add_string buf ("L|" ^ sbus_obs !b);
  List.iter (fun s ->
    let w = words s in
    let op = match w.(0) with
      | "A" -> SAdd (zi w.(1)) | "G" -> SGet | "F" -> SFlush | "X" -> SClean
      | _ -> failwith ("bad simplebus op " ^ s) in
    let (b', o) = s_step !b op in
    b := b';
    Buffer.add_string buf (";" ^ fmt_out o ^ "|" ^ sbus_obs !b)) (ops_of f.(0));
  print_endline (Buffer.contents buf)

(* queue: "cap" \t "op;op;..."   ops: U v | L | F | I k limit *)
let queue_case _ line =
  let f = fields line in
  let q = ref (q_new (zi f.(0))) in
  let buf = Buffer.create 256 in
  let obs () = Printf.sprintf "%s,%s" (zs (q_length !q)) (b01 (q_isfull !q)) in
  Buffer.add_string buf ("L|" ^ obs ());
  List.iter (fun s ->
    let w = words s in
    let op = match w.(0) with
      | "U" -> QPush (zi w.(1)) | "L" -> QLength | "F" -> QIsFull
      | "I" -> QIter (pred_of (zi w.(1)), zi w.(2))
      | _ -> failwith ("bad queue op " ^ s) in
    let (q', o) = q_step !q op in
    q := q';
    let r = match o with
      | QNone -> "-" | QInt n -> zs n | QBool b -> b01 b | QList l -> fmt_zlist l in
    Buffer.add_string buf (";" ^ r ^ "|" ^ obs ())) (ops_of (if Array.length f > 1 then f.(1) else ""));
  print_endline (Buffer.contents buf)

(* broadcast: "count" \t "op;op;..."   ops: N t | R id | K id i
   K id i calls the Commit closure of the i-th event of an earlier Read(id); the
   driver can only do that when some Read(id) has returned more than i events
   (otherwise "nocommit"); the same rule is applied by the harness *)
let broadcast_case _ line =
  let f = fields line in
  match bc_new (zi f.(0)) with
  | Panic | Err _ -> print_endline "panic"
  | Ok b0 ->
    let b = ref b0 in
    let maxlen = Hashtbl.create 8 in
    let buf = Buffer.create 256 in
    Buffer.add_string buf "L";
    List.iter (fun s ->
      let w = words s in
      let r = match w.(0) with
        | "N" -> b := bc_notify !b (zi w.(1)); "-"
        | "R" -> (match bc_read !b (zi w.(1)) with
            | Ok (b', l) ->
              b := b';
              let id = int_of_string w.(1) in
              let old = try Hashtbl.find maxlen id with Not_found -> 0 in
              if List.length l > old then Hashtbl.replace maxlen id (List.length l);
              fmt_zlist l
            | _ -> "panic")
        | "K" ->
          let id = int_of_string w.(1) and i = int_of_string w.(2) in
          let m = try Hashtbl.find maxlen id with Not_found -> 0 in
          if i < 0 || i >= m then "nocommit"
          else (match bc_commit !b (zi w.(1)) (zi w.(2)) with
              | Ok b' -> b := b'; "-"
              | _ -> "panic")
        | _ -> failwith ("bad broadcast op " ^ s) in
      Buffer.add_string buf (";" ^ r)) (ops_of (if Array.length f > 1 then f.(1) else ""));
    print_endline (Buffer.contents buf)

let () =
  let cmd = Sys.argv.(1) and file = Sys.argv.(2) in
  let start = if Array.length Sys.argv > 3 then int_of_string Sys.argv.(3) else 0 in
  let h = match cmd with
    | "bus" -> bus_case
    | "simplebus" -> sbus_case
    | "queue" -> queue_case
    | "broadcast" -> broadcast_case
    | _ -> failwith ("unknown command " ^ cmd) in
  iter_lines file start h
