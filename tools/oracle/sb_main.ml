(* driver of the scoreboard oracle.  case: op;op;...   ops:
   A r,r|w,w   add an instruction with these read / write registers (kept in flight)
   D k         delete the k-th in-flight instruction
   H r,r|w,w   IsDataHazard3 of an instruction
   W w,w       AddPendingWriteRegisters     X w,w  DeletePendingWriteRegisters     Q r,r  IsWriteDataHazard
   F           Flush *)
let show s =
  let regs = List.init 40 (fun i -> z_of_int i) in
  let f g = String.concat "," (List.filter_map (fun r ->
      let v = int_of_z (g r) in if v <> 0 then Some (Printf.sprintf "%d:%d" (int_of_z r) v) else None) regs) in
  Printf.sprintf "pw={%s} pr={%s}" (f (pw s)) (f (pr s))

let two s = match String.split_on_char '|' s with
  | [a; b] -> (parse_list a, parse_list b)
  | [a] -> (parse_list a, [])
  | _ -> failwith "bad register lists"

let sb_case _ line =
  let ops = List.filter (fun x -> String.trim x <> "") (String.split_on_char ';' line) in
  let s = ref sb0 and fl = ref [] in
  let outs = List.map (fun o ->
      let o = String.trim o in
      let arg = if String.length o > 2 then String.sub o 2 (String.length o - 2) else "" in
      let q = match o.[0] with
        | 'A' -> let (rs, ws) = two arg in s := add_pending !s rs ws; fl := !fl @ [(rs, ws)]; ""
        | 'D' -> let k = int_of_string (String.trim arg) in
          (match List.nth_opt !fl k with
           | Some (rs, ws) -> s := delete_pending !s rs ws; fl := List.filteri (fun i _ -> i <> k) !fl
           | None -> ()); ""
        | 'H' -> let (rs, ws) = two arg in
          " hz=" ^ String.concat "," (List.map (fun (t, r) -> Printf.sprintf "%d:%d" (int_of_z t) (int_of_z r)) (hazards3 !s rs ws))
        | 'W' -> s := add_pending_write !s (parse_list arg); ""
        | 'X' -> s := delete_pending_write !s (parse_list arg); ""
        | 'Q' -> if is_write_hazard !s (parse_list arg) then " q=1" else " q=0"
        | 'F' -> s := flush !s; fl := []; ""
        | _ -> failwith ("bad op " ^ o) in
      show !s ^ q) ops in
  print_endline (String.concat ";" outs)

let () =
  let cmd = Sys.argv.(1) and file = Sys.argv.(2) in
  let start = if Array.length Sys.argv > 3 then int_of_string Sys.argv.(3) else 0 in
  let h = match cmd with "sb" -> sb_case | _ -> failwith ("unknown command " ^ cmd) in
  iter_lines file start h
