(* driver of the C13 oracle (extracted Comp/Cache.v, Comp/Lru.v).
   Same case format and result format as tools/harness/cache.go. *)
let zs z = string_of_int (int_of_z z)
let fmt_bases c = String.concat "," (List.map zs (bases c))

let parse_op s =
  let t = Array.of_list (String.split_on_char ' ' (String.trim s)) in
  let arg i = if i < Array.length t then t.(i) else "-" in
  match t.(0) with
  | "P" -> OPush (zi t.(1), parse_list (arg 2))
  | "W" -> OPushW (zi t.(1), parse_list (arg 2))
  | "G" -> OGet (zi t.(1))
  | "L" -> OLine (zi t.(1))
  | "S" -> OSub (parse_list t.(1), zi t.(2))
  | "E" -> OEvict (zi t.(1))
  | "U" -> OWrite (zi t.(1), parse_list (arg 2))
  | _ -> failwith ("bad cache op " ^ s)

let fmt_out = function
  | RByte None -> "miss"
  | RByte (Some v) -> zs v
  | RData None -> "nil"
  | RData (Some d) -> fmt_list d
  | RVictim None -> "nil"
  | RVictim (Some l) -> Printf.sprintf "%s:%s:%s" (zs l.lo) (zs l.hi) (fmt_list l.data)
  | RSub None -> "miss"
  | RSub (Some (a, d)) -> Printf.sprintf "%s:%s" (zs a) (fmt_list d)
  | RUnit -> "ok"

let ops_of f =
  if Array.length f > 1 && String.trim f.(1) <> "" then String.split_on_char ';' f.(1) else []

let cache_case _ line =
  let f = fields line in
  let geo = List.filter (fun s -> s <> "") (String.split_on_char ' ' (String.trim f.(0))) in
  let ll, cl = match geo with [a; b] -> (zi a, zi b) | _ -> failwith "bad geometry" in
  match new_cache ll cl with
  | Ok c ->
    let buf = Buffer.create 256 in
    let rec go c first = function
      | [] -> ()
      | o :: t ->
        if not first then Buffer.add_char buf ';';
        (match step c (parse_op o) with
         | Ok (c', r) ->
           Buffer.add_string buf (fmt_out r); Buffer.add_char buf '|';
           Buffer.add_string buf (fmt_bases c');
           go c' false t
         | _ -> Buffer.add_string buf "panic") in
    go c true (ops_of f);
    print_endline (Buffer.contents buf)
  | _ -> print_endline "panic"

let parse_lop s =
  let t = Array.of_list (String.split_on_char ' ' (String.trim s)) in
  match t.(0) with
  | "P" -> LPut (zi t.(1), zi t.(2))
  | "G" -> LGet (zi t.(1))
  | "F" -> LFind (parse_list t.(1))
  | _ -> failwith ("bad lru op " ^ s)

let fmt_lout = function
  | LUnit -> "ok"
  | LVal None | LKey None -> "miss"
  | LVal (Some v) | LKey (Some v) -> zs v

let lru_case _ line =
  let f = fields line in
  match new_lru (zi f.(0)) with
  | Ok l ->
    let buf = Buffer.create 256 in
    let rec go l first = function
      | [] -> ()
      | o :: t ->
        if not first then Buffer.add_char buf ';';
        (match lstep l (parse_lop o) with
         | Ok (l', r) ->
           Buffer.add_string buf (fmt_lout r); Buffer.add_char buf '|';
           Buffer.add_string buf (String.concat "," (List.map zs l'.order));
           go l' false t
         | _ -> Buffer.add_string buf "panic") in
    go l true (ops_of f);
    print_endline (Buffer.contents buf)
  | _ -> print_endline "panic"

let () =
  let cmd = Sys.argv.(1) and file = Sys.argv.(2) in
  let start = if Array.length Sys.argv > 3 then int_of_string Sys.argv.(3) else 0 in
  let h = match cmd with
    | "cache" -> cache_case
    | "lru" -> lru_case
    | _ -> failwith ("unknown command " ^ cmd) in
  iter_lines file start h
