#!/bin/bash
# Extracts Coq definitions to OCaml and builds oracle executables.
#   build_oracles.sh <name>...   |   build_oracles.sh all
# Oracle <name>: coq/theories/Extract/<Name>Oracle.v must run
#   Extraction "<name>_oracle.ml" ...
# and tools/oracle/<name>_main.ml is its driver.  The driver source is
#   open <Name>_oracle ;; tools/oracle/util.ml ;; [util_isa.ml if <name>_main.ml asks for it] ;; <name>_main.ml
# (a first line "(* use: util_isa *)" in <name>_main.ml pulls in util_isa.ml).
set -e
V=${VERIF_ROOT:-/verif}
O=$V/build/oracle
mkdir -p $O
build() {
  local name=$1
  local cap="$(tr '[:lower:]' '[:upper:]' <<< ${name:0:1})${name:1}"
  local vfile=${cap}Oracle.v
  ( cd $O && rm -f ${name}_oracle.ml ${name}_oracle.mli &&
    coqc -R $V/coq/theories Maj $V/coq/theories/Extract/$vfile > $O/${name}_extract.log 2>&1 ) || { cat $O/${name}_extract.log; return 1; }
  { echo "open ${cap}_oracle"; cat $V/tools/oracle/util.ml
    if head -1 $V/tools/oracle/${name}_main.ml | grep -q 'use: util_isa'; then cat $V/tools/oracle/util_isa.ml; fi
    cat $V/tools/oracle/${name}_main.ml; } > $O/${name}_driver.ml
  ( cd $O && ocamlfind ocamlopt -O3 -w -a ${name}_oracle.mli ${name}_oracle.ml ${name}_driver.ml -o $V/build/${name}_oracle 2>/dev/null ||
    ocamlfind ocamlopt -w -a ${name}_oracle.mli ${name}_oracle.ml ${name}_driver.ml -o $V/build/${name}_oracle )
}
if [ "${1:-all}" = all ]; then
  set -- $(cd $V/tools/oracle && ls *_main.ml | sed 's/_main.ml//')
fi
for n in "$@"; do build $n; done
