#!/bin/bash
# Extracts the Coq definitions to OCaml and builds the two oracle executables.
# usage: build_oracles.sh spec|gen|all
set -e
V=/verif
O=$V/build/oracle
mkdir -p $O
build() {  # name  ExtractFile  extra-ml...
  local name=$1 vfile=$2
  ( cd $O && rm -f ${name}_oracle.ml ${name}_oracle.mli &&
    coqc -R $V/coq/theories Maj $V/coq/theories/Extract/$vfile > $O/${name}_extract.log 2>&1 ) || { cat $O/${name}_extract.log; return 1; }
  local cap="$(tr '[:lower:]' '[:upper:]' <<< ${name:0:1})${name:1}_oracle"
  { echo "open $cap"; cat $V/tools/oracle/util.ml; [ -f $V/tools/oracle/${name}_extra.ml ] && cat $V/tools/oracle/${name}_extra.ml || echo 'let extra_commands : (string * (int -> string -> unit)) list ref = ref []'; cat $V/tools/oracle/${name}_main.ml; } > $O/${name}_driver.ml
  ( cd $O && ocamlfind ocamlopt -O3 -w -a ${name}_oracle.mli ${name}_oracle.ml ${name}_driver.ml -o $V/build/${name}_oracle 2>/dev/null ||
    ocamlfind ocamlopt -w -a ${name}_oracle.mli ${name}_oracle.ml ${name}_driver.ml -o $V/build/${name}_oracle )
}
case "${1:-all}" in
  spec) build spec SpecOracle.v ;;
  gen) build gen GenOracle.v ;;
  all) build spec SpecOracle.v; build gen GenOracle.v ;;
esac
