#!/usr/bin/env python3
"""Assemble /verif/seeded/<id>/meta.json from the agent's description, my confirmation
log (bin/confirm2.sh) and the detection run (bin/eval_seeded.sh), and print the matrix."""
import json, os, re, sys
S = '/verif/seeded'
rows = []
for d in sorted(os.listdir(S)):
    p = os.path.join(S, d)
    if not os.path.isdir(p) or not os.path.exists(p + '/patch.diff'):
        continue
    am = {}
    try:
        am = json.load(open(p + '/agent_meta.json'))
    except Exception:
        pass
    conf = {}
    try:
        log = open(p + '/confirm.log').read()
        m = re.search(r'build=(\w+) demo_without=(\w+) demo_with=(\w+) suite=(\w+)', log)
        if m:
            conf = dict(zip(['build', 'demo_without_change', 'demo_with_change', 'pinned_suite_with_change'], m.groups()))
        m = re.search(r'baseline stable_pass: (\d+) passed now: (\d+) missing: (\d+)', log)
        if m:
            conf['suite_counts'] = {'stable_pass': int(m.group(1)), 'passed_with_change': int(m.group(2)), 'missing': int(m.group(3))}
    except Exception:
        pass
    det = {}
    try:
        det = json.load(open(p + '/detect.json'))
    except Exception:
        pass
    caught = sorted(c for c, r in det.items() if r.get('violations', 0) > 0 or r.get('exit') == 1)
    files = re.findall(r'^\+\+\+ b/(\S+)', open(p + '/patch.diff').read(), re.M)
    meta = {
        'id': d,
        'property': am.get('property') or d.split('-')[0],
        'files_changed': files,
        'summary': am.get('summary') or am.get('change') or am.get('description'),
        'why_it_breaks_the_property': am.get('why_it_breaks') or am.get('violation'),
        'needs_to_manifest': am.get('needs_to_manifest') or am.get('needs'),
        'confirmed_by_me': conf,
        'what_i_ran': [
            'bin/confirm2.sh: scratch worktree of /repo HEAD; demonstration without the change; git apply patch.diff; go build ./...; demonstration with the change; bin/baseline_off.sh (pinned suite, guard off) against BASELINE.json stable_pass',
            'bin/eval_seeded.sh %s <checks>: quick checks against a scratch worktree with the change applied (VERIF_REPO) from a private copy of /verif (VERIF_ROOT)' % d,
        ],
        'detection': det,
        'caught_by': caught,
        'missed_by_all_checks_run': bool(det) and not caught,
    }
    json.dump(meta, open(p + '/meta.json', 'w'), indent=1)
    rows.append((d, conf.get('pinned_suite_with_change', '?'), conf.get('demo_with_change', '?'), ','.join(caught) or ('MISSED' if det else 'not evaluated'),
                 ' '.join('%s:%s' % (c, r.get('violations')) for c, r in sorted(det.items()))))
if '--md' in sys.argv:
    print('| id | files | needs to manifest | suite with change | caught by (quick tier) |')
    print('|---|---|---|---|---|')
    for d in sorted(os.listdir(S)):
        mp = os.path.join(S, d, 'meta.json')
        if not os.path.exists(mp):
            continue
        m = json.load(open(mp))
        need = (m.get('needs_to_manifest') or '').replace('|', '/').replace('\n', ' ')
        if len(need) > 260:
            need = need[:257] + '...'
        ran = ', '.join(sorted(m['detection']))
        cb = ', '.join(m['caught_by']) or ('**missed** (ran ' + ran + ')' if m['detection'] else 'not evaluated')
        print('| %s | %s | %s | %s | %s |' % (d, ', '.join(m['files_changed']), need, m['confirmed_by_me'].get('pinned_suite_with_change', '?'), cb))
    sys.exit(0)
for r in rows:
    print('%-8s suite=%-5s demo_with=%-5s caught_by=%-22s ran=%s' % r)
