#!/bin/bash
# usage: eval_seeded.sh <id> <check ids...>
# Runs the quick checks against a seeded change WITHOUT touching /repo or /verif:
# scratch worktree of /repo with seeded/<id>/patch.diff applied (VERIF_REPO) and a
# private copy of /verif (VERIF_ROOT).  Writes /verif/seeded/<id>/detect.json.
export GOFLAGS=-mod=mod GOPROXY=off GOSUMDB=off GOTOOLCHAIN=local
ID=$1; shift
WT=/tmp/es_$ID; VR=/tmp/ev_$ID
rm -rf $WT $VR; git -C /repo worktree prune
git -C /repo worktree add -q --detach $WT HEAD || exit 2
git -C $WT apply /verif/seeded/$ID/patch.diff || { echo "patch does not apply"; git -C /repo worktree remove --force $WT; exit 2; }
rsync -a --exclude work --exclude replay --exclude .git --exclude seeded /verif/ $VR/
mkdir -p $VR/work $VR/replay
export VERIF_ROOT=$VR VERIF_REPO=$WT
out=/verif/seeded/$ID/detect.json
echo "{" > $out.tmp; first=1
for c in "$@"; do
  log=$(cd $VR && timeout 1500 bin/check.py $c 2>&1); rc=$?
  nv=$(echo "$log" | grep -c '^VIOLATION')
  kinds=$(echo "$log" | grep '^VIOLATION' | head -3 | sed 's/"/\\"/g' | tr '\n' ';')
  detail=$(echo "$log" | grep -A1 '^VIOLATION' | grep -v '^VIOLATION' | head -1 | cut -c1-300 | sed 's/\\/\\\\/g; s/"/\\"/g' | tr -d '\t')
  [ $first = 1 ] || echo "," >> $out.tmp; first=0
  printf '  "%s": {"exit": %s, "violations": %s, "lines": "%s", "detail": "%s"}' $c $rc $nv "$kinds" "$detail" >> $out.tmp
  echo "$ID $c rc=$rc violations=$nv $detail"
done
echo; echo "}" >> $out.tmp; mv $out.tmp $out
git -C /repo worktree remove --force $WT; rm -rf $VR
