#!/usr/bin/env python3
"""Measures, on the CURRENT /repo, which (profile, variant, parallelism) cells of the
system-level differential are clean (every generated program gives the sequential
result).  Writes domains.json (counts per cell) and, with --witness, a shrunk failing
program for every dirty cell (sys_witnesses.json).  Run by hand when /repo's pinned
tree changes (a fix: commit); never run by the checks."""
import argparse, collections, json, os, random, sys, time
sys.path.insert(0, os.path.join(os.path.dirname(os.path.abspath(__file__)), '..', 'lib'))
from vf import common as C, sysdiff as S
from vf.progs import gen_program

ap = argparse.ArgumentParser()
ap.add_argument('--n', type=int, default=300)
ap.add_argument('--seed', type=int, default=12345)
ap.add_argument('--profiles', default=','.join(S.PROFILES))
ap.add_argument('--out', default=C.V + '/domains.json')
ap.add_argument('--witness', action='store_true')
ap.add_argument('--merge', action='store_true')
ap.add_argument('--variants', default=','.join(S.VARIANTS))
ap.add_argument('--skip-dirty', action='store_true', help='with --merge: do not re-run cells that already have a failure')
a = ap.parse_args()
VARS = a.variants.split(',')
ctx = C.Ctx('C99', 'quick', a.seed)
ok, out = C.build_harness()
assert ok, out
rng = random.Random(a.seed)
res = {}
wit = {}
if a.merge and os.path.exists(a.out):
    res = json.load(open(a.out))['cells']
t0 = time.time()
for prof in a.profiles.split(','):
    progs = [gen_program(rng, prof) for _ in range(a.n)]
    spec, sl = S.run_spec(ctx, progs, 'cal-s')
    keep = [(p, s) for p, s in zip(progs, spec) if s[0] == 'ok' or s[0] in ('err:divzero', 'err:label')]
    feats = {id(p): S.features(p, s) for p, s in keep}
    jobs = []
    for p, s in keep:
        for v in VARS:
            for par in S.pars_of(v):
                if a.skip_dirty and res.get('%s|%s|%d' % (prof, v, par), {}).get('fail', 0) > 0:
                    continue
                jobs.append((p, v, par, S.budget_for(s[1])))
    impl, il, raw = S.run_impl(ctx, jobs, 'cal-i')
    k = 0
    dirty0 = {key for key, c in res.items() if c.get('fail', 0) > 0} if a.skip_dirty else set()
    for p, s in keep:
        for v in VARS:
            for par in S.pars_of(v):
                key = '%s|%s|%d' % (prof, v, par)
                if a.skip_dirty and key in dirty0:
                    continue
                cell = res.setdefault(key, {'n': 0, 'fail': 0, 'kinds': {}, 'n_without': {}, 'fail_without': {}})
                r = S.verdict(s, impl[k])
                cell['n'] += 1
                fs = feats[id(p)]
                for F in S.FEATURES:
                    if F not in fs:
                        cell['n_without'][F] = cell['n_without'].get(F, 0) + 1
                        if r:
                            cell['fail_without'][F] = cell['fail_without'].get(F, 0) + 1
                if r:
                    cell['fail'] += 1
                    cell['kinds'][r] = cell['kinds'].get(r, 0) + 1
                    if a.witness and key not in wit and len(p.instrs()) <= 40:
                        wit[key] = (p, v, par)
                k += 1
    print(prof, 'done %.0fs' % (time.time() - t0), flush=True)
    json.dump({'seed': a.seed, 'cells': res}, open(a.out, 'w'), indent=0, sort_keys=True)   # keep what is done so far
json.dump({'seed': a.seed, 'cells': res}, open(a.out, 'w'), indent=0, sort_keys=True)
if a.witness:
    outw = {}
    for key, (p, v, par) in sorted(wit.items()):
        q = S.shrink(ctx, p, v, par, max_evals=150)
        vv, ss, rr = S.eval_one(ctx, q, v, par)
        outw[key] = {'variant': v, 'par': par, 'asm': q.asm(), 'regs': q.regs, 'mem': q.mem, 'memsize': q.memsize,
                     'spec_prog': q.spec(), 'labels': q.label_addrs(), 'expected': list(ss), 'observed': rr, 'verdict': vv}
    json.dump(outw, open(C.V + '/sys_witnesses.json', 'w'), indent=1, sort_keys=True)
# summary
for prof in a.profiles.split(','):
    row = []
    for v in S.VARIANTS:
        cells = []
        for par in S.pars_of(v):
            c = res.get('%s|%s|%d' % (prof, v, par))
            if not c:
                cells.append('?')
            elif c['fail'] == 0:
                cells.append('.')
            else:
                ex = [F for F in S.FEATURES if c['fail_without'].get(F, 0) == 0 and c['n_without'].get(F, 0) >= 20]
                cells.append('%d%s' % (c['fail'], ('[-' + ex[0][:12] + ']') if ex else ''))
        row.append(v + ':' + '/'.join(cells))
    print('%-8s' % prof, ' '.join(row))
