#!/usr/bin/env python3
"""Exact tie between proc/mvp6-2 (Go, through build/harness `run`) and the extracted Gallina
model coq/theories/Mvp/Mvp62.v (build/mvp_oracle, variants "6.2x<par>[o<k>]").

  bin/tie_m62.py [--n N] [--seed S] [--profiles a,b,..] [--pars 1,2,3,4] [--shrink K] [--repeat R]

For every (profile, parallelism) the line `ok c=<cycles> r=<regs> m=<memory>` / `err <class>` /
`panic` printed by the Go harness must be EQUAL to the line printed by the oracle; a Go run that
exhausts its tick budget (`budget ticks=..`) must be `outoffuel` in the model (fuel = budget: one
unit of fuel per ctx.VerifTick()).

Go map iteration: the model takes the iteration order of every store's execution.MemoryChanges map as
an argument and raises a ghost flag (printed os=1) when, for some executed store, two orders leave the
MMU in different states.  os=0: the run is the same for every order, the Go side is deterministic and
the lines must be EQUAL (column `match`).  os=1: the model is run under more orders (policies o1..o3:
each possible first key; r<seed>: an independent pseudo-random permutation per store execution).  If
all sampled results are equal the Go line must be equal to them too (`match-os`); otherwise the run is
ORDER-SENSITIVE (the Go side is observably nondeterministic) and the tie only requires the Go result to
be one of the model's results (`ordsens`; `uncovered` = none of the sampled orders reproduces it).
"""
import argparse
import collections
import os
import random
import sys
import time

# the harness gives up on a case after VERIF_CASE_TIMEOUT seconds of WALL time (default 8): on a loaded machine
# a run that merely exhausts its tick budget can take longer; such a `hang` line says nothing about the Go code
os.environ.setdefault('VERIF_CASE_TIMEOUT', '600')
sys.path.insert(0, os.path.join(os.path.dirname(os.path.abspath(__file__)), '..', 'lib'))
from vf import common as C          # noqa: E402
from vf import sysdiff as S         # noqa: E402
from vf.progs import gen_program    # noqa: E402

PROFILES = ['alu', 'hazard', 'branch', 'loops', 'ssa', 'ssald', 'ssamem', 'ssabr', 'ssabr1', 'shadow', 'ldonly', 'ldslow', 'mem', 'stld',
            'tail', 'mixed', 'evict', 'touched', 'disj']
POLICIES = ['o1', 'o2', 'o3', 'r1', 'r2', 'r3', 'r4']      # besides the default (ascending keys)
MORE = ['r%d' % k for k in range(5, 45)]                    # escalation before a case is called uncovered
MORE2 = ['r%d' % k for k in range(45, 445)]                # second escalation (rare order combinations)
SHARDS = int(os.environ.get('TIE_SHARDS', '32'))
WORK = os.path.join(C.V, 'work', os.environ.get('TIE_WORK', 'tie_m62'))


class Ctx:
    work = WORK


def strip(line):
    """Go result line -> the form the oracle prints"""
    if line is None:
        return 'CRASH'
    t = [x for x in line.split(' ') if not x.startswith('t=')]
    if t[0] == 'panic':
        return 'panic'
    if t[0] == 'budget':
        return ' '.join(['outoffuel'] + t[2:])      # `runb` adds r= m= pw= pr= after ticks=
    return ' '.join(t)


def model_line(p, par, order, fuel):
    v = '6.2x%d' % par + str(order)
    return v + '\t' + p.spec_case(fuel, acc=False).rsplit('\t', 1)[0]


def has_multibyte_store(p):
    return any(i.m in ('sw', 'sh') for i in p.instrs())


def run_go(jobs, tag, cmd='run'):
    """jobs: (prog, par, budget)"""
    lines = [p.go_case('6.2', par, b) for (p, par, b) in jobs]
    out = C.run_lines(os.environ.get('VERIF_HARNESS', C.BUILD + '/harness'), cmd, lines, WORK, tag, timeout=3600, shards=SHARDS)
    return out, lines


def run_model(jobs, tag):
    """jobs: (prog, par, order, fuel)"""
    lines = [model_line(p, par, o, f) for (p, par, o, f) in jobs]
    out = C.run_lines(C.BUILD + '/mvp_oracle', 'mvp', lines, WORK, tag, timeout=3600, shards=SHARDS)
    return out, lines


def budgets(progs):
    spec, _ = S.run_spec(Ctx, progs, 'spec')
    # tick budget of the Go run = fuel of the model: more than any terminating run needs (every instruction a
    # serialized memory miss); the comparison is exact for ANY budget since one unit of fuel is one VerifTick
    return [400 * ((s[1] if s[0] == 'ok' else 60) + 25) for s in spec], spec


HANGFUEL = 8000       # fuel given to the model on runs where the Go side exhausted its budget
FULLHANG = 20         # ... except for every FULLHANG-th such run of a batch, which gets the full budget


def go_ticks(line):
    for t in (line or '').split(' '):
        if t.startswith('t='):
            return int(t[2:])
    return None


def split_os(line):
    """model line -> (result line, ghost flag)"""
    if line is None:
        return 'CRASH', True
    t = line.split(' ')
    os_ = t[-1] == 'os=1'
    if t[-1].startswith('os='):
        t = t[:-1]
    r = ' '.join(t)
    if r.startswith('ok ') and r.endswith('m='):
        r += ''
    return r, os_


def evaluate(progs, buds, par, tag):
    """-> list of (reference Go line, {policy: model result}, os flag) per program.
    1. Go `run` with the full budget.
    2. For the runs that exhausted it: Go `runb` with a smaller budget hf = min(budget, HANGFUEL) (every
       FULLHANG-th keeps the full budget); its line `budget r=.. m=.. pw=.. pr=..` (registers, memory and the two
       scoreboard maps after exactly hf ticks) becomes the reference and the model is run with fuel hf in
       snapshot mode (variant suffix s): a hang is compared STATE-exactly at tick hf.
    3. Model, ascending order, on everything.  Only when the ghost flag is set and the pair is not already an
       equal hang, the other policies are run (on a terminated reference with just enough fuel: ticks+1)."""
    go, _ = run_go([(p, par, b) for p, b in zip(progs, buds)], tag + 'g')
    ref = list(go)
    fuel = list(buds)
    hang = [k for k, g in enumerate(go) if strip(g) == 'outoffuel']
    for n, k in enumerate(hang):
        fuel[k] = buds[k] if n % FULLHANG == 0 else min(buds[k], HANGFUEL)
    if hang:
        gb, _ = run_go([(progs[k], par, fuel[k]) for k in hang], tag + 'h', cmd='runb')
        for k, g in zip(hang, gb):
            ref[k] = g
            if not strip(g).startswith('outoffuel'):
                fuel[k] = buds[k]          # the Go side terminated this time (it is nondeterministic on this program)
    res = [[strip(g), {}, False] for g in ref]
    ishang = [r[0].startswith('outoffuel') for r in res]

    def run_pol(keys, pols, fuel_of, t):
        jobs = [(progs[k], par, o + ('s' if ishang[k] else ''), fuel_of(k)) for k in keys for o in pols]
        mo, _ = run_model(jobs, tag + t)
        it = iter(mo)
        for k in keys:
            for o in pols:
                r, os_ = split_os(next(it))
                res[k][1][o] = r
                res[k][2] = res[k][2] or os_

    run_pol(list(range(len(progs))), ['o0'], lambda k: fuel[k], 'm')

    def fuel2(k):
        t = go_ticks(ref[k])
        return fuel[k] if (ishang[k] or t is None) else min(fuel[k], t + 1)

    todo = [k for k in range(len(progs)) if res[k][2] and not (ishang[k] and res[k][1]['o0'] == res[k][0])]
    if todo:
        run_pol(todo, POLICIES, fuel2, 'n')
        todo = [k for k in todo if res[k][0] not in set(res[k][1].values())]
        if todo:
            run_pol(todo, MORE, fuel2, 'x')
            # a program with many stores has many combinations of orders, some of them rare (one observed Go
            # snapshot needed an order combination of probability 5%): sample much further before `uncovered`
            todo = [k for k in todo if res[k][0] not in set(res[k][1].values())]
            if todo:
                run_pol(todo, MORE2, fuel2, 'y')
    return [tuple(r) for r in res], ref


def classify(g, models, os_):
    vals = set(models.values())
    hang = g.startswith('outoffuel')
    if not os_:
        return ('hang' if hang else 'match') if g in vals else 'MISMATCH'
    if hang and models.get('o0') == g:
        return 'hang'
    if len(vals) == 1:
        return 'match-os' if g in vals else 'MISMATCH'
    return 'ordsens' if g in vals else 'uncovered'


def mismatch_one(p, par):
    b, _ = budgets([p])
    res, _ = evaluate([p], b, par, 'shr')
    return classify(*res[0]), res[0][:2]


def shrink(p, par, cls, max_evals=150):
    """delta debugging on the instruction list, keeping the class of disagreement"""
    items = list(p.items)
    evals = 0
    changed = True
    while changed and evals < max_evals:
        changed = False
        chunk = max(1, len(items) // 2)
        while chunk >= 1 and evals < max_evals:
            i = 0
            while i < len(items) and evals < max_evals:
                cand = items[:i] + items[i + chunk:]
                if any(k == 'ins' for k, _ in items[i:i + chunk]):
                    q = S.clone_with_items(p, cand)
                    evals += 1
                    c, _ = mismatch_one(q, par)
                    if c == cls:
                        items = cand
                        changed = True
                        continue
                i += chunk
            chunk //= 2
    q = S.clone_with_items(p, items)
    for d in ('regs', 'mem'):
        cur = dict(getattr(q, d))
        for k in list(cur):
            if evals >= max_evals:
                break
            trial = dict(cur)
            del trial[k]
            r = S.clone_with_items(q, q.items)
            setattr(r, d, trial)
            evals += 1
            c, _ = mismatch_one(r, par)
            if c == cls:
                cur = trial
                setattr(q, d, dict(cur))
    return q


def wild(rng, base):
    """A program of profile `base` made ill-behaved: unaligned / line-straddling / out-of-bounds / negative
    addresses, address registers clobbered, indirect jumps to computed (possibly unaligned or outside) targets.
    These are outside the supported subset of the sequential machine; the MODEL must still agree with the Go code
    (panics, errors, hangs included)."""
    from vf.isa import Ins, LD, ST
    p = gen_program(rng, base)
    ms = p.memsize
    n = len(p.instrs())
    items = []
    for k, x in p.items:
        if k == 'ins' and x.m in LD + ST and rng.random() < 0.5:
            x.imm = rng.choice([-1, 1, 2, 3, 5, 61, 62, 63, 65, -3, -64, ms - 1, ms - 2, ms - 4, ms, rng.randint(-80, 80)])
        elif k == 'ins' and x.m == 'li' and x.rd in (10, 11, 12, 13) and rng.random() < 0.3:
            x.imm = rng.choice([x.imm + 1, x.imm + 2, x.imm - 62, ms - 3, ms - 1, -1, -4, -60, rng.randint(0, max(1, ms))])
            x.imm = max(-2**31, min(2**31 - 1, x.imm))      # the assembler rejects an immediate outside int32
        items.append((k, x))
        if k == 'ins' and rng.random() < 0.04:
            t = rng.choice([4 * rng.randrange(0, n + 2), 4 * rng.randrange(0, n + 2) + 2, -4, -2, 4 * n + 8])
            items.append(('ins', Ins('li', 15, imm=t)))
            items.append(('ins', Ins('jalr', rng.choice([0, 1, 5]), 15, imm=rng.choice([0, 0, 1, 4, -4]))))
    p.items = items
    p.profile = 'w-' + base
    return p


def x62(rng, base):
    """A program of profile `base` with the ingredients of the MVP-6.2-specific paths added: divisions by zero
    (Run returns an error: in the main loop `return 0, err`, in the drain loop after ret, and inside the flush loop
    `return 0, nil`), a load whose consumer is forwarded (the consumer waits on the channel) directly before other
    instructions / branches, and divisions by a freshly loaded value."""
    from vf.isa import Ins
    p = gen_program(rng, base)
    ms = p.memsize
    items = []
    nins = max(1, len(p.instrs()))
    perr = rng.choice([0.5, 1.0, 2.0]) / nins
    for k, x in p.items:
        if k == 'ins' and rng.random() < perr:
            c = rng.random()
            if c < 0.4 or ms < 8:
                items.append(('ins', Ins(rng.choice(['div', 'rem']), rng.choice([5, 6, 7, 28, 29]), rng.choice([5, 6, 7, 28, 0]), 0)))
            elif c < 0.6:
                a = 4 * rng.randrange(0, ms // 4)
                t = rng.choice([5, 6, 7, 28, 29, 30])
                items.append(('ins', Ins('lw', t, 0, imm=a)))
                items.append(('ins', Ins(rng.choice(['div', 'rem', 'add']), rng.choice([5, 6, 7, 28, 29]), rng.choice([5, 6, 7, 28, 0]), t)))
            elif c < 0.8:
                # a conditional branch with a slow condition whose target is the NEXT instruction (taken or not):
                # the instructions behind it write the transaction map before it resolves
                a = 4 * rng.randrange(0, ms // 4)
                t = rng.choice([5, 6, 7, 28, 29, 30])
                lid = p.new_label()
                items.append(('ins', Ins('lw', t, 0, imm=a)))
                items.append(('ins', Ins(rng.choice(['beq', 'bne', 'bge', 'blt']), rs1=t, rs2=rng.choice([t, 0]), label=lid)))
                items.append(('label', lid))
                for _ in range(rng.randint(0, 3)):
                    items.append(('ins', Ins(rng.choice(['addi', 'xori']), rng.choice([5, 6, 7, 28, 29, 18, 19]), rng.choice([5, 6, 7, 0]), imm=rng.randint(-9, 9))))
            else:
                a = 4 * rng.randrange(0, ms // 4)
                t = rng.choice([5, 6, 7, 28, 29, 30])
                items.append(('ins', Ins('lw', t, 0, imm=a)))
                items.append(('ins', Ins('addi', rng.choice([5, 6, 7, 28, 29]), t, imm=rng.randint(-3, 3))))
        items.append((k, x))
    p.items = items
    p.profile = 'x-' + base
    return p


def main():
    ap = argparse.ArgumentParser()
    ap.add_argument('--x62', default='', help='comma-separated base profiles for the MVP-6.2-specific derived programs (profile name x-<base>)')
    ap.add_argument('--cells', default='', help='evaluate only these cells, e.g. stld:1,evict:4 (all programs are still generated)')
    ap.add_argument('--wild', default='', help='comma-separated base profiles to derive ill-behaved programs from (profile name w-<base>)')
    ap.add_argument('--n', type=int, default=200)
    ap.add_argument('--seed', type=int, default=1)
    ap.add_argument('--profiles', default=','.join(PROFILES))
    ap.add_argument('--pars', default='1,2,3,4')
    ap.add_argument('--shrink', type=int, default=3, help='number of disagreeing programs to shrink per class')
    ap.add_argument('--repeat', type=int, default=0, help='re-run the Go side R more times on order-sensitive programs')
    a = ap.parse_args()
    os.makedirs(WORK, exist_ok=True)
    profiles = [x for x in a.profiles.split(',') if x]
    pars = [int(x) for x in a.pars.split(',')]
    rng = random.Random(a.seed)
    t0 = time.time()
    progs = []
    for prof in profiles:
        for _ in range(a.n):
            progs.append(gen_program(rng, prof))
    for base in [x for x in a.wild.split(',') if x]:
        for _ in range(a.n):
            progs.append(wild(rng, base))
    for base in [x for x in a.x62.split(',') if x]:
        for _ in range(a.n):
            progs.append(x62(rng, base))
    buds, spec = budgets(progs)
    print('seed %d: %d programs (%d per profile), generated + sequential spec in %.1fs' % (a.seed, len(progs), a.n, time.time() - t0), flush=True)
    table = collections.OrderedDict()
    bad = collections.defaultdict(list)
    kinds = collections.Counter()
    total = collections.Counter()
    cells = set(tuple(x.split(':')) for x in a.cells.split(',') if x)
    allprogs, allbuds = progs, buds
    for par in pars:
        t1 = time.time()
        if cells:
            keep = [k for k, p in enumerate(allprogs) if (p.profile, str(par)) in cells]
            if not keep:
                continue
            progs, buds = [allprogs[k] for k in keep], [allbuds[k] for k in keep]
        res, raw = evaluate(progs, buds, par, 'p%d' % par)
        for k, (p, (g, models, os_)) in enumerate(zip(progs, res)):
            c = classify(g, models, os_)
            table.setdefault((p.profile, par), collections.Counter())[c] += 1
            total[c] += 1
            kinds[(par, g.split(' ')[0])] += 1
            if c in ('MISMATCH', 'uncovered', 'ordsens'):
                bad[c].append(((p, buds[k]), par, g, models))
        print('par %d done in %.1fs' % (par, time.time() - t1), flush=True)
    print()
    print('%-8s %3s %7s %7s %8s %7s %8s %8s %9s' % ('profile', 'par', 'progs', 'match', 'match-os', 'hang', 'MISMATCH', 'ordsens', 'uncovered'))
    for (prof, par), c in table.items():
        print('%-8s %3d %7d %7d %8d %7d %8d %8d %9d' % (prof, par, sum(c.values()), c['match'], c['match-os'], c['hang'], c['MISMATCH'], c['ordsens'], c['uncovered']))
    print('TOTAL  programs*pars=%d match=%d match-os=%d hang(both)=%d MISMATCH=%d ordsens=%d uncovered=%d' %
          (sum(total.values()), total['match'], total['match-os'], total['hang'], total['MISMATCH'], total['ordsens'], total['uncovered']))
    print('Go result kinds per par: ' + ', '.join('x%d %s=%d' % (par, k, v) for (par, k), v in sorted(kinds.items())))
    for cls in ('MISMATCH', 'uncovered'):
        for ((p, _), par, g, models) in bad[cls][:a.shrink]:
            print('\n%s profile=%s par=%d\n  go    : %s\n  model : %s' % (cls, p.profile, par, g, models))
            q = shrink(p, par, cls)
            c, (g2, m2) = mismatch_one(q, par)
            print('  shrunk (%s): regs=%s mem=%s memsize=%d\n    %s\n  go    : %s\n  model : %s' %
                  (c, q.regs, {k_: v for k_, v in list(q.mem.items())[:8]}, q.memsize, q.asm().replace('|', '\n    '), g2, m2))
            b, _ = budgets([q])
            print('  go_case   : ' + q.go_case('6.2', par, b[0]).replace('\t', '\\t'))
    if bad['ordsens']:
        print('\norder-sensitive examples (Go result is one of the model results):')
        for ((p, _), par, g, models) in bad['ordsens'][:2]:
            print('  profile=%s par=%d go=%s' % (p.profile, par, g))
            for o, r in sorted(models.items()):
                print('     policy %3s: %s' % (o, r))
    if a.repeat and bad['ordsens']:
        # does the Go side really vary?  run it again a few times
        sample = bad['ordsens'][:200]
        seen = [set([g]) for (_, _, g, _) in sample]
        for r in range(a.repeat):
            out, _ = run_go([(p, par, b) for ((p, b), par, _, _) in sample], 'rep')
            for i, o in enumerate(out):
                seen[i].add(strip(o))
        def kind(x):
            return 'outoffuel' if x.startswith('outoffuel') else x
        seen = [set(kind(x) for x in s_) for s_ in seen]
        nvar = sum(1 for s in seen if len(s) > 1)
        nin = sum(1 for s, (_, _, _, models) in zip(seen, sample) if s <= set(kind(x) for x in models.values()))
        print('\nre-ran Go %d more times on %d order-sensitive cases: %d of them showed more than one Go result; '
              'all observed results among the model results for %d' % (a.repeat, len(sample), nvar, nin))
    print('\ntotal wall time %.1fs' % (time.time() - t0))
    return 1 if (total['MISMATCH'] or total['uncovered']) else 0


if __name__ == '__main__':
    sys.exit(main())
