#!/usr/bin/env python3
"""Re-runs the case recorded in a replay file against /repo and prints what the
implementation and the oracle say."""
import json, os, subprocess, sys, tempfile
sys.path.insert(0, os.path.join(os.path.dirname(os.path.abspath(__file__)), '..', 'lib'))
from vf import common as C
r = json.load(open(sys.argv[1]))
print(json.dumps({k: r[k] for k in r if k not in ('trace',)}, indent=1)[:4000])
ok, out = C.build_harness()
if not ok:
    print('harness does not build:', out); sys.exit(2)
def run(exe, cmd, line):
    with tempfile.NamedTemporaryFile('w', suffix='.case', delete=False) as f:
        f.write(line + '\n')
    p = subprocess.run([exe, cmd, f.name], capture_output=True, text=True, env=C.ENV, timeout=600)
    os.unlink(f.name)
    return (p.stdout + p.stderr).strip()
cmd = r.get('harness_cmd')
if r.get('go_case') and not cmd:
    cmd = 'isa'
if r.get('go_case'):
    print('implementation:', run(C.BUILD + '/harness', cmd, r['go_case']))
if r.get('spec_case'):
    print('specification: ', run(C.BUILD + '/spec_oracle', r.get('oracle_cmd', cmd), r['spec_case']))
if r.get('case') and r.get('property') == 'C16':
    print('implementation:', run(C.BUILD + '/harness', 'bytes', r['case']))
if r.get('case') and r.get('property') == 'C06':
    # C06: the rig script / program is replayed, every snapshot is judged by the extracted invariant
    hc = r.get('command', 'harness msi-rig').split()[-1]
    with tempfile.NamedTemporaryFile('w', suffix='.case', delete=False) as f:
        f.write(r['case'] + '\n')
    sh = '%s/harness %s %s | %s/msi_oracle cases -' % (C.BUILD, hc, f.name, C.BUILD)
    p = subprocess.run(sh, shell=True, capture_output=True, text=True, env=C.ENV, timeout=600)
    print('implementation judged by the extracted invariant:', (p.stdout + p.stderr).strip()[:3000])
    os.unlink(f.name)
