#!/usr/bin/env python3
"""Re-validates the witnesses of the system-level known findings on the CURRENT /repo
(run by hand after a fix: commit, never by the checks).  A witness that no longer
fails is replaced by a freshly found and shrunk failing program of the same cell; a
cell in which nothing fails any more is reported (the finding must then name another
witness cell, or be moved to `fixed`)."""
import json, os, random, sys
sys.path.insert(0, os.path.join(os.path.dirname(os.path.abspath(__file__)), '..', 'lib'))
from vf import common as C, sysdiff as S, syscheck as SC
from vf.progs import gen_program

ctx = C.Ctx('C99', 'quick', 4242)
ok, out = C.build_harness()
assert ok, out
known = json.load(open(C.V + '/known_findings.json'))['findings']
keys = []
for f in known:
    for k in f.get('witness_cells', []):
        if k not in keys:
            keys.append(k)
path = C.V + '/sys_witnesses.json'
wits = json.load(open(path))
rng = random.Random(4242)
for key in keys:
    prof, v, par = key.split('|'); par = int(par)
    w = wits.get(key)
    if w:
        p = SC.prog_from_witness(w)
        vv, ss, rr = S.eval_one(ctx, p, v, par)
        if vv:
            print(key, 'still fails:', vv)
            continue
    found = None
    for batch in range(6):
        progs = [gen_program(rng, prof) for _ in range(300)]
        spec, _ = S.run_spec(ctx, progs, 'rw-s')
        jobs = [(p, v, par, S.budget_for(s[1])) for p, s in zip(progs, spec)]
        impl, _, raw = S.run_impl(ctx, jobs, 'rw-i')
        bad = [p for p, s, i in zip(progs, spec, impl) if (s[0] == 'ok' or s[0].startswith('err:')) and S.verdict(s, i) and len(p.instrs()) <= 40]
        if bad:
            found = min(bad, key=lambda p: len(p.instrs()))
            break
    if not found:
        print(key, 'NO FAILURE FOUND in 1800 programs - cell looks clean now')
        wits.pop(key, None)
        continue
    q = S.shrink(ctx, found, v, par, max_evals=200)
    vv, ss, rr = S.eval_one(ctx, q, v, par)
    wits[key] = {'variant': v, 'par': par, 'asm': q.asm(), 'regs': q.regs, 'mem': q.mem, 'memsize': q.memsize,
                 'spec_prog': q.spec(), 'labels': q.label_addrs(), 'expected': list(ss), 'observed': rr, 'verdict': vv}
    print(key, 'new witness:', vv, q.asm().replace('|', '; ')[:200])
json.dump(wits, open(path, 'w'), indent=1, sort_keys=True)
