#!/bin/bash
# MANIFEST.setup_cmd: builds the framework from files on disk only (offline).
set -e
export GOFLAGS=-mod=mod GOPROXY=off GOSUMDB=off GOTOOLCHAIN=local CGO_ENABLED=0
V=${VERIF_ROOT:-/verif}
mkdir -p $V/build $V/work $V/replay $V/evidence
( cd $V/tools/gotrans && go build -o $V/build/gotrans . )
mkdir -p $V/coq/theories/Gen
( cd ${VERIF_REPO:-/repo} && $V/build/gotrans ${VERIF_REPO:-/repo} $V/coq/theories/Gen )
( cd $V/coq && coq_makefile -f _CoqProject -o Makefile > /dev/null && timeout 3000 make -j16 > $V/build/coq_make.log 2>&1 ) || { tail -40 $V/build/coq_make.log; exit 1; }
$V/bin/build_oracles.sh all
R=${VERIF_REPO:-/repo}
cp $R/go.sum $V/tools/harness/go.sum
printf 'module harness\n\ngo 1.22.1\n\nrequire github.com/teivah/majorana v0.0.0\n\nreplace github.com/teivah/majorana => %s\n' "$R" > $V/tools/harness/go.mod
( cd $V/tools/harness && go build -tags verif -o $V/build/harness . )
echo "setup ok"
