#!/usr/bin/env python3
"""Regenerates MANIFEST.json from the table below (kept in one place so that it stays valid)."""
import json, os
V = os.path.dirname(os.path.dirname(os.path.abspath(__file__)))
props = [json.loads(l) for l in open(V + '/properties.jsonl')]
NOTE_COMMON = "Trusted: Coq 8.16.1 kernel (no axioms; Print Assumptions = Closed under the global context for every property theorem); extraction via ExtrOcamlBasic; tools/harness, tools/oracle drivers and lib/vf comparison code. "
CHECKS = {
 'C02': dict(
  text="Machine-checked theorems (Props/C02.v) that the Gallina model regenerated on every run from risc/opcodes.go refines an independent RV32IM specification for all register values, immediates, pcs, label tables and loaded bytes (no enumeration), plus exactness of the declared read/write sets and memory addresses and panic-freedom. A change to opcodes.go changes the generated model, so the theorems are re-checked against the code as it is now; the implementation is additionally run against the extracted spec and the extracted generated model on ~9e4 boundary/aliasing cases to validate the translator and to find a concrete failing operand when a proof breaks.",
  note=NOTE_COMMON + "tools/gotrans + Base/GoInt.v (validated per run against the Go code); registerRead abstracted to a read function (its model is proved in C15).",
  tech="Coq proof over a translator-regenerated model + translation validation + differential search", ref="DESIGN.md 5/C02"),
 'C16': dict(
  text="Machine-checked theorems (Props/C16.v) over the model regenerated from common/bytes/bytes.go: split-then-join is the identity on every int32, join-then-split on every int8 quadruple, byte k holds bits 8k..8k+7 - proved by two's-complement bit extensionality on Z, for all 2^32 values at once. Tie: regeneration each run + execution of the extracted model against the Go functions; thorough tier also sweeps all 2^32 values in Go against encoding/binary as a search.",
  note=NOTE_COMMON + "tools/gotrans + Base/GoInt.v (validated per run).",
  tech="Coq proof (bit extensionality) over a translator-regenerated model + translation validation", ref="DESIGN.md 5/C16"),
 'C13': dict(
  text="Machine-checked theorems (Props/C13.v, 16) about hand-written faithful Gallina models of comp.LRUCache and of the generic key-value LRU, for all histories of any length satisfying the usage contract (a boolean predicate over the history: aligned-length non-overlapping pushes, writes inside one resident line): refinement of a map+recency-list reference (no panic, equal outputs), read-returns-last-write, present-iff-covered, PushLine into a full cache displaces exactly the least recently used line and reports its current contents, capacity restored after the reported victim is evicted, no duplicate lines; the overlapping-lines stale read is a kernel-checked refutation. Tie: extracted models vs the real Go types on bounded-exhaustive (length 7) and random histories (geometries up to 128B/4KB) each run, recency order included.",
  note=NOTE_COMMON + "The models are hand-written: the tie is a sampled correspondence. Aliasing of Go data slices is outside the model (the harness copies).",
  tech="Coq proof (refinement to an abstract LRU spec by induction over histories) on a hand-written model + correspondence check", ref="DESIGN.md 5/C13"),
 'C14': dict(
  text="Machine-checked theorems (Props/C14.v, 31) about hand-written faithful Gallina models of SimpleBus, BufferedBus and Queue, for all histories of any length and all capacities: conservation/exactly-once, FIFO order, Pick-first, one-cycle latency, capacity under the CanAdd discipline, Clean, conditional Revert; the unconditional Revert clause is refuted by a kernel-checked witness (known finding, dead code). Tie: the extracted models and the real Go types execute the same bounded-exhaustive (depth 5-7) and random histories each run and every output is compared; the property clauses are also evaluated on the implementation's outputs to classify a disagreement.",
  note=NOTE_COMMON + "The models are hand-written: the tie is a sampled correspondence (distribution in evidence). Queue.Iterator's goroutine is modelled as a snapshot.",
  tech="Coq proof (induction over histories) on a hand-written model + correspondence check", ref="DESIGN.md 5/C14"),
 'C15': dict(
  text="Machine-checked theorems (Props/C15.v, 29) about hand-written faithful Gallina models of comp.RAT and of the speculative part of risc.Context (Transaction map, committed/transaction RAT, registerRead precedence), for all histories: commit gives the youngest write, rollback the youngest older than s, untouched registers unchanged, tagged reads never younger, behaviour beyond the slot bound, independence of Go map iteration order; what is lost beyond the bound and under out-of-order arrival is stated as kernel-checked refutations. Tie: extracted models vs the real Go types on bounded-exhaustive and random histories each run.",
  note=NOTE_COMMON + "The models are hand-written: the tie is a sampled correspondence. Go map iteration order is an explicit argument of the model.",
  tech="Coq proof (induction over histories) on a hand-written model + correspondence check", ref="DESIGN.md 5/C15"),
}
EXTRA = json.load(open(V + '/manifest_extra.json')) if os.path.exists(V + '/manifest_extra.json') else {}
for k_, v_ in EXTRA.items():
    v_ = dict(v_); v_['note'] = v_['note']; CHECKS[k_] = v_
def chk(pid, d):
    return {"property_id": pid, "quick_cmd": "bin/check.py %s --tier quick" % pid, "thorough_cmd": "bin/check.py %s --tier thorough" % pid,
            "evidence_file": "/verif/evidence/%s.json" % pid, "replay_cmd_template": "bin/replay.py {path}", "engine": "coq-proof",
            "level_claimed": {"category": "proof", "text": d['text'], "design_ref": d['ref']}, "level_note": d['note'], "technique": d['tech']}
m = {
 "version": 1, "setup_cmd": "bin/setup.sh",
 "hooks": {"guard": "verif", "enable": "go build -tags verif (tools/harness is built with it on every check run)",
           "baseline_off_cmd": "/verif/bin/baseline_off.sh", "source_commits": ["83b3df4", "68b833c"], "add_only": True},
 "engines": [
  {"name": "coq-proof", "path": "coq/", "serves_properties": sorted(CHECKS), "kind_free_text": "Coq 8.16.1 development: generated models (tools/gotrans), hand-written models, specs, property theorems in coq/theories/Props"},
  {"name": "correspondence", "path": "bin/check.py", "serves_properties": sorted(CHECKS), "kind_free_text": "differential of the Go implementation (tools/harness) against OCaml extractions of the Coq definitions (tools/oracle)"}],
 "checks": [chk(p, CHECKS[p]) for p in sorted(CHECKS)],
 "notes": "see DESIGN.md; known_findings.json lists genuine defects found (fixed ones with their fix: commit)",
 "not_applicable": [{"property_id": p["id"], "reason": "check under construction in this session (see DESIGN.md section 8); not claimed yet"} for p in props if p['id'] not in CHECKS],
}
json.dump(m, open(V + '/MANIFEST.json', 'w'), indent=1)
print('checks:', sorted(CHECKS))
