#!/usr/bin/env python3
"""Hand-written programs through the MVP-6.3 tie (Go harness vs. model) at parallelism 1..4.
   bin/one_m63.py [name ...]   (no name: all)"""
import os, sys
os.environ.setdefault('VERIF_CASE_TIMEOUT', '600')
sys.path.insert(0, os.path.dirname(os.path.abspath(__file__)))
sys.path.insert(0, os.path.join(os.path.dirname(os.path.abspath(__file__)), '..', 'lib'))
import tie_m63 as T
from vf.progs import Program
from vf.isa import Ins

def prog(items, regs=None, mem=None, memsize=256):
    p = Program()
    for it in items:
        if isinstance(it, int):
            p.label(it); p.nlabels = max(p.nlabels, it)
        else:
            p.items.append(('ins', it))
    p.regs = dict(regs or {}); p.mem = dict(mem or {}); p.memsize = memsize; p.profile = 'hand'
    return p

I = Ins
T0, T1, T2, T3, A0, A5, RA = 5, 6, 7, 28, 10, 15, 1
CASES = {
  # an instruction that errors inside the flush loop (before /repo 1ed8ef8 Run returned (0, nil) there)
  'err-in-flush': prog([I('lw', T1, 0, imm=0), I('div', T2, T3, T1), I('beq', 0, 0, 0, label=1), I('li', T0, imm=7), 1, I('li', A0, imm=9), I('ret')], regs={T3: 5}),
  # the same without the branch: plain error
  'err-plain': prog([I('lw', T1, 0, imm=0), I('div', T2, T3, T1), I('li', A0, imm=9), I('ret')], regs={T3: 5}),
  # two writers of a5 in one cycle, reader forwarded from either
  'two-writers': prog([I('li', A5, imm=2), I('li', A5, imm=92), I('addi', T0, A5, imm=1), I('ret')]),
  # ... with a nop in front both li are decoded (and dispatched) together: the addi is forwarded from whichever
  # of them comes first in the Go map (t0 = 3 or 93)
  'two-writers-nop': prog([I('nop'), I('li', A5, imm=2), I('li', A5, imm=92), I('addi', T0, A5, imm=1), I('ret')]),
  # ret executed inside the flush loop is ignored
  'ret-in-flush': prog([I('lw', T1, 0, imm=0), I('beq', 0, 0, 0, label=1), I('ret'), 1, I('li', A0, imm=9), I('ret')]),
  # WAR renamed: the younger writer completes before the older reader reads
  'war': prog([I('lw', T1, 0, imm=0), I('add', T2, T1, T0), I('li', T0, imm=77), I('ret')], regs={T0: 1}, mem={0: 5}),
  # WAW renamed: older slow writer overwrites the younger one
  'waw': prog([I('lw', T1, 0, imm=0), I('li', T1, imm=3), I('addi', T2, T1, imm=0), I('ret')], mem={0: 5}),
  # jal + reader of ra
  'jal-ra': prog([I('jal', RA, label=1), I('li', T0, imm=1), 1, I('addi', T1, RA, imm=0), I('ret')]),
  # loop re-decoding an instruction that is waiting for its forwarded value
  'loop-fwd': prog([I('li', A5, imm=3), 1, I('lw', T1, 0, imm=0), I('add', T2, T2, T1), I('addi', A5, A5, imm=-1), I('bnez', rs1=A5, label=1), I('ret')], mem={0: 5}),
  # missing ret: falls off the end
  'no-ret': prog([I('li', T0, imm=1), I('addi', T1, T0, imm=2)]),
  # branch at pc 0 (sequence id 0)
  'branch-at-0': prog([I('beq', 0, 0, 0, label=1), I('li', T0, imm=1), I('li', T1, imm=2), 1, I('li', T2, imm=3), I('ret')]),
  # store then load of the same address
  'st-ld': prog([I('li', T0, imm=11), I('sw', 0, 0, T0, imm=8), I('lw', T1, 0, imm=8), I('ret')]),
}

def main():
    names = sys.argv[1:] or list(CASES)
    os.makedirs(T.WORK, exist_ok=True)
    progs = [CASES[n] for n in names]
    buds, _ = T.budgets(progs)
    for par in (1, 2, 3, 4):
        res, raw = T.evaluate(progs, buds, par, 'one%d' % par)
        for n, p, (g, models, os_), r in zip(names, progs, res, raw):
            c = T.classify(g, models, os_)
            print('%-14s par %d %-9s go: %s' % (n, par, c, r))
            if c != 'match' and c != 'hang':
                for o, m in sorted(models.items()):
                    print('%30s %4s: %s' % ('', o, m))
    for n, p in zip(names, progs):
        print(n, ':', p.asm().replace('|', ' ; '))

if __name__ == '__main__':
    main()
