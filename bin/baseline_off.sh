#!/bin/bash
# Runs the repository's pinned test suite with the verif guard OFF and compares
# the set of passing tests with /root/.vp/BASELINE.json (stable_pass).
export GOFLAGS=-mod=mod GOPROXY=off GOSUMDB=off GOTOOLCHAIN=local
REPO=${1:-/repo}
OUT=$(mktemp /var/tmp/baseline.XXXXXX.json)
(cd "$REPO" && go test -json -vet=off -count=1 -timeout ${SUITE_TIMEOUT:-25m} ./... > "$OUT" 2>/dev/null)
python3 - "$OUT" <<'PY'
import json,sys
passed=set()
for l in open(sys.argv[1]):
    try: e=json.loads(l)
    except Exception: continue
    if e.get('Action')=='pass' and e.get('Test'):
        passed.add(e['Package']+'::'+e['Test'])
base=set(json.load(open('/root/.vp/BASELINE.json'))['stable_pass'])
missing=sorted(base-passed)
print('baseline stable_pass:',len(base),'passed now:',len(passed),'missing:',len(missing))
for m in missing[:40]: print('  MISSING',m)
sys.exit(1 if missing else 0)
PY
rc=$?
rm -f "$OUT"
exit $rc
