#!/usr/bin/env python3
"""Entry point of every check: bin/check.py <Cxx> [--tier quick|thorough]"""
import argparse
import importlib
import os
import sys
import traceback

sys.path.insert(0, os.path.join(os.path.dirname(os.path.abspath(__file__)), '..', 'lib'))
from vf import common as C  # noqa: E402


def main():
    ap = argparse.ArgumentParser()
    ap.add_argument('pid')
    ap.add_argument('--tier', default=os.environ.get('VERIF_TIER', 'quick'))
    a = ap.parse_args()
    tier = a.tier if a.tier in ('quick', 'thorough') else 'quick'
    seed = int(os.environ.get('VERIF_SEED', '1') or 1)
    ctx = C.Ctx(a.pid, tier, seed)
    mod = importlib.import_module('vf.' + a.pid.lower())
    try:
        rc = mod.run(ctx)
    except Exception:
        traceback.print_exc()
        print('check machinery failed for %s (this is not a verdict about the property)' % a.pid, file=sys.stderr)
        sys.exit(2)
    sys.exit(rc)


if __name__ == '__main__':
    main()
