#!/usr/bin/env python3
"""Hand-written programs through the MVP-8.0 tie (Go harness vs. model) at parallelism 1..4.
   bin/one_m80.py [name ...]   (no name: all)"""
import os, sys
os.environ.setdefault('VERIF_CASE_TIMEOUT', '600')
sys.path.insert(0, os.path.dirname(os.path.abspath(__file__)))
sys.path.insert(0, os.path.join(os.path.dirname(os.path.abspath(__file__)), '..', 'lib'))
import tie_m80 as T
from vf.progs import Program
from vf.isa import Ins

def prog(items, regs=None, mem=None, memsize=256):
    p = Program()
    for it in items:
        if isinstance(it, int):
            p.label(it); p.nlabels = max(p.nlabels, it)
        else:
            p.items.append(('ins', it))
    p.regs = dict(regs or {}); p.mem = dict(mem or {}); p.memsize = memsize; p.profile = 'hand'
    return p

I = Ins
T0, T1, T2, T3, A0, A5, RA = 5, 6, 7, 28, 10, 15, 1
CASES = {
  # store then load of the same address: one core / two cores (write-back snoop when the load goes to the other core)
  'st-ld': prog([I('li', T0, imm=11), I('sw', 0, 0, T0, imm=8), I('lw', T1, 0, imm=8), I('ret')]),
  # a store never removes its registers from the scoreboard
  'st-sb': prog([I('li', T0, imm=11), I('sw', 0, 0, T0, imm=8), I('li', T1, imm=1), I('addi', T0, T1, imm=1), I('ret')]),
  # wrong-path store in flight when the branch is resolved: dropped by the Pre hook (cc.flush), then CPU.flush
  # flushes the controller again: the stale l1LockSems entry is unlocked twice -> panic("write is negative")
  'wrong-path-store': prog([I('lw', T1, 0, imm=0), I('beq', T1, 0, 0, label=1), I('sw', 0, 0, T0, imm=64), 1, I('li', A0, imm=9), I('ret')], regs={T0: 7}),
  # the same with a wrong-path load
  'wrong-path-load': prog([I('lw', T1, 0, imm=0), I('beq', T1, 0, 0, label=1), I('lw', T2, 0, imm=64), 1, I('li', A0, imm=9), I('ret')], regs={T0: 7}),
  # two stores to one line, then a load of it
  'st-st-ld': prog([I('li', T0, imm=11), I('sw', 0, 0, T0, imm=8), I('sw', 0, 0, T0, imm=12), I('lw', T1, 0, imm=12), I('ret')]),
  # loads of one line on several cores, then a store (invalidation)
  'ld-ld-st': prog([I('lw', T1, 0, imm=0), I('lw', T2, 0, imm=4), I('lw', T3, 0, imm=8), I('sw', 0, 0, T0, imm=12), I('lw', A0, 0, imm=12), I('ret')], regs={T0: 7}, mem={0: 1, 4: 2, 8: 3}),
  # no ret: the program falls off the end with a store in flight
  'st-no-ret': prog([I('li', T0, imm=11), I('sw', 0, 0, T0, imm=8)]),
  # store directly before ret
  'st-ret': prog([I('li', T0, imm=11), I('sw', 0, 0, T0, imm=8), I('ret')]),
  # line-crossing store
  'st-cross': prog([I('li', T0, imm=-1), I('sw', 0, 0, T0, imm=62), I('ret')]),
  # negative address
  'ld-neg': prog([I('lw', T1, 0, imm=-4), I('ret')]),
  # WAR renamed, as in 6.3
  'war': prog([I('lw', T1, 0, imm=0), I('add', T2, T1, T0), I('li', T0, imm=77), I('ret')], regs={T0: 1}, mem={0: 5}),
  'waw': prog([I('lw', T1, 0, imm=0), I('li', T1, imm=3), I('addi', T2, T1, imm=0), I('ret')], mem={0: 5}),
  # load after a store to the same address issued to ANOTHER core before the store is done (no memory ordering)
  'st-ld-race': prog([I('sw', 0, 0, T0, imm=8), I('lw', T1, 0, imm=8), I('ret')], regs={T0: 7}),
}

def main():
    names = sys.argv[1:] or list(CASES)
    os.makedirs(T.WORK, exist_ok=True)
    progs = [CASES[n] for n in names]
    buds, _ = T.budgets(progs)
    for par in (1, 2, 3, 4):
        res, raw = T.evaluate(progs, buds, par, 'one%d' % par)
        for n, p, (g, models, os_), r in zip(names, progs, res, raw):
            c = T.classify(g, models, os_)
            print('%-14s par %d %-9s go: %s' % (n, par, c, r))
            if c != 'match' and c != 'hang':
                for o, m in sorted(models.items()):
                    print('%30s %4s: %s' % ('', o, m))
    for n, p in zip(names, progs):
        print(n, ':', p.asm().replace('|', ' ; '))

if __name__ == '__main__':
    main()
