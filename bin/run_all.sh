#!/bin/bash
# usage: run_all.sh [tier] [seed]   runs every check of MANIFEST.json once and prints a summary
TIER=${1:-quick}; export VERIF_SEED=${2:-1}
cd "$(dirname "$0")/.."
for c in C01 C02 C03 C04 C05 C06 C07 C08 C09 C10 C11 C12 C13 C14 C15 C16; do
  t0=$(date +%s)
  out=$(bin/check.py $c --tier $TIER 2>&1); rc=$?
  t1=$(date +%s)
  echo "$c rc=$rc $((t1-t0))s violations=$(echo "$out" | grep -c '^VIOLATION') known=$(echo "$out" | grep -c '^KNOWN-FINDING')"
  echo "$out" | grep -A1 '^VIOLATION' | cut -c1-400
done
