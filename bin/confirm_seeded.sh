#!/bin/bash
# usage: confirm_seeded.sh <dir with patch.diff, demo/, meta.json> <id> [nosuite]
# Confirms a seeded change in a scratch worktree of /repo: applies, builds, runs the
# demonstration with and without the change, runs the pinned suite with the change
# (guard off) and compares with BASELINE.json; then stores it under /verif/seeded/<id>/.
export GOFLAGS=-mod=mod GOPROXY=off GOSUMDB=off GOTOOLCHAIN=local
SRC=$1; ID=$2; WT=/tmp/cs_$ID
OUT=/verif/seeded/$ID
rm -rf $WT; git -C /repo worktree add -q --detach $WT HEAD || exit 2
mkdir -p $OUT; cp $SRC/patch.diff $OUT/; cp -r $SRC/demo $OUT/ 2>/dev/null; cp $SRC/HOWTO.txt $OUT/ 2>/dev/null; cp $SRC/meta.json $OUT/agent_meta.json
log=$OUT/confirm.log; : > $log
if [ ! -d $SRC/demo ] && [ -f $SRC/demo_test.go ]; then mkdir -p $OUT/demo_in_tree; cp $SRC/demo_test.go $OUT/demo_in_tree/; fi
DEST=${4:-zz_demo/demo_test.go}; case $DEST in zz_demo/*) RUNPAT=. ;; *) RUNPAT=Demo ;; esac
run_demo() { if [ -d $OUT/demo_in_tree ]; then ( mkdir -p $WT/$(dirname $DEST) && cp $OUT/demo_in_tree/demo_test.go $WT/$DEST && cd $WT && timeout 900 go test -count=1 -run "$RUNPAT" ./$(dirname $DEST)/ 2>&1 | tail -15; rm -f $WT/$DEST ); return; fi
  ( cd $OUT/demo && sed -i "s#=> /tmp/mut_[A-Z]#=> $WT#; s#=> /tmp/cs_[A-Za-z0-9_-]*#=> $WT#" go.mod && cp $WT/go.sum . 2>/dev/null; timeout 600 go test -count=1 ./... 2>&1 | tail -15 ); }
echo "== demo WITHOUT the change" >> $log; run_demo >> $log 2>&1; grep -q "^ok" <(run_demo | tail -3) && W0=pass || W0=fail
git -C $WT apply $OUT/patch.diff || { echo "patch does not apply" >> $log; exit 2; }
( cd $WT && go build ./... ) >> $log 2>&1 && B=ok || B=fail
echo "== demo WITH the change" >> $log; run_demo >> $log 2>&1; grep -q "^ok" <(run_demo | tail -3) && W1=pass || W1=fail
S=skipped
if [ "$3" != nosuite ]; then
  echo "== pinned suite WITH the change" >> $log
  SUITE_TIMEOUT=90m /verif/bin/baseline_off.sh $WT >> $log 2>&1 && S=pass || S=fail
fi
echo "build=$B demo_without=$W0 demo_with=$W1 suite=$S" | tee -a $log
git -C /repo worktree remove --force $WT
rm -rf $OUT/demo/go.sum
