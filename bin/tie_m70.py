#!/usr/bin/env python3
"""Exact tie between proc/mvp7-0 (or, with --variant 7.1, proc/mvp7-1) (Go, through build/harness `run`) and the
extracted Gallina model coq/theories/Mvp/Mvp70.v / Mvp71.v (build/mvp_oracle, variants
"7.0x<par>[o<k>|r<seed>|g<seed>][s|S]", "7.1x...").
(Adapted from bin/tie_m63.py.  The Go maps whose iteration order is an argument of the model are those of the
MVP-6.3 front end: controlUnit.pushedRunnersInPreviousCycle in shouldUseForwarding and the RAT value maps; the maps
of msi.go / cc.go cannot influence a run, see the header of Mvp70.v.  A hanging run is compared through the harness
command `runc`, which also prints the speculative register file rat=..; --oscheck K re-runs K programs per cell
whose ghost flag is clear under other orders: the results must not change.)

  bin/tie_m70.py [--variant 7.0|7.1] [--n N] [--seed S] [--profiles a,b,..] [--pars 1,2,3,4] [--shrink K] [--repeat R]

For every (profile, parallelism) the line `ok c=<cycles> r=<regs> m=<memory>` / `err <class>` /
`panic` printed by the Go harness must be EQUAL to the line printed by the oracle; a Go run that
exhausts its tick budget (`budget ticks=..`) must be `outoffuel` in the model (fuel = budget: one
unit of fuel per ctx.VerifTick()).

Go map iteration: the model takes the iteration order of controlUnit.pushedRunnersInPreviousCycle (and of the RAT
value maps) as an argument and raises a ghost flag (printed os=1) when more than one runner of that map qualifies as
forwarding source.  os=0: the run is the same for every order (Mvp70Proofs.v, mvp70_ord_irrelevant /
mvp71_ord_irrelevant), the Go side is deterministic and the lines must be EQUAL (column `match`).  os=1: the model is
run under more orders (policies o1..o3: the k-th permutation; r<seed>: an independent pseudo-random permutation per map
iteration; g<seed>: a pseudo-random order drawn the way the Go runtime draws it for a small map - a rotation of the
insertion order).  If all sampled results are equal the Go line must be equal to them too (`match-os`); otherwise the
run is ORDER-SENSITIVE (the Go side is observably nondeterministic) and the tie only requires the Go result to be one
of the model's results (`ordsens`; `uncovered` = none of the sampled orders reproduces it, after escalation to 100
more orders).  --repeat R re-runs the Go side R times on the order-sensitive programs: every result seen must be among
the model's results (more orders are sampled when it is not).
"""
import argparse
import collections
import os
import random
import sys
import time

# the harness gives up on a case after VERIF_CASE_TIMEOUT seconds of WALL time (default 8): on a loaded machine
# a run that merely exhausts its tick budget can take longer; such a `hang` line says nothing about the Go code
os.environ.setdefault('VERIF_CASE_TIMEOUT', '600')
sys.path.insert(0, os.path.join(os.path.dirname(os.path.abspath(__file__)), '..', 'lib'))
from vf import common as C          # noqa: E402
from vf import sysdiff as S         # noqa: E402
from vf.progs import gen_program    # noqa: E402

PROFILES = ['alu', 'hazard', 'branch', 'loops', 'ssa', 'ssald', 'ssamem', 'ssabr', 'ssabr1', 'shadow', 'ldonly', 'ldslow', 'mem', 'stld',
            'tail', 'mixed', 'evict', 'touched', 'disj']
POLICIES = ['o1', 'o2', 'o3', 'g1', 'g2', 'g3', 'g4', 'r1', 'r2']      # besides the default (ascending keys = insertion order)
MORE = ['g%d' % k for k in range(5, 85)] + ['r%d' % k for k in range(3, 23)]     # escalation before a case is called uncovered
SHARDS = int(os.environ.get('TIE_SHARDS', '32'))
WORK = os.path.join(C.V, 'work', os.environ.get('TIE_WORK', 'tie_m70'))
VARIANT = '7.0'


class Ctx:
    work = WORK


def strip(line):
    """Go result line -> the form the oracle prints"""
    if line is None:
        return 'CRASH'
    t = [x for x in line.split(' ') if not x.startswith('t=')]
    if t[0] == 'panic':
        return 'panic'
    if t[0] == 'budget':
        return ' '.join(['outoffuel'] + t[2:])      # `runb` adds r= m= pw= pr= after ticks=
    return ' '.join(t)


def model_line(p, par, order, fuel):
    v = VARIANT + 'x%d' % par + str(order)
    return v + '\t' + p.spec_case(fuel, acc=False).rsplit('\t', 1)[0]


def has_multibyte_store(p):
    return any(i.m in ('sw', 'sh') for i in p.instrs())


def run_go(jobs, tag, cmd='run'):
    """jobs: (prog, par, budget)"""
    lines = [p.go_case(VARIANT, par, b) for (p, par, b) in jobs]
    out = C.run_lines(os.environ.get('VERIF_HARNESS', C.BUILD + '/harness'), cmd, lines, WORK, tag, timeout=3600, shards=SHARDS)
    return out, lines


def run_model(jobs, tag):
    """jobs: (prog, par, order, fuel)"""
    lines = [model_line(p, par, o, f) for (p, par, o, f) in jobs]
    out = C.run_lines(os.environ.get('VERIF_MVP_ORACLE', C.BUILD + '/mvp_oracle'), 'mvp', lines, WORK, tag, timeout=3600, shards=SHARDS)
    return out, lines


def budgets(progs):
    spec, _ = S.run_spec(Ctx, progs, 'spec')
    # tick budget of the Go run = fuel of the model: more than any terminating run needs (every instruction a
    # serialized memory miss); the comparison is exact for ANY budget since one unit of fuel is one VerifTick
    return [400 * ((s[1] if s[0] == 'ok' else 60) + 25) for s in spec], spec


HANGFUEL = 8000       # fuel given to the model on runs where the Go side exhausted its budget
FULLHANG = 20         # ... except for every FULLHANG-th such run of a batch, which gets the full budget


def go_ticks(line):
    for t in (line or '').split(' '):
        if t.startswith('t='):
            return int(t[2:])
    return None


def split_os(line):
    """model line -> (result line, ghost flag)"""
    if line is None:
        return 'CRASH', True
    t = line.split(' ')
    os_ = t[-1] == 'os=1'
    if t[-1].startswith('os='):
        t = t[:-1]
    r = ' '.join(t)
    if r.startswith('ok ') and r.endswith('m='):
        r += ''
    return r, os_


def evaluate(progs, buds, par, tag):
    """-> list of (reference Go line, {policy: model result}, os flag) per program.
    1. Go `run` with the full budget.
    2. For the runs that exhausted it: Go `runb` with a smaller budget hf = min(budget, HANGFUEL) (every
       FULLHANG-th keeps the full budget); its line `budget r=.. m=.. pw=.. pr=..` (registers, memory and the two
       scoreboard maps after exactly hf ticks) becomes the reference and the model is run with fuel hf in
       snapshot mode (variant suffix s): a hang is compared STATE-exactly at tick hf.
    3. Model, ascending order, on everything.  Only when the ghost flag is set and the pair is not already an
       equal hang, the other policies are run (on a terminated reference with just enough fuel: ticks+1)."""
    go, _ = run_go([(p, par, b) for p, b in zip(progs, buds)], tag + 'g')
    ref = list(go)
    fuel = list(buds)
    hang = [k for k, g in enumerate(go) if strip(g) == 'outoffuel']
    for n, k in enumerate(hang):
        fuel[k] = buds[k] if n % FULLHANG == 0 else min(buds[k], HANGFUEL)
    if hang:
        gb, _ = run_go([(progs[k], par, fuel[k]) for k in hang], tag + 'h', cmd='runc')
        for k, g in zip(hang, gb):
            ref[k] = g
            if not strip(g).startswith('outoffuel'):
                fuel[k] = buds[k]          # the Go side terminated this time (it is nondeterministic on this program)
    res = [[strip(g), {}, False] for g in ref]
    ishang = [r[0].startswith('outoffuel') for r in res]

    def run_pol(keys, pols, fuel_of, t):
        jobs = [(progs[k], par, o + ('S' if ishang[k] else ''), fuel_of(k)) for k in keys for o in pols]
        mo, _ = run_model(jobs, tag + t)
        it = iter(mo)
        for k in keys:
            for o in pols:
                r, os_ = split_os(next(it))
                res[k][1][o] = r
                res[k][2] = res[k][2] or os_

    run_pol(list(range(len(progs))), ['o0'], lambda k: fuel[k], 'm')

    def fuel2(k):
        t = go_ticks(ref[k])
        return fuel[k] if (ishang[k] or t is None) else min(fuel[k], t + 1)

    todo = [k for k in range(len(progs)) if res[k][2] and not (ishang[k] and res[k][1]['o0'] == res[k][0])]
    if todo:
        run_pol(todo, POLICIES, fuel2, 'n')
        todo = [k for k in todo if res[k][0] not in set(res[k][1].values())]
        if todo:
            run_pol(todo, MORE, fuel2, 'x')
    return [tuple(r) for r in res], ref


def classify(g, models, os_):
    vals = set(models.values())
    hang = g.startswith('outoffuel')
    if not os_:
        return ('hang' if hang else 'match') if g in vals else 'MISMATCH'
    if hang and models.get('o0') == g:
        return 'hang'
    if len(vals) == 1:
        return 'match-os' if g in vals else 'MISMATCH'
    return 'ordsens' if g in vals else 'uncovered'


def mismatch_one(p, par):
    b, _ = budgets([p])
    res, _ = evaluate([p], b, par, 'shr')
    return classify(*res[0]), res[0][:2]


def shrink(p, par, cls, max_evals=150):
    """delta debugging on the instruction list, keeping the class of disagreement"""
    items = list(p.items)
    evals = 0
    changed = True
    while changed and evals < max_evals:
        changed = False
        chunk = max(1, len(items) // 2)
        while chunk >= 1 and evals < max_evals:
            i = 0
            while i < len(items) and evals < max_evals:
                cand = items[:i] + items[i + chunk:]
                if any(k == 'ins' for k, _ in items[i:i + chunk]):
                    q = S.clone_with_items(p, cand)
                    evals += 1
                    c, _ = mismatch_one(q, par)
                    if c == cls:
                        items = cand
                        changed = True
                        continue
                i += chunk
            chunk //= 2
    q = S.clone_with_items(p, items)
    for d in ('regs', 'mem'):
        cur = dict(getattr(q, d))
        for k in list(cur):
            if evals >= max_evals:
                break
            trial = dict(cur)
            del trial[k]
            r = S.clone_with_items(q, q.items)
            setattr(r, d, trial)
            evals += 1
            c, _ = mismatch_one(r, par)
            if c == cls:
                cur = trial
                setattr(q, d, dict(cur))
    return q


def wild(rng, base):
    """A program of profile `base` made ill-behaved: unaligned / line-straddling / out-of-bounds / negative
    addresses, address registers clobbered, indirect jumps to computed (possibly unaligned or outside) targets.
    These are outside the supported subset of the sequential machine; the MODEL must still agree with the Go code
    (panics, errors, hangs included)."""
    from vf.isa import Ins, LD, ST
    p = gen_program(rng, base)
    ms = p.memsize
    n = len(p.instrs())
    items = []
    for k, x in p.items:
        if k == 'ins' and x.m in LD + ST and rng.random() < 0.5:
            x.imm = rng.choice([-1, 1, 2, 3, 5, 61, 62, 63, 65, -3, -64, ms - 1, ms - 2, ms - 4, ms, rng.randint(-80, 80)])
        elif k == 'ins' and x.m == 'li' and x.rd in (10, 11, 12, 13) and rng.random() < 0.3:
            x.imm = rng.choice([x.imm + 1, x.imm + 2, x.imm - 62, ms - 3, ms - 1, -1, -4, -60, rng.randint(0, max(1, ms))])
        items.append((k, x))
        if k == 'ins' and rng.random() < 0.04:
            t = rng.choice([4 * rng.randrange(0, n + 2), 4 * rng.randrange(0, n + 2) + 2, -4, -2, 4 * n + 8])
            items.append(('ins', Ins('li', 15, imm=t)))
            items.append(('ins', Ins('jalr', rng.choice([0, 1, 5]), 15, imm=rng.choice([0, 0, 1, 4, -4]))))
    p.items = items
    p.profile = 'w-' + base
    return p


def main():
    global VARIANT
    ap = argparse.ArgumentParser()
    ap.add_argument('--variant', default='7.0', help='7.0 or 7.1')
    ap.add_argument('--cells', default='', help='evaluate only these cells, e.g. stld:1,evict:4 (all programs are still generated)')
    ap.add_argument('--wild', default='', help='comma-separated base profiles to derive ill-behaved programs from (profile name w-<base>)')
    ap.add_argument('--n', type=int, default=200)
    ap.add_argument('--seed', type=int, default=1)
    ap.add_argument('--profiles', default=','.join(PROFILES))
    ap.add_argument('--pars', default='1,2,3,4')
    ap.add_argument('--shrink', type=int, default=3, help='number of disagreeing programs to shrink per class')
    ap.add_argument('--oscheck', type=int, default=0, help='per (profile, par): number of programs with a clear ghost flag re-run under 3 other orders')
    ap.add_argument('--repeat', type=int, default=0, help='re-run the Go side R more times on order-sensitive programs')
    a = ap.parse_args()
    VARIANT = a.variant
    os.makedirs(WORK, exist_ok=True)
    profiles = [x for x in a.profiles.split(',') if x]
    pars = [int(x) for x in a.pars.split(',')]
    rng = random.Random(a.seed)
    t0 = time.time()
    progs = []
    for prof in profiles:
        for _ in range(a.n):
            progs.append(gen_program(rng, prof))
    for base in [x for x in a.wild.split(',') if x]:
        for _ in range(a.n):
            progs.append(wild(rng, base))
    buds, spec = budgets(progs)
    print('seed %d: %d programs (%d per profile), generated + sequential spec in %.1fs' % (a.seed, len(progs), a.n, time.time() - t0), flush=True)
    table = collections.OrderedDict()
    bad = collections.defaultdict(list)
    kinds = collections.Counter()
    total = collections.Counter()
    cells = set(tuple(x.split(':')) for x in a.cells.split(',') if x)
    allprogs, allbuds = progs, buds
    for par in pars:
        t1 = time.time()
        if cells:
            keep = [k for k, p in enumerate(allprogs) if (p.profile, str(par)) in cells]
            if not keep:
                continue
            progs, buds = [allprogs[k] for k in keep], [allbuds[k] for k in keep]
        res, raw = evaluate(progs, buds, par, 'p%d' % par)
        for k, (p, (g, models, os_)) in enumerate(zip(progs, res)):
            c = classify(g, models, os_)
            table.setdefault((p.profile, par), collections.Counter())[c] += 1
            total[c] += 1
            kinds[(par, g.split(' ')[0])] += 1
            if c in ('MISMATCH', 'uncovered', 'ordsens'):
                bad[c].append(((p, buds[k]), par, g, models))
        if a.oscheck:
            # soundness of the ghost flag, empirically: a run whose flag is clear must not depend on the order
            byprof = collections.defaultdict(list)
            for k, (p, (g, models, os_)) in enumerate(zip(progs, res)):
                if not os_:
                    byprof[p.profile].append(k)
            pick = [k for prof in byprof for k in rng.sample(byprof[prof], min(a.oscheck, len(byprof[prof])))]
            pols = ['o1', 'r11', 'r12']
            def fuel_of(k):
                t = go_ticks(raw[k])
                return buds[k] if t is None else min(buds[k], t + 1)
            jobs = [(progs[k], par, o, fuel_of(k)) for k in pick for o in pols]
            mo, _ = run_model(jobs, 'p%dc' % par)
            it = iter(mo)
            for k in pick:
                for o in pols:
                    r, os_ = split_os(next(it))
                    ref0 = res[k][1]['o0']
                    if ref0.startswith('outoffuel'):
                        ref0, r = 'outoffuel', r.split(' ')[0]
                    total['oscheck'] += 1
                    if r != ref0 or os_:
                        total['GHOST-UNSOUND'] += 1
                        bad['GHOST-UNSOUND'].append(((progs[k], buds[k]), par, res[k][0], {'o0': ref0, o: r}))
        print('par %d done in %.1fs' % (par, time.time() - t1), flush=True)
    print()
    print('%-8s %3s %7s %7s %8s %7s %8s %8s %9s' % ('profile', 'par', 'progs', 'match', 'match-os', 'hang', 'MISMATCH', 'ordsens', 'uncovered'))
    for (prof, par), c in table.items():
        print('%-8s %3d %7d %7d %8d %7d %8d %8d %9d' % (prof, par, sum(c.values()), c['match'], c['match-os'], c['hang'], c['MISMATCH'], c['ordsens'], c['uncovered']))
    print('TOTAL  programs*pars=%d match=%d match-os=%d hang(both)=%d MISMATCH=%d ordsens=%d uncovered=%d' %
          (sum(v for k_, v in total.items() if k_ not in ('oscheck', 'GHOST-UNSOUND')), total['match'], total['match-os'], total['hang'], total['MISMATCH'], total['ordsens'], total['uncovered']))
    if a.oscheck:
        print('ghost flag: %d re-runs under other orders of programs with a clear flag, %d changed' % (total['oscheck'], total['GHOST-UNSOUND']))
        for ((p, b), par, g, models) in bad['GHOST-UNSOUND'][:3]:
            print('  GHOST-UNSOUND profile=%s par=%d %s\n    %s' % (p.profile, par, models, p.go_case(VARIANT, par, b).replace('\t', '\\t')))
    print('Go result kinds per par: ' + ', '.join('x%d %s=%d' % (par, k, v) for (par, k), v in sorted(kinds.items())))
    for cls in ('MISMATCH', 'uncovered'):
        for ((p, _), par, g, models) in bad[cls][:a.shrink]:
            print('\n%s profile=%s par=%d\n  go    : %s\n  model : %s' % (cls, p.profile, par, g, models))
            q = shrink(p, par, cls)
            c, (g2, m2) = mismatch_one(q, par)
            print('  shrunk (%s): regs=%s mem=%s memsize=%d\n    %s\n  go    : %s\n  model : %s' %
                  (c, q.regs, {k_: v for k_, v in list(q.mem.items())[:8]}, q.memsize, q.asm().replace('|', '\n    '), g2, m2))
            b, _ = budgets([q])
            print('  go_case   : ' + q.go_case(VARIANT, par, b[0]).replace('\t', '\\t'))
    if bad['ordsens']:
        print('\norder-sensitive examples (Go result is one of the model results):')
        for ((p, _), par, g, models) in bad['ordsens'][:2]:
            print('  profile=%s par=%d go=%s' % (p.profile, par, g))
            for o, r in sorted(models.items()):
                print('     policy %3s: %s' % (o, r))
    if a.repeat and bad['ordsens']:
        # does the Go side really vary?  run it again a few times
        sample = bad['ordsens'][:200]
        seen = [set([g]) for (_, _, g, _) in sample]
        for r in range(a.repeat):
            out, _ = run_go([(p, par, b) for ((p, b), par, _, _) in sample], 'rep')
            for i, o in enumerate(out):
                seen[i].add(strip(o))
        def kind(x):
            return 'outoffuel' if x.startswith('outoffuel') else x
        seen = [set(kind(x) for x in s_) for s_ in seen]
        nvar = sum(1 for s in seen if len(s) > 1)
        # a Go result that none of the orders sampled so far reproduces: sample more orders (MORE) for that program
        todo = [i for i, (s, (_, _, _, models)) in enumerate(zip(seen, sample)) if not s <= set(kind(x) for x in models.values())]
        if todo:
            jobs = [(sample[i][0][0], sample[i][1], o, sample[i][0][1]) for i in todo for o in MORE]
            mo, _ = run_model(jobs, 'repx')
            it = iter(mo)
            for i in todo:
                for o in MORE:
                    sample[i][3][o] = split_os(next(it))[0]
        nin = sum(1 for s, (_, _, _, models) in zip(seen, sample) if s <= set(kind(x) for x in models.values()))
        print('\nre-ran Go %d more times on %d order-sensitive cases: %d of them showed more than one Go result; '
              'all observed results among the model results for %d (%d needed more sampled orders)' % (a.repeat, len(sample), nvar, nin, len(todo)))
        for i, (s, (pb, par, _, models)) in enumerate(zip(seen, sample)):
            if not s <= set(kind(x) for x in models.values()):
                total['uncovered'] += 1
                print('  UNCOVERED on re-run: profile=%s par=%d go results not reproduced: %s\n    %s' %
                      (pb[0].profile, par, sorted(s - set(kind(x) for x in models.values())), pb[0].go_case(VARIANT, par, pb[1]).replace('\t', '\\t')))
    print('\ntotal wall time %.1fs' % (time.time() - t0))
    return 1 if (total['MISMATCH'] or total['uncovered'] or total['GHOST-UNSOUND']) else 0


if __name__ == '__main__':
    sys.exit(main())
