#!/bin/bash
# usage: try_seeded.sh <patch.diff> <check ids...>   applies the patch to /repo, runs the quick checks, reverts.
P=$1; shift
cd /repo && git status --short | grep -v '^??' | grep -q . && { echo "/repo not clean"; exit 2; }
git -C /repo apply "$P" || { echo "patch does not apply"; exit 2; }
res=""
for c in "$@"; do
  out=$(cd /verif && timeout 900 bin/check.py $c 2>&1); rc=$?
  v=$(echo "$out" | grep -c '^VIOLATION')
  first=$(echo "$out" | grep -A1 '^VIOLATION' | head -2 | tail -1 | cut -c1-260)
  res="$res\n$c rc=$rc violations=$v $first"
done
git -C /repo checkout -- .
echo -e "$res"
