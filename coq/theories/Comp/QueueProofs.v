(* Proofs about the H model of proc/comp/queue.go (Comp/Queue.v):
   iteration yields the elements in push order; removing snapshot elements
   during the iteration removes exactly those and keeps the order of the rest;
   IsFull iff Length >= capacity.  All for arbitrary histories. *)
From Coq Require Import ZArith List Bool Lia Permutation.
From Maj Require Import Base.Outcome Comp.Bus Comp.BusProofs Comp.Queue.
Import ListNotations.
Open Scope Z_scope.

Theorem isfull_iff q : q_isfull q = true <-> q_length q >= q_cap q.
Proof. unfold q_isfull. rewrite Z.leb_le. lia. Qed.

(* reachable queues: identities are distinct and below the counter *)
Definition q_wf (q : gqueue) : Prop :=
  NoDup (map fst (q_items q)) /\ forall e, In e (q_items q) -> fst e < q_next q.

Lemma NoDup_map_filter {A B} (f : A -> B) (g : A -> bool) l :
  NoDup (map f l) -> NoDup (map f (filter g l)).
Proof.
  induction l as [|x l IH]; simpl; intros N; [constructor|].
  inversion N; subst. destruct (g x); simpl; auto.
  constructor; auto. intros Hin. apply H1. apply in_map_iff in Hin.
  destruct Hin as (y & Hy & Hin). apply filter_In in Hin. apply in_map_iff. exists y. tauto.
Qed.

Lemma filter_filter {A} (f g : A -> bool) l :
  filter f (filter g l) = filter (fun x => g x && f x) l.
Proof.
  induction l as [|x l IH]; simpl; [reflexivity|].
  destruct (g x); simpl; [destruct (f x); rewrite IH; reflexivity | exact IH].
Qed.

Lemma wf_new cap : q_wf (q_new cap).
Proof. split; simpl; [constructor | tauto]. Qed.

Lemma wf_push q v : q_wf q -> q_wf (q_push q v).
Proof.
  intros [N B]. split; simpl.
  - rewrite map_app. simpl.
    apply (Permutation_NoDup (Permutation_cons_append (map fst (q_items q)) (q_next q))).
    constructor; auto. intros Hin. apply in_map_iff in Hin. destruct Hin as (e & He & Hin).
    specialize (B e Hin). lia.
  - intros e Hin. apply in_app_or in Hin. destruct Hin as [Hin | [<- | []]].
    + specialize (B e Hin). lia.
    + simpl. lia.
Qed.

Lemma wf_remove q e : q_wf q -> q_wf (q_remove q e).
Proof.
  intros [N B]. split; simpl.
  - apply NoDup_map_filter. exact N.
  - intros x Hin. apply filter_In in Hin. apply B. tauto.
Qed.

Lemma wf_fold (p : Z -> bool) (snap : list elem) : forall q, q_wf q ->
  q_wf (fold_left (fun q e => if p (q_value e) then q_remove q e else q) snap q).
Proof.
  induction snap as [|e snap IH]; intros q W; simpl; auto.
  apply IH. destruct (p (q_value e)); auto. apply wf_remove; auto.
Qed.

Lemma wf_step q o : q_wf q -> q_wf (fst (q_step q o)).
Proof.
  intros W. destruct o; simpl; auto.
  - apply wf_push; auto.
  - apply wf_fold; auto.
Qed.

Theorem wf_run h : forall q, q_wf q -> q_wf (fst (q_run q h)).
Proof.
  induction h as [|o h IH]; intros q W; simpl; auto.
  pose proof (wf_step q o W) as W1. destruct (q_step q o) as [q1 x]. simpl in W1.
  specialize (IH q1 W1). destruct (q_run q1 h). exact IH.
Qed.

Corollary wf_reachable cap h : q_wf (fst (q_run (q_new cap) h)).
Proof. exact (wf_run h (q_new cap) (wf_new cap)). Qed.

(* ITERATION IN PUSH ORDER: after pushing vs onto a queue, the iterator yields
   what was there, then vs, in that order *)
Lemma push_all_items vs : forall q,
  map q_value (q_iterator (fold_left q_push vs q)) = map q_value (q_iterator q) ++ vs.
Proof.
  induction vs as [|v vs IH]; intros q; simpl.
  - rewrite app_nil_r. reflexivity.
  - rewrite IH. unfold q_iterator, q_push. simpl. rewrite map_app. simpl.
    rewrite <- app_assoc. reflexivity.
Qed.

Theorem iter_push_order cap vs :
  map q_value (q_iterator (fold_left q_push vs (q_new cap))) = vs.
Proof. rewrite push_all_items. reflexivity. Qed.

(* REMOVAL DURING ITERATION, general form: the queue after the loop is the
   queue before it, filtered: an element goes iff its identity is that of a
   visited element whose value satisfies p.  filter keeps the order. *)
Lemma fold_remove (p : Z -> bool) (snap : list elem) : forall q,
  q_items (fold_left (fun q e => if p (q_value e) then q_remove q e else q) snap q)
  = filter (fun x => negb (existsb (fun e => (fst x =? fst e) && p (q_value e)) snap)) (q_items q).
Proof.
  induction snap as [|e snap IH]; intros q; simpl.
  - induction (q_items q) as [|x l IHl]; simpl; [reflexivity | f_equal; exact IHl].
  - rewrite IH. destruct (p (q_value e)) eqn:P; simpl.
    + rewrite filter_filter. apply filter_ext. intros x.
      destruct (fst x =? fst e); simpl; reflexivity.
    + apply filter_ext. intros x. rewrite andb_false_r. reflexivity.
Qed.

Lemma same_id_same_elem (l : list elem) : NoDup (map fst l) ->
  forall x e, In x l -> In e l -> fst x = fst e -> x = e.
Proof.
  induction l as [|y l IH]; simpl; intros N x e Hx He Hid; [tauto|].
  inversion N; subst.
  destruct Hx as [-> | Hx], He as [-> | He]; auto.
  - exfalso. apply H1. rewrite Hid. apply in_map. exact He.
  - exfalso. apply H1. rewrite <- Hid. apply in_map. exact Hx.
Qed.

(* REMOVAL DURING A COMPLETE ITERATION of a reachable queue: exactly the
   elements whose value satisfies p are gone, the others are there in their
   old order, every value was visited once in queue order *)
Theorem iter_remove q p :
  q_wf q ->
  q_items (fst (q_iter q p (-1))) = filter (fun x => negb (p (q_value x))) (q_items q) /\
  snd (q_iter q p (-1)) = map q_value (q_items q).
Proof.
  intros [N _]. unfold q_iter. simpl. split; [|reflexivity].
  rewrite fold_remove. unfold q_iterator. apply filter_ext_in. intros x Hx. f_equal.
  destruct (p (q_value x)) eqn:P.
  - apply existsb_exists. exists x. rewrite Z.eqb_refl, P. auto.
  - match goal with |- existsb ?f ?l = false => destruct (existsb f l) eqn:E end; [|reflexivity].
    apply existsb_exists in E. destruct E as (e & He & Hc). apply andb_prop in Hc. destruct Hc as [Hid Hp].
    apply Z.eqb_eq in Hid. rewrite (same_id_same_elem _ N x e Hx He Hid) in P. congruence.
Qed.

(* with an early stop after n elements: only visited elements can go *)
Theorem iter_remove_partial q p limit :
  q_wf q -> 0 <= limit ->
  let n := Z.to_nat limit in
  q_items (fst (q_iter q p limit))
  = filter (fun x => negb (p (q_value x))) (firstn n (q_items q)) ++ skipn n (q_items q) /\
  snd (q_iter q p limit) = map q_value (firstn n (q_items q)).
Proof.
  intros [N _] L n. unfold q_iter. destruct (limit <? 0) eqn:E; [apply Z.ltb_lt in E; lia|].
  simpl. fold n. split; [|reflexivity]. rewrite fold_remove. unfold q_iterator.
  rewrite <- (firstn_skipn n (q_items q)) at 1. rewrite filter_app. f_equal.
  - apply filter_ext_in. intros x Hx. f_equal. destruct (p (q_value x)) eqn:P.
    + apply existsb_exists. exists x. rewrite Z.eqb_refl, P. auto.
    + match goal with |- existsb ?f ?l = false => destruct (existsb f l) eqn:X end; [|reflexivity].
      apply existsb_exists in X. destruct X as (e & He & Hc). apply andb_prop in Hc. destruct Hc as [Hid Hp].
      apply Z.eqb_eq in Hid.
      assert (In x (q_items q)) by (rewrite <- (firstn_skipn n); apply in_or_app; auto).
      assert (In e (q_items q)) by (rewrite <- (firstn_skipn n); apply in_or_app; auto).
      rewrite (same_id_same_elem _ N x e) in P; auto. congruence.
  - rewrite <- (firstn_skipn n (q_items q)) in N. rewrite map_app in N.
    assert (F : forall x, In x (skipn n (q_items q)) ->
                 negb (existsb (fun e => (fst x =? fst e) && p (q_value e)) (firstn n (q_items q))) = true).
    { intros x Hx. apply negb_true_iff. match goal with |- existsb ?f ?l = false => destruct (existsb f l) eqn:X end; [|reflexivity].
      apply existsb_exists in X. destruct X as (e & He & Hc). apply andb_prop in Hc. destruct Hc as [Hid _].
      apply Z.eqb_eq in Hid. exfalso.
      revert N He Hx Hid. generalize (firstn n (q_items q)) (skipn n (q_items q)). clear.
      intros l1 l2 N He Hx Hid. induction l1 as [|y l1 IH]; simpl in *; [tauto|].
      inversion N; subst. destruct He as [-> | He]; auto.
      apply H1. apply in_or_app. right. rewrite <- Hid. apply in_map. exact Hx. }
    revert F. generalize (skipn n (q_items q)). intros l F. induction l as [|x l IH]; simpl; auto.
    rewrite F by (left; reflexivity). f_equal. apply IH. intros y Hy. apply F. right; exact Hy.
Qed.

(* over whole histories from NewQueue: the queue always holds a subsequence of
   the pushed values, in push order *)
Fixpoint pushed (h : list qop) : list Z :=
  match h with [] => [] | QPush v :: h' => v :: pushed h' | _ :: h' => pushed h' end.

Lemma filter_subseq {A} (g : A -> bool) l : subseq (filter g l) l.
Proof. induction l as [|x l IH]; simpl; [constructor|]. destruct (g x); [apply sub_take | apply sub_skip]; auto. Qed.

Lemma map_subseq {A B} (f : A -> B) l1 l2 : subseq l1 l2 -> subseq (map f l1) (map f l2).
Proof. induction 1; simpl; [constructor | apply sub_skip | apply sub_take]; auto. Qed.

Theorem queue_order h : forall q,
  subseq (map q_value (q_items (fst (q_run q h)))) (map q_value (q_items q) ++ pushed h).
Proof.
  induction h as [|o h IH]; intros q.
  - simpl. rewrite app_nil_r. apply subseq_refl.
  - simpl. destruct (q_step q o) as [q1 x] eqn:E. specialize (IH q1).
    destruct (q_run q1 h) as [q2 xs]. simpl in *.
    eapply subseq_trans; [|exact IH]. clear IH.
    destruct o; simpl in E; inversion E; subst; simpl.
    + rewrite map_app, <- app_assoc. simpl. apply subseq_refl.
    + apply subseq_refl.
    + apply subseq_refl.
    + apply subseq_app; [|apply subseq_refl]. apply map_subseq. rewrite fold_remove. apply filter_subseq.
Qed.

Corollary queue_order_new cap h :
  subseq (map q_value (q_items (fst (q_run (q_new cap) h)))) (pushed h).
Proof. exact (queue_order h (q_new cap)). Qed.

Example queue_ex :
  let h := [QPush 10; QPush 11; QPush 12; QLength; QIsFull; QIter (pred_of 2) 2; QPush 13; QIsFull;
            QIter (pred_of 1) 0; QIter (pred_of (-11)) (-1); QLength] in
  snd (q_run (q_new 3) h) =
    [QNone; QNone; QNone; QInt 3; QBool true; QList [10; 11]; QNone; QBool true;
     QList []; QList [11; 12; 13]; QInt 2] /\
  map q_value (q_items (fst (q_run (q_new 3) h))) = [12; 13].
Proof. vm_compute. auto. Qed.
