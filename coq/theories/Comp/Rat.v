(* H model of /repo/proc/comp/rat.go : the generic ring "register allocation
   table" RAT[K, V], as the code is NOW (Find examines each slot; slots that
   were never written are skipped through the `wrapped` map).

   Go                                   model
   --------------------------------     ------------------------------------
   length int                           r_len : Z
   values map[K][]V, idx map[K]int,     r_tab : association list K -> entry
   wrapped map[K]bool                     entry = (e_vals, e_idx, e_wrapped)
   K                                    Z  (risc.RegisterType in its only use)
   var zero V                           the section variable `zero`

   The three Go maps always have the same key set except `wrapped`, whose
   missing keys read as false: one association list of triples is the same
   thing.  A key is "in r.idx" iff it is in r_tab.  Keys are never deleted.

   The two scanning loops of Find / FindValues
        for i := idx; i >= 0; i--            and
        for i := r.length - 1; i > idx; i--
   are the index lists  rev (seq 0 (S idx))  and  rev (seq (S idx) (length - S idx)).
   Slots are read with `nth i vals zero`; Comp/RatProofs.v (ring_ok) shows that
   every index used is in range for every reachable table with length >= 1, so
   the default is never taken.  With length <= 0 Go panics in Write (index out
   of range on the empty slice / make with a negative size / modulo by zero):
   rat_write_o returns Panic.

   Go map iteration (Values / FindValues build a fresh map which the caller
   ranges over) is not modelled here: rat_values / rat_findvalues return
   association lists and the callers in Comp/Tx.v take the iteration order as
   an explicit argument (iter_order). *)
From Coq Require Import ZArith List Bool Arith.
From Maj Require Import Base.Outcome.
Import ListNotations.

(* ---------- Go maps keyed by an integer type: association lists ---------- *)
Section AMap.
  Context {A : Type}.
  Fixpoint aget (k : Z) (m : list (Z * A)) : option A :=
    match m with
    | [] => None
    | (k', a) :: t => if Z.eqb k k' then Some a else aget k t
    end.
  (* m[k] = a : replaces in place, appends a new key at the end *)
  Fixpoint aset (k : Z) (a : A) (m : list (Z * A)) : list (Z * A) :=
    match m with
    | [] => [(k, a)]
    | (k', a') :: t => if Z.eqb k k' then (k, a) :: t else (k', a') :: aset k a t
    end.
  Definition akeys (m : list (Z * A)) : list Z := map fst m.
End AMap.

Definition memZ (k : Z) (l : list Z) : bool := existsb (Z.eqb k) l.

(* The order in which a Go `range` visits the keys `keys` of a map.  Go leaves
   it unspecified; the model takes a `hint` (any list) and visits first the keys
   named by the hint, in the hint's order, then the remaining keys.  Every
   permutation p of the keys is obtained with hint = p (iter_order_any in
   Comp/RatProofs.v) and every hint gives a permutation (iter_order_perm). *)
Definition iter_order (hint keys : list Z) : list Z :=
  nodup Z.eq_dec (filter (fun k => memZ k keys) hint) ++ filter (fun k => negb (memZ k hint)) keys.

Section Rat.
  Context {V : Type}.
  Variable zero : V.

  Record entry := mkEntry { e_vals : list V; e_idx : nat; e_wrapped : bool }.
  Record rat := mkRat { r_len : Z; r_tab : list (Z * entry) }.

  (* NewRAT(length) *)
  Definition rat_new (len : Z) : rat := mkRat len [].

  Definition slot (e : entry) (i : nat) : V := nth i (e_vals e) zero.

  (* Read: r.values[k][r.idx[k]] *)
  Definition rat_read (r : rat) (k : Z) : option V :=
    match aget k (r_tab r) with
    | None => None
    | Some e => Some (slot e (e_idx e))
    end.

  (* first slot, in the given order of indices, whose value satisfies pred *)
  Fixpoint first_at (e : entry) (pred : V -> bool) (is : list nat) : option V :=
    match is with
    | [] => None
    | i :: t => if pred (slot e i) then Some (slot e i) else first_at e pred t
    end.

  (* the body shared by Find and FindValues for one key *)
  Definition e_find (len : nat) (e : entry) (pred : V -> bool) : option V :=
    match first_at e pred (rev (seq 0 (S (e_idx e)))) with
    | Some v => Some v
    | None =>
        if e_wrapped e
        then first_at e pred (rev (seq (S (e_idx e)) (len - S (e_idx e))))
        else None
    end.

  Definition rat_find (r : rat) (k : Z) (pred : V -> bool) : option V :=
    match aget k (r_tab r) with
    | None => None
    | Some e => e_find (Z.to_nat (r_len r)) e pred
    end.

  (* l[i] = v *)
  Fixpoint set_nth (i : nat) (v : V) (l : list V) : list V :=
    match l, i with
    | [], _ => []
    | _ :: t, O => v :: t
    | x :: t, S j => x :: set_nth j v t
    end.

  (* Write, for length >= 1 *)
  Definition rat_write (r : rat) (k : Z) (v : V) : rat :=
    let n := Z.to_nat (r_len r) in
    match aget k (r_tab r) with
    | None =>
        mkRat (r_len r) (aset k (mkEntry (set_nth 0 v (repeat zero n)) 0 false) (r_tab r))
    | Some e =>
        let i := (S (e_idx e)) mod n in
        mkRat (r_len r)
              (aset k (mkEntry (set_nth i v (e_vals e)) i (e_wrapped e || (i =? 0)%nat)) (r_tab r))
    end.

  (* Write as Go runs it: panics when the table was built with length <= 0 *)
  Definition rat_write_o (r : rat) (k : Z) (v : V) : outcome rat :=
    if (r_len r <=? 0)%Z then Panic else Ok (rat_write r k v).

  (* Values(): k -> r.values[k][r.idx[k]] *)
  Definition rat_values (r : rat) : list (Z * V) :=
    map (fun ke => (fst ke, slot (snd ke) (e_idx (snd ke)))) (r_tab r).

  (* FindValues(pred): k -> newest slot of k satisfying pred, keys without one are absent *)
  Definition rat_findvalues (r : rat) (pred : V -> bool) : list (Z * V) :=
    flat_map (fun ke => match e_find (Z.to_nat (r_len r)) (snd ke) pred with
                        | Some v => [(fst ke, v)]
                        | None => []
                        end) (r_tab r).
End Rat.

Arguments mkEntry {V}.
Arguments mkRat {V}.
Arguments rat_new {V}.
