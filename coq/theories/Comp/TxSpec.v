(* S of C15: what "commits and rolls back by program order" means, without
   looking at the Go code.

   A tagged write is (tag, value); the tag is the sequence id = program order.
   For a history h and a register r,  pend h r  is the list of tagged writes to
   r since the last commit / rollback of h, NEWEST ARRIVAL FIRST (each write is
   consed on).  `youngest P l` is the write of l with the greatest tag among
   those whose tag satisfies P (on equal tags: the later arrival).

   The usage contracts of the property are boolean predicates over the history:
     tags_increasing h : every write to r carries a tag strictly greater than the
                         tags of the writes to r that are still uncommitted
     within_slots n h  : no register ever has more than n uncommitted writes *)
From Coq Require Import ZArith List Bool Lia.
From Maj Require Import Comp.Rat Comp.Tx.
Import ListNotations.
Open Scope Z_scope.

Fixpoint youngest (P : Z -> bool) (l : list tu) : option tu :=
  match l with
  | [] => None
  | u :: t =>
      if P (fst u)
      then match youngest P t with
           | Some u' => if fst u' <=? fst u then Some u else Some u'
           | None => Some u
           end
      else youngest P t
  end.

Definition all_tags (_ : Z) : bool := true.
Definition older_than (s : Z) (t : Z) : bool := t <? s.
Definition not_younger_than (s : Z) (t : Z) : bool := t <=? s.

(* value of an optional tagged write, with a fallback *)
Definition value_or (o : option tu) (d : Z) : Z :=
  match o with Some u => snd u | None => d end.

(* what an operation means for the lists of uncommitted writes *)
Inductive okind := KWrite (r v s : Z) | KReset | KOther.

Section Hist.
  Context {op : Type}.
  Variable kind : op -> okind.

  Definition pstep (p : Z -> list tu) (o : op) : Z -> list tu :=
    match kind o with
    | KWrite r v s => fun k => if k =? r then (s, v) :: p r else p k
    | KReset => fun _ => []
    | KOther => p
    end.

  Definition pend_from (p : Z -> list tu) (h : list op) : Z -> list tu := fold_left pstep h p.
  Definition pend (h : list op) : Z -> list tu := pend_from (fun _ => []) h.

  (* chk (uncommitted writes to r so far) (tag of the new write) at every write *)
  Fixpoint hist_ok (chk : list tu -> Z -> bool) (p : Z -> list tu) (h : list op) : bool :=
    match h with
    | [] => true
    | o :: t =>
        (match kind o with KWrite r _ s => chk (p r) s | _ => true end)
        && hist_ok chk (pstep p o) t
    end.

  Definition tags_increasing (h : list op) : bool :=
    hist_ok (fun l s => forallb (fun u => fst u <? s) l) (fun _ => []) h.

  Definition within_slots (n : nat) (h : list op) : bool :=
    hist_ok (fun l _ => (length l <? n)%nat) (fun _ => []) h.
End Hist.

Definition mkind (o : mop) : okind :=
  match o with
  | MTxWrite r v s => KWrite r v s
  | MCommit _ | MRollback _ _ => KReset
  | _ => KOther
  end.

Definition rkind (o : rop) : okind :=
  match o with
  | RWrite r v s => KWrite r v s
  | RCommit _ | RRollback _ _ => KReset
  | _ => KOther
  end.

(* tags strictly decreasing along a newest-first list = arrival in tag order *)
Fixpoint desc (l : list tu) : Prop :=
  match l with
  | [] => True
  | u :: t => Forall (fun u' => fst u' < fst u) t /\ desc t
  end.
