(* S: reference model of the generic key-value LRU (C13): one association
   list ordered by recency, LEAST recently used first, no repeated key.
   A use (Get hit, Find hit, Put) moves the entry to the end; Put of a new key
   into a full cache drops the head. *)
From Coq Require Import ZArith List Bool.
From Maj Require Import Comp.Lru.
Import ListNotations.
Open Scope Z_scope.

Record slru := mkSl { sl_cap : Z; sl_items : list (Z * Z) }.

Definition sl_new (capacity : Z) : slru := mkSl capacity [].

Definition sl_refresh (s : slru) (k v : Z) : slru :=
  mkSl (sl_cap s) (m_remove k (sl_items s) ++ [(k, v)]).

Definition sl_step (s : slru) (o : lop) : slru * lout :=
  match o with
  | LGet k =>
    match m_get k (sl_items s) with
    | Some v => (sl_refresh s k v, LVal (Some v))
    | None => (s, LVal None)
    end
  | LFind ks =>
    match find (fun kv => contains ks (fst kv)) (sl_items s) with
    | Some (k, v) => (sl_refresh s k v, LKey (Some k))
    | None => (s, LKey None)
    end
  | LPut k v =>
    let s1 := match m_get k (sl_items s) with
              | None => if Z.of_nat (length (sl_items s)) =? sl_cap s
                        then mkSl (sl_cap s) (tl (sl_items s)) else s
              | Some _ => s
              end in
    (sl_refresh s1 k v, LUnit)
  end.

Fixpoint sl_run (s : slru) (ops : list lop) : slru * list lout :=
  match ops with
  | [] => (s, [])
  | o :: t =>
    let '(s1, r) := sl_step s o in
    let '(s2, rs) := sl_run s1 t in
    (s2, r :: rs)
  end.
