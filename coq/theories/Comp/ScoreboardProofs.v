(* The stored scoreboard counters equal the counts derived from the set of
   in-flight instructions (with multiplicity), for every history of
   add / delete / flush, and the hazard queries mean what they should. *)
From Coq Require Import ZArith List Bool Lia.
From Maj Require Import Comp.Scoreboard.
Import ListNotations.
Open Scope Z_scope.

Fixpoint occ (r : Z) (l : list Z) : Z :=
  match l with
  | [] => 0
  | x :: t => (if (x =? r) && negb (r =? 0) then 1 else 0) + occ r t
  end.

Definition cnt_w (fl : inflight) (r : Z) : Z := fold_right (fun i acc => occ r (snd i) + acc) 0 fl.
Definition cnt_r (fl : inflight) (r : Z) : Z := fold_right (fun i acc => occ r (fst i) + acc) 0 fl.

Lemma occ_nonneg r l : 0 <= occ r l.
Proof. induction l as [|x t IH]; simpl; [lia|]. destruct ((x =? r) && negb (r =? 0)); lia. Qed.

Lemma occ_zero l : occ 0 l = 0.
Proof. induction l as [|x t IH]; simpl; [reflexivity|]. rewrite andb_false_r. lia. Qed.

Lemma occ_cons x r t : occ r (x :: t) = (if (x =? r) && negb (r =? 0) then 1 else 0) + occ r t.
Proof. reflexivity. Qed.

Lemma occ_head x r : (if (x =? r) && negb (r =? 0) then 1 else 0) = (if (x =? r) then (if r =? 0 then 0 else 1) else 0).
Proof. destruct (x =? r); destruct (r =? 0); reflexivity. Qed.

Lemma incr_all_spec rs : forall f x, incr_all f rs x = f x + occ x rs.
Proof.
  induction rs as [|r t IH]; intros f x; cbn [incr_all]; [cbn [occ]; lia|].
  rewrite occ_cons, occ_head.
  destruct (Z.eqb_spec r 0) as [Hr|Hr].
  - rewrite IH. subst r. destruct (Z.eqb_spec 0 x) as [Hx|Hx]; [subst x; rewrite Z.eqb_refl|]; lia.
  - rewrite IH. unfold upd. destruct (Z.eqb_spec x r) as [Hx|Hx].
    + subst x. rewrite Z.eqb_refl. replace (r =? 0) with false by (symmetry; apply Z.eqb_neq; assumption). lia.
    + replace (r =? x) with false by (symmetry; apply Z.eqb_neq; congruence). lia.
Qed.

Lemma decr_all_spec rs : forall f x,
  (forall y, occ y rs <= f y) -> decr_all f rs x = f x - occ x rs.
Proof.
  induction rs as [|r t IH]; intros f x H; cbn [decr_all]; [cbn [occ]; lia|].
  rewrite occ_cons, occ_head.
  destruct (Z.eqb_spec r 0) as [Hr|Hr].
  - subst r. rewrite IH.
    + destruct (Z.eqb_spec 0 x) as [Hx|Hx]; [subst x; rewrite Z.eqb_refl|]; lia.
    + intros y. specialize (H y). rewrite occ_cons, occ_head in H.
      destruct (Z.eqb_spec 0 y) as [Hy|Hy]; [subst y; rewrite Z.eqb_refl in H|]; lia.
  - assert (Hfr : 1 + occ r t <= f r).
    { specialize (H r). rewrite occ_cons, occ_head, Z.eqb_refl in H.
      replace (r =? 0) with false in H by (symmetry; apply Z.eqb_neq; assumption). lia. }
    pose proof (occ_nonneg r t).
    assert (E : (if f r - 1 <=? 0 then 0 else f r - 1) = f r - 1).
    { destruct (Z.leb_spec (f r - 1) 0); lia. }
    rewrite E. rewrite IH.
    + unfold upd. destruct (Z.eqb_spec x r) as [Hx|Hx].
      * subst x. rewrite Z.eqb_refl. replace (r =? 0) with false by (symmetry; apply Z.eqb_neq; assumption). lia.
      * replace (r =? x) with false by (symmetry; apply Z.eqb_neq; congruence). lia.
    + intros y. unfold upd. specialize (H y). rewrite occ_cons, occ_head in H.
      destruct (Z.eqb_spec y r) as [Hy|Hy].
      * subst y. lia.
      * replace (r =? y) with false in H by (symmetry; apply Z.eqb_neq; congruence). lia.
Qed.

Lemma cnt_app_w fl i r : cnt_w (fl ++ [i]) r = cnt_w fl r + occ r (snd i).
Proof. unfold cnt_w. induction fl as [|h t IH]; simpl; [lia|]. rewrite IH. lia. Qed.
Lemma cnt_app_r fl i r : cnt_r (fl ++ [i]) r = cnt_r fl r + occ r (fst i).
Proof. unfold cnt_r. induction fl as [|h t IH]; simpl; [lia|]. rewrite IH. lia. Qed.

Lemma cnt_remove_w fl : forall k i r, nth_error fl k = Some i -> cnt_w (remove_nth fl k) r = cnt_w fl r - occ r (snd i).
Proof.
  induction fl as [|h t IH]; intros k i r H; [destruct k; discriminate|].
  destruct k; simpl in *.
  - injection H as <-. unfold cnt_w. simpl. lia.
  - specialize (IH k i r H). unfold cnt_w in *. simpl. lia.
Qed.
Lemma cnt_remove_r fl : forall k i r, nth_error fl k = Some i -> cnt_r (remove_nth fl k) r = cnt_r fl r - occ r (fst i).
Proof.
  induction fl as [|h t IH]; intros k i r H; [destruct k; discriminate|].
  destruct k; simpl in *.
  - injection H as <-. unfold cnt_r. simpl. lia.
  - specialize (IH k i r H). unfold cnt_r in *. simpl. lia.
Qed.

Lemma cnt_ge_member_w fl : forall k i r, nth_error fl k = Some i -> occ r (snd i) <= cnt_w fl r.
Proof.
  induction fl as [|h t IH]; intros k i r H; [destruct k; discriminate|].
  destruct k; simpl in *.
  - injection H as <-. unfold cnt_w. simpl.
    assert (0 <= fold_right (fun i0 acc => occ r (snd i0) + acc) 0 t).
    { clear. induction t; simpl; [lia|]. pose proof (occ_nonneg r (snd a)). lia. }
    lia.
  - specialize (IH k i r H). unfold cnt_w in *. simpl. pose proof (occ_nonneg r (snd h)). lia.
Qed.
Lemma cnt_ge_member_r fl : forall k i r, nth_error fl k = Some i -> occ r (fst i) <= cnt_r fl r.
Proof.
  induction fl as [|h t IH]; intros k i r H; [destruct k; discriminate|].
  destruct k; simpl in *.
  - injection H as <-. unfold cnt_r. simpl.
    assert (0 <= fold_right (fun i0 acc => occ r (fst i0) + acc) 0 t).
    { clear. induction t; simpl; [lia|]. pose proof (occ_nonneg r (fst a)). lia. }
    lia.
  - specialize (IH k i r H). unfold cnt_r in *. simpl. pose proof (occ_nonneg r (fst h)). lia.
Qed.

Definition counts_ok (st : sb * inflight) : Prop :=
  forall r, pw (fst st) r = cnt_w (snd st) r /\ pr (fst st) r = cnt_r (snd st) r.

Lemma step_counts st o : counts_ok st -> counts_ok (step st o).
Proof.
  destruct st as [s fl]. intros H. destruct o as [rs ws|k|]; cbn [step].
  - intros r. cbn [fst snd add_pending pw pr]. rewrite !incr_all_spec, cnt_app_w, cnt_app_r.
    destruct (H r) as [H1 H2]. cbn [fst snd] in *. lia.
  - destruct (nth_error fl k) as [[rs ws]|] eqn:E; [|exact H].
    intros r. cbn [fst snd delete_pending pw pr].
    rewrite decr_all_spec, decr_all_spec.
    + rewrite (cnt_remove_w fl k (rs, ws) r E), (cnt_remove_r fl k (rs, ws) r E).
      destruct (H r) as [H1 H2]. cbn [fst snd] in *. lia.
    + intros y. destruct (H y) as [_ H2]. cbn [fst snd] in H2. rewrite H2.
      apply (cnt_ge_member_r fl k (rs, ws) y E).
    + intros y. destruct (H y) as [H1 _]. cbn [fst snd] in H1. rewrite H1.
      apply (cnt_ge_member_w fl k (rs, ws) y E).
  - intros r. cbn. split; reflexivity.
Qed.

(* C04: stored counters = counters derived from the in-flight set, every history *)
Theorem scoreboard_counts ops : counts_ok (run ops).
Proof.
  unfold run. assert (G : forall st, counts_ok st -> counts_ok (fold_left step ops st)).
  { induction ops as [|o t IH]; intros st H; cbn [fold_left]; [exact H|]. apply IH. apply step_counts. exact H. }
  apply G. intros r. split; reflexivity.
Qed.

(* nothing in flight <-> all counters are zero (what ctx.Flush and a drained pipeline give) *)
Theorem scoreboard_drained ops : snd (run ops) = [] -> forall r, pw (fst (run ops)) r = 0 /\ pr (fst (run ops)) r = 0.
Proof.
  intros E r. destruct (scoreboard_counts ops r) as [H1 H2]. rewrite E in *. split; assumption.
Qed.

Lemma occ_pos_in r l : 0 < occ r l <-> In r l /\ r <> 0.
Proof.
  induction l as [|x t IH]; [cbn [occ In]; split; [lia | tauto]|].
  rewrite occ_cons, occ_head. cbn [In].
  pose proof (occ_nonneg r t) as Hn.
  destruct (Z.eqb_spec x r) as [Hx|Hx]; destruct (Z.eqb_spec r 0) as [Hr|Hr].
  - subst. rewrite occ_zero. split; [lia | tauto].
  - split; [intros _; split; [left; exact Hx | exact Hr] | intros _; lia].
  - subst. rewrite occ_zero. split; [lia | tauto].
  - rewrite Z.add_0_l, IH. split; [intros [? ?]; tauto | intros [[?|?] ?]; [congruence | tauto]].
Qed.

Lemma cnt_w_pos fl r : 0 < cnt_w fl r <-> exists i, In i fl /\ In r (snd i) /\ r <> 0.
Proof.
  unfold cnt_w. induction fl as [|h t IH]; simpl.
  - split; [lia | intros (i & [] & _)].
  - pose proof (occ_nonneg r (snd h)).
    assert (0 <= fold_right (fun i acc => occ r (snd i) + acc) 0 t).
    { clear. induction t; simpl; [lia|]. pose proof (occ_nonneg r (snd a)). lia. }
    split.
    + intros Hp. destruct (Z_lt_le_dec 0 (occ r (snd h))) as [Ho|Ho].
      * apply occ_pos_in in Ho. exists h. tauto.
      * assert (Ht : 0 < fold_right (fun i acc => occ r (snd i) + acc) 0 t) by lia.
        apply IH in Ht as (i & Hi & Hr). exists i. tauto.
    + intros (i & [<-|Hi] & Hr & Hz).
      * assert (0 < occ r (snd h)) by (apply occ_pos_in; tauto). lia.
      * assert (0 < fold_right (fun i acc => occ r (snd i) + acc) 0 t) by (apply IH; exists i; tauto). lia.
Qed.

Lemma cnt_r_pos fl r : 0 < cnt_r fl r <-> exists i, In i fl /\ In r (fst i) /\ r <> 0.
Proof.
  unfold cnt_r. induction fl as [|h t IH]; simpl.
  - split; [lia | intros (i & [] & _)].
  - pose proof (occ_nonneg r (fst h)).
    assert (0 <= fold_right (fun i acc => occ r (fst i) + acc) 0 t).
    { clear. induction t; simpl; [lia|]. pose proof (occ_nonneg r (fst a)). lia. }
    split.
    + intros Hp. destruct (Z_lt_le_dec 0 (occ r (fst h))) as [Ho|Ho].
      * apply occ_pos_in in Ho. exists h. tauto.
      * assert (Ht : 0 < fold_right (fun i acc => occ r (fst i) + acc) 0 t) by lia.
        apply IH in Ht as (i & Hi & Hr). exists i. tauto.
    + intros (i & [<-|Hi] & Hr & Hz).
      * assert (0 < occ r (fst h)) by (apply occ_pos_in; tauto). lia.
      * assert (0 < fold_right (fun i acc => occ r (fst i) + acc) 0 t) by (apply IH; exists i; tauto). lia.
Qed.

(* C04: IsDataHazard3 reports RAW / WAW / WAR on register r exactly when an
   in-flight instruction writes / writes / reads r (r not the zero register) *)
Theorem hazards3_meaning ops reads writes r :
  let '(s, fl) := run ops in
  (In (0, r) (hazards3 s reads writes) <-> In r reads /\ r <> 0 /\ exists i, In i fl /\ In r (snd i)) /\
  (In (1, r) (hazards3 s reads writes) <-> In r writes /\ r <> 0 /\ exists i, In i fl /\ In r (snd i)) /\
  (In (2, r) (hazards3 s reads writes) <-> In r writes /\ r <> 0 /\ exists i, In i fl /\ In r (fst i)).
Proof.
  pose proof (scoreboard_counts ops) as HC. destruct (run ops) as [s fl]. unfold counts_ok in HC. cbn [fst snd] in HC.
  assert (PW : forall x, (0 <? pw s x) = true <-> exists i, In i fl /\ In x (snd i) /\ x <> 0).
  { intros x. rewrite Z.ltb_lt. destruct (HC x) as [-> _]. apply cnt_w_pos. }
  assert (PR : forall x, (0 <? pr s x) = true <-> exists i, In i fl /\ In x (fst i) /\ x <> 0).
  { intros x. rewrite Z.ltb_lt. destruct (HC x) as [_ ->]. apply cnt_r_pos. }
  unfold hazards3. split; [|split]; rewrite in_app_iff, !in_flat_map; split.
  - intros [(x & Hx & Hin)|(x & Hx & Hin)].
    + destruct (negb (x =? 0) && (0 <? pw s x)) eqn:E; [|contradiction].
      destruct Hin as [Hin|[]]. injection Hin as <-. apply andb_true_iff in E as [E1 E2].
      apply PW in E2 as (i & Hi & Hr & Hz). split; [assumption|]. split; [assumption|]. eauto.
    + destruct (negb (x =? 0)); [|contradiction]. apply in_app_iff in Hin as [Hin|Hin];
        [destruct (0 <? pw s x) | destruct (0 <? pr s x)]; destruct Hin as [Hin|[]] || contradiction; discriminate.
  - intros (Hr & Hz & i & Hi & Hw). left. exists r. split; [assumption|].
    replace (negb (r =? 0)) with true by (symmetry; apply negb_true_iff; apply Z.eqb_neq; assumption).
    replace (0 <? pw s r) with true by (symmetry; apply PW; eauto). left. reflexivity.
  - intros [(x & Hx & Hin)|(x & Hx & Hin)].
    + destruct (negb (x =? 0) && (0 <? pw s x)); [|contradiction]. destruct Hin as [Hin|[]]. discriminate.
    + destruct (negb (x =? 0)) eqn:E0; [|contradiction]. apply in_app_iff in Hin as [Hin|Hin].
      * destruct (0 <? pw s x) eqn:E; [|contradiction]. destruct Hin as [Hin|[]]. injection Hin as <-.
        apply PW in E as (i & Hi & Hr & Hz). split; [assumption|]. split; [assumption|]. eauto.
      * destruct (0 <? pr s x); [|contradiction]. destruct Hin as [Hin|[]]. discriminate.
  - intros (Hr & Hz & i & Hi & Hw). right. exists r. split; [assumption|].
    replace (negb (r =? 0)) with true by (symmetry; apply negb_true_iff; apply Z.eqb_neq; assumption).
    apply in_app_iff. left. replace (0 <? pw s r) with true by (symmetry; apply PW; eauto). left. reflexivity.
  - intros [(x & Hx & Hin)|(x & Hx & Hin)].
    + destruct (negb (x =? 0) && (0 <? pw s x)); [|contradiction]. destruct Hin as [Hin|[]]. discriminate.
    + destruct (negb (x =? 0)) eqn:E0; [|contradiction]. apply in_app_iff in Hin as [Hin|Hin].
      * destruct (0 <? pw s x); [|contradiction]. destruct Hin as [Hin|[]]. discriminate.
      * destruct (0 <? pr s x) eqn:E; [|contradiction]. destruct Hin as [Hin|[]]. injection Hin as <-.
        apply PR in E as (i & Hi & Hr & Hz). split; [assumption|]. split; [assumption|]. eauto.
  - intros (Hr & Hz & i & Hi & Hw). right. exists r. split; [assumption|].
    replace (negb (r =? 0)) with true by (symmetry; apply negb_true_iff; apply Z.eqb_neq; assumption).
    apply in_app_iff. right. replace (0 <? pr s r) with true by (symmetry; apply PR; eauto). left. reflexivity.
Qed.

Example scoreboard_example :
  let '(s, fl) := run [Add [6; 6] [5]; Add [5; 0] [7]; Add [6] [6]; Del 0%nat] in
  (pw s 5, pw s 6, pw s 7, pr s 5, pr s 6, length fl) = (0, 1, 1, 1, 1, 2%nat).
Proof. vm_compute. reflexivity. Qed.
