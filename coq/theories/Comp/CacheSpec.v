(* S: reference model of the line cache (C13).  Written from the property, not
   from the Go code: a resident set (finite map base -> line contents) plus a
   recency list of bases, most recently used first.  Plain integer arithmetic,
   no wrap-around, total functions, no panics.

   The usage contract C of the component is a boolean predicate of the history
   evaluated on this reference state (op_ok / contract below). *)
From Coq Require Import ZArith List Bool.
From Maj Require Import Comp.Cache Comp.Lru.
Import ListNotations.
Open Scope Z_scope.

Record scache := mkS {
  s_cap : Z;                       (* capacity in lines *)
  s_len : Z;                       (* bytes per line *)
  s_map : list (Z * list Z);       (* resident set: base -> contents *)
  s_rec : list Z                   (* recency order of the resident bases, most recent first *)
}.

Definition s_new (lineLength cacheLength : Z) : scache :=
  mkS (cacheLength / lineLength) lineLength [] [].

Definition covers (L a b : Z) : bool := (b <=? a) && (a <? b + L).

(* the resident line covering address a *)
Definition s_cover (s : scache) (a : Z) : option Z := find (covers (s_len s) a) (s_rec s).

Definition s_data (s : scache) (b : Z) : list Z :=
  match m_get b (s_map s) with Some d => d | None => [] end.

Definition byte_at (d : list Z) (i : Z) : Z := nth (Z.to_nat i) d 0.

(* the byte view: Some (byte of the covering line) *)
Definition view (s : scache) (a : Z) : option Z :=
  match s_cover s a with
  | Some b => Some (byte_at (s_data s b) (a - b))
  | None => None
  end.

(* overwrite d from position i on with vs *)
Fixpoint splice (d : list Z) (i : nat) (vs : list Z) : list Z :=
  match vs with
  | [] => d
  | v :: t => splice (upd d i v) (S i) t
  end.

Definition with_rec (s : scache) (r : list Z) := mkS (s_cap s) (s_len s) (s_map s) r.
Definition with_map (s : scache) (m : list (Z * list Z)) := mkS (s_cap s) (s_len s) m (s_rec s).

(* use of a line: it becomes the most recent *)
Definition touch (s : scache) (b : Z) : scache := with_rec s (b :: remove_first b (s_rec s)).

Definition s_drop (s : scache) (b : Z) : scache :=
  mkS (s_cap s) (s_len s) (m_remove b (s_map s)) (remove_first b (s_rec s)).

Definition s_insert (s : scache) (b : Z) (d : list Z) : scache :=
  mkS (s_cap s) (s_len s) (m_set b d (s_map s)) (b :: s_rec s).

Definition over (s : scache) : bool := zlen (s_rec s) >? s_cap s.

(* least recently used resident base *)
Definition lru_base (s : scache) : Z := last (s_rec s) 0.

(* the lines GetSubCacheLine looks at: all but a line awaiting its eviction *)
Definition s_existing (s : scache) : list Z :=
  firstn (Z.to_nat (Z.min (zlen (s_rec s)) (s_cap s))) (s_rec s).

Fixpoint seq_bytes (d : list Z) (start : Z) (cnt : nat) : list Z :=
  match cnt with
  | O => []
  | S k => byte_at d start :: seq_bytes d (start + 1) k
  end.

Definition s_step (s : scache) (o : op) : scache * out :=
  match o with
  | OPush b d =>
    let s1 := s_insert s b d in
    if over s1 then
      let v := lru_base s1 in (s_drop s1 v, RData (Some (s_data s1 v)))
    else (s1, RData None)
  | OPushW b d =>
    let s1 := s_insert s b d in
    if over s1 then
      let v := lru_base s1 in (s1, RVictim (Some (mkLine v (v + s_len s) (s_data s1 v))))
    else (s1, RVictim None)
  | OGet a =>
    match s_cover s a with
    | Some b => (touch s b, RByte (Some (byte_at (s_data s b) (a - b))))
    | None => (s, RByte None)
    end
  | OLine a =>
    match s_cover s a with
    | Some b => (s, RData (Some (s_data s b)))
    | None => (s, RData None)
    end
  | OSub addrs n =>
    match find (covers (s_len s) (hd 0 addrs)) (s_existing s) with
    | Some b =>
      let small := hd 0 addrs - Z.rem (hd 0 addrs) n in
      (s, RSub (Some (small, seq_bytes (s_data s b) (small - b) (Z.to_nat n))))
    | None => (s, RSub None)
    end
  | OEvict a =>
    match s_cover s a with
    | Some b => (s_drop s b, RData (Some (s_data s b)))
    | None => (s, RData None)
    end
  | OWrite a vs =>
    match s_cover s a with
    | Some b => (with_map s (m_set b (splice (s_data s b) (Z.to_nat (a - b)) vs) (s_map s)), RUnit)
    | None => (s, RUnit)
    end
  end.

Fixpoint s_run (s : scache) (ops : list op) : scache * list out :=
  match ops with
  | [] => (s, [])
  | o :: t =>
    let '(s1, r) := s_step s o in
    let '(s2, rs) := s_run s1 t in
    (s2, r :: rs)
  end.

(* ------------------------------------------------------------------ *)
(* usage contract                                                       *)

Definition i32_min := -2147483648.
Definition i32_max := 2147483647.

(* a line [b, b+L) may be pushed: L bytes, representable range, disjoint from
   every resident line, and the cache is not waiting for an eviction *)
Definition push_ok (s : scache) (b : Z) (d : list Z) : bool :=
  (zlen d =? s_len s) && (i32_min <=? b) && (b + s_len s <=? i32_max) &&
  forallb (fun r => (b + s_len s <=? r) || (r + s_len s <=? b)) (s_rec s) &&
  negb (over s).

Definition op_ok (s : scache) (o : op) : bool :=
  match o with
  | OPush b d => push_ok s b d
  | OPushW b d => push_ok s b d
  | OGet a | OLine a | OEvict a => true
  | OSub addrs n =>
    match addrs with
    | [] => false
    | a :: _ =>
      (0 <? n) && (n <=? i32_max) &&
      match find (covers (s_len s) a) (s_existing s) with
      | Some b => (b <=? a - Z.rem a n) && (a - Z.rem a n + n <=? b + s_len s)
      | None => true
      end
    end
  | OWrite a vs =>
    match s_cover s a with
    | Some b => a + zlen vs <=? b + s_len s       (* stays inside the resident line *)
    | None => false                               (* Write on a miss panics *)
    end
  end.

Fixpoint contract (s : scache) (ops : list op) : bool :=
  match ops with
  | [] => true
  | o :: t => op_ok s o && contract (fst (s_step s o)) t
  end.

Definition geometry_ok (lineLength cacheLength : Z) : bool :=
  (0 <? lineLength) && (lineLength <=? i32_max) && (0 <=? cacheLength) &&
  (cacheLength <? 4611686018427387904) &&          (* a Go int, with room to spare *)
  (cacheLength mod lineLength =? 0).
