(* Proofs about the H model of proc/comp/bus.go (Comp/Bus.v).

   Specification: a FIFO with availability stamps.  Everything is stated for
   ALL histories (lists of operations of any length), from an arbitrary state
   satisfying the stated invariant and in particular from the state built by
   NewBufferedBus.  Usage contracts are boolean predicates over the history
   (non-decreasing cycle arguments, "Add/Revert only when CanAdd is true"),
   and each main theorem is followed by an Example showing a non-trivial
   history that satisfies its hypotheses. *)
From Coq Require Import ZArith List Bool Lia Permutation.
From Maj Require Import Comp.Bus.
Import ListNotations.
Open Scope Z_scope.

(* ------------------------------------------------------------------ *)
(* Vocabulary                                                           *)
(* ------------------------------------------------------------------ *)

Definition items (buf : list (Z * Z)) : list Z := map snd buf.

(* everything the bus holds, oldest first: visible part, then buffer *)
Definition contents (b : bbus) : list Z := queue b ++ items (buffer b).

(* read off the history *)
Fixpoint added (h : list bop) : list Z :=
  match h with [] => [] | BAdd t _ :: h' => t :: added h' | _ :: h' => added h' end.
Fixpoint reverted (h : list bop) : list Z :=
  match h with [] => [] | BRevert t _ :: h' => t :: reverted h' | _ :: h' => reverted h' end.
(* read off the outputs: what consumers received *)
Fixpoint delivered (outs : list out) : list Z :=
  match outs with [] => [] | OItem t true :: o' => t :: delivered o' | _ :: o' => delivered o' end.

Definition is_revert (o : bop) := match o with BRevert _ _ => true | _ => false end.
Definition is_pick (o : bop) := match o with BPick _ => true | _ => false end.
Definition is_drop (o : bop) := match o with BDeleteLast | BClean => true | _ => false end.
Definition no_revert (h : list bop) := forallb (fun o => negb (is_revert o)) h.
Definition no_pick (h : list bop) := forallb (fun o => negb (is_pick o)) h.
Definition no_drop (h : list bop) := forallb (fun o => negb (is_drop o)) h.

(* cycle arguments of Add / Revert / Connect are non-decreasing along the
   history, starting from lo *)
Definition op_cycle (o : bop) : option Z :=
  match o with BAdd _ c | BRevert _ c | BConnect c => Some c | _ => None end.
Fixpoint nondecr (lo : Z) (h : list bop) : bool :=
  match h with
  | [] => true
  | o :: h' => match op_cycle o with
               | Some c => (lo <=? c) && nondecr c h'
               | None => nondecr lo h'
               end
  end.
Fixpoint last_cycle (lo : Z) (h : list bop) : Z :=
  match h with
  | [] => lo
  | o :: h' => match op_cycle o with Some c => last_cycle c h' | None => last_cycle lo h' end
  end.

(* the producers' contract: Add (and Revert, which also grows the buffer)
   only when CanAdd reports room *)
Fixpoint disciplined (b : bbus) (h : list bop) : bool :=
  match h with
  | [] => true
  | o :: h' => (match o with BAdd _ _ | BRevert _ _ => b_canadd b | _ => true end)
               && disciplined (fst (b_step b o)) h'
  end.
(* the weaker contract that guards Add only *)
Fixpoint add_disciplined (b : bbus) (h : list bop) : bool :=
  match h with
  | [] => true
  | o :: h' => (match o with BAdd _ _ => b_canadd b | _ => true end)
               && add_disciplined (fst (b_step b o)) h'
  end.

(* order-preserving subsequence *)
Inductive subseq {A} : list A -> list A -> Prop :=
| sub_nil : subseq [] []
| sub_skip x l1 l2 : subseq l1 l2 -> subseq l1 (x :: l2)
| sub_take x l1 l2 : subseq l1 l2 -> subseq (x :: l1) (x :: l2).

Lemma subseq_refl {A} (l : list A) : subseq l l.
Proof. induction l; [apply sub_nil | apply sub_take; auto]. Qed.

Lemma subseq_nil_l {A} (l : list A) : subseq [] l.
Proof. induction l; [apply sub_nil | apply sub_skip; auto]. Qed.

Lemma subseq_trans {A} (l2 l3 : list A) :
  subseq l2 l3 -> forall l1, subseq l1 l2 -> subseq l1 l3.
Proof.
  induction 1; intros l0 H0.
  - exact H0.
  - apply sub_skip; auto.
  - inversion H0; subst.
    + apply sub_skip; auto.
    + apply sub_take; auto.
Qed.

Lemma subseq_app {A} (a b c d : list A) : subseq a b -> subseq c d -> subseq (a ++ c) (b ++ d).
Proof.
  induction 1; simpl; intros; auto.
  - apply sub_skip; auto.
  - apply sub_take; auto.
Qed.

Lemma subseq_app_l {A} (a b : list A) : subseq b (a ++ b).
Proof. induction a; simpl; [apply subseq_refl | apply sub_skip; auto]. Qed.

Lemma subseq_removelast {A} (l : list A) : subseq (removelast l) l.
Proof.
  induction l as [|x l IH]; [constructor|].
  destruct l; [apply sub_skip; constructor|].
  change (removelast (x :: a :: l)) with (x :: removelast (a :: l)).
  apply sub_take; exact IH.
Qed.

Lemma subseq_In {A} (l1 l2 : list A) : subseq l1 l2 -> forall x, In x l1 -> In x l2.
Proof. induction 1; simpl; intros; intuition. Qed.

Lemma subseq_NoDup {A} (l1 l2 : list A) : subseq l1 l2 -> NoDup l2 -> NoDup l1.
Proof.
  induction 1; intros N; auto.
  - inversion N; auto.
  - inversion N; subst. constructor; auto.
    intros Hin. apply H2. eapply subseq_In; eauto.
Qed.

Lemma NoDup_app_l {A} (l1 l2 : list A) : NoDup (l1 ++ l2) -> NoDup l1.
Proof.
  induction l1 as [|x l1 IH]; simpl; intros N; [constructor|].
  inversion N; subst. constructor; auto. intros Hin. apply H1. apply in_or_app. auto.
Qed.

Lemma map_removelast {A B} (f : A -> B) (l : list A) : map f (removelast l) = removelast (map f l).
Proof.
  induction l as [|x l IH]; [reflexivity|].
  destruct l; [reflexivity|].
  change (removelast (x :: a :: l)) with (x :: removelast (a :: l)).
  change (map f (x :: a :: l)) with (f x :: f a :: map f l).
  change (removelast (f x :: f a :: map f l)) with (f x :: removelast (f a :: map f l)).
  simpl map at 1. f_equal. exact IH.
Qed.

Lemma subseq_length {A} (l1 l2 : list A) : subseq l1 l2 -> (length l1 <= length l2)%nat.
Proof. induction 1; simpl; lia. Qed.

Lemma len_app {A} (l1 l2 : list A) : len (l1 ++ l2) = len l1 + len l2.
Proof. unfold len. rewrite app_length. lia. Qed.
Lemma len_nonneg {A} (l : list A) : 0 <= len l.
Proof. unfold len. lia. Qed.
Lemma len_cons {A} (x : A) l : len (x :: l) = 1 + len l.
Proof. unfold len. simpl length. lia. Qed.
Lemma len_nil {A} : len (@nil A) = 0.
Proof. reflexivity. Qed.

(* ------------------------------------------------------------------ *)
(* run is compositional                                                 *)
(* ------------------------------------------------------------------ *)

Lemma b_run_app s h1 h2 :
  b_run s (h1 ++ h2) =
  let '(s1, o1) := b_run s h1 in let '(s2, o2) := b_run s1 h2 in (s2, o1 ++ o2).
Proof.
  revert s. induction h1 as [|o h1 IH]; intros s; simpl.
  - destruct (b_run s h2); reflexivity.
  - destruct (b_step s o) as [s1 x]. rewrite IH.
    destruct (b_run s1 h1) as [s2 o1]. destruct (b_run s2 h2). reflexivity.
Qed.

Lemma b_run_cons s o h :
  b_run s (o :: h) = (fst (b_run (fst (b_step s o)) h), snd (b_step s o) :: snd (b_run (fst (b_step s o)) h)).
Proof.
  simpl. destruct (b_step s o) as [s1 x]. simpl. destruct (b_run s1 h); reflexivity.
Qed.

Lemma delivered_app o1 o2 : delivered (o1 ++ o2) = delivered o1 ++ delivered o2.
Proof.
  induction o1 as [|x o1 IH]; simpl; auto.
  destruct x; auto. destruct found; simpl; rewrite IH; auto.
Qed.
Lemma added_app h1 h2 : added (h1 ++ h2) = added h1 ++ added h2.
Proof. induction h1 as [|o h1 IH]; simpl; auto. destruct o; simpl; rewrite ?IH; auto. Qed.
Lemma reverted_app h1 h2 : reverted (h1 ++ h2) = reverted h1 ++ reverted h2.
Proof. induction h1 as [|o h1 IH]; simpl; auto. destruct o; simpl; rewrite ?IH; auto. Qed.

(* ------------------------------------------------------------------ *)
(* Connect and Pick, locally                                            *)
(* ------------------------------------------------------------------ *)

(* Connect moves a prefix of the buffer to the back of the queue, nothing else *)
Lemma connect_loop_spec ql c buf : forall q q' buf',
  connect_loop ql c q buf = (q', buf') ->
  exists moved, buf = moved ++ buf' /\ q' = q ++ items moved /\
                (forall a t, In (a, t) moved -> a <= c).
Proof.
  induction buf as [|[a t] buf IH]; intros q q' buf' H; simpl in H.
  - inversion H; subst. exists []. simpl. rewrite app_nil_r. intuition.
  - destruct (len q =? ql).
    { inversion H; subst. exists []. simpl. rewrite app_nil_r. intuition. }
    destruct (a >? c) eqn:E.
    { inversion H; subst. exists []. simpl. rewrite app_nil_r. intuition. }
    apply IH in H. destruct H as (m & Hb & Hq & Hm).
    exists ((a, t) :: m). subst. simpl. rewrite <- app_assoc. simpl. repeat split; auto.
    intros a0 t0 [Heq|Hin]; [inversion Heq; subst; lia | eauto].
Qed.

Lemma connect_spec b c :
  exists moved, buffer b = moved ++ buffer (b_connect b c) /\
                queue (b_connect b c) = queue b ++ items moved /\
                (forall a t, In (a, t) moved -> a <= c) /\
                queueLength (b_connect b c) = queueLength b /\
                bufferLength (b_connect b c) = bufferLength b.
Proof.
  unfold b_connect. destruct (len (queue b) =? queueLength b).
  - exists []. simpl. rewrite app_nil_r. intuition.
  - destruct (connect_loop (queueLength b) c (queue b) (buffer b)) as [q buf] eqn:E.
    apply connect_loop_spec in E. destruct E as (m & Hb & Hq & Hm).
    exists m. simpl. intuition.
Qed.

Lemma connect_contents b c : contents (b_connect b c) = contents b.
Proof.
  destruct (connect_spec b c) as (m & Hb & Hq & _).
  unfold contents. rewrite Hq. remember (buffer (b_connect b c)) as rest. rewrite Hb.
  unfold items. rewrite map_app, app_assoc. reflexivity.
Qed.

(* Pick p delivers the FIRST queued item satisfying p; the others keep their
   relative order; when none satisfies p nothing changes *)
Lemma pick_first_some p q q' t :
  pick_first p q = (q', Some t) ->
  exists q1 q2, q = q1 ++ t :: q2 /\ q' = q1 ++ q2 /\
                forallb (fun x => negb (p x)) q1 = true /\ p t = true.
Proof.
  revert q'. induction q as [|x q IH]; intros q' H; simpl in H; [discriminate|].
  destruct (p x) eqn:E.
  - inversion H; subst. exists [], q'. simpl. auto.
  - destruct (pick_first p q) as [r y]. inversion H; subst.
    destruct (IH r eq_refl) as (q1 & q2 & -> & -> & Hn & Hp).
    exists (x :: q1), q2. simpl. rewrite E. simpl. auto.
Qed.

Lemma pick_first_none p q q' :
  pick_first p q = (q', None) -> q' = q /\ forallb (fun x => negb (p x)) q = true.
Proof.
  revert q'. induction q as [|x q IH]; intros q' H; simpl in H.
  - inversion H; auto.
  - destruct (p x) eqn:E; [discriminate|].
    destruct (pick_first p q) as [r y]. inversion H; subst.
    destruct (IH r eq_refl) as [-> Hn]. simpl. rewrite E. auto.
Qed.

Theorem pick_delivers_first b p :
  (exists q1 t q2, queue b = q1 ++ t :: q2 /\
     forallb (fun x => negb (p x)) q1 = true /\ p t = true /\
     b_pick b p = (mkB (buffer b) (q1 ++ q2) (queueLength b) (bufferLength b), (t, true)))
  \/ (forallb (fun x => negb (p x)) (queue b) = true /\ snd (b_pick b p) = (0, false) /\
      queue (fst (b_pick b p)) = queue b /\ buffer (fst (b_pick b p)) = buffer b).
Proof.
  unfold b_pick. destruct (queue b) as [|x q] eqn:Q.
  - right. simpl. rewrite Q. auto.
  - rewrite <- Q. destruct (pick_first p (queue b)) as [q' [t|]] eqn:E.
    + left. apply pick_first_some in E. destruct E as (q1 & q2 & Hq & -> & Hn & Hp).
      exists q1, t, q2. auto.
    + right. apply pick_first_none in E. destruct E as [-> Hn]. simpl. auto.
Qed.

(* ------------------------------------------------------------------ *)
(* Conservation: nothing invented, nothing duplicated, nothing lost       *)
(* except by DeleteLast / Clean                                          *)
(* ------------------------------------------------------------------ *)

(* what an operation throws away *)
Definition drops (b : bbus) (o : bop) : list Z :=
  match o with
  | BClean => contents b
  | BDeleteLast => match buffer b with [] => [] | _ => [snd (last (buffer b) (0, 0))] end
  | _ => []
  end.
Fixpoint dropped (b : bbus) (h : list bop) : list Z :=
  match h with [] => [] | o :: h' => drops b o ++ dropped (fst (b_step b o)) h' end.

Lemma no_drop_dropped h : forall b, no_drop h = true -> dropped b h = [].
Proof.
  induction h as [|o h IH]; intros b H; simpl in *; auto.
  apply andb_prop in H. destruct H as [H1 H2]. rewrite IH by auto.
  destruct o; simpl in *; auto; discriminate.
Qed.

Notation cnt := (count_occ Z.eq_dec).

Lemma cnt_app l1 l2 x : cnt (l1 ++ l2) x = (cnt l1 x + cnt l2 x)%nat.
Proof. apply count_occ_app. Qed.

Lemma deletelast_contents b :
  buffer b <> [] ->
  contents b = contents (b_deletelast b) ++ [snd (last (buffer b) (0, 0))].
Proof.
  intros H. unfold b_deletelast, contents. destruct (buffer b) eqn:E; [congruence|].
  rewrite <- E in *. simpl.
  rewrite (app_removelast_last (0, 0) H) at 1.
  unfold items. rewrite map_app, app_assoc. reflexivity.
Qed.

Lemma step_count b o x :
  (cnt (contents b) x + cnt (added [o]) x + cnt (reverted [o]) x =
   cnt (delivered [snd (b_step b o)]) x + cnt (contents (fst (b_step b o))) x + cnt (drops b o) x)%nat.
Proof.
  destruct o; simpl added; simpl reverted; simpl drops.
  - (* Add *) simpl. unfold contents, b_add; simpl. unfold items. rewrite map_app. simpl.
    rewrite !cnt_app. simpl. destruct (Z.eq_dec t x); lia.
  - (* Revert *) simpl. unfold contents, b_revert; simpl. rewrite !cnt_app. simpl.
    destruct (Z.eq_dec t x); lia.
  - (* DeleteLast *)
    destruct (buffer b) eqn:E.
    + unfold b_step, b_deletelast. rewrite E. simpl. lia.
    + rewrite <- E. assert (H : buffer b <> []) by (rewrite E; discriminate).
      rewrite (deletelast_contents b H) at 1. simpl b_step. simpl fst. simpl snd.
      rewrite cnt_app. simpl. lia.
  - (* Get *) unfold b_step, b_get. destruct (queue b) eqn:E; simpl.
    + lia.
    + unfold contents. simpl. rewrite E. simpl. destruct (Z.eq_dec z x); lia.
  - (* Pick *)
    destruct (pick_delivers_first b p) as [(q1 & t & q2 & Hq & _ & _ & Hp) | (_ & Hr & Hq & Hb)].
    + unfold b_step. rewrite Hp. simpl. unfold contents. simpl. rewrite Hq.
      rewrite !cnt_app. simpl. rewrite ?cnt_app. destruct (Z.eq_dec t x); lia.
    + unfold b_step. destruct (b_pick b p) as [b' [t e]]. simpl in *. inversion Hr; subst.
      simpl. unfold contents. rewrite Hq, Hb. lia.
  - (* Exists *) simpl. lia.
  - (* Connect *) simpl. rewrite connect_contents. lia.
  - (* Clean *) simpl. change (contents (b_clean b)) with (@nil Z). simpl. lia.
Qed.

Lemma conservation_count h : forall b x,
  (cnt (contents b) x + cnt (added h) x + cnt (reverted h) x =
   cnt (delivered (snd (b_run b h))) x + cnt (contents (fst (b_run b h))) x + cnt (dropped b h) x)%nat.
Proof.
  induction h as [|o h IH]; intros b x.
  - simpl. lia.
  - rewrite b_run_cons. simpl fst. simpl snd.
    pose proof (step_count b o x) as S. pose proof (IH (fst (b_step b o)) x) as I.
    change (o :: h) with ([o] ++ h). rewrite added_app, reverted_app, !cnt_app.
    change (snd (b_step b o) :: snd (b_run (fst (b_step b o)) h))
      with ([snd (b_step b o)] ++ snd (b_run (fst (b_step b o)) h)).
    rewrite delivered_app, cnt_app. simpl dropped. rewrite cnt_app. lia.
Qed.

(* EXACTLY ONCE / NOTHING INVENTED (all operations, all histories, any start
   state): as multisets,
      held at the start + added + reverted
        = delivered + still held + thrown away by DeleteLast/Clean *)
Theorem conservation b h :
  Permutation (contents b ++ added h ++ reverted h)
              (delivered (snd (b_run b h)) ++ contents (fst (b_run b h)) ++ dropped b h).
Proof.
  apply (Permutation_count_occ Z.eq_dec). intros x. rewrite !cnt_app.
  pose proof (conservation_count h b x). lia.
Qed.

Corollary conservation_new ql bl h :
  Permutation (added h ++ reverted h)
              (delivered (snd (b_run (b_new ql bl) h)) ++ contents (fst (b_run (b_new ql bl) h))
               ++ dropped (b_new ql bl) h).
Proof. exact (conservation (b_new ql bl) h). Qed.

(* every delivered item was put on the bus, and no more often than it was put *)
Corollary delivered_le_added b h x :
  (cnt (delivered (snd (b_run b h))) x <= cnt (contents b ++ added h ++ reverted h) x)%nat.
Proof. rewrite !cnt_app. pose proof (conservation_count h b x). lia. Qed.

Corollary delivered_in b h x :
  In x (delivered (snd (b_run b h))) -> In x (contents b ++ added h ++ reverted h).
Proof.
  intros H. apply (count_occ_In Z.eq_dec) in H. apply (count_occ_In Z.eq_dec).
  pose proof (delivered_le_added b h x). lia.
Qed.

(* distinct items in => nothing is delivered twice, nothing delivered is still held *)
Corollary exactly_once ql bl h :
  NoDup (added h ++ reverted h) ->
  NoDup (delivered (snd (b_run (b_new ql bl) h)) ++ contents (fst (b_run (b_new ql bl) h))).
Proof.
  intros N. pose proof (conservation_new ql bl h) as P.
  eapply Permutation_NoDup in N; [|exact P].
  rewrite app_assoc in N. apply NoDup_app_l in N. exact N.
Qed.

(* without DeleteLast / Clean nothing is lost *)
Corollary nothing_lost ql bl h :
  no_drop h = true ->
  Permutation (added h ++ reverted h)
              (delivered (snd (b_run (b_new ql bl) h)) ++ contents (fst (b_run (b_new ql bl) h))).
Proof.
  intros H. pose proof (conservation_new ql bl h) as P.
  rewrite (no_drop_dropped h _ H), app_nil_r in P. exact P.
Qed.

(* ------------------------------------------------------------------ *)
(* Order                                                                 *)
(* ------------------------------------------------------------------ *)

(* IN ORDER (Get as the only consumer, no Revert): what has been delivered,
   followed by what is still held, is the sequence of added items, in insertion
   order, minus what DeleteLast/Clean removed; it IS the sequence of added
   items when those are not used.  In particular the delivered items are a
   prefix of it: each Get returns the oldest item not yet delivered. *)
Theorem fifo_order_gen h : forall b,
  no_revert h = true -> no_pick h = true ->
  subseq (delivered (snd (b_run b h)) ++ contents (fst (b_run b h))) (contents b ++ added h) /\
  (no_drop h = true ->
   delivered (snd (b_run b h)) ++ contents (fst (b_run b h)) = contents b ++ added h).
Proof.
  induction h as [|o h IH]; intros b NR NP.
  - simpl. rewrite app_nil_r. split; [apply subseq_refl | reflexivity].
  - simpl in NR, NP. apply andb_prop in NR. destruct NR as [NR1 NR]. apply andb_prop in NP. destruct NP as [NP1 NP].
    rewrite b_run_cons. simpl fst. simpl snd.
    specialize (IH (fst (b_step b o)) NR NP). destruct IH as [IH1 IH2].
    destruct o; try discriminate; simpl added; simpl no_drop.
    + (* Add *) simpl in *.
      assert (E : contents (b_add b t c) = contents b ++ [t]).
      { unfold contents, b_add; simpl. unfold items. rewrite map_app, app_assoc. reflexivity. }
      rewrite E in *. rewrite <- app_assoc in IH1, IH2. simpl in IH1, IH2. auto.
    + (* DeleteLast *) simpl snd. simpl delivered. split; [|discriminate].
      eapply subseq_trans; [|exact IH1]. apply subseq_app; [|apply subseq_refl].
      simpl. unfold b_deletelast. destruct (buffer b) eqn:E; [apply subseq_refl|].
      rewrite <- E. unfold contents. simpl. apply subseq_app; [apply subseq_refl|].
      unfold items. rewrite map_removelast. apply subseq_removelast.
    + (* Get *) unfold b_step, b_get in *. destruct (queue b) eqn:E; simpl in *.
      * auto.
      * assert (C : contents b = z :: contents (mkB (buffer b) l (queueLength b) (bufferLength b))).
        { unfold contents. simpl. rewrite E. reflexivity. }
        rewrite C. simpl. unfold contents at 2 in IH1. unfold contents at 2 in IH2.
        simpl in IH1, IH2. split.
        -- apply sub_take. exact IH1.
        -- intros ND. f_equal. auto.
    + (* Exists *) simpl in *. auto.
    + (* Connect *) simpl in *. rewrite connect_contents in *. auto.
    + (* Clean *) simpl snd. simpl delivered. split; [|discriminate].
      eapply subseq_trans; [|exact IH1]. apply subseq_app; [|apply subseq_refl].
      simpl. apply subseq_nil_l.
Qed.

Theorem fifo_order ql bl h :
  no_revert h = true -> no_pick h = true ->
  let s := fst (b_run (b_new ql bl) h) in
  let d := delivered (snd (b_run (b_new ql bl) h)) in
  subseq (d ++ queue s ++ items (buffer s)) (added h) /\
  (no_drop h = true -> d ++ queue s ++ items (buffer s) = added h).
Proof. intros NR NP. exact (fifo_order_gen h (b_new ql bl) NR NP). Qed.

(* the delivered sequence alone is an in-order subsequence of the added one *)
Corollary delivered_in_order ql bl h :
  no_revert h = true -> no_pick h = true ->
  subseq (delivered (snd (b_run (b_new ql bl) h))) (added h).
Proof.
  intros NR NP. destruct (fifo_order ql bl h NR NP) as [S _].
  eapply subseq_trans; [exact S|].
  rewrite <- (app_nil_r (delivered _)) at 1. apply subseq_app; [apply subseq_refl | apply subseq_nil_l].
Qed.

(* With Pick in the history (still no Revert): the items still held keep the
   relative order in which they were added (Pick takes one out of the middle
   and leaves the others in place); which one it takes is pick_delivers_first;
   that nothing is duplicated or invented is [conservation]. *)
Theorem rest_order_gen h : forall b,
  no_revert h = true ->
  subseq (contents (fst (b_run b h))) (contents b ++ added h).
Proof.
  induction h as [|o h IH]; intros b NR.
  - simpl. rewrite app_nil_r. apply subseq_refl.
  - simpl in NR. apply andb_prop in NR. destruct NR as [NR1 NR].
    rewrite b_run_cons. simpl fst. specialize (IH (fst (b_step b o)) NR).
    eapply subseq_trans; [|exact IH]. clear IH.
    destruct o; try discriminate; simpl added; simpl fst.
    + unfold contents, b_add; simpl. unfold items. rewrite map_app. simpl.
      rewrite <- !app_assoc. simpl. apply subseq_refl.
    + apply subseq_app; [|apply subseq_refl].
      unfold b_deletelast. destruct (buffer b) eqn:E; [apply subseq_refl|].
      rewrite <- E. unfold contents. simpl. apply subseq_app; [apply subseq_refl|].
      unfold items. rewrite map_removelast. apply subseq_removelast.
    + apply subseq_app; [|apply subseq_refl].
      unfold b_step, b_get. destruct (queue b) eqn:E; simpl; [apply subseq_refl|].
      unfold contents. simpl. rewrite E. simpl. apply sub_skip. apply subseq_refl.
    + apply subseq_app; [|apply subseq_refl].
      destruct (pick_delivers_first b p) as [(q1 & t & q2 & Hq & _ & _ & Hp) | (_ & Hr & Hq & Hb)].
      * unfold b_step. rewrite Hp. simpl. unfold contents. simpl. rewrite Hq.
        apply subseq_app; [|apply subseq_refl].
        apply subseq_app; [apply subseq_refl|]. apply sub_skip. apply subseq_refl.
      * unfold b_step. destruct (b_pick b p) as [b' [t e]]. simpl in *.
        unfold contents. rewrite Hq, Hb. apply subseq_refl.
    + apply subseq_refl.
    + rewrite connect_contents. apply subseq_refl.
    + apply subseq_app; [|apply subseq_refl]. apply subseq_nil_l.
Qed.

Theorem rest_order ql bl h :
  no_revert h = true ->
  let s := fst (b_run (b_new ql bl) h) in
  subseq (queue s ++ items (buffer s)) (added h).
Proof. intros NR. exact (rest_order_gen h (b_new ql bl) NR). Qed.

(* ------------------------------------------------------------------ *)
(* One cycle of latency                                                  *)
(* ------------------------------------------------------------------ *)

(* LOWER BOUND.  After Add t c, as long as no Connect c' with c' > c has
   happened, t is not visible: no Get / Pick returns it.
   hidden t c b : t is not in the visible queue and every buffered copy of t
   carries a stamp beyond c. *)
Definition hidden (t c : Z) (b : bbus) : Prop :=
  ~ In t (queue b) /\ forall a, In (a, t) (buffer b) -> c < a.

(* no Connect later than cycle c in the history *)
Definition no_connect_after (c : Z) (h : list bop) : bool :=
  forallb (fun o => match o with BConnect c' => c' <=? c | _ => true end) h.

Lemma in_removelast {A} (x : A) l : In x (removelast l) -> In x l.
Proof. intros H. eapply subseq_In; [apply subseq_removelast | exact H]. Qed.

Lemma hidden_step t c b o lo :
  hidden t c b -> c <= lo -> nondecr lo [o] = true ->
  no_connect_after c [o] = true -> ~ In t (reverted [o]) ->
  hidden t c (fst (b_step b o)) /\ ~ In t (delivered [snd (b_step b o)]).
Proof.
  intros [Hq Hb] Hlo ND NC NR. destruct o; simpl in *.
  - (* Add *) split; [|tauto]. split; [exact Hq|]. intros a Hin. apply in_app_or in Hin.
    destruct Hin as [Hin | [Heq | []]]; [auto|]. inversion Heq; subst. lia.
  - (* Revert: of another item *) split; [|tauto]. split; [exact Hq|]. intros a [Heq | Hin]; [|auto].
    inversion Heq; subst. tauto.
  - (* DeleteLast *) split; [|tauto]. unfold b_deletelast. destruct (buffer b) eqn:E; [split; auto; rewrite E; auto|].
    rewrite <- E in *. split; [exact Hq|]. simpl. intros a Hin. apply Hb. apply in_removelast. exact Hin.
  - (* Get *) unfold b_get. destruct (queue b) eqn:E; simpl.
    + split; [split; [rewrite E; auto | auto] | tauto].
    + split.
      * split; simpl; [|exact Hb]. intros Hin. apply Hq. right; exact Hin.
      * intros [X | []]. subst z. apply Hq. left; reflexivity.
  - (* Pick *)
    destruct (pick_delivers_first b p) as [(q1 & x & q2 & Hqq & _ & _ & Hp) | (_ & Hr & Hqq & Hbb)].
    + rewrite Hp. simpl. split; [split; simpl; auto|].
      * intros Hin. apply Hq. rewrite Hqq. apply in_app_or in Hin. apply in_or_app. simpl. tauto.
      * intros [-> | []]. apply Hq. rewrite Hqq. apply in_or_app. simpl. auto.
    + destruct (b_pick b p) as [b' [x e]]. simpl in *. inversion Hr; subst. simpl.
      split; [|tauto]. split; [rewrite Hqq; auto | rewrite Hbb; auto].
  - (* Exists *) split; [split; auto | tauto].
  - (* Connect c0 with c0 <= c: only stamps <= c0 move *)
    split; [|tauto]. destruct (connect_spec b c0) as (m & Hbuf & Hqu & Hm & _).
    rewrite andb_true_r in NC. apply Z.leb_le in NC. split.
    + rewrite Hqu. intros Hin. apply in_app_or in Hin. destruct Hin as [Hin | Hin]; [auto|].
      unfold items in Hin. apply in_map_iff in Hin. destruct Hin as ([a x] & Hx & Hin). simpl in Hx. subst x.
      assert (c < a) by (apply Hb; rewrite Hbuf; apply in_or_app; auto).
      specialize (Hm a t Hin). lia.
    + intros a Hin. apply Hb. rewrite Hbuf. apply in_or_app. auto.
  - (* Clean *) split; [|tauto]. split; simpl; auto. intros a [].
Qed.

Lemma latency_gen t c h : forall b lo,
  hidden t c b -> c <= lo -> nondecr lo h = true ->
  no_connect_after c h = true -> ~ In t (reverted h) ->
  ~ In t (delivered (snd (b_run b h))).
Proof.
  induction h as [|o h IH]; intros b lo Hh Hlo ND NC NR; [simpl; tauto|].
  rewrite b_run_cons. simpl snd.
  change (snd (b_step b o) :: snd (b_run (fst (b_step b o)) h))
    with ([snd (b_step b o)] ++ snd (b_run (fst (b_step b o)) h)).
  rewrite delivered_app. intros Hin. apply in_app_or in Hin.
  simpl in NC. apply andb_prop in NC. destruct NC as [NC1 NC].
  change (o :: h) with ([o] ++ h) in NR. rewrite reverted_app in NR.
  assert (NR1 : ~ In t (reverted [o])) by (intros X; apply NR; apply in_or_app; auto).
  assert (NR2 : ~ In t (reverted h)) by (intros X; apply NR; apply in_or_app; auto).
  assert (ND1 : nondecr lo [o] = true /\ exists lo', c <= lo' /\ nondecr lo' h = true).
  { simpl in ND |- *. destruct (op_cycle o) as [c'|].
    - apply andb_prop in ND. destruct ND as [A B]. rewrite A. split; [reflexivity|].
      exists c'. apply Z.leb_le in A. split; [lia | exact B].
    - split; [reflexivity|]. exists lo. auto. }
  destruct ND1 as [ND1 (lo' & Hlo' & ND2)].
  destruct (hidden_step t c b o lo Hh Hlo ND1) as [Hh' Hd]; auto.
  { simpl. rewrite NC1. reflexivity. }
  destruct Hin as [Hin | Hin]; [tauto|].
  exact (IH _ lo' Hh' Hlo' ND2 NC NR2 Hin).
Qed.

(* ONE-CYCLE LATENCY: an item added at cycle c is not delivered before a
   Connect c' with c' > c.  History h1 (anything, in which t does not occur),
   then Add t c, then h2 with non-decreasing cycle arguments from c on, no
   Connect beyond cycle c and no Revert of t: t is not delivered anywhere in
   the whole history. *)
Theorem one_cycle_latency ql bl h1 t c h2 :
  ~ In t (added h1 ++ reverted h1) ->
  nondecr c h2 = true -> no_connect_after c h2 = true -> ~ In t (reverted h2) ->
  ~ In t (delivered (snd (b_run (b_new ql bl) (h1 ++ BAdd t c :: h2)))).
Proof.
  intros Fresh ND NC NR. rewrite b_run_app.
  destruct (b_run (b_new ql bl) h1) as [s1 o1] eqn:E1.
  destruct (b_run s1 (BAdd t c :: h2)) as [s2 o2] eqn:E2.
  simpl snd. rewrite delivered_app. intros Hin. apply in_app_or in Hin.
  assert (F1 : ~ In t (delivered o1) /\ ~ In t (contents s1)).
  { pose proof (conservation_count h1 (b_new ql bl) t) as P. rewrite E1 in P. simpl in P.
    assert (cnt (added h1 ++ reverted h1) t = 0%nat) by (apply count_occ_not_In; exact Fresh).
    rewrite cnt_app in H.
    split; intros X; apply (count_occ_In Z.eq_dec) in X; lia. }
  destruct F1 as [F1 F2]. destruct Hin as [Hin | Hin]; [tauto|].
  assert (o2 = snd (b_run s1 (BAdd t c :: h2))) by (rewrite E2; reflexivity). subst o2.
  rewrite b_run_cons in Hin. simpl in Hin.
  revert Hin. apply (latency_gen t c h2 _ c); auto; try lia.
  split; simpl.
  - intros X. apply F2. unfold contents. apply in_or_app. auto.
  - intros a X. apply in_app_or in X. destruct X as [X | [X | []]].
    + exfalso. apply F2. unfold contents. apply in_or_app. right. unfold items.
      apply in_map_iff. exists (a, t). auto.
    + inversion X; subst. lia.
Qed.

Example one_cycle_latency_ex :
  let h1 := [BAdd 1 0; BConnect 1; BGet] in
  let h2 := [BConnect 5; BGet; BAdd 8 5; BPick (fun _ => true); BConnect 5; BGet] in
  ~ In 7 (added h1 ++ reverted h1) /\ nondecr 5 h2 = true /\ no_connect_after 5 h2 = true /\
  ~ In 7 (reverted h2) /\
  delivered (snd (b_run (b_new 2 2) (h1 ++ BAdd 7 5 :: h2))) = [1] /\
  (* ... and one Connect later it is there *)
  delivered (snd (b_run (b_new 2 2) (h1 ++ BAdd 7 5 :: h2 ++ [BConnect 6; BGet]))) = [1; 7].
Proof. vm_compute. intuition; discriminate. Qed.

(* UPPER BOUND ("a cycle later", not two): with non-decreasing cycles every
   stamp in the buffer is at most (last cycle used) + 1, so a Connect at any
   later cycle moves everything the queue has room for. *)
Definition stamps_le (m : Z) (b : bbus) : Prop := forall a t, In (a, t) (buffer b) -> a <= m.

Lemma stamps_step b o lo :
  stamps_le (lo + 1) b -> nondecr lo [o] = true ->
  stamps_le (last_cycle lo [o] + 1) (fst (b_step b o)) /\ lo <= last_cycle lo [o].
Proof.
  intros S ND. destruct o; simpl in *; try (split; [exact S | lia]).
  - rewrite andb_true_r in ND. apply Z.leb_le in ND. split; [|lia].
    intros a x Hin. apply in_app_or in Hin. destruct Hin as [Hin | [Heq | []]].
    + specialize (S a x Hin). lia.
    + inversion Heq; subst. lia.
  - rewrite andb_true_r in ND. apply Z.leb_le in ND. split; [|lia].
    intros a x [Heq | Hin].
    + inversion Heq; subst. lia.
    + specialize (S a x Hin). lia.
  - split; [|lia]. unfold b_deletelast. destruct (buffer b) eqn:E; [exact S|]. rewrite <- E in *.
    intros a x Hin. simpl in Hin. apply in_removelast in Hin. eauto.
  - split; [|lia]. unfold b_get. destruct (queue b); simpl; exact S.
  - split; [|lia].
    destruct (pick_delivers_first b p) as [(q1 & x & q2 & _ & _ & _ & Hp) | (_ & _ & _ & Hbb)].
    + rewrite Hp. exact S.
    + destruct (b_pick b p) as [b' [x e]]. simpl in *. intros a y Hin. rewrite Hbb in Hin. eauto.
  - rewrite andb_true_r in ND. apply Z.leb_le in ND. split; [|lia].
    destruct (connect_spec b c) as (m & Hbuf & _). intros a x Hin.
    assert (a <= lo + 1) by (apply (S a x); rewrite Hbuf; apply in_or_app; auto). lia.
  - split; [|lia]. intros a x [].
Qed.

Lemma nondecr_cons lo o h :
  nondecr lo (o :: h) = true -> nondecr lo [o] = true /\ nondecr (last_cycle lo [o]) h = true.
Proof.
  simpl. destruct (op_cycle o).
  - intros H. apply andb_prop in H. destruct H as [A B]. rewrite A. auto.
  - auto.
Qed.

Lemma last_cycle_cons lo o h : last_cycle lo (o :: h) = last_cycle (last_cycle lo [o]) h.
Proof. simpl. destruct (op_cycle o); reflexivity. Qed.

Lemma stamps_run h : forall b lo,
  stamps_le (lo + 1) b -> nondecr lo h = true ->
  stamps_le (last_cycle lo h + 1) (fst (b_run b h)) /\ lo <= last_cycle lo h.
Proof.
  induction h as [|o h IH]; intros b lo S ND.
  - simpl. split; [exact S | lia].
  - apply nondecr_cons in ND. destruct ND as [ND1 ND2].
    destruct (stamps_step b o lo S ND1) as [S1 L1].
    rewrite b_run_cons, last_cycle_cons. simpl fst.
    destruct (IH _ _ S1 ND2) as [S2 L2]. split; [exact S2 | lia].
Qed.

Lemma connect_loop_all ql c buf : forall q,
  (forall a t, In (a, t) buf -> a <= c) ->
  snd (connect_loop ql c q buf) = [] \/ len (fst (connect_loop ql c q buf)) = ql.
Proof.
  induction buf as [|[a t] buf IH]; intros q H; simpl; [auto|].
  destruct (len q =? ql) eqn:E; [right; simpl; apply Z.eqb_eq; exact E|].
  assert (a <= c) by (apply (H a t); left; reflexivity).
  destruct (a >? c) eqn:G; [apply Z.gtb_lt in G; lia|].
  apply IH. intros a0 t0 Hin. apply (H a0 t0). right; exact Hin.
Qed.

Lemma connect_all b c :
  stamps_le c b ->
  buffer (b_connect b c) = [] \/ len (queue (b_connect b c)) = queueLength b.
Proof.
  intros S. unfold b_connect. destruct (len (queue b) =? queueLength b) eqn:E.
  - right. apply Z.eqb_eq. exact E.
  - pose proof (connect_loop_all (queueLength b) c (buffer b) (queue b) S) as H.
    destruct (connect_loop (queueLength b) c (queue b) (buffer b)) as [q buf]. simpl in *. exact H.
Qed.

Lemma step_lengths b o :
  queueLength (fst (b_step b o)) = queueLength b /\ bufferLength (fst (b_step b o)) = bufferLength b.
Proof.
  destruct o; simpl; auto.
  - unfold b_deletelast. destruct (buffer b); auto.
  - unfold b_get. destruct (queue b); auto.
  - unfold b_pick. destruct (queue b); auto. destruct (pick_first p (z :: l)) as [q' [x|]]; auto.
  - destruct (connect_spec b c) as (_ & _ & _ & _ & A & B). auto.
Qed.

Lemma run_lengths h : forall b,
  queueLength (fst (b_run b h)) = queueLength b /\ bufferLength (fst (b_run b h)) = bufferLength b.
Proof.
  induction h as [|o h IH]; intros b; [simpl; auto|].
  rewrite b_run_cons. simpl fst. destruct (IH (fst (b_step b o))) as [A B].
  destruct (step_lengths b o) as [C D]. split; congruence.
Qed.

(* VISIBLE THE NEXT CYCLE: in a history with non-decreasing cycle arguments, a
   Connect at a cycle later than every cycle used so far leaves the buffer
   empty or the queue full: every item added in an earlier cycle is visible
   unless the queue has no room for it. *)
Theorem visible_next_cycle ql bl lo h c' :
  nondecr lo h = true -> last_cycle lo h < c' ->
  let s := fst (b_run (b_new ql bl) (h ++ [BConnect c'])) in
  buffer s = [] \/ len (queue s) = ql.
Proof.
  intros ND Hc. rewrite b_run_app.
  destruct (b_run (b_new ql bl) h) as [s1 o1] eqn:E. simpl.
  assert (S0 : stamps_le (lo + 1) (b_new ql bl)) by (intros a t []).
  destruct (stamps_run h _ _ S0 ND) as [S1 _]. rewrite E in S1. simpl in S1.
  assert (S2 : stamps_le c' s1) by (intros a t Hin; specialize (S1 a t Hin); lia).
  pose proof (run_lengths h (b_new ql bl)) as [L _]. rewrite E in L. simpl in L.
  rewrite <- L. apply connect_all. exact S2.
Qed.

Example visible_next_cycle_ex :
  let h := [BAdd 1 0; BAdd 2 0; BConnect 1; BAdd 3 1; BGet; BAdd 4 1; BRevert 9 1] in
  nondecr 0 h = true /\ last_cycle 0 h = 1 /\
  queue (fst (b_run (b_new 3 4) (h ++ [BConnect 2]))) = [2; 9; 3] /\
  buffer (fst (b_run (b_new 3 4) (h ++ [BConnect 2]))) = [(2, 4)].
Proof. vm_compute. auto. Qed.

(* ------------------------------------------------------------------ *)
(* Capacity                                                              *)
(* ------------------------------------------------------------------ *)

Definition within_capacity (b : bbus) : Prop :=
  len (buffer b) <= bufferLength b /\ len (queue b) <= queueLength b.

Lemma connect_loop_cap ql c buf : forall q,
  len q <= ql ->
  len (fst (connect_loop ql c q buf)) <= ql /\
  (length (snd (connect_loop ql c q buf)) <= length buf)%nat.
Proof.
  induction buf as [|[a t] buf IH]; intros q H; simpl; [auto|].
  destruct (len q =? ql) eqn:E; [simpl; auto|].
  destruct (a >? c); [simpl; auto|].
  apply Z.eqb_neq in E.
  destruct (IH (q ++ [t])) as [A B]; [rewrite len_app, len_cons, len_nil; lia|].
  split; [exact A | lia].
Qed.

Lemma step_capacity b o :
  within_capacity b ->
  (match o with BAdd _ _ | BRevert _ _ => b_canadd b | _ => true end) = true ->
  within_capacity (fst (b_step b o)).
Proof.
  intros [Hb Hq] G. unfold within_capacity. destruct (step_lengths b o) as [L1 L2]. rewrite L1, L2.
  destruct o; simpl.
  - unfold b_canadd in G. apply negb_true_iff, Z.eqb_neq in G.
    rewrite len_app, len_cons, len_nil. lia.
  - unfold b_canadd in G. apply negb_true_iff, Z.eqb_neq in G. rewrite len_cons. lia.
  - unfold b_deletelast. destruct (buffer b) eqn:E; [rewrite E; auto|]. rewrite <- E in *. simpl.
    split; [|exact Hq].
    pose proof (subseq_length _ _ (subseq_removelast (buffer b))). unfold len in *. lia.
  - unfold b_get. destruct (queue b) eqn:E; simpl; [rewrite E; auto|].
    rewrite len_cons in Hq. pose proof (len_nonneg l). lia.
  - destruct (pick_delivers_first b p) as [(q1 & x & q2 & Hqq & _ & _ & Hp) | (_ & _ & Hqq & Hbb)].
    + rewrite Hp. simpl. rewrite Hqq in Hq. rewrite len_app in *. rewrite len_cons in Hq. lia.
    + destruct (b_pick b p) as [b' [x e]]. simpl in *. rewrite Hqq, Hbb. auto.
  - auto.
  - unfold b_connect. destruct (len (queue b) =? queueLength b); [auto|].
    pose proof (connect_loop_cap (queueLength b) c (buffer b) (queue b) Hq) as [A B].
    destruct (connect_loop (queueLength b) c (queue b) (buffer b)) as [q buf]. simpl in *.
    unfold len in *. lia.
  - unfold len in *. simpl. lia.
Qed.

Lemma capacity_gen h : forall b,
  within_capacity b -> disciplined b h = true ->
  forall h1 h2, h = h1 ++ h2 -> within_capacity (fst (b_run b h1)).
Proof.
  induction h as [|o h IH]; intros b W D h1 h2 E.
  - destruct h1; [exact W | discriminate].
  - destruct h1 as [|o1 h1]; [exact W|]. simpl in E. inversion E; subst o1 h.
    simpl in D. apply andb_prop in D. destruct D as [G D].
    rewrite b_run_cons. simpl fst. eapply IH; [|exact D|reflexivity].
    apply step_capacity; auto.
Qed.

(* CAPACITY: if the producers add (and revert) only when CanAdd reports room,
   then in every reachable state - after every prefix of the history - the
   buffer holds at most bufferLength and the queue at most queueLength items *)
Theorem capacity ql bl h :
  0 <= ql -> 0 <= bl -> disciplined (b_new ql bl) h = true ->
  forall h1 h2, h = h1 ++ h2 ->
  let s := fst (b_run (b_new ql bl) h1) in
  len (buffer s) <= bl /\ len (queue s) <= ql.
Proof.
  intros Hq Hb D h1 h2 E.
  assert (W : within_capacity (b_new ql bl)) by (split; simpl; rewrite len_nil; lia).
  pose proof (capacity_gen h _ W D h1 h2 E) as [A B].
  destruct (run_lengths h1 (b_new ql bl)) as [L1 L2]. rewrite L1, L2 in *. simpl in *. auto.
Qed.

Example capacity_ex :
  let h := [BAdd 1 0; BAdd 2 0; BConnect 1; BAdd 3 1; BAdd 4 1; BConnect 2; BGet; BConnect 3;
            BPick (pred_of 2); BConnect 3; BAdd 5 3; BDeleteLast; BAdd 6 3] in
  disciplined (b_new 2 2) h = true /\
  (* the queue did refuse items: after the Connect at cycle 2 it is full and 3 waits *)
  contents (fst (b_run (b_new 2 2) (firstn 6 h))) = [1; 2; 3; 4] /\
  queue (fst (b_run (b_new 2 2) (firstn 6 h))) = [1; 2].
Proof. vm_compute. auto. Qed.

(* the queue bound needs nothing from the producers *)
Theorem queue_capacity ql bl h :
  0 <= ql -> len (queue (fst (b_run (b_new ql bl) h))) <= ql.
Proof.
  intros Hq.
  assert (G : forall h b, len (queue b) <= queueLength b ->
              len (queue (fst (b_run b h))) <= queueLength b).
  { clear. induction h as [|o h IH]; intros b H; [exact H|].
    rewrite b_run_cons. simpl fst. destruct (step_lengths b o) as [L _]. rewrite <- L.
    apply IH. rewrite L. destruct o; simpl; auto.
    - unfold b_deletelast. destruct (buffer b); auto.
    - unfold b_get. destruct (queue b) eqn:E; simpl; [rewrite E; auto|].
      rewrite len_cons in H. lia.
    - destruct (pick_delivers_first b p) as [(q1 & x & q2 & Hqq & _ & _ & Hp) | (_ & _ & Hqq & _)].
      + rewrite Hp. simpl. rewrite Hqq in H. rewrite len_app in *. rewrite len_cons in H. lia.
      + destruct (b_pick b p) as [b' [x e]]. simpl in *. rewrite Hqq. auto.
    - unfold b_connect. destruct (len (queue b) =? queueLength b); [auto|].
      pose proof (connect_loop_cap (queueLength b) c (buffer b) (queue b) H) as [A B].
      destruct (connect_loop (queueLength b) c (queue b) (buffer b)). simpl in *. auto.
    - rewrite len_nil. pose proof (len_nonneg (queue b)). lia. }
  apply (G h (b_new ql bl)). simpl. rewrite len_nil. exact Hq.
Qed.

(* the two ways the bus reports room agree on every state within capacity (the
   control units add RemainingToAdd() items, the fetch/decode units ask CanAdd()) *)
Theorem remaining_canadd b :
  within_capacity b -> (b_canadd b = true <-> 0 < b_remainingtoadd b).
Proof.
  intros [Hb _]. unfold b_canadd, b_remainingtoadd. rewrite negb_true_iff, Z.eqb_neq. lia.
Qed.

Theorem remaining_after_add b t c :
  b_remainingtoadd (b_add b t c) = b_remainingtoadd b - 1.
Proof. unfold b_remainingtoadd, b_add. simpl. rewrite len_app, len_cons, len_nil. lia. Qed.

(* REFUTED: guarding Add alone is not enough.  Revert grows the buffer without
   looking at its length, and once the buffer is beyond bufferLength CanAdd
   (an inequality test) reports room again. *)
Theorem capacity_add_guard_only_refuted :
  exists ql bl h,
    0 <= ql /\ 0 <= bl /\ add_disciplined (b_new ql bl) h = true /\ nondecr 0 h = true /\
    let s := fst (b_run (b_new ql bl) h) in
    bl < len (buffer s) /\ b_canadd s = true.
Proof. exists 1, 1, [BAdd 1 0; BRevert 2 0]. vm_compute. intuition; discriminate. Qed.

(* ------------------------------------------------------------------ *)
(* Clean                                                                 *)
(* ------------------------------------------------------------------ *)

Theorem clean_empties b :
  b_isempty (b_clean b) = true /\ queue (b_clean b) = [] /\ buffer (b_clean b) = [].
Proof. auto. Qed.

(* nothing put on the bus before a Clean is delivered after it: whatever is
   delivered after the Clean was added (or reverted) after the Clean *)
Theorem clean_forgets b h1 h2 x :
  In x (delivered (snd (b_run (fst (b_run b (h1 ++ [BClean]))) h2))) ->
  In x (added h2 ++ reverted h2).
Proof.
  intros H. apply delivered_in in H.
  rewrite b_run_app in H. destruct (b_run b h1) as [s1 o1]. simpl in H. exact H.
Qed.

Corollary clean_forgets_count b h1 h2 x :
  (cnt (delivered (snd (b_run (fst (b_run b (h1 ++ [BClean]))) h2))) x
   <= cnt (added h2 ++ reverted h2) x)%nat.
Proof.
  pose proof (delivered_le_added (fst (b_run b (h1 ++ [BClean]))) h2 x) as H.
  rewrite b_run_app in *. destruct (b_run b h1) as [s1 o1]. simpl in *. exact H.
Qed.

Example clean_ex :
  let h1 := [BAdd 1 0; BAdd 2 0; BConnect 1; BAdd 3 1] in
  let h2 := [BConnect 2; BGet; BAdd 4 2; BConnect 3; BGet; BGet] in
  contents (fst (b_run (b_new 2 2) h1)) = [1; 2; 3] /\
  delivered (snd (b_run (fst (b_run (b_new 2 2) (h1 ++ [BClean]))) h2)) = [4].
Proof. vm_compute. auto. Qed.

(* ------------------------------------------------------------------ *)
(* Revert                                                                *)
(* ------------------------------------------------------------------ *)

Lemma connect_loop_prefix ql c buf : forall q, exists r, fst (connect_loop ql c q buf) = q ++ r.
Proof.
  induction buf as [|[a t] buf IH]; intros q; simpl.
  - exists []. rewrite app_nil_r. reflexivity.
  - destruct (len q =? ql); [exists []; rewrite app_nil_r; reflexivity|].
    destruct (a >? c); [exists []; rewrite app_nil_r; reflexivity|].
    destruct (IH (q ++ [t])) as [r Hr]. exists (t :: r). rewrite Hr, <- app_assoc. reflexivity.
Qed.

(* REVERT, under the precondition the code needs: when the visible queue is
   empty (and the bus can show anything at all: queueLength <> 0), an item
   reverted at cycle c is the next one delivered, after a Connect of the same
   (or any later) cycle *)
Theorem revert_is_next b t c c' :
  queue b = [] -> queueLength b <> 0 -> c <= c' ->
  snd (b_step (b_connect (b_revert b t c) c') BGet) = OItem t true.
Proof.
  intros Q L C. unfold b_connect. simpl. rewrite Q.
  destruct (len (@nil Z) =? queueLength b) eqn:E; [apply Z.eqb_eq in E; rewrite len_nil in E; congruence|].
  destruct (c >? c') eqn:G; [apply Z.gtb_lt in G; lia|].
  destruct (connect_loop_prefix (queueLength b) c' (buffer b) ([] ++ [t])) as [r Hr].
  destruct (connect_loop (queueLength b) c' ([] ++ [t]) (buffer b)) as [q buf]. simpl in *. subst q.
  reflexivity.
Qed.

(* ... and it jumps the items still waiting in the buffer *)
Example revert_is_next_ex :
  let h := [BAdd 1 0; BConnect 1; BGet; BAdd 2 1; BAdd 3 1] in
  let s := fst (b_run (b_new 2 3) h) in
  queue s = [] /\ items (buffer s) = [2; 3] /\
  snd (b_run s [BRevert 1 1; BConnect 2; BGet; BGet]) = [ONone; ONone; OItem 1 true; OItem 2 true].
Proof. vm_compute. auto. Qed.

(* REFUTED: the unconditional statement "a reverted item is the next one
   delivered".  Revert prepends to the BUFFER, which is behind the visible
   queue: with an item already visible, that one comes out first.
   Minimal witness (queueLength 1 or more, any bufferLength):
     Add 1 @0 ; Connect 1 ; Revert 2 @1 ; Connect 1 ; Get   ->   1
   (without the second Connect the Get returns 1 as well). *)
Theorem revert_not_next_refuted :
  exists ql bl h t c,
    0 < ql /\ 0 < bl /\ nondecr 0 (h ++ [BRevert t c; BConnect c; BGet]) = true /\
    disciplined (b_new ql bl) (h ++ [BRevert t c; BConnect c; BGet]) = true /\
    let s := fst (b_run (b_new ql bl) h) in
    snd (b_step (b_connect (b_revert s t c) c) BGet) = OItem 1 true /\ t = 2 /\
    delivered (snd (b_run (b_new ql bl) (h ++ [BRevert t c; BConnect c; BGet]))) = [1].
Proof. exists 1, 1, [BAdd 1 0; BConnect 1], 2, 1. vm_compute. intuition; discriminate. Qed.

Theorem revert_unconditional_refuted :
  ~ (forall b t c, queueLength b <> 0 ->
       snd (b_step (b_connect (b_revert b t c) c) BGet) = OItem t true).
Proof.
  intros H. specialize (H (fst (b_run (b_new 2 2) [BAdd 1 0; BConnect 1])) 2 1).
  vm_compute in H. assert (X : 2 <> 0) by discriminate. specialize (H X). discriminate.
Qed.

(* non-vacuity of the order / conservation theorems: a history with every kind
   of operation; the equations are evaluated by the kernel *)
Example conservation_ex :
  let h := [BAdd 1 0; BAdd 2 0; BAdd 3 0; BConnect 1; BAdd 4 1; BPick (pred_of 2); BDeleteLast;
            BAdd 5 1; BConnect 2; BGet; BRevert 1 2; BConnect 2; BGet; BAdd 6 2; BClean; BAdd 7 3] in
  let r := b_run (b_new 2 3) h in
  added h = [1; 2; 3; 4; 5; 6; 7] /\ reverted h = [1] /\
  delivered (snd r) = [2; 1; 3] /\ contents (fst r) = [7] /\ dropped (b_new 2 3) h = [4; 1; 5; 6].
Proof. vm_compute. auto. Qed.

Example fifo_order_ex :
  let h := [BAdd 1 0; BAdd 2 0; BConnect 1; BGet; BAdd 3 1; BAdd 4 1; BDeleteLast; BConnect 2; BGet;
            BConnect 2; BAdd 5 2; BGet; BGet; BConnect 3] in
  let r := b_run (b_new 2 2) h in
  no_revert h = true /\ no_pick h = true /\ NoDup (added h ++ reverted h) /\
  added h = [1; 2; 3; 4; 5] /\ delivered (snd r) = [1; 2; 3] /\ contents (fst r) = [5].
Proof.
  vm_compute. repeat split.
  repeat (constructor; [simpl; intuition discriminate|]). constructor.
Qed.

Example rest_order_ex :
  let h := [BAdd 1 0; BAdd 2 0; BAdd 3 0; BAdd 4 0; BConnect 1; BPick (pred_of 3); BPick (pred_of 5);
            BExists (pred_of 2); BPick (pred_of 2)] in
  let r := b_run (b_new 4 4) h in
  no_revert h = true /\ snd r = [ONone; ONone; ONone; ONone; ONone; OItem 3 true; OItem 0 false;
                                 OBool true; OItem 2 true] /\
  contents (fst r) = [1; 4].
Proof. vm_compute. auto. Qed.

(* ================================================================== *)
(* SimpleBus                                                            *)
(* ================================================================== *)

Definition opt (x : option Z) : list Z := match x with Some t => [t] | None => [] end.

Fixpoint s_added (h : list sop) : list Z :=
  match h with [] => [] | SAdd t :: h' => t :: s_added h' | _ :: h' => s_added h' end.
Fixpoint gets (h : list sop) : nat :=
  match h with [] => O | SGet :: h' => S (gets h') | _ :: h' => gets h' end.
(* the results of the Gets, in order: Some t / None *)
Fixpoint get_results (outs : list out) : list (option Z) :=
  match outs with
  | [] => []
  | OItem t true :: o' => Some t :: get_results o'
  | OItem _ false :: o' => None :: get_results o'
  | _ :: o' => get_results o'
  end.
Fixpoint somes (l : list (option Z)) : list Z :=
  match l with [] => [] | x :: l' => opt x ++ somes l' end.

Definition s_no_flush (h : list sop) : bool :=
  forallb (fun o => match o with SFlush | SClean => false | _ => true end) h.

(* the producer's contract: Add only when CanAdd is true *)
Fixpoint s_disciplined (b : sbus) (h : list sop) : bool :=
  match h with
  | [] => true
  | o :: h' => (match o with SAdd _ => s_canadd b | _ => true end)
               && s_disciplined (fst (s_step b o)) h'
  end.

Lemma s_run_cons b o h :
  s_run b (o :: h) = (fst (s_run (fst (s_step b o)) h), snd (s_step b o) :: snd (s_run (fst (s_step b o)) h)).
Proof. simpl. destruct (s_step b o) as [b1 x]. simpl. destruct (s_run b1 h); reflexivity. Qed.

Lemma s_run_app b h1 h2 :
  s_run b (h1 ++ h2) =
  let '(b1, o1) := s_run b h1 in let '(b2, o2) := s_run b1 h2 in (b2, o1 ++ o2).
Proof.
  revert b. induction h1 as [|o h1 IH]; intros b; simpl.
  - destruct (s_run b h2); reflexivity.
  - destruct (s_step b o) as [b1 x]. rewrite IH.
    destruct (s_run b1 h1) as [b2 o1]. destruct (s_run b2 h2). reflexivity.
Qed.

Lemma get_results_app o1 o2 : get_results (o1 ++ o2) = get_results o1 ++ get_results o2.
Proof.
  induction o1 as [|x o1 IH]; simpl; auto. destruct x; auto. destruct found; simpl; rewrite IH; auto.
Qed.

Lemma get_results_length h : forall b, length (get_results (snd (s_run b h))) = gets h.
Proof.
  induction h as [|o h IH]; intros b; [reflexivity|].
  rewrite s_run_cons. simpl snd. destruct o; simpl; auto.
  destruct (s_current b); simpl; auto.
Qed.

(* the segments of a history between consecutive Gets: the item left pending
   by each (the last Add of the segment) *)
Fixpoint segs (cur : option Z) (h : list sop) : list (option Z) :=
  match h with
  | [] => [cur]
  | SAdd t :: h' => segs (Some t) h'
  | SGet :: h' => cur :: segs None h'
  | _ :: h' => segs cur h'
  end.

(* POSITIONS (no discipline needed): the j-th Get returns what the segment two
   Gets earlier left pending: Get number k+2 returns the item added between
   Get number k and Get number k+1. *)
Theorem simple_positions h : forall b,
  s_no_flush h = true ->
  get_results (snd (s_run b h)) = firstn (gets h) (s_current b :: segs (s_pending b) h).
Proof.
  induction h as [|o h IH]; intros b NF; [reflexivity|].
  simpl in NF. apply andb_prop in NF. destruct NF as [NF1 NF].
  rewrite s_run_cons. simpl snd. destruct o; try discriminate.
  - simpl. rewrite (IH _ NF). reflexivity.
  - simpl. rewrite (IH _ NF). simpl. destruct (s_current b); reflexivity.
Qed.

(* FIFO equation of the two-slot bus under the contract: delivered, then
   current, then pending = the items added, in order; so every item is
   delivered at most once, in order, and only the last two can still be inside *)
Theorem simple_fifo h : forall b,
  s_no_flush h = true -> s_disciplined b h = true ->
  somes (get_results (snd (s_run b h))) ++ opt (s_current (fst (s_run b h)))
    ++ opt (s_pending (fst (s_run b h)))
  = opt (s_current b) ++ opt (s_pending b) ++ s_added h.
Proof.
  induction h as [|o h IH]; intros b NF D.
  - simpl. rewrite app_nil_r. reflexivity.
  - simpl in NF, D. apply andb_prop in NF. destruct NF as [NF1 NF]. apply andb_prop in D. destruct D as [G D].
    rewrite s_run_cons. simpl fst. simpl snd. specialize (IH _ NF D).
    destruct o; try discriminate.
    + simpl in *. rewrite IH. unfold s_canadd in G. destruct (s_pending b); [discriminate|]. reflexivity.
    + simpl in *. destruct (s_current b); simpl in *; rewrite IH; reflexivity.
Qed.

Lemma get_current_next h : forall b t,
  s_no_flush h = true -> s_current b = Some t -> (1 <= gets h)%nat ->
  nth_error (get_results (snd (s_run b h))) 0 = Some (Some t).
Proof.
  induction h as [|o h IH]; intros b t NF C G; [simpl in G; lia|].
  simpl in NF. apply andb_prop in NF. destruct NF as [NF1 NF].
  rewrite s_run_cons. simpl snd. destruct o; try discriminate.
  - simpl. apply IH; auto.
  - simpl. rewrite C. reflexivity.
Qed.

Lemma get_pending_second h : forall b t,
  s_no_flush h = true -> s_disciplined b h = true -> s_pending b = Some t -> (2 <= gets h)%nat ->
  nth_error (get_results (snd (s_run b h))) 1 = Some (Some t).
Proof.
  induction h as [|o h IH]; intros b t NF D P G; [simpl in G; lia|].
  simpl in NF, D. apply andb_prop in NF. destruct NF as [NF1 NF]. apply andb_prop in D. destruct D as [G1 D].
  rewrite s_run_cons. simpl snd. destruct o; try discriminate.
  - unfold s_canadd in G1. rewrite P in G1. discriminate.
  - simpl in G.
    assert (X : exists x, get_results (snd (s_step b SGet) :: snd (s_run (fst (s_step b SGet)) h))
                          = x :: get_results (snd (s_run (fst (s_step b SGet)) h))).
    { simpl. destruct (s_current b); eexists; reflexivity. }
    destruct X as [x ->]. simpl nth_error.
    apply get_current_next; auto; [|lia]. simpl. destruct (s_current b); simpl; exact P.
Qed.

(* SimpleBus latency: under the contract, an item added after the k-th Get
   (k = number of Gets in h1) is returned by Get number k+2 (index k+1 from 0).
   That no other Get returns it follows from simple_fifo (every added item
   occurs once in delivered ++ current ++ pending). *)
Theorem simple_k_plus_2 b h1 t h2 :
  s_no_flush (h1 ++ SAdd t :: h2) = true ->
  s_disciplined b (h1 ++ SAdd t :: h2) = true ->
  (2 <= gets h2)%nat ->
  nth_error (get_results (snd (s_run b (h1 ++ SAdd t :: h2)))) (gets h1 + 1) = Some (Some t).
Proof.
  intros NF D G.
  assert (D2 : s_disciplined (fst (s_run b h1)) (SAdd t :: h2) = true).
  { clear NF G. revert b D. induction h1 as [|o h1 IH]; intros b D; [exact D|].
    simpl app in D. simpl in D. apply andb_prop in D. destruct D as [_ D].
    rewrite s_run_cons. simpl fst. apply IH. exact D. }
  unfold s_no_flush in NF. rewrite forallb_app in NF. apply andb_prop in NF. destruct NF as [_ NF2].
  simpl in NF2.
  rewrite s_run_app. pose proof (get_results_length h1 b) as L.
  destruct (s_run b h1) as [b1 o1]. simpl in L, D2.
  destruct (s_run b1 (SAdd t :: h2)) as [b2 o2] eqn:E. simpl snd.
  rewrite get_results_app, nth_error_app2 by lia. rewrite L.
  replace (gets h1 + 1 - gets h1)%nat with 1%nat by lia.
  assert (o2 = snd (s_run b1 (SAdd t :: h2))) by (rewrite E; reflexivity). subst o2.
  rewrite s_run_cons. simpl snd. simpl get_results.
  apply andb_prop in D2. destruct D2 as [_ D2]. simpl in D2.
  apply get_pending_second; auto.
Qed.

Corollary simple_exactly_once h :
  s_no_flush h = true -> s_disciplined s_new h = true -> NoDup (s_added h) ->
  let r := s_run s_new h in
  NoDup (somes (get_results (snd r))) /\
  exists inside, somes (get_results (snd r)) ++ inside = s_added h /\ (length inside <= 2)%nat.
Proof.
  intros NF D N r. pose proof (simple_fifo h s_new NF D) as F. simpl in F. fold r in F.
  split.
  - rewrite <- F in N. apply NoDup_app_l in N. exact N.
  - exists (opt (s_current (fst r)) ++ opt (s_pending (fst r))). split; [exact F|].
    rewrite app_length. destruct (s_current (fst r)), (s_pending (fst r)); simpl; lia.
Qed.

Example simple_ex :
  let h1 := [SAdd 1; SGet; SAdd 2; SGet] in
  let h2 := [SGet; SAdd 4; SGet; SGet; SGet] in
  let h := h1 ++ SAdd 3 :: h2 in
  s_no_flush h = true /\ s_disciplined s_new h = true /\ gets h1 = 2%nat /\
  get_results (snd (s_run s_new h)) = [None; Some 1; Some 2; Some 3; Some 4; None].
Proof. vm_compute. auto. Qed.

(* LOSS: an Add while CanAdd is false overwrites the pending item, which then
   is as if it had never been added *)
Theorem simple_add_overwrites b t0 t : s_add (s_add b t0) t = s_add b t.
Proof. reflexivity. Qed.

Theorem simple_undisciplined_loses_refuted :
  exists h, s_no_flush h = true /\ s_disciplined s_new h = false /\
            s_added h = [1; 2] /\
            get_results (snd (s_run s_new h)) = [None; Some 2; None; None] /\
            s_isempty (fst (s_run s_new h)) = true.
Proof. exists [SAdd 1; SAdd 2; SGet; SGet; SGet; SGet]. vm_compute. auto. Qed.

Theorem simple_clean_empties b :
  s_isempty (s_clean b) = true /\ s_isempty (s_flush b) = true /\
  s_clean b = s_new /\ s_flush b = s_new.
Proof. auto. Qed.

Theorem simple_canadd_after_get b : s_canadd (fst (s_get b)) = true.
Proof. reflexivity. Qed.
