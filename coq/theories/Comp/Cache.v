(* H model of proc/comp/cache.go (comp.LRUCache), hand-written and faithful.

   Go                                   here
   ----------------------------------   -------------------------------------
   AlignedAddress, int32 addresses      Z, arithmetic wrapped with GoInt (32)
   int8 bytes                           Z (no arithmetic is done on bytes)
   Line{Boundary [2], Data []int8}      line  (lo, hi, data : list Z)
   LRUCache{numberOfLines, lineLength,  cache (nlines, llen, lines) ; lines is
            cacheLength, lines}         most-recently-used first, as in Go
   run-time panic (index out of range,  Panic
     slice bounds, divide by zero,
     makeslice, explicit panic())

   Not modelled (DESIGN.md section 7): aliasing of Data slices with the
   caller's slices; the harness copies slices in and out.  `Delta` (a global
   counter incremented by Write) has no reader in the component. *)
From Coq Require Import ZArith List Bool.
From Maj Require Import Base.Outcome Base.GoInt.
Import ListNotations.
Open Scope Z_scope.

Record line := mkLine { lo : Z; hi : Z; data : list Z }.
Record cache := mkCache { nlines : Z; llen : Z; lines : list line }.

Definition zlen {A} (l : list A) : Z := Z.of_nat (length l).

Definition set_lines (c : cache) (ls : list line) : cache :=
  mkCache (nlines c) (llen c) ls.

(* NewLRUCache(lineLength, cacheLength): cacheLength % lineLength panics on a
   zero divisor; the explicit panic when the remainder is not zero *)
Definition new_cache (lineLength cacheLength : Z) : outcome cache :=
  if lineLength =? 0 then Panic
  else if negb (Z.rem cacheLength lineLength =? 0) then Panic
  else Ok (mkCache (quoS 64 cacheLength lineLength) lineLength []).

(* d[i] *)
Definition idx_get (d : list Z) (i : Z) : outcome Z :=
  if (0 <=? i) && (i <? zlen d) then Ok (nth (Z.to_nat i) d 0) else Panic.

Fixpoint upd (d : list Z) (n : nat) (v : Z) : list Z :=
  match d, n with
  | [], _ => []
  | _ :: t, O => v :: t
  | x :: t, S k => x :: upd t k v
  end.

(* d[i] = v *)
Definition idx_set (d : list Z) (i : Z) (v : Z) : outcome (list Z) :=
  if (0 <=? i) && (i <? zlen d) then Ok (upd d (Z.to_nat i) v) else Panic.

(* func (l Line) get(addr int32) (int8, bool) *)
Definition line_get (l : line) (addr : Z) : outcome (option Z) :=
  if (lo l <=? addr) && (addr <? hi l) then
    v <- idx_get (data l) (subS 32 addr (lo l)) ;; Ok (Some v)
  else Ok None.

(* the loop `for i, l := range c.lines { if v, exists := l.get(addr); exists {...} }`:
   first line whose get succeeds, its value, and the list without it
   (c.lines[:i] ++ c.lines[i+1:]) *)
Fixpoint find_line (ls : list line) (addr : Z) : outcome (option (Z * line * list line)) :=
  match ls with
  | [] => Ok None
  | l :: t =>
    r <- line_get l addr ;;
    match r with
    | Some v => Ok (Some (v, l, t))
    | None =>
      r' <- find_line t addr ;;
      match r' with
      | Some (v, l', t') => Ok (Some (v, l', l :: t'))
      | None => Ok None
      end
    end
  end.

(* Get: the hit line moves to the front *)
Definition get (c : cache) (addr : Z) : outcome (cache * option Z) :=
  r <- find_line (lines c) addr ;;
  match r with
  | Some (v, l, rest) => Ok (set_lines c (l :: rest), Some v)
  | None => Ok (c, None)
  end.

(* GetCacheLine: no reordering; returns the Data slice *)
Definition get_cache_line (c : cache) (addr : Z) : outcome (option (list Z)) :=
  r <- find_line (lines c) addr ;;
  match r with
  | Some (_, l, _) => Ok (Some (data l))
  | None => Ok None
  end.

(* EvictCacheLine: removes the first line covering addr *)
Definition evict_cache_line (c : cache) (addr : Z) : outcome (cache * option (list Z)) :=
  r <- find_line (lines c) addr ;;
  match r with
  | Some (_, l, rest) => Ok (set_lines c rest, Some (data l))
  | None => Ok (c, None)
  end.

(* for i, v := range data { l.set(addr+int32(i), v) }
   l.set: l.Data[addr - lo] = v *)
Fixpoint set_bytes (d : list Z) (lo_ addr : Z) (i : Z) (vs : list Z) : outcome (list Z) :=
  match vs with
  | [] => Ok d
  | v :: t =>
    d' <- idx_set d (subS 32 (addS 32 addr (to_i32 i)) lo_) v ;;
    set_bytes d' lo_ addr (i + 1) t
  end.

(* Write: first covering line, no reordering, panic("cache line doesn't exist") on a miss *)
Fixpoint write_lines (ls : list line) (addr : Z) (vs : list Z) : outcome (list line) :=
  match ls with
  | [] => Panic
  | l :: t =>
    r <- line_get l addr ;;
    match r with
    | Some _ => d <- set_bytes (data l) (lo l) addr 0 vs ;; Ok (mkLine (lo l) (hi l) d :: t)
    | None => t' <- write_lines t addr vs ;; Ok (l :: t')
    end
  end.

Definition write (c : cache) (addr : Z) (vs : list Z) : outcome cache :=
  ls <- write_lines (lines c) addr vs ;; Ok (set_lines c ls).

Definition new_line (c : cache) (addr : Z) (d : list Z) : line :=
  mkLine addr (addS 32 addr (to_i32 (llen c))) d.

(* PushLine (as it is now: the displaced line's data is returned).
   c.lines[:c.numberOfLines] panics when numberOfLines is negative. *)
Definition push_line (c : cache) (addr : Z) (d : list Z) : outcome (cache * option (list Z)) :=
  let nl := new_line c addr d in
  let ls := nl :: lines c in
  if zlen ls >? nlines c then
    if nlines c <? 0 then Panic
    else Ok (set_lines c (firstn (Z.to_nat (nlines c)) ls), Some (data (last ls nl)))
  else Ok (set_lines c ls, None).

(* PushLineWithEvictionWarning: nothing is removed; a copy of the last line is
   returned when the list is now longer than numberOfLines *)
Definition push_line_warn (c : cache) (addr : Z) (d : list Z) : outcome (cache * option line) :=
  let nl := new_line c addr d in
  let ls := nl :: lines c in
  if zlen ls >? nlines c then Ok (set_lines c ls, Some (last ls nl))
  else Ok (set_lines c ls, None).

(* ExistingLines: c.lines[:min(len, numberOfLines)] *)
Definition existing_lines (c : cache) : outcome (list line) :=
  let b := Z.min (zlen (lines c)) (nlines c) in
  if b <? 0 then Panic else Ok (firstn (Z.to_nat b) (lines c)).

Definition all_lines (c : cache) : list line := lines c.

(* data = append(data, l.Data[start+i]) for i in 0..cnt-1 *)
Fixpoint collect (d : list Z) (start : Z) (cnt : nat) : outcome (list Z) :=
  match cnt with
  | O => Ok []
  | S k => v <- idx_get d start ;; r <- collect d (start + 1) k ;; Ok (v :: r)
  end.

(* GetSubCacheLine(addrs, lineLength): addrs[0] is evaluated inside the loop
   (panics on an empty addrs only when there is a line to look at);
   getAlignedMemoryAddress: addr - addr % align (divide by zero panics);
   make([]int8, 0, lineLength) panics on a negative length *)
Fixpoint sub_loop (ls : list line) (addrs : list Z) (n : Z) : outcome (option (Z * list Z)) :=
  match ls with
  | [] => Ok None
  | l :: t =>
    match addrs with
    | [] => Panic
    | a0 :: _ =>
      r <- line_get l a0 ;;
      match r with
      | Some _ =>
        if n =? 0 then Panic
        else
          let small := subS 32 a0 (remS 32 a0 n) in
          if n <? 0 then Panic
          else d <- collect (data l) (small - lo l) (Z.to_nat n) ;; Ok (Some (small, d))
      | None => sub_loop t addrs n
      end
    end
  end.

Definition get_sub_cache_line (c : cache) (addrs : list Z) (n : Z) : outcome (option (Z * list Z)) :=
  ls <- existing_lines c ;; sub_loop ls addrs n.

(* ------------------------------------------------------------------ *)
(* operation histories                                                  *)

Inductive op :=
| OPush (base : Z) (d : list Z)        (* PushLine *)
| OPushW (base : Z) (d : list Z)       (* PushLineWithEvictionWarning *)
| OGet (a : Z)                         (* Get *)
| OLine (a : Z)                        (* GetCacheLine *)
| OSub (addrs : list Z) (n : Z)        (* GetSubCacheLine *)
| OEvict (a : Z)                       (* EvictCacheLine *)
| OWrite (a : Z) (vs : list Z).        (* Write *)

Inductive out :=
| RByte (o : option Z)                 (* Get: (v, true) / (0, false) *)
| RData (o : option (list Z))          (* PushLine, GetCacheLine, EvictCacheLine: slice / nil *)
| RVictim (o : option line)            (* PushLineWithEvictionWarning: *Line / nil *)
| RSub (o : option (Z * list Z))       (* GetSubCacheLine *)
| RUnit.                               (* Write *)

Definition step (c : cache) (o : op) : outcome (cache * out) :=
  match o with
  | OPush b d => '(c', r) <- push_line c b d ;; Ok (c', RData r)
  | OPushW b d => '(c', r) <- push_line_warn c b d ;; Ok (c', RVictim r)
  | OGet a => '(c', r) <- get c a ;; Ok (c', RByte r)
  | OLine a => r <- get_cache_line c a ;; Ok (c, RData r)
  | OSub addrs n => r <- get_sub_cache_line c addrs n ;; Ok (c, RSub r)
  | OEvict a => '(c', r) <- evict_cache_line c a ;; Ok (c', RData r)
  | OWrite a vs => c' <- write c a vs ;; Ok (c', RUnit)
  end.

(* a history: the outputs in order and the final state; a panic ends it *)
Fixpoint run (c : cache) (ops : list op) : outcome (cache * list out) :=
  match ops with
  | [] => Ok (c, [])
  | o :: t =>
    '(c', r) <- step c o ;;
    '(c'', rs) <- run c' t ;;
    Ok (c'', r :: rs)
  end.

(* observables used by the correspondence check: bases of Lines() in order *)
Definition bases (c : cache) : list Z := map lo (lines c).
