(* H: the register scoreboard of risc/app.go (PendingWriteRegisters,
   PendingReadRegisters and the functions that maintain and query them), as
   the pipelined variants use it.  Go maps from register to int are total
   functions Z -> Z with default 0 (an absent key reads 0, "delete" = set 0). *)
From Coq Require Import ZArith List Bool Lia.
Import ListNotations.
Open Scope Z_scope.

Record sb := mk_sb { pw : Z -> Z; pr : Z -> Z }.
Definition sb0 : sb := mk_sb (fun _ => 0) (fun _ => 0).

Definition upd (f : Z -> Z) (r v : Z) : Z -> Z := fun x => if x =? r then v else f x.

(* for _, register := range rs { if register == Zero { continue }; m[register]++ } *)
Fixpoint incr_all (f : Z -> Z) (rs : list Z) : Z -> Z :=
  match rs with
  | [] => f
  | r :: t => if r =? 0 then incr_all f t else incr_all (upd f r (f r + 1)) t
  end.

(* m[register]--; if m[register] <= 0 { delete(m, register) } *)
Fixpoint decr_all (f : Z -> Z) (rs : list Z) : Z -> Z :=
  match rs with
  | [] => f
  | r :: t => if r =? 0 then decr_all f t
              else decr_all (upd f r (if f r - 1 <=? 0 then 0 else f r - 1)) t
  end.

(* AddPendingRegisters(runner) *)
Definition add_pending (s : sb) (reads writes : list Z) : sb :=
  mk_sb (incr_all (pw s) writes) (incr_all (pr s) reads).

(* DeletePendingRegisters(readRegisters, writeRegisters) *)
Definition delete_pending (s : sb) (reads writes : list Z) : sb :=
  mk_sb (decr_all (pw s) writes) (decr_all (pr s) reads).

(* AddPendingWriteRegisters / DeletePendingWriteRegisters (MVP-4/5): no Zero test *)
Fixpoint incr_all_nz (f : Z -> Z) (rs : list Z) : Z -> Z :=
  match rs with [] => f | r :: t => incr_all_nz (upd f r (f r + 1)) t end.
Fixpoint decr_all_nz (f : Z -> Z) (rs : list Z) : Z -> Z :=
  match rs with [] => f | r :: t => decr_all_nz (upd f r (if f r - 1 <=? 0 then 0 else f r - 1)) t end.
Definition add_pending_write (s : sb) (writes : list Z) : sb := mk_sb (incr_all_nz (pw s) writes) (pr s).
Definition delete_pending_write (s : sb) (writes : list Z) : sb := mk_sb (decr_all_nz (pw s) writes) (pr s).

(* IsWriteDataHazard(registers) *)
Definition is_write_hazard (s : sb) (rs : list Z) : bool :=
  existsb (fun r => negb (r =? 0) && (0 <? pw s r)) rs.

(* IsDataHazard3(runner): hazards in the order the code appends them; 0 = RAW, 1 = WAW, 2 = WAR *)
Definition hazards3 (s : sb) (reads writes : list Z) : list (Z * Z) :=
  flat_map (fun r => if negb (r =? 0) && (0 <? pw s r) then [(0, r)] else []) reads ++
  flat_map (fun w => if negb (w =? 0) then
                       (if 0 <? pw s w then [(1, w)] else []) ++ (if 0 <? pr s w then [(2, w)] else [])
                     else []) writes.

(* ctx.Flush() *)
Definition flush (s : sb) : sb := sb0.

(* histories: an instruction is added, later deleted (by position in the in-flight list) *)
Inductive op :=
| Add (reads writes : list Z)
| Del (k : nat)
| FlushAll.

Definition inflight := list (list Z * list Z).

Fixpoint remove_nth {A} (l : list A) (k : nat) : list A :=
  match l, k with
  | [], _ => []
  | _ :: t, O => t
  | h :: t, S k' => h :: remove_nth t k'
  end.

Definition step (st : sb * inflight) (o : op) : sb * inflight :=
  let '(s, fl) := st in
  match o with
  | Add rs ws => (add_pending s rs ws, fl ++ [(rs, ws)])
  | Del k => match nth_error fl k with
             | Some (rs, ws) => (delete_pending s rs ws, remove_nth fl k)
             | None => (s, fl)
             end
  | FlushAll => (flush s, [])
  end.

Definition run (ops : list op) : sb * inflight := fold_left step ops (sb0, []).
