(* H models of /repo/proc/comp/queue.go (Queue[T] over container/list with a
   snapshot iterator and removal of iterated elements) and of
   /repo/proc/comp/broadcast.go (Broadcast[T]).

   Queue.  Remove takes a *list.Element, so elements need an identity: an
   element is (id, value), ids are handed out by a counter at Push (they play
   the role of the pointer).  Iterator() starts a goroutine that walks the list
   and sends the elements over a channel whose capacity is the length at the
   call; the processors consume it with
       for elem := range q.Iterator() { ... q.Remove(elem) ... }
   and only ever remove the element they have just received, which the walker
   has already stepped past (it reads e.Next() before sending).  Under that
   usage the elements received are the elements present at the call, in list
   order: the model returns that snapshot.  (The goroutine interleaving itself
   is part of the trusted base, DESIGN.md section 7.)
   Remove of an element that is no longer in the list is a no-op in
   container/list (e.list != l); so is the filter below.

   Proofs are in QueueProofs.v. *)
From Coq Require Import ZArith List Bool.
From Maj Require Import Base.Outcome.
Import ListNotations.
Open Scope Z_scope.

Definition elem := (Z * Z)%type.            (* (identity, value) *)

Record gqueue := mkQ {
  q_items : list elem;
  q_next : Z;                                (* next fresh identity *)
  q_cap : Z                                  (* field "length" of the Go struct *)
}.

Definition q_new (length : Z) : gqueue := mkQ [] 0 length.

Definition q_push (q : gqueue) (v : Z) : gqueue :=
  mkQ (q_items q ++ [(q_next q, v)]) (q_next q + 1) (q_cap q).

Definition q_length (q : gqueue) : Z := Z.of_nat (length (q_items q)).

Definition q_isfull (q : gqueue) : bool := q_cap q <=? q_length q.   (* Len() >= length *)

Definition q_iterator (q : gqueue) : list elem := q_items q.

Definition q_value (e : elem) : Z := snd e.

Definition q_remove (q : gqueue) (e : elem) : gqueue :=
  mkQ (filter (fun x => negb (fst x =? fst e)) (q_items q)) (q_next q) (q_cap q).

(* the loop the control units run:
     n := 0
     for elem := range q.Iterator() {
        if n == limit { break }           (their "stop")  ; limit < 0: never
        n++ ; visit q.Value(elem) ; if p(value) { q.Remove(elem) }
     }
   returns the queue afterwards and the values visited *)
Definition q_iter (q : gqueue) (p : Z -> bool) (limit : Z) : gqueue * list Z :=
  let snap := q_iterator q in
  let snap := if limit <? 0 then snap else firstn (Z.to_nat limit) snap in
  (fold_left (fun q e => if p (q_value e) then q_remove q e else q) snap q,
   map q_value snap).

Inductive qop :=
| QPush (v : Z)
| QLength
| QIsFull
| QIter (p : Z -> bool) (limit : Z).

Inductive qout := QNone | QInt (n : Z) | QBool (b : bool) | QList (l : list Z).

Definition q_step (q : gqueue) (o : qop) : gqueue * qout :=
  match o with
  | QPush v => (q_push q v, QNone)
  | QLength => (q, QInt (q_length q))
  | QIsFull => (q, QBool (q_isfull q))
  | QIter p limit => let '(q', l) := q_iter q p limit in (q', QList l)
  end.

Fixpoint q_run (q : gqueue) (h : list qop) : gqueue * list qout :=
  match h with
  | [] => (q, [])
  | o :: h' => let '(q1, x) := q_step q o in
               let '(q2, xs) := q_run q1 h' in (q2, x :: xs)
  end.

(* ------------------------------------------------------------------ *)
(* Broadcast (unused by every processor variant; covered by the          *)
(* correspondence check only)                                            *)
(* ------------------------------------------------------------------ *)

Record bcast := mkBc {
  bc_count : Z;
  bc_listeners : list (list (Z * bool))      (* event{data, read} *)
}.

(* make([][]event[T], count) panics for a negative count *)
Definition bc_new (count : Z) : outcome bcast :=
  if count <? 0 then Panic else Ok (mkBc count (repeat [] (Z.to_nat count))).

Definition bc_notify (b : bcast) (t : Z) : bcast :=
  mkBc (bc_count b) (map (fun l => l ++ [(t, false)]) (bc_listeners b)).

Fixpoint set_nth {A} (n : nat) (x : A) (l : list A) : list A :=
  match l, n with
  | [], _ => []
  | _ :: l', O => x :: l'
  | y :: l', S n' => y :: set_nth n' x l'
  end.

Definition in_range {A} (i : Z) (l : list A) : bool := (0 <=? i) && (i <? Z.of_nat (length l)).

(* Read(id): drops the events already committed, returns the data of the rest.
   The i-th returned Event carries a closure that sets
   b.listeners[id][i].read at the time it is CALLED (see bc_commit). *)
Definition bc_read (b : bcast) (id : Z) : outcome (bcast * list Z) :=
  if in_range id (bc_listeners b) then
    let l := filter (fun e => negb (snd e)) (nth (Z.to_nat id) (bc_listeners b) []) in
    Ok (mkBc (bc_count b) (set_nth (Z.to_nat id) l (bc_listeners b)), map fst l)
  else Panic.

(* calling the Commit closure of the i-th event of some earlier Read(id):
   it indexes the CURRENT slice of listener id, whatever it holds by now *)
Definition bc_commit (b : bcast) (id i : Z) : outcome bcast :=
  if in_range id (bc_listeners b) then
    let l := nth (Z.to_nat id) (bc_listeners b) [] in
    if in_range i l then
      let '(d, _) := nth (Z.to_nat i) l (0, false) in
      Ok (mkBc (bc_count b) (set_nth (Z.to_nat id) (set_nth (Z.to_nat i) (d, true) l) (bc_listeners b)))
    else Panic
  else Panic.
