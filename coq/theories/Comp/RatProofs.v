(* Proofs about Comp/Rat.v (model of proc/comp/rat.go).

   The ring of one key is summarised by its VIEW: the values a scan of
   Find / FindValues meets, newest arrival first.  The central facts:
     view after Write v   =  firstn length (v :: view before)      (rat_view_write)
     Read                 =  head of the view                      (rat_read_view)
     Find k pred          =  first element of the view with pred   (rat_find_view)
     Values / FindValues  =  Read / Find per key                   (aget_rat_values, aget_rat_findvalues)
   so a table of length n remembers exactly the last n arrivals of each key,
   for every history of writes (no bound on its length).
   entry_ok / rat_ok: every index the code uses is in range (no Go panic) in
   every table reachable from NewRAT(n), n >= 1.
   iter_order: every hint yields a permutation of the keys, and every
   permutation is obtained by some hint. *)
From Coq Require Import ZArith List Bool Arith Lia Permutation.
From Maj Require Import Base.Outcome Comp.Rat.
Import ListNotations.

(* ---------- lists ---------- *)
Lemma NoDup_snoc {A} (l : list A) x : NoDup l -> ~ In x l -> NoDup (l ++ [x]).
Proof.
  induction l as [|y t IH]; cbn; intros Hnd Hni.
  - constructor; [intros []|constructor].
  - inversion Hnd; subst. constructor.
    + rewrite in_app_iff. cbn. intros [H|[H|[]]]; [contradiction|]. subst. apply Hni. left. reflexivity.
    + apply IH; [assumption|]. intros H. apply Hni. right. exact H.
Qed.

Lemma find_app {A} (p : A -> bool) l1 l2 :
  find p (l1 ++ l2) = match find p l1 with Some v => Some v | None => find p l2 end.
Proof. induction l1 as [|x t IH]; cbn; [reflexivity|]. destruct (p x); [reflexivity|exact IH]. Qed.

Lemma firstn_app_exact {A} (l1 l2 : list A) n : length l1 = n -> firstn n (l1 ++ l2) = l1.
Proof.
  intros <-. rewrite firstn_app, firstn_all, Nat.sub_diag. cbn. apply app_nil_r.
Qed.

Lemma skipn_nth {A} (l : list A) i d : (i < length l)%nat -> skipn i l = nth i l d :: skipn (S i) l.
Proof.
  revert i. induction l as [|x t IH]; intros i H; cbn in H; [lia|].
  destruct i; [reflexivity|]. cbn [skipn nth]. rewrite IH by lia. reflexivity.
Qed.

Lemma map_nth_seq {A} (l : list A) d k : forall a, (a + k <= length l)%nat ->
  map (fun i => nth i l d) (seq a k) = firstn k (skipn a l).
Proof.
  induction k as [|k IH]; intros a H; [reflexivity|].
  cbn [seq map]. rewrite (skipn_nth l a d) by lia. cbn [firstn]. f_equal.
  rewrite IH by lia. reflexivity.
Qed.

Lemma firstn_cons_firstn {A} n (x : A) l : firstn n (x :: firstn n l) = firstn n (x :: l).
Proof.
  destruct n; [reflexivity|]. rewrite !firstn_cons. f_equal.
  rewrite firstn_firstn. f_equal. lia.
Qed.

(* ---------- association lists ---------- *)
Lemma memZ_In k l : memZ k l = true <-> In k l.
Proof.
  unfold memZ. rewrite existsb_exists. split.
  - intros [x [Hin Hx]]. apply Z.eqb_eq in Hx. subst. exact Hin.
  - intros H. exists k. split; [exact H|apply Z.eqb_refl].
Qed.

Section AMapFacts.
  Context {A : Type}.
  Implicit Types m : list (Z * A).

  Lemma aget_aset k k' a m :
    aget k' (aset k a m) = if Z.eqb k' k then Some a else aget k' m.
  Proof.
    induction m as [|[k0 a0] t IH]; cbn [aset aget].
    - destruct (Z.eqb_spec k' k); reflexivity.
    - destruct (Z.eqb_spec k k0) as [->|Hne]; cbn [aget].
      + destruct (Z.eqb_spec k' k0); reflexivity.
      + rewrite IH. destruct (Z.eqb_spec k' k0) as [->|]; [|reflexivity].
        destruct (Z.eqb_spec k0 k); [congruence|reflexivity].
  Qed.

  Lemma memZ_akeys k m :
    memZ k (akeys m) = match aget k m with Some _ => true | None => false end.
  Proof.
    induction m as [|[k0 a0] t IH]; cbn; [reflexivity|].
    destruct (Z.eqb_spec k k0); cbn; [reflexivity|exact IH].
  Qed.

  Lemma akeys_aset k a m :
    akeys (aset k a m) = if memZ k (akeys m) then akeys m else akeys m ++ [k].
  Proof.
    induction m as [|[k0 a0] t IH]; cbn; [reflexivity|].
    destruct (Z.eqb_spec k k0) as [->|Hne]; cbn; [reflexivity|].
    unfold akeys in IH. rewrite IH. fold (memZ k (map fst t)).
    destruct (memZ k (map fst t)); reflexivity.
  Qed.

  Lemma NoDup_akeys_aset k a m : NoDup (akeys m) -> NoDup (akeys (aset k a m)).
  Proof.
    intros H. rewrite akeys_aset. destruct (memZ k (akeys m)) eqn:E; [exact H|].
    apply NoDup_snoc; [exact H|].
    intros Hin. apply memZ_In in Hin. congruence.
  Qed.

  Lemma aget_not_in k m : ~ In k (akeys m) -> aget k m = None.
  Proof.
    intros H. pose proof (memZ_akeys k m) as E.
    destruct (aget k m); [|reflexivity].
    apply memZ_In in E. contradiction.
  Qed.
End AMapFacts.

(* ---------- iteration order of a Go map ---------- *)
Lemma iter_order_In hint keys k : In k (iter_order hint keys) <-> In k keys.
Proof.
  unfold iter_order. rewrite in_app_iff, nodup_In, !filter_In. split.
  - intros [[_ H]|[H _]]; [apply memZ_In in H|]; exact H.
  - intros H. destruct (memZ k hint) eqn:E.
    + left. split; [apply memZ_In; exact E|apply memZ_In; exact H].
    + right. split; [exact H|reflexivity].
Qed.

Lemma memZ_iter_order hint keys k : memZ k (iter_order hint keys) = memZ k keys.
Proof.
  destruct (memZ k keys) eqn:E.
  - apply memZ_In, iter_order_In, memZ_In. exact E.
  - destruct (memZ k (iter_order hint keys)) eqn:E2; [|reflexivity].
    apply memZ_In, iter_order_In, memZ_In in E2. congruence.
Qed.

Lemma NoDup_filter {A} (p : A -> bool) l : NoDup l -> NoDup (filter p l).
Proof.
  induction 1 as [|x t Hni Hnd IH]; cbn; [constructor|].
  destruct (p x); [|exact IH]. constructor; [|exact IH].
  rewrite filter_In. intros [H _]. contradiction.
Qed.

Lemma NoDup_app_disj {A} (l1 l2 : list A) :
  NoDup l1 -> NoDup l2 -> (forall x, In x l1 -> ~ In x l2) -> NoDup (l1 ++ l2).
Proof.
  intros H1 H2 Hd. induction H1 as [|x t Hni Hnd IH]; cbn; [exact H2|].
  constructor.
  - rewrite in_app_iff. intros [H|H]; [contradiction|]. apply (Hd x); [left; reflexivity|exact H].
  - apply IH. intros y Hy. apply Hd. right. exact Hy.
Qed.

Lemma iter_order_NoDup hint keys : NoDup keys -> NoDup (iter_order hint keys).
Proof.
  intros Hk. unfold iter_order. apply NoDup_app_disj.
  - apply NoDup_nodup.
  - apply NoDup_filter. exact Hk.
  - intros x Ha Hb. rewrite nodup_In, filter_In in Ha. rewrite filter_In in Hb.
    destruct Ha as [Ha _]. destruct Hb as [_ Hb]. cbv beta in Hb. apply memZ_In in Ha. rewrite Ha in Hb. discriminate.
Qed.

(* every hint gives a permutation of the keys *)
Lemma iter_order_perm hint keys : NoDup keys -> Permutation (iter_order hint keys) keys.
Proof.
  intros Hk. apply NoDup_Permutation; [apply iter_order_NoDup; exact Hk|exact Hk|].
  intros x. apply iter_order_In.
Qed.

Lemma filter_true {A} (p : A -> bool) l : (forall x, In x l -> p x = true) -> filter p l = l.
Proof.
  induction l as [|x t IH]; cbn; intros H; [reflexivity|].
  rewrite (H x) by (left; reflexivity). f_equal. apply IH. intros y Hy. apply H. right. exact Hy.
Qed.

Lemma filter_false {A} (p : A -> bool) l : (forall x, In x l -> p x = false) -> filter p l = [].
Proof.
  induction l as [|x t IH]; cbn; intros H; [reflexivity|].
  rewrite (H x) by (left; reflexivity). apply IH. intros y Hy. apply H. right. exact Hy.
Qed.

(* every permutation of the keys is the order of some hint: itself *)
Lemma iter_order_any p keys : NoDup keys -> Permutation p keys -> iter_order p keys = p.
Proof.
  intros Hk Hp. unfold iter_order.
  rewrite filter_true.
  2:{ intros x Hx. apply memZ_In. eapply Permutation_in; eassumption. }
  rewrite filter_false.
  2:{ intros x Hx. apply negb_false_iff, memZ_In. eapply Permutation_in; [apply Permutation_sym|]; eassumption. }
  rewrite app_nil_r. apply nodup_fixed_point.
  eapply Permutation_NoDup; [apply Permutation_sym; exact Hp|exact Hk].
Qed.

(* range over a map, assigning m2[k] = f k v: the result does not depend on the order *)
Lemma fold_aset_get {A B} (vals : list (Z * A)) (g : Z -> A -> option B) order (m : list (Z * B)) r :
  aget r (fold_left (fun m k => match aget k vals with
                                | Some a => match g k a with Some b => aset k b m | None => m end
                                | None => m
                                end) order m)
  = if memZ r order
    then match aget r vals with
         | Some a => match g r a with Some b => Some b | None => aget r m end
         | None => aget r m
         end
    else aget r m.
Proof.
  revert m. induction order as [|k t IH]; intros m; cbn [fold_left]; [reflexivity|].
  rewrite IH. unfold memZ. cbn [existsb]. fold (memZ r t).
  destruct (Z.eqb_spec r k) as [->|Hne]; cbn [orb].
  - destruct (aget k vals) as [a|] eqn:Ea; [|destruct (memZ k t); reflexivity].
    destruct (g k a) as [b|] eqn:Eg; [|destruct (memZ k t); reflexivity].
    rewrite aget_aset, Z.eqb_refl. destruct (memZ k t); reflexivity.
  - destruct (aget k vals) as [a|]; [|reflexivity].
    destruct (g k a) as [b|]; [|reflexivity].
    rewrite aget_aset. destruct (Z.eqb_spec r k); [contradiction|reflexivity].
Qed.

(* ---------- one ring ---------- *)
Section RatFacts.
  Context {V : Type}.
  Variable zero : V.
  Notation entry := (@entry V).
  Notation rat := (@rat V).

  Lemma set_nth_length i v (l : list V) : length (set_nth i v l) = length l.
  Proof. revert i. induction l as [|x t IH]; intros [|i]; cbn; auto. Qed.

  Lemma firstn_set_nth i v (l : list V) : (i < length l)%nat ->
    firstn (S i) (set_nth i v l) = firstn i l ++ [v].
  Proof.
    revert i. induction l as [|x t IH]; intros i H; cbn in H; [lia|].
    destruct i; [reflexivity|]. cbn [set_nth]. change (firstn (S (S i)) (x :: set_nth i v t)) with (x :: firstn (S i) (set_nth i v t)).
    rewrite IH by lia. reflexivity.
  Qed.

  Lemma skipn_set_nth i v (l : list V) : skipn (S i) (set_nth i v l) = skipn (S i) l.
  Proof.
    revert i. induction l as [|x t IH]; intros i; [destruct i; reflexivity|].
    destruct i; [reflexivity|]. cbn [set_nth]. change (skipn (S (S i)) (x :: set_nth i v t)) with (skipn (S i) (set_nth i v t)).
    rewrite IH. reflexivity.
  Qed.

  (* every index the code uses on this ring is in range *)
  Definition entry_ok (n : nat) (e : entry) : Prop :=
    length (e_vals e) = n /\ (e_idx e < n)%nat.

  (* the slots a scan meets: idx, idx-1, ..., 0 and, once wrapped, n-1, ..., idx+1 *)
  Definition view (e : entry) : list V :=
    rev (firstn (S (e_idx e)) (e_vals e))
    ++ (if e_wrapped e then rev (skipn (S (e_idx e)) (e_vals e)) else []).

  Lemma first_at_find e pred is : first_at zero e pred is = find pred (map (slot zero e) is).
  Proof. induction is as [|i t IH]; cbn; [reflexivity|]. destruct (pred (slot zero e i)); [reflexivity|exact IH]. Qed.

  Lemma e_find_view n e pred : entry_ok n e -> e_find zero n e pred = find pred (view e).
  Proof.
    intros [Hl Hi]. unfold e_find, view. rewrite !first_at_find, !map_rev.
    unfold slot. rewrite !map_nth_seq by lia. change (skipn 0 (e_vals e)) with (e_vals e).
    rewrite find_app.
    destruct (find pred (rev (firstn (S (e_idx e)) (e_vals e)))); [reflexivity|].
    destruct (e_wrapped e); [|reflexivity].
    rewrite firstn_all2; [reflexivity|]. rewrite skipn_length. lia.
  Qed.

  Lemma view_head e n : entry_ok n e -> exists t, view e = slot zero e (e_idx e) :: t.
  Proof.
    intros [Hl Hi]. unfold view, slot.
    assert (H : firstn (S (e_idx e)) (e_vals e) = firstn (e_idx e) (e_vals e) ++ [nth (e_idx e) (e_vals e) zero]).
    { clear -Hl Hi. revert Hi. rewrite <- Hl. generalize (e_idx e) as i. generalize (e_vals e) as l. clear.
      induction l as [|x t IH]; intros i H; cbn in H; [lia|].
      destruct i; [reflexivity|]. cbn [firstn nth app]. rewrite <- IH by lia. reflexivity. }
    rewrite H, rev_app_distr. cbn. eexists. reflexivity.
  Qed.

  (* the entry Write builds for a key that has one *)
  Definition e_write (n : nat) (e : entry) (v : V) : entry :=
    let i := (S (e_idx e)) mod n in
    mkEntry (set_nth i v (e_vals e)) i (e_wrapped e || (i =? 0)%nat).
  (* ... and for a new key *)
  Definition e_first (n : nat) (v : V) : entry := mkEntry (set_nth 0 v (repeat zero n)) 0 false.

  Lemma e_first_ok n v : (1 <= n)%nat -> entry_ok n (e_first n v).
  Proof. intros H. split; unfold e_first; cbn [e_vals e_idx]; [rewrite set_nth_length, repeat_length; reflexivity|lia]. Qed.

  Lemma e_first_view n v : (1 <= n)%nat -> view (e_first n v) = [v].
  Proof. intros H. destruct n; [lia|]. reflexivity. Qed.

  Lemma e_write_ok n e v : entry_ok n e -> entry_ok n (e_write n e v).
  Proof.
    intros [Hl Hi]. split; unfold e_write; cbn [e_vals e_idx]; [rewrite set_nth_length; exact Hl|].
    apply Nat.mod_upper_bound. lia.
  Qed.

  Lemma e_write_view n e v : entry_ok n e -> view (e_write n e v) = firstn n (v :: view e).
  Proof.
    intros [Hl Hi]. unfold e_write, view. cbn [e_vals e_idx e_wrapped].
    destruct n as [|m]; [lia|]. rewrite firstn_cons.
    destruct (Nat.eq_dec (S (e_idx e)) (S m)) as [Heq|Hne].
    - (* the ring wraps: the new value goes to slot 0 *)
      rewrite Heq, Nat.mod_same by lia. rewrite orb_true_r.
      rewrite (firstn_all2 (n := S m) (e_vals e)) by lia.
      rewrite (skipn_all2 (n := S m) (e_vals e)) by lia.
      replace (if e_wrapped e then rev [] else []) with (@nil V) by (destruct (e_wrapped e); reflexivity).
      rewrite app_nil_r.
      destruct (e_vals e) as [|x t]; [cbn in Hl; lia|]. cbn in Hl.
      change (set_nth 0 v (x :: t)) with (v :: t).
      change (firstn 1 (v :: t)) with [v]. change (skipn 1 (v :: t)) with t.
      cbn [rev app]. f_equal. symmetry. apply firstn_app_exact. rewrite rev_length. lia.
    - rewrite Nat.mod_small by lia.
      rewrite firstn_set_nth by lia. rewrite skipn_set_nth. rewrite rev_app_distr. cbn [rev app].
      replace ((S (e_idx e) =? 0)%nat) with false by reflexivity. rewrite orb_false_r.
      f_equal.
      assert (Hla : length (rev (firstn (S (e_idx e)) (e_vals e))) = S (e_idx e)).
      { rewrite rev_length, firstn_length. lia. }
      destruct (e_wrapped e).
      + rewrite (skipn_nth (e_vals e) (S (e_idx e)) zero) by lia. cbn [rev].
        rewrite app_assoc. symmetry. apply firstn_app_exact.
        rewrite app_length, Hla, rev_length, skipn_length. lia.
      + rewrite app_nil_r. symmetry. apply firstn_all2. lia.
  Qed.

  (* ---------- the table ---------- *)
  Definition nlen (r : rat) : nat := Z.to_nat (r_len r).

  Definition rat_ok (r : rat) : Prop :=
    (1 <= nlen r)%nat /\ NoDup (akeys (r_tab r)) /\
    forall k e, aget k (r_tab r) = Some e -> entry_ok (nlen r) e.

  (* the last arrivals of key k the table still holds, newest first *)
  Definition rat_view (r : rat) (k : Z) : list V :=
    match aget k (r_tab r) with Some e => view e | None => [] end.

  Lemma rat_new_ok len : (1 <= len)%Z -> rat_ok (rat_new len).
  Proof.
    intros H. split; [unfold nlen; cbn; lia|]. split; [constructor|]. intros k e. cbn. discriminate.
  Qed.

  Lemma rat_new_view len k : rat_view (rat_new len) k = [].
  Proof. reflexivity. Qed.

  Lemma rat_write_o_ok r k v : rat_ok r -> rat_write_o zero r k v = Ok (rat_write zero r k v).
  Proof.
    intros [H _]. unfold rat_write_o, nlen in *. destruct (Z.leb_spec (r_len r) 0); [lia|reflexivity].
  Qed.

  Lemma rat_write_tab r k v :
    rat_write zero r k v =
    mkRat (r_len r) (aset k (match aget k (r_tab r) with
                             | Some e => e_write (nlen r) e v
                             | None => e_first (nlen r) v
                             end) (r_tab r)).
  Proof. unfold rat_write. destruct (aget k (r_tab r)); reflexivity. Qed.

  Lemma rat_write_ok r k v : rat_ok r -> rat_ok (rat_write zero r k v).
  Proof.
    intros (Hn & Hnd & He). rewrite rat_write_tab. split; [exact Hn|]. split.
    - cbn. apply NoDup_akeys_aset. exact Hnd.
    - intros k' e'. unfold nlen. cbn [r_len r_tab]. fold (nlen r). rewrite aget_aset.
      destruct (Z.eqb_spec k' k) as [->|_]; [|apply He].
      intros [= <-]. destruct (aget k (r_tab r)) as [e|] eqn:E.
      + apply e_write_ok. eapply He. exact E.
      + apply e_first_ok. exact Hn.
  Qed.

  Lemma rat_view_write r k v k' : rat_ok r ->
    rat_view (rat_write zero r k v) k' =
    if Z.eqb k' k then firstn (nlen r) (v :: rat_view r k) else rat_view r k'.
  Proof.
    intros (Hn & Hnd & He). rewrite rat_write_tab. unfold rat_view. cbn [r_tab]. rewrite aget_aset.
    destruct (Z.eqb_spec k' k) as [->|_]; [|reflexivity].
    destruct (aget k (r_tab r)) as [e|] eqn:E.
    - apply e_write_view. eapply He. exact E.
    - rewrite e_first_view by exact Hn. destruct (nlen r); [lia|]. cbn. rewrite firstn_nil. reflexivity.
  Qed.

  Lemma rat_read_view r k : rat_ok r -> rat_read zero r k = hd_error (rat_view r k).
  Proof.
    intros (Hn & Hnd & He). unfold rat_read, rat_view.
    destruct (aget k (r_tab r)) as [e|] eqn:E; [|reflexivity].
    destruct (view_head e (nlen r) (He _ _ E)) as [t ->]. reflexivity.
  Qed.

  Lemma rat_find_view r k pred : rat_ok r -> rat_find zero r k pred = find pred (rat_view r k).
  Proof.
    intros (Hn & Hnd & He). unfold rat_find, rat_view.
    destruct (aget k (r_tab r)) as [e|] eqn:E; [|reflexivity].
    apply e_find_view. eapply He. exact E.
  Qed.

  Lemma rat_view_length r k : rat_ok r -> (length (rat_view r k) <= nlen r)%nat.
  Proof.
    intros (Hn & Hnd & He). unfold rat_view.
    destruct (aget k (r_tab r)) as [e|] eqn:E; [|cbn; lia].
    destruct (He _ _ E) as [Hl Hi]. unfold view.
    rewrite app_length, rev_length, firstn_length.
    destruct (e_wrapped e); [rewrite rev_length, skipn_length|cbn [length]]; lia.
  Qed.

  (* Values() and FindValues() as maps *)
  Lemma aget_rat_values r k : aget k (rat_values zero r) = rat_read zero r k.
  Proof.
    unfold rat_values, rat_read. induction (r_tab r) as [|[k0 e0] t IH]; cbn; [reflexivity|].
    destruct (Z.eqb k k0); [reflexivity|exact IH].
  Qed.

  Lemma aget_rat_findvalues r pred k : rat_ok r ->
    aget k (rat_findvalues zero r pred) = rat_find zero r k pred.
  Proof.
    intros (_ & Hnd & _). unfold rat_findvalues, rat_find. fold (nlen r).
    generalize (nlen r) as n. intros n. revert Hnd.
    induction (r_tab r) as [|[k0 e0] t IH]; cbn; intros Hnd; [reflexivity|].
    inversion Hnd as [|? ? Hni Hnd']; subst.
    destruct (Z.eqb_spec k k0) as [->|Hne].
    - destruct (e_find zero n e0 pred) eqn:Ef; cbn; [rewrite Z.eqb_refl; reflexivity|].
      apply aget_not_in. intros Hin. apply Hni.
      unfold akeys in Hin. rewrite in_map_iff in Hin. destruct Hin as [[k1 v1] [Hk Hin]]. cbn in Hk. subst k1.
      rewrite in_flat_map in Hin. destruct Hin as [[k2 e2] [Hin2 Hin3]]. cbn in Hin3.
      destruct (e_find zero n e2 pred); [|contradiction]. destruct Hin3 as [[= <- _]|[]].
      change k2 with (fst (k2, e2)). apply in_map. exact Hin2.
    - destruct (e_find zero n e0 pred); cbn; [|apply IH; exact Hnd'].
      destruct (Z.eqb_spec k k0); [contradiction|]. apply IH. exact Hnd'.
  Qed.
End RatFacts.

(* for k, v := range vals { table.Write(k, f v) }: what Read returns afterwards,
   for every iteration order *)
Definition wfold {A} (zero : Z) (f : A -> Z) (vals : list (Z * A)) (order : list Z) (t : @rat Z) : @rat Z :=
  fold_left (fun t k => match aget k vals with
                        | Some a => rat_write zero t k (f a)
                        | None => t
                        end) order t.

Lemma fold_rat_write_read {A} (zero : Z) (f : A -> Z) (vals : list (Z * A)) order :
  forall (t : @rat Z), rat_ok t ->
  rat_ok (wfold zero f vals order t) /\
  forall r, rat_read zero (wfold zero f vals order t) r =
            if memZ r order
            then match aget r vals with Some a => Some (f a) | None => rat_read zero t r end
            else rat_read zero t r.
Proof.
  induction order as [|k rest IH]; intros t Hok; unfold wfold; cbn [fold_left].
  - split; [exact Hok|reflexivity].
  - set (t1 := match aget k vals with Some a => rat_write zero t k (f a) | None => t end).
    assert (Hok1 : rat_ok t1).
    { unfold t1. destruct (aget k vals); [apply rat_write_ok|]; exact Hok. }
    destruct (IH t1 Hok1) as [Hok' Hrd]. unfold wfold in Hok', Hrd. split; [exact Hok'|].
    intros r. rewrite Hrd. unfold memZ. cbn [existsb]. fold (memZ r rest).
    assert (H1 : rat_read zero t1 r = if Z.eqb r k then match aget k vals with Some a => Some (f a) | None => rat_read zero t r end else rat_read zero t r).
    { unfold t1. destruct (aget k vals) as [a|] eqn:Ea.
      - rewrite !rat_read_view by (try apply rat_write_ok; exact Hok).
        rewrite rat_view_write by exact Hok.
        destruct (Z.eqb_spec r k) as [->|]; [|reflexivity].
        destruct Hok as [Hn _]. destruct (nlen t); [lia|reflexivity].
      - destruct (Z.eqb r k); reflexivity. }
    destruct (Z.eqb_spec r k) as [Heq|Hne]; cbn [orb].
    + rewrite H1, Heq. destruct (memZ k rest); [|reflexivity].
      destruct (aget k vals); reflexivity.
    + rewrite H1. reflexivity.
Qed.

(* ---------- every history of writes to one table ---------- *)
Section RatRun.
  Context {V : Type}.
  Variable zero : V.

  Definition rat_writes (r : @rat V) (ws : list (Z * V)) : @rat V :=
    fold_left (fun r kv => rat_write zero r (fst kv) (snd kv)) ws r.

  (* the values written to key k, newest arrival first *)
  Definition arrivals (k : Z) (ws : list (Z * V)) : list V :=
    rev (map snd (filter (fun kv => Z.eqb (fst kv) k) ws)).

  Lemma arrivals_snoc k ws kv :
    arrivals k (ws ++ [kv]) = if Z.eqb k (fst kv) then snd kv :: arrivals k ws else arrivals k ws.
  Proof.
    unfold arrivals. rewrite filter_app, map_app, rev_app_distr. cbn [filter].
    rewrite (Z.eqb_sym k). destruct (Z.eqb (fst kv) k); reflexivity.
  Qed.

  (* a table of length len holds exactly the last len arrivals of every key,
     and every index it uses stays in range *)
  Theorem rat_keeps_last_arrivals len ws : (1 <= len)%Z ->
    rat_ok (rat_writes (rat_new len) ws) /\
    r_len (rat_writes (rat_new len) ws) = len /\
    forall k, rat_view (rat_writes (rat_new len) ws) k = firstn (Z.to_nat len) (arrivals k ws).
  Proof.
    intros Hlen. induction ws as [|kv ws IH] using rev_ind.
    - split; [apply rat_new_ok; exact Hlen|]. split; [reflexivity|].
      intros k. cbn. rewrite firstn_nil. reflexivity.
    - destruct IH as (Hok & Hl & Hv). unfold rat_writes in *. rewrite fold_left_app. cbn [fold_left].
      split; [apply rat_write_ok; exact Hok|]. split; [rewrite rat_write_tab; exact Hl|].
      intros k. rewrite rat_view_write by exact Hok. rewrite arrivals_snoc.
      unfold nlen. rewrite Hl.
      destruct (Z.eqb_spec k (fst kv)) as [->|]; [|apply Hv]. rewrite Hv. apply firstn_cons_firstn.
  Qed.

  Corollary rat_read_last_arrival len ws k : (1 <= len)%Z ->
    rat_read zero (rat_writes (rat_new len) ws) k = hd_error (arrivals k ws).
  Proof.
    intros Hlen. destruct (rat_keeps_last_arrivals len ws Hlen) as (Hok & Hl & Hv).
    rewrite rat_read_view by exact Hok. rewrite Hv.
    destruct (Z.to_nat len) eqn:E; [lia|]. destruct (arrivals k ws); reflexivity.
  Qed.

  Corollary rat_find_newest_match len ws k p : (1 <= len)%Z ->
    rat_find zero (rat_writes (rat_new len) ws) k p = find p (firstn (Z.to_nat len) (arrivals k ws)).
  Proof.
    intros Hlen. destruct (rat_keeps_last_arrivals len ws Hlen) as (Hok & Hl & Hv).
    rewrite rat_find_view by exact Hok. rewrite Hv. reflexivity.
  Qed.

  Corollary rat_values_last_arrival len ws k : (1 <= len)%Z ->
    aget k (rat_values zero (rat_writes (rat_new len) ws)) = hd_error (arrivals k ws).
  Proof. intros Hlen. rewrite aget_rat_values. apply rat_read_last_arrival. exact Hlen. Qed.

  Corollary rat_findvalues_newest_match len ws k p : (1 <= len)%Z ->
    aget k (rat_findvalues zero (rat_writes (rat_new len) ws) p)
    = find p (firstn (Z.to_nat len) (arrivals k ws)).
  Proof.
    intros Hlen. rewrite aget_rat_findvalues by (apply rat_keeps_last_arrivals; exact Hlen).
    apply rat_find_newest_match. exact Hlen.
  Qed.

  (* Write does not panic on any table built with length >= 1 *)
  Corollary rat_write_never_panics len ws k v : (1 <= len)%Z ->
    rat_write_o zero (rat_writes (rat_new len) ws) k v = Ok (rat_write zero (rat_writes (rat_new len) ws) k v).
  Proof. intros Hlen. apply rat_write_o_ok. apply rat_keeps_last_arrivals. exact Hlen. Qed.
End RatRun.

(* a ring of 2 slots, three writes to key 1 with values 10, 20, 30: the oldest is gone *)
Example rat_ring_forgets :
  let r := rat_writes 0%Z (rat_new 2) [(1, 10); (1, 20); (1, 30)]%Z in
  rat_read 0%Z r 1 = Some 30%Z /\
  rat_find 0%Z r 1 (fun v => Z.ltb v 25) = Some 20%Z /\
  rat_find 0%Z r 1 (fun v => Z.ltb v 15) = None /\
  rat_write_o 0%Z (rat_new 0) 1 10%Z = Panic.
Proof. vm_compute. repeat split. Qed.
