(* Proofs of C15 about Comp/Tx.v (model of the speculative register state of
   risc/app.go and of registerRead), for ALL histories (induction over the
   operation list, no bound on its length).

   Both tables keep writes in ARRIVAL order:
     Transaction map entry of r  =  last arrival of r              (mrun_inv)
     view of transactionRAT at r =  last 10 arrivals of r          (rrun_inv)
   "youngest" in the property is by TAG.  Under the usage contract
   tags_increasing (writes to one register arrive in increasing tag order)
   last arrival = youngest; without it the committed value is the last arrival
   (commit_last_arrival_refuted).  Rollback and tagged reads additionally need
   within_slots (1 for the map, 10 for the ring); what is lost beyond is shown
   by the *_refuted witnesses.  Nothing observable depends on the hints that
   stand for Go's map iteration order (m_order_independent, r_order_independent). *)
From Coq Require Import ZArith List Bool Arith Lia.
From Maj Require Import Base.Outcome Comp.Rat Comp.Tx Comp.TxSpec Comp.RatProofs.
Import ListNotations.
Open Scope Z_scope.

(* ---------- lists ---------- *)
Lemma firstn_incl {A} n (l : list A) x : In x (firstn n l) -> In x l.
Proof.
  revert n. induction l as [|y t IH]; intros [|n]; cbn; try tauto.
  intros [H|H]; [left; exact H|right; eapply IH; exact H].
Qed.

Lemma hd_error_firstn {A} n (l : list A) : (1 <= n)%nat -> hd_error (firstn n l) = hd_error l.
Proof. intros H. destruct n; [lia|]. destruct l; reflexivity. Qed.

Lemma fold_left_ext {A B} (f g : A -> B -> A) l : (forall a b, f a b = g a b) ->
  forall a, fold_left f l a = fold_left g l a.
Proof. intros H. induction l as [|x t IH]; intros a; cbn; [reflexivity|]. rewrite H. apply IH. Qed.

(* range over a map, each visited key k updating only entry k: order-free result *)
Lemma fold_keyed_get {B} (F : list (Z * B) -> Z -> list (Z * B)) (res : Z -> option B) :
  (forall m k r, aget r (F m k) =
                 if r =? k then match res k with Some b => Some b | None => aget r m end else aget r m) ->
  forall order m r,
    aget r (fold_left F order m) =
    if memZ r order then match res r with Some b => Some b | None => aget r m end else aget r m.
Proof.
  intros HF. induction order as [|k t IH]; intros m r; cbn [fold_left]; [reflexivity|].
  rewrite IH, !HF. unfold memZ. cbn [existsb]. fold (memZ r t).
  destruct (Z.eqb_spec r k) as [Heq|Hne]; cbn [orb]; [|reflexivity].
  rewrite Heq. destruct (memZ k t); destruct (res k); reflexivity.
Qed.

(* ---------- histories ---------- *)
Section HistFacts.
  Context {op : Type}.
  Variable kind : op -> okind.

  Lemma pend_from_snoc p h o : pend_from kind p (h ++ [o]) = pstep kind (pend_from kind p h) o.
  Proof. unfold pend_from. rewrite fold_left_app. reflexivity. Qed.

  Lemma pend_snoc h o : pend kind (h ++ [o]) = pstep kind (pend kind h) o.
  Proof. apply pend_from_snoc. Qed.

  Lemma hist_ok_snoc chk h o : forall p,
    hist_ok kind chk p (h ++ [o]) =
    hist_ok kind chk p h &&
    match kind o with KWrite r _ s => chk (pend_from kind p h r) s | _ => true end.
  Proof.
    induction h as [|x t IH]; intros p; cbn [app hist_ok].
    - rewrite andb_true_r. reflexivity.
    - rewrite IH, andb_assoc. reflexivity.
  Qed.

  Lemma hist_ok_prefix chk h h' : forall p,
    hist_ok kind chk p (h ++ h') = true -> hist_ok kind chk p h = true.
  Proof.
    induction h as [|x t IH]; intros p; cbn [app hist_ok]; [reflexivity|].
    rewrite !andb_true_iff. intros [H1 H2]. split; [exact H1|]. eapply IH. exact H2.
  Qed.

  (* arrival in tag order: the uncommitted writes of each register are sorted *)
  Lemma tags_increasing_desc h : tags_increasing kind h = true -> forall r, desc (pend kind h r).
  Proof.
    unfold tags_increasing. induction h as [|o h IH] using rev_ind; intros H r; [exact I|].
    rewrite hist_ok_snoc, andb_true_iff in H. destruct H as [H1 H2].
    rewrite pend_snoc. unfold pstep. fold (pend kind h) in H2.
    destruct (kind o) as [r0 v s| |].
    - destruct (Z.eqb_spec r r0) as [_|_]; [|apply IH; exact H1].
      cbn [desc]. split; [|apply IH; exact H1].
      rewrite forallb_forall in H2. apply Forall_forall. intros u Hu.
      apply H2 in Hu. cbn [fst]. lia.
    - exact I.
    - apply IH. exact H1.
  Qed.

  Lemma within_slots_length n h : within_slots kind n h = true ->
    forall r, (length (pend kind h r) <= n)%nat.
  Proof.
    unfold within_slots. induction h as [|o h IH] using rev_ind; intros H r; [cbn; lia|].
    rewrite hist_ok_snoc, andb_true_iff in H. destruct H as [H1 H2].
    rewrite pend_snoc. unfold pstep. fold (pend kind h) in H2.
    destruct (kind o) as [r0 v s| |].
    - destruct (Z.eqb_spec r r0) as [_|_]; [|apply IH; exact H1].
      cbn [length]. apply Nat.ltb_lt in H2. lia.
    - cbn. lia.
    - apply IH. exact H1.
  Qed.
End HistFacts.

(* ---------- youngest ---------- *)
Lemma youngest_In P l u : youngest P l = Some u -> In u l /\ P (fst u) = true.
Proof.
  revert u. induction l as [|a t IH]; intros u; cbn [youngest]; [discriminate|].
  destruct (P (fst a)) eqn:Ea.
  - destruct (youngest P t) as [u'|] eqn:Ey.
    + destruct (fst u' <=? fst a); intros [= <-].
      * split; [left; reflexivity|exact Ea].
      * destruct (IH _ eq_refl) as [Hi Hp]. split; [right; exact Hi|exact Hp].
    + intros [= <-]. split; [left; reflexivity|exact Ea].
  - intros H. destruct (IH _ H) as [Hi Hp]. split; [right; exact Hi|exact Hp].
Qed.

(* the youngest is youngest: no qualifying write has a greater tag *)
Lemma youngest_max P l u : youngest P l = Some u ->
  forall u', In u' l -> P (fst u') = true -> fst u' <= fst u.
Proof.
  revert u. induction l as [|a t IH]; intros u; cbn [youngest]; [discriminate|].
  destruct (P (fst a)) eqn:Ea.
  - destruct (youngest P t) as [u0|] eqn:Ey.
    + destruct (Z.leb_spec (fst u0) (fst a)); intros [= <-]; intros u' [->|Hin] Hp; try lia.
      * specialize (IH _ eq_refl _ Hin Hp). lia.
      * apply (IH _ eq_refl _ Hin Hp).
    + intros [= <-] u' [->|Hin] Hp; [lia|].
      exfalso. clear IH. induction t as [|b t IHt]; [destruct Hin|].
      cbn [youngest] in Ey. destruct Hin as [->|Hin].
      * rewrite Hp in Ey. destruct (youngest P t) as [x|]; [destruct (fst x <=? fst u')|]; discriminate.
      * destruct (P (fst b)); [destruct (youngest P t) as [x|]; [destruct (fst x <=? fst b)|]; discriminate|].
        apply IHt; assumption.
  - intros H u' [->|Hin] Hp; [congruence|]. apply (IH _ H _ Hin Hp).
Qed.

Lemma youngest_none P l : youngest P l = None -> forall u, In u l -> P (fst u) = false.
Proof.
  induction l as [|a t IH]; cbn [youngest]; intros H u []; subst.
  - destruct (P (fst u)); [|reflexivity].
    destruct (youngest P t) as [x|]; [destruct (fst x <=? fst u)|]; discriminate.
  - destruct (P (fst a)); [destruct (youngest P t) as [x|]; [destruct (fst x <=? fst a)|]; discriminate|].
    apply IH; assumption.
Qed.

(* on a list that arrived in tag order the youngest is the first (newest) qualifying arrival *)
Lemma youngest_desc P l : desc l -> youngest P l = find (fun u => P (fst u)) l.
Proof.
  induction l as [|a t IH]; cbn [youngest find desc]; [reflexivity|].
  intros [Hall Hd]. rewrite (IH Hd). destruct (P (fst a)); [|reflexivity].
  destruct (find (fun u => P (fst u)) t) as [u'|] eqn:Ef; [|reflexivity].
  apply find_some in Ef. destruct Ef as [Hin _].
  rewrite Forall_forall in Hall. specialize (Hall _ Hin).
  destruct (Z.leb_spec (fst u') (fst a)); [reflexivity|lia].
Qed.

Lemma youngest_all_hd l : desc l -> youngest all_tags l = hd_error l.
Proof. intros H. rewrite (youngest_desc _ _ H). destruct l; reflexivity. Qed.

(* ---------- one operation: what it does to the observable state ---------- *)
Lemma commit_regs hint c r :
  aget r (regs (commit hint c)) =
  match aget r (trans c) with Some u => Some (snd u) | None => aget r (regs c) end.
Proof.
  unfold commit. cbn [regs].
  rewrite (fold_keyed_get _ (fun k => match aget k (trans c) with Some u => Some (snd u) | None => None end)).
  - rewrite memZ_iter_order, memZ_akeys. destruct (aget r (trans c)); reflexivity.
  - intros m k r0. destruct (aget k (trans c)) as [u|].
    + apply aget_aset.
    + destruct (r0 =? k); reflexivity.
Qed.

Lemma rollback_regs hint s c r :
  aget r (regs (rollback hint s c)) =
  match aget r (trans c) with
  | Some u => if fst u <? s then Some (snd u) else aget r (regs c)
  | None => aget r (regs c)
  end.
Proof.
  unfold rollback. cbn [regs].
  rewrite (fold_keyed_get _ (fun k => match aget k (trans c) with
                                      | Some u => if fst u <? s then Some (snd u) else None
                                      | None => None end)).
  - rewrite memZ_iter_order, memZ_akeys. destruct (aget r (trans c)) as [u|]; [|reflexivity].
    destruct (fst u <? s); reflexivity.
  - intros m k r0. destruct (aget k (trans c)) as [u|].
    + destruct (fst u <? s); [apply aget_aset|destruct (r0 =? k); reflexivity].
    + destruct (r0 =? k); reflexivity.
Qed.

Lemma write_all_read {A} (f : A -> Z) vals hint t :
  rat_ok t ->
  rat_ok (write_all f vals hint t) /\
  forall r, rat_read 0 (write_all f vals hint t) r =
            match aget r vals with Some a => Some (f a) | None => rat_read 0 t r end.
Proof.
  intros Hok. destruct (fold_rat_write_read 0 f vals (iter_order hint (akeys vals)) t Hok) as [H1 H2].
  split; [exact H1|]. intros r. unfold write_all. unfold wfold in H2. rewrite H2.
  rewrite memZ_iter_order, memZ_akeys. destruct (aget r vals); reflexivity.
Qed.

Lemma rat_flush_regs hint c r :
  aget r (regs (rat_flush hint c)) =
  match rat_read 0 (crat c) r with Some v => Some v | None => aget r (regs c) end.
Proof.
  unfold rat_flush. cbn [regs].
  rewrite (fold_keyed_get _ (fun k => aget k (rat_values 0 (crat c)))).
  - rewrite memZ_iter_order, memZ_akeys, aget_rat_values. destruct (rat_read 0 (crat c) r); reflexivity.
  - intros m k r0. destruct (aget k (rat_values 0 (crat c))) as [v|].
    + apply aget_aset.
    + destruct (r0 =? k); reflexivity.
Qed.

(* the committed value registerRead falls back to on the RAT path *)
Definition arch (c : ctx) (r : Z) : Z :=
  match rat_read 0 (crat c) r with Some v => v | None => 0 end.
(* the value RATFlush leaves in Registers *)
Definition arch_or_reg (c : ctx) (r : Z) : Z :=
  match rat_read 0 (crat c) r with Some v => v | None => reg_get c r end.

Definition ctx_ok (c : ctx) : Prop :=
  rat_ok (crat c) /\ rat_ok (trat c) /\ r_len (trat c) = ratLength.

Lemma new_context_ok b : ctx_ok (new_context b).
Proof.
  unfold ctx_ok, new_context. cbn [crat trat].
  split; [apply rat_new_ok; unfold ratLength; lia|].
  split; [apply rat_new_ok; unfold ratLength; lia|reflexivity].
Qed.

Lemma rat_commit_read hint c r : ctx_ok c ->
  ctx_ok (rat_commit hint c) /\
  rat_read 0 (crat (rat_commit hint c)) r =
  match rat_read tu_zero (trat c) r with Some u => Some (snd u) | None => rat_read 0 (crat c) r end.
Proof.
  intros (Hc & Ht & Hl). unfold rat_commit. cbn [crat trat].
  destruct (write_all_read (fun u : tu => snd u) (rat_values tu_zero (trat c)) hint (crat c) Hc) as [H1 H2].
  split.
  - split; [exact H1|]. split; [apply rat_new_ok; unfold ratLength; lia|reflexivity].
  - rewrite H2, aget_rat_values. reflexivity.
Qed.

Lemma rat_rollback_read hint s c r : ctx_ok c ->
  ctx_ok (rat_rollback hint s c) /\
  rat_read 0 (crat (rat_rollback hint s c)) r =
  match rat_find tu_zero (trat c) r (tag_lt s) with Some u => Some (snd u) | None => rat_read 0 (crat c) r end.
Proof.
  intros (Hc & Ht & Hl). unfold rat_rollback. cbn [crat trat].
  destruct (write_all_read (fun u : tu => snd u) (rat_findvalues tu_zero (trat c) (tag_lt s)) hint (crat c) Hc) as [H1 H2].
  split.
  - split; [exact H1|]. split; [apply rat_new_ok; unfold ratLength; lia|reflexivity].
  - rewrite H2, aget_rat_findvalues by exact Ht. reflexivity.
Qed.

Lemma init_rat_read hint c r : ctx_ok c ->
  ctx_ok (init_rat hint c) /\
  rat_read 0 (crat (init_rat hint c)) r =
  match aget r (regs c) with Some v => Some v | None => rat_read 0 (crat c) r end.
Proof.
  intros (Hc & Ht & Hl). unfold init_rat. cbn [crat trat].
  destruct (write_all_read (fun v : Z => v) (regs c) hint (crat c) Hc) as [H1 H2].
  split; [split; [exact H1|split; assumption]|apply H2].
Qed.

(* Write never panics in a Context (all its tables have length 10) *)
Lemma rat_write_o_ctx c r v s : ctx_ok c ->
  rat_write_o tu_zero (trat c) r (s, v) = Ok (rat_write tu_zero (trat c) r (s, v)).
Proof. intros (_ & Ht & _). apply rat_write_o_ok. exact Ht. Qed.

(* ================= the map discipline (MVP-6.2) ================= *)
Definition ctx0m : ctx := new_context false.

Lemma mrun_snoc h o c : mrun (h ++ [o]) c = mexec o (mrun h c).
Proof. unfold mrun. rewrite fold_left_app. reflexivity. Qed.

(* the Transaction map holds, per register, the LAST ARRIVAL among the uncommitted writes *)
Lemma mrun_inv h :
  ratflag (mrun h ctx0m) = false /\
  forall r, aget r (trans (mrun h ctx0m)) = hd_error (pend mkind h r).
Proof.
  induction h as [|o h IH] using rev_ind; [split; reflexivity|].
  destruct IH as [IHf IHt]. rewrite mrun_snoc, pend_snoc. unfold pstep.
  destruct o as [r0 v|r0 v s|r0 s fw|hint|hint s]; cbn [mexec mkind].
  - split; [exact IHf|exact IHt].
  - split; [exact IHf|]. intros r. unfold tx_write. cbn [trans]. rewrite aget_aset.
    destruct (r =? r0); [reflexivity|apply IHt].
  - split; [exact IHf|exact IHt].
  - split; [exact IHf|reflexivity].
  - split; [exact IHf|reflexivity].
Qed.

(* Commit: every register holds the value of its youngest uncommitted write, the
   others keep their value -- also beyond the one slot of the map *)
Theorem m_commit_youngest h hint r :
  tags_increasing mkind h = true ->
  reg_get (mrun (h ++ [MCommit hint]) ctx0m) r =
  value_or (youngest all_tags (pend mkind h r)) (reg_get (mrun h ctx0m) r).
Proof.
  intros Ht. rewrite mrun_snoc. cbn [mexec]. unfold reg_get. rewrite commit_regs.
  rewrite (proj2 (mrun_inv h)).
  rewrite youngest_all_hd by (apply tags_increasing_desc; exact Ht).
  destruct (pend mkind h r); reflexivity.
Qed.

(* Rollback s within the slot bound: youngest write older than s, unchanged if none *)
Theorem m_rollback_youngest_older_than_s h hint s r :
  within_slots mkind 1 h = true ->
  reg_get (mrun (h ++ [MRollback hint s]) ctx0m) r =
  value_or (youngest (older_than s) (pend mkind h r)) (reg_get (mrun h ctx0m) r).
Proof.
  intros Hw. rewrite mrun_snoc. cbn [mexec]. unfold reg_get. rewrite rollback_regs.
  rewrite (proj2 (mrun_inv h)).
  pose proof (within_slots_length mkind 1 h Hw r) as Hl.
  destruct (pend mkind h r) as [|u [|u' t]]; [reflexivity| |cbn in Hl; lia].
  cbn [hd_error youngest]. unfold older_than. destruct (fst u <? s); reflexivity.
Qed.

Theorem m_untouched_unchanged h hint s r :
  pend mkind h r = [] ->
  reg_get (mrun (h ++ [MCommit hint]) ctx0m) r = reg_get (mrun h ctx0m) r /\
  reg_get (mrun (h ++ [MRollback hint s]) ctx0m) r = reg_get (mrun h ctx0m) r.
Proof.
  intros Hp. rewrite !mrun_snoc. cbn [mexec]. unfold reg_get.
  rewrite commit_regs, rollback_regs, (proj2 (mrun_inv h)), Hp. split; reflexivity.
Qed.

(* a read on behalf of tag t never returns a value written by a younger instruction *)
Theorem m_read_never_younger h r t fw :
  t <> 0 -> r <> fst fw ->
  let v := register_read (mrun h ctx0m) fw r t in
  (exists u, In u (pend mkind h r) /\ fst u <= t /\ snd u = v) \/ v = reg_get (mrun h ctx0m) r.
Proof.
  intros Ht Hf. cbv zeta. unfold register_read.
  destruct (Z.eqb_spec r (fst fw)); [contradiction|].
  rewrite (proj1 (mrun_inv h)), (proj2 (mrun_inv h)).
  destruct (pend mkind h r) as [|u l]; cbn [hd_error]; [right; reflexivity|].
  destruct (Z.eqb_spec t 0); [contradiction|]. cbn [orb].
  destruct (Z.leb_spec (fst u) t); [|right; reflexivity].
  left. exists u. split; [left; reflexivity|]. split; [assumption|reflexivity].
Qed.

(* an untagged read returns the youngest uncommitted write, else the committed value *)
Theorem m_plain_read_youngest h r fw :
  tags_increasing mkind h = true -> r <> fst fw ->
  register_read (mrun h ctx0m) fw r 0 =
  value_or (youngest all_tags (pend mkind h r)) (reg_get (mrun h ctx0m) r).
Proof.
  intros Ht Hf. unfold register_read.
  destruct (Z.eqb_spec r (fst fw)); [contradiction|].
  rewrite (proj1 (mrun_inv h)), (proj2 (mrun_inv h)).
  rewrite youngest_all_hd by (apply tags_increasing_desc; exact Ht).
  destruct (pend mkind h r); reflexivity.
Qed.

(* the forward register takes precedence over everything *)
Lemma register_read_forward c fw s : register_read c fw (fst fw) s = snd fw.
Proof. unfold register_read. rewrite Z.eqb_refl. reflexivity. Qed.

(* beyond the slot bound nothing else is needed for commit and plain reads *)
Theorem m_commit_and_plain_read_still_youngest h hint r fw :
  tags_increasing mkind h = true ->
  reg_get (mrun (h ++ [MCommit hint]) ctx0m) r =
    value_or (youngest all_tags (pend mkind h r)) (reg_get (mrun h ctx0m) r) /\
  (r <> fst fw ->
   register_read (mrun h ctx0m) fw r 0 =
    value_or (youngest all_tags (pend mkind h r)) (reg_get (mrun h ctx0m) r)).
Proof.
  intros Ht. split; [apply m_commit_youngest; exact Ht|].
  intros Hf. apply m_plain_read_youngest; assumption.
Qed.

(* ... what IS lost beyond the slot: write t0 := 1 (tag 1), write t0 := 2 (tag 5),
   rollback 3.  The write of tag 1 is older than 3 and should survive; the map
   only kept the write of tag 5, so t0 keeps its old value 0. *)
Definition m_beyond_witness : list mop := [MTxWrite 5 1 1; MTxWrite 5 2 5].
Theorem m_rollback_beyond_slot_refuted :
  exists h s r,
    tags_increasing mkind h = true /\ within_slots mkind 1 h = false /\
    reg_get (mrun (h ++ [MRollback [] s]) ctx0m) r = 0 /\
    value_or (youngest (older_than s) (pend mkind h r)) (reg_get (mrun h ctx0m) r) = 1.
Proof. exists m_beyond_witness, 3, 5. vm_compute. repeat split. Qed.

(* arrival against tag order: write t0 := 1 (tag 9) then t0 := 2 (tag 3), commit.
   The youngest write (tag 9) has value 1; the register gets the last arrival, 2. *)
Definition m_disorder_witness : list mop := [MTxWrite 5 1 9; MTxWrite 5 2 3].
Theorem m_commit_last_arrival_refuted :
  exists h r,
    tags_increasing mkind h = false /\ within_slots mkind 2 h = true /\
    reg_get (mrun (h ++ [MCommit []]) ctx0m) r = 2 /\
    value_or (youngest all_tags (pend mkind h r)) (reg_get (mrun h ctx0m) r) = 1.
Proof. exists m_disorder_witness, 5. vm_compute. repeat split. Qed.

(* without tag order the committed value is, for every history, the last arrival *)
Theorem m_commit_last_arrival h hint r :
  reg_get (mrun (h ++ [MCommit hint]) ctx0m) r =
  value_or (hd_error (pend mkind h r)) (reg_get (mrun h ctx0m) r).
Proof.
  rewrite mrun_snoc. cbn [mexec]. unfold reg_get. rewrite commit_regs, (proj2 (mrun_inv h)).
  destruct (pend mkind h r); reflexivity.
Qed.

(* non-vacuity: a history with initial values, two registers, a rollback that
   separates, a commit; it satisfies both contracts *)
Definition m_example : list mop :=
  [MWriteReg 5 7; MWriteReg 6 9; MTxWrite 5 11 3; MTxWrite 6 12 8; MRead 5 4 (0, 0);
   MRollback [6; 5] 5; MTxWrite 6 13 9; MTxWrite 7 14 10; MCommit []].
Example m_example_ok :
  tags_increasing mkind m_example = true /\ within_slots mkind 1 m_example = true /\
  map (reg_get (mrun m_example ctx0m)) [5; 6; 7] = [11; 13; 14] /\
  map (reg_get (mrun (firstn 6 m_example) ctx0m)) [5; 6; 7] = [11; 9; 0].
Proof. vm_compute. repeat split. Qed.
(* beyond the slot, in tag order: three writes to t0, commit keeps the youngest *)
Example m_example_beyond :
  let h := [MTxWrite 5 1 1; MTxWrite 5 2 2; MTxWrite 5 3 3] in
  tags_increasing mkind h = true /\ within_slots mkind 1 h = false /\
  reg_get (mrun (h ++ [MCommit []]) ctx0m) 5 = 3.
Proof. vm_compute. repeat split. Qed.

(* ---------- order independence (Go map iteration), map discipline ---------- *)
Definition merase (o : mop) : mop :=
  match o with
  | MCommit _ => MCommit []
  | MRollback _ s => MRollback [] s
  | o => o
  end.

(* same observable context: Registers equal as maps, everything else identical *)
Definition mceq (c1 c2 : ctx) : Prop :=
  (forall r, aget r (regs c1) = aget r (regs c2)) /\
  trans c1 = trans c2 /\ crat c1 = crat c2 /\ trat c1 = trat c2 /\ ratflag c1 = ratflag c2.

Fixpoint mtrace (h : list mop) (c : ctx) : list (option Z) :=
  match h with
  | [] => []
  | o :: t => mout o c :: mtrace t (mexec o c)
  end.

Lemma register_read_mceq c1 c2 fw r s : mceq c1 c2 -> register_read c1 fw r s = register_read c2 fw r s.
Proof.
  intros (Hr & Ht & Hc & Hta & Hf). unfold register_read, reg_get.
  rewrite Ht, Hc, Hta, Hf, Hr. reflexivity.
Qed.

Lemma mstep_independent o1 o2 c1 c2 :
  merase o1 = merase o2 -> mceq c1 c2 ->
  mout o1 c1 = mout o2 c2 /\ mceq (mexec o1 c1) (mexec o2 c2).
Proof.
  intros He Hc. pose proof Hc as (Hr & Ht & Hcr & Hta & Hf).
  destruct o1, o2; cbn [merase] in He; try discriminate; inversion He; subst; clear He; cbn [mout mexec].
  - split; [reflexivity|]. unfold write_register, mceq. cbn [regs trans crat trat ratflag].
    repeat split; try assumption. intros r'. rewrite !aget_aset, Hr. reflexivity.
  - split; [reflexivity|]. unfold tx_write, mceq. cbn [regs trans crat trat ratflag].
    repeat split; try assumption. rewrite Ht. reflexivity.
  - split; [|exact Hc]. f_equal. apply register_read_mceq. exact Hc.
  - split; [reflexivity|]. unfold mceq. split.
    + intros r'. rewrite !commit_regs, Ht, Hr. reflexivity.
    + unfold commit. cbn [trans crat trat ratflag]. repeat split; assumption.
  - split; [reflexivity|]. unfold mceq. split.
    + intros r'. rewrite !rollback_regs, Ht, Hr. reflexivity.
    + unfold rollback. cbn [trans crat trat ratflag]. repeat split; assumption.
Qed.

(* two runs that differ only in the iteration orders return the same values to every
   read and end in the same observable state *)
Theorem m_order_independent h1 : forall h2 c1 c2,
  map merase h1 = map merase h2 -> mceq c1 c2 ->
  mtrace h1 c1 = mtrace h2 c2 /\ mceq (mrun h1 c1) (mrun h2 c2).
Proof.
  induction h1 as [|o1 t1 IH]; intros [|o2 t2] c1 c2 He Hc; try discriminate.
  - split; [reflexivity|exact Hc].
  - cbn [map] in He. injection He as He1 He2.
    destruct (mstep_independent o1 o2 c1 c2 He1 Hc) as [Ho Hc'].
    destruct (IH t2 _ _ He2 Hc') as [Htr Hrun].
    cbn [mtrace]. unfold mrun in *. cbn [fold_left]. split; [rewrite Ho, Htr; reflexivity|exact Hrun].
Qed.

(* ================= the RAT discipline (MVP-6.3 and later) ================= *)
Definition ctx0r : ctx := new_context true.

Lemma rrun_snoc h o c : rrun (h ++ [o]) c = rexec o (rrun h c).
Proof. unfold rrun. rewrite fold_left_app. reflexivity. Qed.

Lemma rexec_ok o c : ctx_ok c -> ctx_ok (rexec o c).
Proof.
  intros Hok. destruct o as [r0 v|hint|r0 v s|r0 s fw|hint|hint s|hint]; cbn [rexec].
  - exact Hok.
  - apply (init_rat_read hint c 0 Hok).
  - destruct Hok as (Hc & Ht & Hl). unfold tx_rat_write, ctx_ok. cbn [crat trat].
    split; [exact Hc|]. split; [apply rat_write_ok; exact Ht|].
    rewrite rat_write_tab. exact Hl.
  - exact Hok.
  - apply (rat_commit_read hint c 0 Hok).
  - apply (rat_rollback_read hint s c 0 Hok).
  - exact Hok.
Qed.

(* the transaction RAT holds, per register, the LAST 10 ARRIVALS among the uncommitted writes *)
Lemma rrun_inv h :
  ctx_ok (rrun h ctx0r) /\ ratflag (rrun h ctx0r) = true /\
  forall r, rat_view (trat (rrun h ctx0r)) r = firstn 10 (pend rkind h r).
Proof.
  induction h as [|o h IH] using rev_ind.
  - split; [apply new_context_ok|]. split; reflexivity.
  - destruct IH as (Hok & Hf & Hv). rewrite rrun_snoc, pend_snoc.
    split; [apply rexec_ok; exact Hok|]. unfold pstep.
    destruct o as [r0 v|hint|r0 v s|r0 s fw|hint|hint s|hint]; cbn [rexec rkind];
      try (split; [exact Hf|exact Hv]); (split; [exact Hf|]).
    + intros r. unfold tx_rat_write. cbn [trat].
      destruct Hok as (Hc & Ht & Hl). rewrite rat_view_write by exact Ht.
      unfold nlen. rewrite Hl. change (Z.to_nat ratLength) with 10%nat.
      destruct (r =? r0); [|apply Hv]. rewrite Hv. apply firstn_cons_firstn.
    + intros r. reflexivity.
    + intros r. reflexivity.
Qed.

Lemma trat_read_hd h r :
  rat_read tu_zero (trat (rrun h ctx0r)) r = hd_error (pend rkind h r).
Proof.
  destruct (rrun_inv h) as ((Hc & Ht & Hl) & Hf & Hv).
  rewrite rat_read_view by exact Ht. rewrite Hv. apply hd_error_firstn. lia.
Qed.

Lemma trat_find h r p :
  rat_find tu_zero (trat (rrun h ctx0r)) r p = find p (firstn 10 (pend rkind h r)).
Proof.
  destruct (rrun_inv h) as ((Hc & Ht & Hl) & Hf & Hv).
  rewrite rat_find_view by exact Ht. rewrite Hv. reflexivity.
Qed.

(* RATCommit: the committed value of every register is that of its youngest
   uncommitted write, the others keep theirs -- also when the ring wrapped *)
Theorem r_commit_youngest h hint r :
  tags_increasing rkind h = true ->
  arch (rrun (h ++ [RCommit hint]) ctx0r) r =
  value_or (youngest all_tags (pend rkind h r)) (arch (rrun h ctx0r) r).
Proof.
  intros Ht. rewrite rrun_snoc. cbn [rexec]. unfold arch.
  rewrite (proj2 (rat_commit_read hint _ r (proj1 (rrun_inv h)))), trat_read_hd.
  rewrite youngest_all_hd by (apply tags_increasing_desc; exact Ht).
  destruct (pend rkind h r); reflexivity.
Qed.

Lemma rrun_snoc2 h o1 o2 c : rrun (h ++ [o1; o2]) c = rexec o2 (rexec o1 (rrun h c)).
Proof. unfold rrun. rewrite fold_left_app. reflexivity. Qed.

(* ... and RATFlush copies it into Registers *)
Theorem r_commit_flush_youngest h hint1 hint2 r :
  tags_increasing rkind h = true ->
  reg_get (rrun (h ++ [RCommit hint1; RFlush hint2]) ctx0r) r =
  value_or (youngest all_tags (pend rkind h r)) (arch_or_reg (rrun h ctx0r) r).
Proof.
  intros Ht. rewrite rrun_snoc2. cbn [rexec]. unfold reg_get, arch_or_reg. rewrite rat_flush_regs.
  rewrite (proj2 (rat_commit_read hint1 _ r (proj1 (rrun_inv h)))), trat_read_hd.
  rewrite youngest_all_hd by (apply tags_increasing_desc; exact Ht).
  unfold rat_commit. cbn [regs]. unfold reg_get.
  destruct (pend rkind h r); [|reflexivity]. cbn [hd_error value_or].
  destruct (rat_read 0 (crat (rrun h ctx0r)) r); reflexivity.
Qed.

Lemma find_tag_lt_youngest s l : desc l -> find (tag_lt s) l = youngest (older_than s) l.
Proof. intros H. rewrite (youngest_desc _ _ H). reflexivity. Qed.

Lemma find_tag_le_youngest t l : desc l -> find (tag_le t) l = youngest (not_younger_than t) l.
Proof. intros H. rewrite (youngest_desc _ _ H). reflexivity. Qed.

(* RATRollback s within the 10 slots: youngest write older than s, unchanged if none *)
Theorem r_rollback_youngest_older_than_s h hint s r :
  tags_increasing rkind h = true -> within_slots rkind 10 h = true ->
  arch (rrun (h ++ [RRollback hint s]) ctx0r) r =
  value_or (youngest (older_than s) (pend rkind h r)) (arch (rrun h ctx0r) r).
Proof.
  intros Ht Hw. rewrite rrun_snoc. cbn [rexec]. unfold arch.
  rewrite (proj2 (rat_rollback_read hint s _ r (proj1 (rrun_inv h)))), trat_find.
  rewrite firstn_all2 by (apply within_slots_length; exact Hw).
  rewrite find_tag_lt_youngest by (apply tags_increasing_desc; exact Ht).
  destruct (youngest (older_than s) (pend rkind h r)); reflexivity.
Qed.

Theorem r_rollback_flush_youngest_older_than_s h hint1 hint2 s r :
  tags_increasing rkind h = true -> within_slots rkind 10 h = true ->
  reg_get (rrun (h ++ [RRollback hint1 s; RFlush hint2]) ctx0r) r =
  value_or (youngest (older_than s) (pend rkind h r)) (arch_or_reg (rrun h ctx0r) r).
Proof.
  intros Ht Hw. rewrite rrun_snoc2. cbn [rexec]. unfold reg_get, arch_or_reg. rewrite rat_flush_regs.
  rewrite (proj2 (rat_rollback_read hint1 s _ r (proj1 (rrun_inv h)))), trat_find.
  rewrite firstn_all2 by (apply within_slots_length; exact Hw).
  rewrite find_tag_lt_youngest by (apply tags_increasing_desc; exact Ht).
  unfold rat_rollback. cbn [regs]. unfold reg_get.
  destruct (youngest (older_than s) (pend rkind h r)); [reflexivity|]. cbn [value_or].
  destruct (rat_read 0 (crat (rrun h ctx0r)) r); reflexivity.
Qed.

Theorem r_untouched_unchanged h hint s r :
  pend rkind h r = [] ->
  arch (rrun (h ++ [RCommit hint]) ctx0r) r = arch (rrun h ctx0r) r /\
  arch (rrun (h ++ [RRollback hint s]) ctx0r) r = arch (rrun h ctx0r) r.
Proof.
  intros Hp. rewrite !rrun_snoc. cbn [rexec]. unfold arch.
  rewrite (proj2 (rat_commit_read hint _ r (proj1 (rrun_inv h)))), trat_read_hd.
  rewrite (proj2 (rat_rollback_read hint s _ r (proj1 (rrun_inv h)))), trat_find.
  rewrite Hp. split; reflexivity.
Qed.

(* a read on behalf of tag t never returns a value written by a younger instruction *)
Theorem r_read_never_younger h r t fw :
  t <> 0 -> r <> fst fw ->
  let v := register_read (rrun h ctx0r) fw r t in
  (exists u, In u (pend rkind h r) /\ fst u <= t /\ snd u = v) \/ v = arch (rrun h ctx0r) r.
Proof.
  intros Ht Hf. cbv zeta. unfold register_read.
  destruct (Z.eqb_spec r (fst fw)); [contradiction|].
  rewrite (proj1 (proj2 (rrun_inv h))).
  destruct (Z.eqb_spec t 0); [contradiction|].
  rewrite trat_find.
  destruct (find (tag_le t) (firstn 10 (pend rkind h r))) as [u|] eqn:Ef; [|right; reflexivity].
  apply find_some in Ef. destruct Ef as [Hin Hp]. left. exists u.
  split; [eapply firstn_incl; exact Hin|]. split; [|reflexivity].
  unfold tag_le in Hp. apply Z.leb_le. exact Hp.
Qed.

(* an untagged read returns the youngest uncommitted write, else the committed value *)
Theorem r_plain_read_youngest h r fw :
  tags_increasing rkind h = true -> r <> fst fw ->
  register_read (rrun h ctx0r) fw r 0 =
  value_or (youngest all_tags (pend rkind h r)) (arch (rrun h ctx0r) r).
Proof.
  intros Ht Hf. unfold register_read.
  destruct (Z.eqb_spec r (fst fw)); [contradiction|].
  rewrite (proj1 (proj2 (rrun_inv h))). cbn [Z.eqb]. rewrite trat_read_hd.
  rewrite youngest_all_hd by (apply tags_increasing_desc; exact Ht).
  destruct (pend rkind h r); reflexivity.
Qed.

(* within the slots a tagged read returns exactly the youngest write that is not younger *)
Theorem r_read_youngest_not_younger h r t fw :
  tags_increasing rkind h = true -> within_slots rkind 10 h = true ->
  t <> 0 -> r <> fst fw ->
  register_read (rrun h ctx0r) fw r t =
  value_or (youngest (not_younger_than t) (pend rkind h r)) (arch (rrun h ctx0r) r).
Proof.
  intros Ht Hw Hn Hf. unfold register_read.
  destruct (Z.eqb_spec r (fst fw)); [contradiction|].
  rewrite (proj1 (proj2 (rrun_inv h))).
  destruct (Z.eqb_spec t 0); [contradiction|].
  rewrite trat_find.
  rewrite firstn_all2 by (apply within_slots_length; exact Hw).
  rewrite find_tag_le_youngest by (apply tags_increasing_desc; exact Ht).
  destruct (youngest (not_younger_than t) (pend rkind h r)); reflexivity.
Qed.

Theorem r_commit_and_plain_read_still_youngest h hint r fw :
  tags_increasing rkind h = true ->
  arch (rrun (h ++ [RCommit hint]) ctx0r) r =
    value_or (youngest all_tags (pend rkind h r)) (arch (rrun h ctx0r) r) /\
  (r <> fst fw ->
   register_read (rrun h ctx0r) fw r 0 =
    value_or (youngest all_tags (pend rkind h r)) (arch (rrun h ctx0r) r)).
Proof.
  intros Ht. split; [apply r_commit_youngest; exact Ht|].
  intros Hf. apply r_plain_read_youngest; assumption.
Qed.

(* Registers and the committed RAT agree on the registers the committed RAT does not
   hold, as long as no WriteRegister follows the last InitRAT *)
Definition no_late_regwrite (h : list rop) : bool :=
  fold_left (fun b o => match o with RInit _ => true | RWriteReg _ _ => false | _ => b end) h true.

Lemma r_initialised h :
  no_late_regwrite h = true ->
  forall r, rat_read 0 (crat (rrun h ctx0r)) r = None -> reg_get (rrun h ctx0r) r = 0.
Proof.
  induction h as [|o h IH] using rev_ind; [reflexivity|].
  unfold no_late_regwrite. rewrite fold_left_app. cbn [fold_left]. fold (no_late_regwrite h).
  rewrite rrun_snoc. pose proof (proj1 (rrun_inv h)) as Hok.
  destruct o as [r0 v|hint|r0 v s|r0 s fw|hint|hint s|hint]; cbn [rexec]; intros Hn r.
  - discriminate.
  - rewrite (proj2 (init_rat_read hint _ r Hok)). unfold init_rat, reg_get. cbn [regs].
    destruct (aget r (regs (rrun h ctx0r))); [discriminate|reflexivity].
  - apply IH. exact Hn.
  - apply IH. exact Hn.
  - rewrite (proj2 (rat_commit_read hint _ r Hok)).
    destruct (rat_read tu_zero (trat (rrun h ctx0r)) r); [discriminate|]. apply IH. exact Hn.
  - rewrite (proj2 (rat_rollback_read hint s _ r Hok)).
    destruct (rat_find tu_zero (trat (rrun h ctx0r)) r (tag_lt s)); [discriminate|]. apply IH. exact Hn.
  - unfold reg_get. rewrite rat_flush_regs. unfold rat_flush. cbn [crat]. intros Hr. rewrite Hr.
    apply (IH Hn r Hr).
Qed.

Theorem r_arch_or_reg h r :
  no_late_regwrite h = true -> arch_or_reg (rrun h ctx0r) r = arch (rrun h ctx0r) r.
Proof.
  intros Hn. unfold arch_or_reg, arch.
  destruct (rat_read 0 (crat (rrun h ctx0r)) r) eqn:E; [reflexivity|].
  apply r_initialised; assumption.
Qed.

(* for every history, whatever the arrival order: the committed value is the last arrival *)
Theorem r_commit_last_arrival h hint r :
  arch (rrun (h ++ [RCommit hint]) ctx0r) r =
  value_or (hd_error (pend rkind h r)) (arch (rrun h ctx0r) r).
Proof.
  rewrite rrun_snoc. cbn [rexec]. unfold arch.
  rewrite (proj2 (rat_commit_read hint _ r (proj1 (rrun_inv h)))), trat_read_hd.
  destruct (pend rkind h r); reflexivity.
Qed.

(* what IS lost beyond the 10 slots: eleven writes t0 := 100+i with tags i = 1..11,
   rollback 2.  The write of tag 1 (value 101) is older than 2 and should survive;
   the ring has overwritten it, so the committed value of t0 stays 0. *)
Definition r_beyond_witness : list rop :=
  map (fun i => RWrite 5 (100 + i) i) [1; 2; 3; 4; 5; 6; 7; 8; 9; 10; 11].
Theorem r_rollback_beyond_slots_refuted :
  exists h s r,
    tags_increasing rkind h = true /\ within_slots rkind 10 h = false /\
    arch (rrun (h ++ [RRollback [] s]) ctx0r) r = 0 /\
    reg_get (rrun (h ++ [RRollback [] s; RFlush []]) ctx0r) r = 0 /\
    value_or (youngest (older_than s) (pend rkind h r)) (arch (rrun h ctx0r) r) = 101.
Proof. exists r_beyond_witness, 2, 5. vm_compute. repeat split. Qed.

(* likewise a read on behalf of tag 1 no longer finds the write of tag 1 (it returns
   the committed value, which read_never_younger allows) *)
Theorem r_tagged_read_beyond_slots_refuted :
  exists h t r,
    tags_increasing rkind h = true /\ within_slots rkind 10 h = false /\
    register_read (rrun h ctx0r) (0, 0) r t = 0 /\
    value_or (youngest (not_younger_than t) (pend rkind h r)) (arch (rrun h ctx0r) r) = 101.
Proof. exists r_beyond_witness, 1, 5. vm_compute. repeat split. Qed.

(* arrival against tag order: t0 := 1 (tag 9) then t0 := 2 (tag 3); RATCommit.
   The youngest write (tag 9) has value 1; the committed value is the last arrival, 2. *)
Definition r_disorder_witness : list rop := [RWrite 5 1 9; RWrite 5 2 3].
Theorem r_commit_last_arrival_refuted :
  exists h r,
    tags_increasing rkind h = false /\ within_slots rkind 10 h = true /\
    arch (rrun (h ++ [RCommit []]) ctx0r) r = 2 /\
    reg_get (rrun (h ++ [RCommit []; RFlush []]) ctx0r) r = 2 /\
    value_or (youngest all_tags (pend rkind h r)) (arch (rrun h ctx0r) r) = 1.
Proof. exists r_disorder_witness, 5. vm_compute. repeat split. Qed.

(* and a rollback picks the newest ARRIVAL older than s, not the youngest:
   t0 := 1 (tag 4), t0 := 2 (tag 2), t0 := 3 (tag 9); RATRollback 5 commits 2, not 1 *)
Theorem r_rollback_arrival_order_refuted :
  exists h s r,
    tags_increasing rkind h = false /\ within_slots rkind 10 h = true /\
    arch (rrun (h ++ [RRollback [] s]) ctx0r) r = 2 /\
    value_or (youngest (older_than s) (pend rkind h r)) (arch (rrun h ctx0r) r) = 1.
Proof. exists [RWrite 5 1 4; RWrite 5 2 2; RWrite 5 3 9], 5, 5. vm_compute. repeat split. Qed.

(* non-vacuity *)
Definition r_example : list rop :=
  [RWriteReg 5 7; RWriteReg 6 9; RInit [6; 5]; RWrite 5 11 3; RWrite 6 12 8; RWrite 5 15 9;
   RRead 5 4 (0, 0); RRollback [6; 5] 5; RFlush []; RWrite 6 13 9; RWrite 7 14 10; RCommit [7]; RFlush [5]].
Example r_example_ok :
  tags_increasing rkind r_example = true /\ within_slots rkind 10 r_example = true /\
  no_late_regwrite r_example = true /\
  map (reg_get (rrun r_example ctx0r)) [5; 6; 7] = [11; 13; 14] /\
  map (reg_get (rrun (firstn 9 r_example) ctx0r)) [5; 6; 7] = [11; 9; 0] /\
  rout (RRead 5 4 (0, 0)) (rrun (firstn 6 r_example) ctx0r) = Some 11 /\
  rout (RRead 5 0 (0, 0)) (rrun (firstn 6 r_example) ctx0r) = Some 15 /\
  rout (RRead 5 2 (0, 0)) (rrun (firstn 6 r_example) ctx0r) = Some 7.
Proof. vm_compute. repeat split. Qed.
(* beyond the slots, in tag order: twelve writes, commit keeps the youngest *)
Example r_example_beyond :
  let h := r_beyond_witness ++ [RWrite 5 112 12] in
  tags_increasing rkind h = true /\ within_slots rkind 10 h = false /\
  arch (rrun (h ++ [RCommit []]) ctx0r) 5 = 112 /\ register_read (rrun h ctx0r) (0, 0) 5 0 = 112.
Proof. vm_compute. repeat split. Qed.

(* ---------- order independence (Go map iteration), RAT discipline ---------- *)
Definition rerase (o : rop) : rop :=
  match o with
  | RInit _ => RInit []
  | RCommit _ => RCommit []
  | RRollback _ s => RRollback [] s
  | RFlush _ => RFlush []
  | o => o
  end.

(* same observable context: Registers and the committed RAT's current values equal as
   maps, everything else identical *)
Definition rceq (c1 c2 : ctx) : Prop :=
  (forall r, aget r (regs c1) = aget r (regs c2)) /\
  trans c1 = trans c2 /\
  (forall r, rat_read 0 (crat c1) r = rat_read 0 (crat c2) r) /\
  trat c1 = trat c2 /\ ratflag c1 = ratflag c2 /\ ctx_ok c1 /\ ctx_ok c2.

Fixpoint rtrace (h : list rop) (c : ctx) : list (option Z) :=
  match h with
  | [] => []
  | o :: t => rout o c :: rtrace t (rexec o c)
  end.

Lemma register_read_rceq c1 c2 fw r s : rceq c1 c2 -> register_read c1 fw r s = register_read c2 fw r s.
Proof.
  intros (Hr & Ht & Hc & Hta & Hf & _). unfold register_read, reg_get.
  rewrite Ht, Hc, Hta, Hf, Hr. reflexivity.
Qed.

Lemma rceq_intro c1 c2 :
  (forall r, aget r (regs c1) = aget r (regs c2)) -> trans c1 = trans c2 ->
  (forall r, rat_read 0 (crat c1) r = rat_read 0 (crat c2) r) ->
  trat c1 = trat c2 -> ratflag c1 = ratflag c2 -> ctx_ok c1 -> ctx_ok c2 -> rceq c1 c2.
Proof. unfold rceq. tauto. Qed.

Ltac simple_field :=
  solve [ unfold write_register, init_rat, tx_rat_write, rat_commit, rat_rollback, rat_flush;
          cbn [regs trans crat trat ratflag]; first [assumption | reflexivity | congruence] ].

Lemma rstep_independent o1 o2 c1 c2 :
  rerase o1 = rerase o2 -> rceq c1 c2 ->
  rout o1 c1 = rout o2 c2 /\ rceq (rexec o1 c1) (rexec o2 c2).
Proof.
  intros He Hc. pose proof Hc as (Hr & Ht & Hcr & Hta & Hf & Hok1 & Hok2).
  assert (Hk1 := rexec_ok o1 c1 Hok1). assert (Hk2 := rexec_ok o2 c2 Hok2).
  destruct o1, o2; cbn [rerase] in He; try discriminate; inversion He; subst; clear He;
    cbn [rout rexec] in *;
    (split; [try reflexivity|apply rceq_intro; [| | | | |exact Hk1|exact Hk2]]);
    try simple_field.
  - intros r'. unfold write_register. cbn [regs]. rewrite !aget_aset, Hr. reflexivity.
  - intros r'. rewrite (proj2 (init_rat_read _ _ r' Hok1)), (proj2 (init_rat_read _ _ r' Hok2)), Hr, Hcr. reflexivity.
  - f_equal. apply register_read_rceq. exact Hc.
  - intros r'. rewrite (proj2 (rat_commit_read _ _ r' Hok1)), (proj2 (rat_commit_read _ _ r' Hok2)), Hta, Hcr. reflexivity.
  - intros r'. rewrite (proj2 (rat_rollback_read _ _ _ r' Hok1)), (proj2 (rat_rollback_read _ _ _ r' Hok2)), Hta, Hcr. reflexivity.
  - intros r'. rewrite !rat_flush_regs, Hcr, Hr. reflexivity.
Qed.

Theorem r_order_independent h1 : forall h2 c1 c2,
  map rerase h1 = map rerase h2 -> rceq c1 c2 ->
  rtrace h1 c1 = rtrace h2 c2 /\ rceq (rrun h1 c1) (rrun h2 c2).
Proof.
  induction h1 as [|o1 t1 IH]; intros [|o2 t2] c1 c2 He Hc; try discriminate.
  - split; [reflexivity|exact Hc].
  - cbn [map] in He. injection He as He1 He2.
    destruct (rstep_independent o1 o2 c1 c2 He1 Hc) as [Ho Hc'].
    destruct (IH t2 _ _ He2 Hc') as [Htr Hrun].
    cbn [rtrace]. unfold rrun in *. cbn [fold_left]. split; [rewrite Ho, Htr; reflexivity|exact Hrun].
Qed.

Lemma rceq_refl c : ctx_ok c -> rceq c c.
Proof. intros H. apply rceq_intro; try reflexivity; exact H. Qed.
Lemma mceq_refl c : mceq c c.
Proof. unfold mceq. repeat split; reflexivity. Qed.
