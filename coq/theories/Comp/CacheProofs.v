(* C13: the model Comp/Cache.v of proc/comp/cache.go refines the reference
   model Comp/CacheSpec.v on every history that respects the usage contract,
   and the clauses of the property follow.  All statements are for histories
   of any length. *)
From Coq Require Import ZArith List Bool Lia Permutation.
From Maj Require Import Base.Outcome Base.GoInt Comp.Cache Comp.Lru Comp.CacheSpec Comp.MapFacts.
Import ListNotations.
Open Scope Z_scope.

(* ------------------------------------------------------------------ *)
(* arithmetic and list basics                                           *)

Lemma wrap32_id x : i32_min <= x <= i32_max -> wrapS 32 x = x.
Proof.
  intros H. apply wrapS_id; [lia|]. unfold inS, i32_min, i32_max in *.
  change (2 ^ (32 - 1)) with 2147483648. lia.
Qed.

Lemma gtb_false a b : a <= b -> (a >? b) = false.
Proof. intros H. destruct (Z.gtb_spec a b); [lia | reflexivity]. Qed.

Lemma zlen_nonneg {A} (l : list A) : 0 <= zlen l.
Proof. unfold zlen. lia. Qed.
Lemma zlen_cons {A} (x : A) l : zlen (x :: l) = zlen l + 1.
Proof. unfold zlen. simpl length. lia. Qed.
Lemma zlen_app {A} (l1 l2 : list A) : zlen (l1 ++ l2) = zlen l1 + zlen l2.
Proof. unfold zlen. rewrite app_length. lia. Qed.
Lemma zlen_map {A B} (f : A -> B) l : zlen (map f l) = zlen l.
Proof. unfold zlen. now rewrite map_length. Qed.
Lemma zlen_nil {A} : zlen (@nil A) = 0.
Proof. reflexivity. Qed.

Lemma upd_length d n v : length (upd d n v) = length d.
Proof. revert n. induction d; intros [|n]; simpl; auto. Qed.
Lemma zlen_upd d n v : zlen (upd d n v) = zlen d.
Proof. unfold zlen. now rewrite upd_length. Qed.
Lemma nth_upd_eq d n v : (n < length d)%nat -> nth n (upd d n v) 0 = v.
Proof. revert n. induction d; intros [|n] H; simpl in *; try lia; auto. apply IHd. lia. Qed.
Lemma nth_upd_neq d n m v : n <> m -> nth m (upd d n v) 0 = nth m d 0.
Proof.
  revert n m. induction d; intros [|n] [|m] H; simpl; auto; try congruence.
Qed.

Lemma splice_length d i vs : length (splice d i vs) = length d.
Proof. revert d i. induction vs; intros; simpl; auto. rewrite IHvs. apply upd_length. Qed.
Lemma zlen_splice d i vs : zlen (splice d i vs) = zlen d.
Proof. unfold zlen. now rewrite splice_length. Qed.

(* reading a spliced list *)
Lemma splice_nth d i vs j : (i + length vs <= length d)%nat ->
  nth j (splice d i vs) 0 =
  if ((i <=? j) && (j <? i + length vs))%nat then nth (j - i) vs 0 else nth j d 0.
Proof.
  revert d i. induction vs as [|v t IH]; intros d i H; simpl in *.
  - replace (i + 0)%nat with i by lia.
    destruct (Nat.leb_spec i j), (Nat.ltb_spec j i); simpl; auto; lia.
  - rewrite IH by (rewrite upd_length; lia).
    destruct (Nat.eq_dec j i) as [->|Hne].
    + replace ((S i <=? i)%nat) with false by (symmetry; apply Nat.leb_gt; lia).
      replace ((i <=? i)%nat) with true by (symmetry; apply Nat.leb_le; lia).
      replace ((i <? i + S (length t))%nat) with true by (symmetry; apply Nat.ltb_lt; lia).
      simpl. rewrite Nat.sub_diag. apply nth_upd_eq. lia.
    + rewrite nth_upd_neq by lia.
      destruct (Nat.leb_spec (S i) j), (Nat.ltb_spec j (S i + length t)),
               (Nat.leb_spec i j), (Nat.ltb_spec j (i + S (length t))); simpl; try lia; auto.
      replace (j - i)%nat with (S (j - S i)) by lia. reflexivity.
Qed.

Lemma idx_get_ok d i : 0 <= i < zlen d -> idx_get d i = Ok (byte_at d i).
Proof.
  intros H. unfold idx_get, byte_at.
  destruct (Z.leb_spec 0 i), (Z.ltb_spec i (zlen d)); simpl; try lia. reflexivity.
Qed.
Lemma idx_set_ok d i v : 0 <= i < zlen d -> idx_set d i v = Ok (upd d (Z.to_nat i) v).
Proof.
  intros H. unfold idx_set.
  destruct (Z.leb_spec 0 i), (Z.ltb_spec i (zlen d)); simpl; try lia. reflexivity.
Qed.

Lemma firstn_exact {A} (l1 l2 : list A) : firstn (length l1) (l1 ++ l2) = l1.
Proof. induction l1; simpl; [now destruct l2 | now f_equal]. Qed.

Lemma in_firstn {A} n (l : list A) x : In x (firstn n l) -> In x l.
Proof. intros H. rewrite <- (firstn_skipn n l). apply in_or_app. now left. Qed.

(* ------------------------------------------------------------------ *)
(* invariant of the model, simulation relation with the reference       *)

Definition line_ok (L : Z) (l : line) : Prop :=
  hi l = lo l + L /\ zlen (data l) = L /\ i32_min <= lo l /\ lo l + L <= i32_max.

(* pairwise disjoint ranges [b, b+L) *)
Definition sep (L : Z) (bs : list Z) : Prop :=
  forall b1 b2, In b1 bs -> In b2 bs -> b1 = b2 \/ b1 + L <= b2 \/ b2 + L <= b1.

Record Inv (c : cache) : Prop := mkInv {
  inv_L : 0 < llen c <= i32_max;
  inv_N : 0 <= nlines c;
  inv_ok : Forall (line_ok (llen c)) (lines c);     (* hi = lo + lineLength, len data = lineLength *)
  inv_nodup : NoDup (map lo (lines c));             (* no two lines with the same base *)
  inv_sep : sep (llen c) (map lo (lines c));        (* no two resident lines overlap *)
  inv_len : zlen (lines c) <= nlines c + 1          (* numberOfLines (+1 while a victim waits) *)
}.

(* contents of the line with base b *)
Definition lget (b : Z) (ls : list line) : option (list Z) :=
  match find (fun l => lo l =? b) ls with Some l => Some (data l) | None => None end.

Record R (c : cache) (s : scache) : Prop := mkR {
  r_cap : s_cap s = nlines c;
  r_len : s_len s = llen c;
  r_rec : s_rec s = map lo (lines c);
  r_map : forall b, m_get b (s_map s) = lget b (lines c)
}.

Lemma lget_cons b l ls : lget b (l :: ls) = if lo l =? b then Some (data l) else lget b ls.
Proof. unfold lget. simpl. now destruct (lo l =? b). Qed.

Lemma lget_notin b ls : ~ In b (map lo ls) -> lget b ls = None.
Proof.
  induction ls as [|l ls IH]; [reflexivity|]. simpl. intros H. rewrite lget_cons.
  destruct (Z.eqb_spec (lo l) b); [intuition|]. apply IH. intuition.
Qed.

Lemma lget_in l ls : NoDup (map lo ls) -> In l ls -> lget (lo l) ls = Some (data l).
Proof.
  induction ls as [|x ls IH]; simpl; [tauto|]. intros Hnd [->|Hin].
  - rewrite lget_cons, Z.eqb_refl. reflexivity.
  - rewrite lget_cons. inversion Hnd; subst.
    destruct (Z.eqb_spec (lo x) (lo l)).
    + exfalso. apply H1. rewrite e. now apply in_map.
    + auto.
Qed.

Lemma lget_mid b pre l post : ~ In (lo l) (map lo pre) ->
  lget b (pre ++ l :: post) = if lo l =? b then Some (data l) else lget b (pre ++ post).
Proof.
  induction pre as [|x pre IH]; simpl; intros H.
  - apply lget_cons.
  - rewrite !lget_cons. destruct (Z.eqb_spec (lo x) b).
    + destruct (Z.eqb_spec (lo l) b); [exfalso; apply H; left; congruence | reflexivity].
    + apply IH. intuition.
Qed.

Lemma NoDup_mid_notin {A} (pre : list A) x post :
  NoDup (pre ++ x :: post) -> ~ In x pre /\ ~ In x post /\ NoDup (pre ++ post).
Proof.
  intros H. pose proof (NoDup_remove_2 _ _ _ H) as H2. pose proof (NoDup_remove_1 _ _ _ H) as H1.
  repeat split; auto; intros Hi; apply H2; apply in_or_app; auto.
Qed.

Lemma line_get_ok L l a : 0 < L <= i32_max -> line_ok L l ->
  line_get l a = Ok (if covers L a (lo l) then Some (byte_at (data l) (a - lo l)) else None).
Proof.
  intros HL (Hhi & Hd & Hlo & Hmax). unfold line_get, covers. rewrite Hhi.
  destruct (Z.leb_spec (lo l) a), (Z.ltb_spec a (lo l + L)); simpl; auto.
  unfold subS. rewrite wrap32_id by (unfold i32_min, i32_max in *; lia).
  rewrite idx_get_ok by lia. reflexivity.
Qed.

(* the search loop without the outcome monad *)
Fixpoint pfind (L : Z) (ls : list line) (a : Z) : option (Z * line * list line) :=
  match ls with
  | [] => None
  | l :: t =>
    if covers L a (lo l) then Some (byte_at (data l) (a - lo l), l, t)
    else match pfind L t a with
         | Some (v, l', t') => Some (v, l', l :: t')
         | None => None
         end
  end.

Lemma find_line_ok L ls a : 0 < L <= i32_max -> Forall (line_ok L) ls ->
  find_line ls a = Ok (pfind L ls a).
Proof.
  intros HL. induction 1 as [|l t Hl Ht IH]; [reflexivity|].
  cbn [find_line pfind]. rewrite (line_get_ok L) by auto.
  destruct (covers L a (lo l)); cbn [bind]; [reflexivity|].
  rewrite IH. cbn [bind]. destruct (pfind L t a) as [[[v l'] t']|]; reflexivity.
Qed.

Definition nocov (L a : Z) (ls : list line) : Prop :=
  Forall (fun x => covers L a (lo x) = false) ls.

Lemma pfind_some L ls a v l rest : pfind L ls a = Some (v, l, rest) ->
  exists pre post, ls = pre ++ l :: post /\ rest = pre ++ post /\
    nocov L a pre /\ covers L a (lo l) = true /\ v = byte_at (data l) (a - lo l).
Proof.
  revert v l rest. induction ls as [|x t IH]; intros v l rest; cbn [pfind]; [discriminate|].
  destruct (covers L a (lo x)) eqn:E.
  - intros H. inversion H; subst. exists [], rest. repeat split; auto. constructor.
  - destruct (pfind L t a) as [[[v' l'] t']|]; [|discriminate].
    intros H. inversion H; subst. destruct (IH _ _ _ eq_refl) as (pre & post & -> & -> & Hn & Hc & Hv).
    exists (x :: pre), post. repeat split; auto. constructor; [exact E | exact Hn].
Qed.

Lemma pfind_none L ls a : pfind L ls a = None -> nocov L a ls.
Proof.
  induction ls as [|x t IH]; cbn [pfind]; [constructor|].
  destruct (covers L a (lo x)) eqn:E; [discriminate|].
  destruct (pfind L t a) as [[[v' l'] t']|]; [discriminate|]. intros _.
  constructor; [exact E | apply IH; reflexivity].
Qed.

Lemma find_cover_mid L a pre l post : nocov L a pre -> covers L a (lo l) = true ->
  find (covers L a) (map lo (pre ++ l :: post)) = Some (lo l).
Proof.
  induction 1 as [|x pre Hx Hp IH]; simpl; intros Hc.
  - now rewrite Hc.
  - rewrite Hx. auto.
Qed.

Lemma find_cover_none L a ls : nocov L a ls -> find (covers L a) (map lo ls) = None.
Proof. induction 1 as [|x t Hx Ht IH]; simpl; auto. now rewrite Hx. Qed.

Lemma nocov_neq L a pre l : nocov L a pre -> covers L a (lo l) = true -> ~ In (lo l) (map lo pre).
Proof.
  intros Hn Hc Hin. apply in_map_iff in Hin. destruct Hin as (x & Hx & Hin).
  unfold nocov in Hn. rewrite Forall_forall in Hn. specialize (Hn _ Hin). congruence.
Qed.

Lemma remove_first_mid pre l post : ~ In (lo l) (map lo pre) ->
  remove_first (lo l) (map lo (pre ++ l :: post)) = map lo (pre ++ post).
Proof.
  induction pre as [|x pre IH]; simpl; intros H.
  - now rewrite Z.eqb_refl.
  - destruct (Z.eqb_spec (lo x) (lo l)); [intuition|]. f_equal. apply IH. intuition.
Qed.

Lemma sep_incl L bs bs' : sep L bs -> incl bs' bs -> sep L bs'.
Proof. intros H Hi b1 b2 H1 H2. apply H; auto. Qed.

(* uniqueness of the covering base *)
Lemma sep_cover_unique L bs a b1 b2 : 0 < L -> sep L bs -> In b1 bs -> In b2 bs ->
  covers L a b1 = true -> covers L a b2 = true -> b1 = b2.
Proof.
  intros HL Hs H1 H2 C1 C2. unfold covers in *.
  apply andb_prop in C1. apply andb_prop in C2. destruct C1 as [A1 B1], C2 as [A2 B2].
  apply Z.leb_le in A1, A2. apply Z.ltb_lt in B1, B2.
  destruct (Hs b1 b2 H1 H2) as [?|[?|?]]; auto; lia.
Qed.

(* a sub-multiset of the lines keeps the invariant *)
Lemma Inv_sub c ls' : Inv c -> incl ls' (lines c) -> NoDup (map lo ls') ->
  zlen ls' <= nlines c + 1 -> Inv (set_lines c ls').
Proof.
  intros [HL HN Hok Hnd Hsep Hlen] Hi Hnd' Hlen'. constructor; simpl; auto.
  - rewrite Forall_forall in *. auto.
  - eapply sep_incl; eauto. intros b Hb. apply in_map_iff in Hb. destruct Hb as (x & <- & Hx).
    apply in_map. auto.
Qed.

Lemma incl_mid {A} (pre : list A) x post : incl (pre ++ post) (pre ++ x :: post).
Proof. intros y Hy. apply in_app_or in Hy. apply in_or_app. simpl. tauto. Qed.

(* ------------------------------------------------------------------ *)
(* the four state changes: drop, touch, write, insert                   *)

Ltac rsimpl := cbn [set_lines with_map with_rec touch s_drop s_insert s_cap s_len s_rec s_map nlines llen lines lo hi data].

Lemma s_data_in c s l : Inv c -> R c s -> In l (lines c) -> s_data s (lo l) = data l.
Proof.
  intros Hi Hr Hin. unfold s_data. rewrite (r_map _ _ Hr), lget_in; auto. apply Hi.
Qed.

Lemma s_cover_eq c s a : R c s -> s_cover s a = find (covers (llen c) a) (map lo (lines c)).
Proof. intros Hr. unfold s_cover. now rewrite (r_len _ _ Hr), (r_rec _ _ Hr). Qed.

Lemma mid_facts c pre l post : Inv c -> lines c = pre ++ l :: post ->
  ~ In (lo l) (map lo pre) /\ ~ In (lo l) (map lo (pre ++ post)) /\ NoDup (map lo (pre ++ post)) /\
  zlen (lines c) = zlen (pre ++ post) + 1.
Proof.
  intros Hi E. pose proof (inv_nodup _ Hi) as Hnd. rewrite E, map_app in Hnd. simpl in Hnd.
  destruct (NoDup_mid_notin _ _ _ Hnd) as (N1 & N2 & N3). repeat split; auto.
  - rewrite map_app. intros Hin. apply in_app_or in Hin. tauto.
  - now rewrite map_app.
  - rewrite E, !zlen_app, zlen_cons. lia.
Qed.

Lemma drop_refines c s pre l post : Inv c -> R c s -> lines c = pre ++ l :: post ->
  Inv (set_lines c (pre ++ post)) /\ R (set_lines c (pre ++ post)) (s_drop s (lo l)).
Proof.
  intros Hi Hr E. destruct (mid_facts _ _ _ _ Hi E) as (N1 & N2 & N3 & N4).
  pose proof (inv_len _ Hi). split.
  - apply Inv_sub; auto; [rewrite E; apply incl_mid | lia].
  - constructor; rsimpl; try apply Hr.
    + rewrite (r_rec _ _ Hr), E. now apply remove_first_mid.
    + intros b. rewrite m_get_remove, (r_map _ _ Hr), E, lget_mid by exact N1.
      destruct (Z.eqb_spec (lo l) b); auto. subst. symmetry. now apply lget_notin.
Qed.

Lemma touch_refines c s pre l post : Inv c -> R c s -> lines c = pre ++ l :: post ->
  Inv (set_lines c (l :: pre ++ post)) /\ R (set_lines c (l :: pre ++ post)) (touch s (lo l)).
Proof.
  intros Hi Hr E. destruct (mid_facts _ _ _ _ Hi E) as (N1 & N2 & N3 & N4).
  pose proof (inv_len _ Hi). split.
  - apply Inv_sub; auto.
    + rewrite E. intros y [->|Hy]; [apply in_or_app; simpl; tauto | now apply incl_mid].
    + simpl. constructor; auto.
    + rewrite zlen_cons. lia.
  - constructor; rsimpl; try apply Hr.
    + rewrite (r_rec _ _ Hr), E. cbn [map]. f_equal. now apply remove_first_mid.
    + intros b. rewrite (r_map _ _ Hr), E, lget_mid, lget_cons by exact N1. reflexivity.
Qed.

Lemma write_refines c s pre l post d' : Inv c -> R c s -> lines c = pre ++ l :: post ->
  zlen d' = llen c ->
  Inv (set_lines c (pre ++ mkLine (lo l) (hi l) d' :: post)) /\
  R (set_lines c (pre ++ mkLine (lo l) (hi l) d' :: post)) (with_map s (m_set (lo l) d' (s_map s))).
Proof.
  intros Hi Hr E Hd. destruct (mid_facts _ _ _ _ Hi E) as (N1 & N2 & N3 & N4).
  assert (Em : map lo (pre ++ mkLine (lo l) (hi l) d' :: post) = map lo (lines c)).
  { rewrite E, !map_app. reflexivity. }
  destruct Hi as [HL HN Hok Hnd Hsep Hlen]. split.
  - constructor; simpl; auto; try (rewrite Em; auto).
    + rewrite E in Hok. apply Forall_app in Hok. destruct Hok as [H1 H2]. inversion H2; subst.
      apply Forall_app. split; auto. constructor; auto.
      destruct H3 as (A & B & C & D). repeat split; auto.
    + rewrite E in Hlen. rewrite !zlen_app, !zlen_cons in *. lia.
  - constructor; rsimpl; try apply Hr.
    + rewrite Em. apply Hr.
    + intros b. rewrite m_get_set, (r_map _ _ Hr), E. rewrite (lget_mid b pre l post N1).
      rewrite (lget_mid b pre (mkLine (lo l) (hi l) d') post N1). cbn [lo data].
      destruct (lo l =? b); reflexivity.
Qed.

Lemma push_ok_facts c s b d : Inv c -> R c s -> push_ok s b d = true ->
  zlen d = llen c /\ i32_min <= b /\ b + llen c <= i32_max /\
  (forall r, In r (map lo (lines c)) -> b + llen c <= r \/ r + llen c <= b) /\
  zlen (lines c) <= nlines c.
Proof.
  intros Hi Hr H. unfold push_ok, over in H. rewrite (r_len _ _ Hr), (r_rec _ _ Hr), (r_cap _ _ Hr) in H.
  repeat (apply andb_prop in H; destruct H as [H ?]).
  apply Z.eqb_eq in H. apply Z.leb_le in H3, H2. rewrite forallb_forall in H1.
  repeat split; auto.
  - intros r Hin. specialize (H1 _ Hin). apply orb_prop in H1. destruct H1 as [A|A]; apply Z.leb_le in A; auto.
  - rewrite zlen_map in H0. destruct (Z.gtb_spec (zlen (lines c)) (nlines c)); [discriminate | lia].
Qed.

Lemma new_line_eq c b d : Inv c -> i32_min <= b -> b + llen c <= i32_max ->
  new_line c b d = mkLine b (b + llen c) d.
Proof.
  intros Hi H1 H2. pose proof (inv_L _ Hi). unfold new_line, addS, to_i32.
  rewrite (wrap32_id (llen c)) by (unfold i32_min, i32_max in *; lia).
  rewrite wrap32_id by lia. reflexivity.
Qed.

Lemma insert_refines c s b d : Inv c -> R c s -> push_ok s b d = true ->
  Inv (set_lines c (mkLine b (b + llen c) d :: lines c)) /\
  R (set_lines c (mkLine b (b + llen c) d :: lines c)) (s_insert s b d).
Proof.
  intros Hi Hr H. destruct (push_ok_facts _ _ _ _ Hi Hr H) as (Hd & Hb1 & Hb2 & Hdis & Hlen).
  destruct Hi as [HL HN Hok Hnd Hsep Hl]. split.
  - constructor; simpl; auto.
    + constructor; auto. repeat split; auto.
    + constructor; auto. intros Hin. destruct (Hdis _ Hin); lia.
    + intros b1 b2 [<-|H1] [<-|H2]; auto;
        try (destruct (Hdis _ H2); lia); try (destruct (Hdis _ H1); lia).
    + rewrite zlen_cons. lia.
  - constructor; rsimpl; try apply Hr.
    + cbn [map lo]. f_equal. apply Hr.
    + intros b'. rewrite m_get_set, lget_cons. cbn [lo data]. now rewrite (r_map _ _ Hr).
Qed.

Lemma set_bytes_ok d lo_ a i vs :
  i32_min <= lo_ -> lo_ + zlen d <= i32_max -> zlen d <= i32_max -> lo_ <= a -> 0 <= i ->
  a + i + zlen vs <= lo_ + zlen d ->
  set_bytes d lo_ a i vs = Ok (splice d (Z.to_nat (a + i - lo_)) vs).
Proof.
  revert d i. induction vs as [|v t IH]; intros d i H1 H2 H2' H3 H4 H5; cbn [set_bytes splice]; [reflexivity|].
  rewrite zlen_cons in H5. pose proof (zlen_nonneg t).
  unfold to_i32, addS, subS.
  rewrite (wrap32_id i) by (unfold i32_min, i32_max in *; lia).
  rewrite (wrap32_id (a + i)) by (unfold i32_min, i32_max in *; lia).
  rewrite (wrap32_id (a + i - lo_)) by (unfold i32_min, i32_max in *; lia).
  rewrite idx_set_ok by lia. cbn [bind].
  rewrite IH by (rewrite ?zlen_upd; lia).
  replace (Z.to_nat (a + (i + 1) - lo_)) with (S (Z.to_nat (a + i - lo_))) by lia. reflexivity.
Qed.

Lemma write_lines_ok L pre l post a vs : 0 < L <= i32_max ->
  Forall (line_ok L) (pre ++ l :: post) -> nocov L a pre -> covers L a (lo l) = true ->
  a + zlen vs <= lo l + L ->
  write_lines (pre ++ l :: post) a vs =
    Ok (pre ++ mkLine (lo l) (hi l) (splice (data l) (Z.to_nat (a - lo l)) vs) :: post).
Proof.
  intros HL Hok Hn Hc Hv. induction Hn as [|x pre Hx Hp IH]; simpl app in *; cbn [write_lines].
  - inversion Hok; subst. rewrite (line_get_ok L) by auto. rewrite Hc. cbn [bind].
    destruct H1 as (A & B & C & D).
    unfold covers in Hc. apply andb_prop in Hc. destruct Hc as [C1 C2]. apply Z.leb_le in C1.
    rewrite set_bytes_ok by lia. cbn [bind]. now rewrite Z.add_0_r.
  - inversion Hok; subst. rewrite (line_get_ok L) by auto. rewrite Hx. cbn [bind].
    rewrite IH by auto. reflexivity.
Qed.

(* ------------------------------------------------------------------ *)
(* one operation                                                        *)

Definition refines_step (c : cache) (s : scache) (o : op) : Prop :=
  exists c', step c o = Ok (c', snd (s_step s o)) /\ Inv c' /\ R c' (fst (s_step s o)).

Lemma in_mid {A} (pre : list A) x post : In x (pre ++ x :: post).
Proof. apply in_or_app. simpl. tauto. Qed.

Lemma step_get c s a : Inv c -> R c s -> refines_step c s (OGet a).
Proof.
  intros Hi Hr. unfold refines_step. cbn [step s_step]. unfold get.
  rewrite (find_line_ok (llen c)) by apply Hi. cbn [bind].
  rewrite (s_cover_eq c s a Hr).
  destruct (pfind (llen c) (lines c) a) as [[[v l] rest]|] eqn:E.
  - destruct (pfind_some _ _ _ _ _ _ E) as (pre & post & El & -> & Hn & Hc & ->).
    destruct (touch_refines c s pre l post Hi Hr El) as [Hi' Hr'].
    assert (Hin : In l (lines c)) by (rewrite El; apply in_mid).
    replace (find (covers (llen c) a) (map lo (lines c))) with (Some (lo l))
      by (rewrite El; symmetry; now apply find_cover_mid).
    cbn [bind fst snd]. rewrite (s_data_in c s l Hi Hr Hin). eexists; split; [reflexivity|]. auto.
  - rewrite (find_cover_none _ _ _ (pfind_none _ _ _ E)). cbn [bind fst snd].
    eexists; split; [reflexivity|]. auto.
Qed.

Lemma step_line c s a : Inv c -> R c s -> refines_step c s (OLine a).
Proof.
  intros Hi Hr. unfold refines_step. cbn [step s_step]. unfold get_cache_line.
  rewrite (find_line_ok (llen c)) by apply Hi. cbn [bind].
  rewrite (s_cover_eq c s a Hr).
  destruct (pfind (llen c) (lines c) a) as [[[v l] rest]|] eqn:E.
  - destruct (pfind_some _ _ _ _ _ _ E) as (pre & post & El & -> & Hn & Hc & ->).
    assert (Hin : In l (lines c)) by (rewrite El; apply in_mid).
    replace (find (covers (llen c) a) (map lo (lines c))) with (Some (lo l))
      by (rewrite El; symmetry; now apply find_cover_mid).
    cbn [bind fst snd]. rewrite (s_data_in c s l Hi Hr Hin). eexists; split; [reflexivity|]. auto.
  - rewrite (find_cover_none _ _ _ (pfind_none _ _ _ E)). cbn [bind fst snd].
    eexists; split; [reflexivity|]. auto.
Qed.

Lemma step_evict c s a : Inv c -> R c s -> refines_step c s (OEvict a).
Proof.
  intros Hi Hr. unfold refines_step. cbn [step s_step]. unfold evict_cache_line.
  rewrite (find_line_ok (llen c)) by apply Hi. cbn [bind].
  rewrite (s_cover_eq c s a Hr).
  destruct (pfind (llen c) (lines c) a) as [[[v l] rest]|] eqn:E.
  - destruct (pfind_some _ _ _ _ _ _ E) as (pre & post & El & -> & Hn & Hc & ->).
    destruct (drop_refines c s pre l post Hi Hr El) as [Hi' Hr'].
    assert (Hin : In l (lines c)) by (rewrite El; apply in_mid).
    replace (find (covers (llen c) a) (map lo (lines c))) with (Some (lo l))
      by (rewrite El; symmetry; now apply find_cover_mid).
    cbn [bind fst snd]. rewrite (s_data_in c s l Hi Hr Hin). eexists; split; [reflexivity|]. auto.
  - rewrite (find_cover_none _ _ _ (pfind_none _ _ _ E)). cbn [bind fst snd].
    eexists; split; [reflexivity|]. auto.
Qed.

(* the first covering line, as a split of the list *)
Lemma cover_split L ls a b : find (covers L a) (map lo ls) = Some b ->
  exists pre l post, ls = pre ++ l :: post /\ lo l = b /\ nocov L a pre /\ covers L a b = true.
Proof.
  induction ls as [|x t IH]; simpl; [discriminate|].
  destruct (covers L a (lo x)) eqn:E.
  - intros H. inversion H; subst. exists [], x, t. repeat split; auto. constructor.
  - intros H. destruct (IH H) as (pre & l & post & -> & <- & Hn & Hc).
    exists (x :: pre), l, post. repeat split; auto. constructor; auto.
Qed.

Lemma step_write c s a vs : Inv c -> R c s -> op_ok s (OWrite a vs) = true ->
  refines_step c s (OWrite a vs).
Proof.
  intros Hi Hr Hok. unfold refines_step. cbn [step s_step op_ok] in *. unfold write.
  rewrite (s_cover_eq c s a Hr) in *.
  destruct (find (covers (llen c) a) (map lo (lines c))) as [b|] eqn:E; [|discriminate].
  apply Z.leb_le in Hok. rewrite (r_len _ _ Hr) in Hok.
  destruct (cover_split _ _ _ _ E) as (pre & l & post & El & <- & Hn & Hc).
  assert (Hin : In l (lines c)) by (rewrite El; apply in_mid).
  pose proof (inv_ok _ Hi) as Hall. rewrite El in Hall.
  replace (write_lines (lines c) a vs) with (write_lines (pre ++ l :: post) a vs) by (now rewrite El).
  rewrite (write_lines_ok (llen c)); auto; [|apply Hi].
  cbn [bind fst snd]. rewrite (s_data_in c s l Hi Hr Hin).
  assert (Hd : zlen (splice (data l) (Z.to_nat (a - lo l)) vs) = llen c).
  { rewrite zlen_splice. rewrite Forall_forall in Hall. apply (Hall l). apply in_mid. }
  destruct (write_refines c s pre l post _ Hi Hr El Hd) as [Hi' Hr'].
  eexists; split; [reflexivity|]. auto.
Qed.

Lemma last_snoc {A} (l : list A) x d : last (l ++ [x]) d = x.
Proof. apply last_last. Qed.

Lemma step_push c s b d : Inv c -> R c s -> op_ok s (OPush b d) = true ->
  refines_step c s (OPush b d).
Proof.
  intros Hi Hr Hok. unfold refines_step. cbn [step s_step op_ok] in *. unfold push_line.
  destruct (push_ok_facts _ _ _ _ Hi Hr Hok) as (Hd & Hb1 & Hb2 & Hdis & Hlen).
  rewrite (new_line_eq c b d Hi Hb1 Hb2).
  destruct (insert_refines c s b d Hi Hr Hok) as [Hi1 Hr1].
  set (nl := mkLine b (b + llen c) d) in *.
  unfold over. cbn [s_insert s_rec s_cap]. rewrite (r_cap _ _ Hr), (r_rec _ _ Hr).
  change (b :: map lo (lines c)) with (map lo (nl :: lines c)). rewrite zlen_map.
  destruct (Z.gtb_spec (zlen (nl :: lines c)) (nlines c)) as [Hgt|Hle].
  - pose proof (inv_N _ Hi) as HN.
    destruct (Z.ltb_spec (nlines c) 0); [lia|].
    destruct (exists_last (l := nl :: lines c)) as (pre & x & E); [discriminate|].
    assert (Hpre : length pre = Z.to_nat (nlines c)).
    { rewrite zlen_cons in Hgt. assert (zlen (nl :: lines c) = zlen pre + 1) by (rewrite E, zlen_app; reflexivity).
      rewrite zlen_cons in H0. unfold zlen in *. lia. }
    rewrite E. rewrite <- Hpre, firstn_exact, last_snoc.
    unfold lru_base. cbn [s_insert s_rec]. rewrite (r_rec _ _ Hr).
    change (b :: map lo (lines c)) with (map lo (nl :: lines c)). rewrite E, map_app. cbn [map].
    rewrite last_snoc.
    assert (El : lines (set_lines c (nl :: lines c)) = pre ++ x :: []) by (cbn [set_lines lines]; exact E).
    destruct (drop_refines _ _ pre x [] Hi1 Hr1 El) as [Hi2 Hr2].
    rewrite app_nil_r in *. cbn [set_lines nlines llen lines] in Hi2, Hr2.
    assert (Hin : In x (lines (set_lines c (nl :: lines c)))) by (rewrite El; apply in_mid).
    rewrite (s_data_in _ _ x Hi1 Hr1 Hin).
    cbn [bind fst snd]. eexists; split; [reflexivity|]. auto.
  - cbn [bind fst snd]. eexists; split; [reflexivity|]. auto.
Qed.

Lemma line_eta L x : line_ok L x -> x = mkLine (lo x) (lo x + L) (data x).
Proof. intros (H & _). destruct x; simpl in *. now subst. Qed.

Lemma step_pushw c s b d : Inv c -> R c s -> op_ok s (OPushW b d) = true ->
  refines_step c s (OPushW b d).
Proof.
  intros Hi Hr Hok. unfold refines_step. cbn [step s_step op_ok] in *. unfold push_line_warn.
  destruct (push_ok_facts _ _ _ _ Hi Hr Hok) as (Hd & Hb1 & Hb2 & Hdis & Hlen).
  rewrite (new_line_eq c b d Hi Hb1 Hb2).
  destruct (insert_refines c s b d Hi Hr Hok) as [Hi1 Hr1].
  set (nl := mkLine b (b + llen c) d) in *.
  unfold over. cbn [s_insert s_rec s_cap]. rewrite (r_cap _ _ Hr), (r_rec _ _ Hr).
  change (b :: map lo (lines c)) with (map lo (nl :: lines c)). rewrite zlen_map.
  destruct (Z.gtb_spec (zlen (nl :: lines c)) (nlines c)) as [Hgt|Hle].
  - destruct (exists_last (l := nl :: lines c)) as (pre & x & E); [discriminate|].
    unfold lru_base. cbn [s_insert s_rec]. rewrite (r_rec _ _ Hr), (r_len _ _ Hr).
    change (b :: map lo (lines c)) with (map lo (nl :: lines c)). rewrite E, map_app. cbn [map].
    rewrite !last_snoc.
    assert (Hin : In x (lines (set_lines c (nl :: lines c)))) by (cbn [set_lines lines]; rewrite E; apply in_mid).
    rewrite (s_data_in _ _ x Hi1 Hr1 Hin).
    assert (Hx : line_ok (llen c) x).
    { pose proof (inv_ok _ Hi1) as Hall. rewrite Forall_forall in Hall. apply (Hall x Hin). }
    rewrite <- (line_eta _ _ Hx). rewrite <- E.
    cbn [bind fst snd]. eexists; split; [reflexivity|]. auto.
  - cbn [bind fst snd]. eexists; split; [reflexivity|]. auto.
Qed.

Lemma collect_ok d start cnt : 0 <= start -> start + Z.of_nat cnt <= zlen d ->
  collect d start cnt = Ok (seq_bytes d start cnt).
Proof.
  revert start. induction cnt as [|k IH]; intros start H1 H2; cbn [collect seq_bytes]; [reflexivity|].
  rewrite idx_get_ok by lia. cbn [bind]. rewrite IH by lia. reflexivity.
Qed.

Lemma sub_loop_ok L els a t n : 0 < L <= i32_max -> Forall (line_ok L) els -> 0 < n <= i32_max ->
  (forall b, find (covers L a) (map lo els) = Some b -> b <= a - Z.rem a n /\ a - Z.rem a n + n <= b + L) ->
  sub_loop els (a :: t) n =
    Ok (match find (fun l => covers L a (lo l)) els with
        | Some l => Some (a - Z.rem a n, seq_bytes (data l) (a - Z.rem a n - lo l) (Z.to_nat n))
        | None => None
        end).
Proof.
  intros HL Hok Hn. induction Hok as [|l els Hl Hels IH]; intros Hc; cbn [sub_loop find]; [reflexivity|].
  rewrite (line_get_ok L) by auto. cbn [map find] in Hc.
  destruct (covers L a (lo l)) eqn:E; cbn [bind].
  - destruct (Hc _ eq_refl) as [C1 C2]. destruct Hl as (A & B & C & D).
    destruct (Z.eqb_spec n 0); [lia|]. destruct (Z.ltb_spec n 0); [lia|].
    unfold subS, remS. rewrite wrap32_id by (unfold i32_min, i32_max in *; lia).
    rewrite collect_ok by lia. reflexivity.
  - apply IH. exact Hc.
Qed.

Lemma find_map_lo L a ls :
  find (covers L a) (map lo ls) =
  match find (fun l => covers L a (lo l)) ls with Some l => Some (lo l) | None => None end.
Proof. induction ls as [|x t IH]; simpl; auto. destruct (covers L a (lo x)); auto. Qed.

Lemma step_sub c s addrs n : Inv c -> R c s -> op_ok s (OSub addrs n) = true ->
  refines_step c s (OSub addrs n).
Proof.
  intros Hi Hr Hok. unfold refines_step. cbn [step s_step op_ok] in *.
  destruct addrs as [|a t]; [discriminate|]. cbn [hd].
  unfold get_sub_cache_line, existing_lines.
  pose proof (inv_N _ Hi) as HN. pose proof (zlen_nonneg (lines c)) as Hz.
  destruct (Z.ltb_spec (Z.min (zlen (lines c)) (nlines c)) 0); [lia|]. cbn [bind].
  unfold s_existing in *. rewrite (r_rec _ _ Hr), (r_cap _ _ Hr), (r_len _ _ Hr), zlen_map, firstn_map in *.
  set (els := firstn (Z.to_nat (Z.min (zlen (lines c)) (nlines c))) (lines c)) in *.
  apply andb_prop in Hok. destruct Hok as [Hok Hc]. apply andb_prop in Hok. destruct Hok as [N1 N2].
  apply Z.ltb_lt in N1. apply Z.leb_le in N2.
  assert (Hels : Forall (line_ok (llen c)) els).
  { pose proof (inv_ok _ Hi) as Hall. rewrite Forall_forall in *. intros x Hx. apply Hall. eapply in_firstn; eauto. }
  rewrite (sub_loop_ok (llen c)); auto; [|apply Hi|].
  - rewrite find_map_lo. cbn [bind].
    destruct (find (fun l => covers (llen c) a (lo l)) els) as [l|] eqn:E.
    + apply find_some in E. destruct E as [Hin _].
      assert (Hin' : In l (lines c)) by (eapply in_firstn; eauto).
      rewrite (s_data_in c s l Hi Hr Hin'). cbn [fst snd]. eexists; split; [reflexivity|]. auto.
    + cbn [fst snd]. eexists; split; [reflexivity|]. auto.
  - intros b Hb. rewrite Hb in Hc. apply andb_prop in Hc. destruct Hc as [C1 C2].
    apply Z.leb_le in C1, C2. lia.
Qed.

Theorem step_refines c s o : Inv c -> R c s -> op_ok s o = true -> refines_step c s o.
Proof.
  intros Hi Hr Hok. destruct o.
  - now apply step_push.
  - now apply step_pushw.
  - now apply step_get.
  - now apply step_line.
  - now apply step_sub.
  - now apply step_evict.
  - now apply step_write.
Qed.

(* ------------------------------------------------------------------ *)
(* histories                                                            *)

Lemma run_refines c s ops : Inv c -> R c s -> contract s ops = true ->
  exists c', run c ops = Ok (c', snd (s_run s ops)) /\ Inv c' /\ R c' (fst (s_run s ops)).
Proof.
  revert c s. induction ops as [|o t IH]; intros c s Hi Hr Hc; cbn [run s_run contract] in *.
  - exists c. auto.
  - apply andb_prop in Hc. destruct Hc as [Ho Ht].
    destruct (step_refines c s o Hi Hr Ho) as (c1 & E1 & Hi1 & Hr1).
    rewrite E1. cbn [bind]. destruct (s_step s o) as [s1 r] eqn:Es. cbn [fst snd] in *.
    destruct (IH c1 s1 Hi1 Hr1 Ht) as (c2 & E2 & Hi2 & Hr2).
    rewrite E2. cbn [bind]. destruct (s_run s1 t) as [s2 rs]. cbn [fst snd] in *.
    exists c2. auto.
Qed.

Definition model_run (lineLength cacheLength : Z) (ops : list op) : outcome (cache * list out) :=
  c0 <- new_cache lineLength cacheLength ;; run c0 ops.

Definition hist_ok (lineLength cacheLength : Z) (ops : list op) : Prop :=
  geometry_ok lineLength cacheLength = true /\ contract (s_new lineLength cacheLength) ops = true.

Lemma new_refines L CL : geometry_ok L CL = true ->
  exists c0, new_cache L CL = Ok c0 /\ Inv c0 /\ R c0 (s_new L CL).
Proof.
  unfold geometry_ok. intros H.
  apply andb_prop in H. destruct H as [H G5]. apply andb_prop in H. destruct H as [H G4].
  apply andb_prop in H. destruct H as [H G3]. apply andb_prop in H. destruct H as [G1 G2].
  apply Z.ltb_lt in G1, G4. apply Z.leb_le in G2, G3. apply Z.eqb_eq in G5. rename G5 into H0.
  unfold new_cache. destruct (Z.eqb_spec L 0); [lia|].
  rewrite Z.rem_mod_nonneg by lia. rewrite H0. cbn [Z.eqb negb].
  assert (Hq : quoS 64 CL L = CL / L).
  { unfold quoS. rewrite Z.quot_div_nonneg by lia. apply wrapS_id; [lia|]. unfold inS.
    change (2 ^ (64 - 1)) with 9223372036854775808.
    assert (0 <= CL / L) by (apply Z.div_pos; lia).
    assert (CL / L <= CL) by (apply Z.div_le_upper_bound; nia). lia. }
  eexists; split; [reflexivity|]. rewrite Hq. split.
  - constructor; cbn [nlines llen lines map]; auto.
    + apply Z.div_pos; lia.
    + constructor.
    + intros ? ? [].
    + rewrite zlen_nil. assert (0 <= CL / L) by (apply Z.div_pos; lia). lia.
  - constructor; reflexivity.
Qed.

(* the model refines the reference on every history that respects the contract:
   the history runs without a panic, every output is the reference's, and the
   final state satisfies the invariant and represents the reference state *)
Theorem cache_refines_spec L CL ops : hist_ok L CL ops ->
  exists c, model_run L CL ops = Ok (c, snd (s_run (s_new L CL) ops)) /\
            Inv c /\ R c (fst (s_run (s_new L CL) ops)).
Proof.
  intros [Hg Hc]. destruct (new_refines L CL Hg) as (c0 & E0 & Hi0 & Hr0).
  unfold model_run. rewrite E0. cbn [bind]. now apply run_refines.
Qed.

(* ------------------------------------------------------------------ *)
(* histories split at a point                                           *)

Lemma s_run_app s o1 o2 :
  s_run s (o1 ++ o2) =
  (fst (s_run (fst (s_run s o1)) o2), snd (s_run s o1) ++ snd (s_run (fst (s_run s o1)) o2)).
Proof.
  revert s. induction o1 as [|o t IH]; intros s; cbn [app s_run fst snd].
  - now destruct (s_run s o2).
  - destruct (s_step s o) as [s1 r]. rewrite IH.
    destruct (s_run s1 t) as [s2 rs]. cbn [fst snd]. reflexivity.
Qed.

Lemma contract_app s o1 o2 :
  contract s (o1 ++ o2) = contract s o1 && contract (fst (s_run s o1)) o2.
Proof.
  revert s. induction o1 as [|o t IH]; intros s; cbn [app contract s_run fst].
  - reflexivity.
  - rewrite IH. destruct (s_step s o) as [s1 r]. cbn [fst]. destruct (s_run s1 t). cbn [fst].
    now rewrite andb_assoc.
Qed.

Lemma s_run_one s o : s_run s [o] = (fst (s_step s o), [snd (s_step s o)]).
Proof. cbn [s_run]. now destruct (s_step s o). Qed.

Lemma hist_ok_app L CL o1 o2 : hist_ok L CL (o1 ++ o2) ->
  hist_ok L CL o1 /\ contract (fst (s_run (s_new L CL) o1)) o2 = true.
Proof.
  intros [Hg Hc]. rewrite contract_app in Hc. apply andb_prop in Hc. destruct Hc. repeat split; auto.
Qed.

Lemma contract_one s o : contract s [o] = op_ok s o.
Proof. cbn [contract]. apply andb_true_r. Qed.

(* ------------------------------------------------------------------ *)
(* invariant of the reference state (consequence of the refinement)     *)

Record SInv (s : scache) : Prop := mkSInv {
  si_L : 0 < s_len s <= i32_max;
  si_N : 0 <= s_cap s;
  si_nodup : NoDup (s_rec s);
  si_sep : sep (s_len s) (s_rec s);
  si_len : zlen (s_rec s) <= s_cap s + 1;
  si_data : forall b, In b (s_rec s) -> zlen (s_data s b) = s_len s
}.

Lemma R_SInv c s : Inv c -> R c s -> SInv s.
Proof.
  intros Hi Hr. pose proof Hi as [HL HN Hok Hnd Hsep Hlen].
  constructor; rewrite ?(r_len _ _ Hr), ?(r_cap _ _ Hr), ?(r_rec _ _ Hr), ?zlen_map; auto.
  intros b Hb. apply in_map_iff in Hb. destruct Hb as (l & <- & Hin).
  rewrite (s_data_in c s l Hi Hr Hin). rewrite Forall_forall in Hok. apply (Hok l Hin).
Qed.

Lemma reach_SInv L CL ops : hist_ok L CL ops -> SInv (fst (s_run (s_new L CL) ops)).
Proof.
  intros H. destruct (cache_refines_spec L CL ops H) as (c & _ & Hi & Hr). eapply R_SInv; eauto.
Qed.

Lemma covers_spec L a b : covers L a b = true <-> b <= a < b + L.
Proof.
  unfold covers. rewrite andb_true_iff, Z.leb_le, Z.ltb_lt. tauto.
Qed.

Lemma s_cover_some s a b : s_cover s a = Some b -> In b (s_rec s) /\ covers (s_len s) a b = true.
Proof. unfold s_cover. intros H. apply find_some in H. exact H. Qed.

Lemma s_cover_in s a b : 0 < s_len s -> sep (s_len s) (s_rec s) ->
  In b (s_rec s) -> covers (s_len s) a b = true -> s_cover s a = Some b.
Proof.
  intros HL Hs Hin Hc. unfold s_cover. destruct (find (covers (s_len s) a) (s_rec s)) as [b'|] eqn:E.
  - apply find_some in E. destruct E as [Hin' Hc']. f_equal.
    eapply sep_cover_unique; eauto.
  - eapply find_none in E; eauto. congruence.
Qed.

Lemma view_some s a v : view s a = Some v ->
  exists b, In b (s_rec s) /\ covers (s_len s) a b = true /\ v = byte_at (s_data s b) (a - b).
Proof.
  unfold view. destruct (s_cover s a) as [b|] eqn:E; [|discriminate].
  intros H. inversion H. apply s_cover_some in E. exists b. tauto.
Qed.

Lemma view_in s a b : 0 < s_len s -> sep (s_len s) (s_rec s) ->
  In b (s_rec s) -> covers (s_len s) a b = true -> view s a = Some (byte_at (s_data s b) (a - b)).
Proof. intros. unfold view. erewrite s_cover_in; eauto. Qed.

Lemma view_in_S s a b : SInv s -> In b (s_rec s) -> b <= a < b + s_len s ->
  view s a = Some (byte_at (s_data s b) (a - b)).
Proof.
  intros Hs Hin Hc. apply view_in; auto; try apply Hs. now apply covers_spec.
Qed.

(* ------------------------------------------------------------------ *)
(* "the last value written to that byte since its line was inserted"    *)

(* the byte an operation stores at address a, if any *)
Definition op_writes (L : Z) (o : op) (a : Z) : option Z :=
  match o with
  | OWrite b vs => if (b <=? a) && (a <? b + zlen vs) then Some (byte_at vs (a - b)) else None
  | OPush b d | OPushW b d => if covers L a b then Some (byte_at d (a - b)) else None
  | _ => None
  end.

(* latest first *)
Fixpoint scan (L : Z) (rops : list op) (a : Z) : option Z :=
  match rops with
  | [] => None
  | o :: t => match op_writes L o a with Some v => Some v | None => scan L t a end
  end.

(* the most recent store to address a in the history: a Write covering a, or
   the insertion of a line covering a, whichever came last *)
Definition last_written (L : Z) (ops : list op) (a : Z) : option Z := scan L (rev ops) a.

Lemma last_written_snoc L ops o a :
  last_written L (ops ++ [o]) a =
  match op_writes L o a with Some v => Some v | None => last_written L ops a end.
Proof. unfold last_written. rewrite rev_unit. reflexivity. Qed.

Lemma s_step_geom s o : s_len (fst (s_step s o)) = s_len s /\ s_cap (fst (s_step s o)) = s_cap s.
Proof.
  destruct o; cbn [s_step].
  - destruct (over (s_insert s base d)); split; reflexivity.
  - destruct (over (s_insert s base d)); split; reflexivity.
  - destruct (s_cover s a); split; reflexivity.
  - destruct (s_cover s a); split; reflexivity.
  - destruct (find _ _); split; reflexivity.
  - destruct (s_cover s a); split; reflexivity.
  - destruct (s_cover s a); split; reflexivity.
Qed.

Lemma s_data_drop s v b : b <> v -> s_data (s_drop s v) b = s_data s b.
Proof.
  intros H. unfold s_data, s_drop. cbn [s_map]. rewrite m_get_remove.
  destruct (Z.eqb_spec v b); [congruence | reflexivity].
Qed.

Lemma s_data_insert s b1 d b : s_data (s_insert s b1 d) b = if b1 =? b then d else s_data s b.
Proof.
  unfold s_data, s_insert. cbn [s_map]. rewrite m_get_set. now destruct (b1 =? b).
Qed.

(* removing a line only removes bytes from the view *)
Lemma frame_drop s v a w : 0 < s_len s -> NoDup (s_rec s) -> sep (s_len s) (s_rec s) ->
  view (s_drop s v) a = Some w -> view s a = Some w.
Proof.
  intros HL Hnd Hs H. apply view_some in H. destruct H as (b & Hin & Hc & ->).
  cbn [s_drop s_rec s_len] in *.
  destruct (NoDup_remove_first v _ Hnd) as [_ Hv].
  assert (b <> v) by (intros ->; tauto).
  rewrite s_data_drop by auto. apply view_in; auto. eapply in_remove_first; eauto.
Qed.

Lemma push_ok_spec s b d : push_ok s b d = true ->
  zlen d = s_len s /\ i32_min <= b /\ b + s_len s <= i32_max /\
  (forall r, In r (s_rec s) -> b + s_len s <= r \/ r + s_len s <= b) /\
  zlen (s_rec s) <= s_cap s.
Proof.
  intros H. unfold push_ok, over in H.
  apply andb_prop in H. destruct H as [H G5]. apply andb_prop in H. destruct H as [H G4].
  apply andb_prop in H. destruct H as [H G3]. apply andb_prop in H. destruct H as [G1 G2].
  apply Z.eqb_eq in G1. apply Z.leb_le in G2, G3. rewrite forallb_forall in G4.
  repeat split; auto.
  - intros r Hin. specialize (G4 _ Hin). apply orb_prop in G4. destruct G4 as [A|A]; apply Z.leb_le in A; auto.
  - destruct (Z.gtb_spec (zlen (s_rec s)) (s_cap s)); [discriminate | lia].
Qed.

Lemma SInv_insert s b d : SInv s -> push_ok s b d = true -> SInv (s_insert s b d).
Proof.
  intros [HL HN Hnd Hs Hlen Hd] H. destruct (push_ok_spec _ _ _ H) as (P1 & P2 & P3 & P4 & P5).
  constructor; cbn [s_insert s_len s_cap s_rec]; auto.
  - constructor; auto. intros Hin. destruct (P4 _ Hin); lia.
  - intros b1 b2 [<-|H1] [<-|H2]; auto;
      try (destruct (P4 _ H2); lia); try (destruct (P4 _ H1); lia).
  - rewrite zlen_cons. lia.
  - intros b' Hb'. rewrite s_data_insert. destruct (Z.eqb_spec b b'); auto.
    destruct Hb' as [?|Hb']; [congruence | auto].
Qed.

Lemma frame_insert s b d a w : SInv s -> push_ok s b d = true ->
  view (s_insert s b d) a = Some w ->
  (covers (s_len s) a b = true /\ w = byte_at d (a - b)) \/
  (covers (s_len s) a b = false /\ view s a = Some w).
Proof.
  intros Hs H Hv. destruct (push_ok_spec _ _ _ H) as (P1 & P2 & P3 & P4 & P5).
  apply view_some in Hv. destruct Hv as (b' & Hin & Hc & ->). cbn [s_insert s_rec s_len] in *.
  rewrite s_data_insert. destruct (Z.eqb_spec b b') as [->|Hne].
  - left. auto.
  - right. destruct Hin as [?|Hin]; [congruence|]. split.
    + apply covers_spec in Hc. destruct (covers (s_len s) a b) eqn:E; auto.
      apply covers_spec in E. destruct (P4 _ Hin); lia.
    + apply view_in; auto; apply Hs.
Qed.

Lemma frame s o a v : SInv s -> op_ok s o = true ->
  view (fst (s_step s o)) a = Some v ->
  op_writes (s_len s) o a = Some v \/ (op_writes (s_len s) o a = None /\ view s a = Some v).
Proof.
  intros Hs Hok Hv. pose proof Hs as [HL HN Hnd Hsep Hlen Hd].
  destruct o as [b d|b d|a0|a0|addrs n|a0|a0 vs]; cbn [s_step op_ok op_writes] in *.
  - (* PushLine *)
    pose proof (SInv_insert _ _ _ Hs Hok) as Hs1.
    assert (Hv1 : view (s_insert s b d) a = Some v).
    { destruct (over (s_insert s b d)); cbn [fst] in Hv; auto.
      eapply frame_drop; eauto; apply Hs1. }
    destruct (frame_insert _ _ _ _ _ Hs Hok Hv1) as [[-> ->]|[-> ?]]; auto.
  - (* PushLineWithEvictionWarning *)
    assert (Hv1 : view (s_insert s b d) a = Some v) by (destruct (over (s_insert s b d)); exact Hv).
    destruct (frame_insert _ _ _ _ _ Hs Hok Hv1) as [[-> ->]|[-> ?]]; auto.
  - (* Get *)
    right. split; auto. destruct (s_cover s a0) as [b0|] eqn:E; cbn [fst] in Hv; auto.
    apply s_cover_some in E. destruct E as [Hin0 _].
    apply view_some in Hv. destruct Hv as (b & Hin & Hc & ->). cbn [touch with_rec s_rec s_len] in *.
    change (s_data (touch s b0) b) with (s_data s b).
    apply view_in_S; auto; [|now apply covers_spec]. destruct Hin as [<-|Hin]; auto. eapply in_remove_first; eauto.
  - right. split; auto. destruct (s_cover s a0); exact Hv.
  - right. split; auto. destruct (find _ _); exact Hv.
  - (* Evict *)
    right. split; auto. destruct (s_cover s a0) as [b0|]; cbn [fst] in Hv; auto.
    eapply frame_drop; eauto. lia.
  - (* Write *)
    destruct (s_cover s a0) as [b0|] eqn:E; [|discriminate]. cbn [fst] in Hv.
    apply Z.leb_le in Hok. apply s_cover_some in E. destruct E as [Hin0 Hc0].
    apply covers_spec in Hc0.
    apply view_some in Hv. destruct Hv as (b & Hin & Hc & ->). cbn [with_map s_rec s_len] in *.
    pose proof (zlen_nonneg vs) as Hz.
    assert (Hdat : s_data (with_map s (m_set b0 (splice (s_data s b0) (Z.to_nat (a0 - b0)) vs) (s_map s))) b
                   = if b0 =? b then splice (s_data s b0) (Z.to_nat (a0 - b0)) vs else s_data s b).
    { unfold s_data, with_map. cbn [s_map]. rewrite m_get_set. now destruct (b0 =? b). }
    rewrite Hdat. clear Hdat. destruct (Z.eqb_spec b0 b) as [<-|Hne].
    + apply covers_spec in Hc. unfold byte_at.
      rewrite splice_nth by (pose proof (Hd _ Hin0); unfold zlen in *; lia).
      destruct (Z.leb_spec a0 a), (Z.ltb_spec a (a0 + zlen vs)); cbn [andb].
      * left. replace ((Z.to_nat (a0 - b0) <=? Z.to_nat (a - b0))%nat) with true by (symmetry; apply Nat.leb_le; lia).
        replace ((Z.to_nat (a - b0) <? Z.to_nat (a0 - b0) + length vs)%nat) with true
          by (symmetry; apply Nat.ltb_lt; unfold zlen in *; lia).
        cbn [andb]. do 2 f_equal. lia.
      * right. split; auto.
        replace ((Z.to_nat (a - b0) <? Z.to_nat (a0 - b0) + length vs)%nat) with false
          by (symmetry; apply Nat.ltb_ge; unfold zlen in *; lia).
        rewrite andb_false_r. apply (view_in_S s a b0); auto.
      * right. split; auto.
        replace ((Z.to_nat (a0 - b0) <=? Z.to_nat (a - b0))%nat) with false by (symmetry; apply Nat.leb_gt; lia).
        cbn [andb]. apply (view_in_S s a b0); auto.
      * right. split; auto.
        replace ((Z.to_nat (a0 - b0) <=? Z.to_nat (a - b0))%nat) with false by (symmetry; apply Nat.leb_gt; lia).
        cbn [andb]. apply (view_in_S s a b0); auto.
    + right. split; [|apply view_in_S; auto; now apply covers_spec].
      destruct (Z.leb_spec a0 a), (Z.ltb_spec a (a0 + zlen vs)); cbn [andb]; auto.
      exfalso. apply Hne. eapply (sep_cover_unique (s_len s) (s_rec s) a); eauto; [lia|].
      apply covers_spec. lia.
Qed.

Lemma last_written_inv L CL ops : hist_ok L CL ops ->
  forall a v, view (fst (s_run (s_new L CL) ops)) a = Some v -> last_written L ops a = Some v.
Proof.
  induction ops as [|o ops IH] using rev_ind; intros H a v Hv.
  - cbn in Hv. discriminate.
  - destruct (hist_ok_app _ _ _ _ H) as [H1 H2]. rewrite contract_one in H2.
    rewrite s_run_app, s_run_one in Hv. cbn [fst] in Hv.
    pose proof (reach_SInv _ _ _ H1) as Hs.
    assert (HL : s_len (fst (s_run (s_new L CL) ops)) = L).
    { destruct (cache_refines_spec L CL ops H1) as (c & _ & _ & Hr).
      clear - ops. induction ops as [|o ops IH] using rev_ind; [reflexivity|].
      rewrite s_run_app, s_run_one. cbn [fst]. destruct (s_step_geom (fst (s_run (s_new L CL) ops)) o) as [-> _].
      exact IH. }
    rewrite last_written_snoc.
    destruct (frame _ _ _ _ Hs H2 Hv) as [E|[E Hv']]; rewrite HL in E; rewrite E; auto.
Qed.

(* ------------------------------------------------------------------ *)
(* the clauses of the property                                          *)

(* the resident bases after a history, most recently used first *)
Definition resident (L CL : Z) (ops : list op) : list Z := s_rec (fst (s_run (s_new L CL) ops)).
Definition state_after (L CL : Z) (ops : list op) : scache := fst (s_run (s_new L CL) ops).

(* running one more operation: its output is the reference's *)
Lemma run_snoc L CL ops o : hist_ok L CL (ops ++ [o]) ->
  exists c outs, model_run L CL (ops ++ [o]) = Ok (c, outs) /\
    last outs RUnit = snd (s_step (state_after L CL ops) o) /\
    Inv c /\ R c (fst (s_step (state_after L CL ops) o)).
Proof.
  intros H. destruct (cache_refines_spec _ _ _ H) as (c & E & Hi & Hr).
  rewrite s_run_app, s_run_one in E, Hr. cbn [fst snd] in E, Hr.
  exists c. eexists. split; [exact E|]. split; [apply last_snoc|]. auto.
Qed.

Lemma get_out_view s a : snd (s_step s (OGet a)) = RByte (view s a).
Proof. cbn [s_step]. unfold view. now destruct (s_cover s a). Qed.

(* Get returns the last value written to that byte since its line was
   inserted, or the inserted byte *)
Theorem read_last_write L CL ops a : hist_ok L CL (ops ++ [OGet a]) ->
  exists c outs, model_run L CL (ops ++ [OGet a]) = Ok (c, outs) /\
    forall v, last outs RUnit = RByte (Some v) -> last_written L ops a = Some v.
Proof.
  intros H. destruct (run_snoc _ _ _ _ H) as (c & outs & E & Hl & _).
  exists c, outs. split; auto. intros v Hv. rewrite Hl, get_out_view in Hv. injection Hv as Hv'.
  destruct (hist_ok_app _ _ _ _ H) as [Hpre _]. eapply last_written_inv; eauto.
Qed.

Lemma state_after_len L CL ops : s_len (state_after L CL ops) = L /\ s_cap (state_after L CL ops) = CL / L.
Proof.
  unfold state_after. induction ops as [|o ops IH] using rev_ind; [split; reflexivity|].
  rewrite s_run_app, s_run_one. cbn [fst].
  destruct (s_step_geom (fst (s_run (s_new L CL) ops)) o) as [-> ->]. exact IH.
Qed.

(* a byte is present exactly when a resident line covers it *)
Theorem present_iff_covered L CL ops a : hist_ok L CL (ops ++ [OGet a]) ->
  exists c outs, model_run L CL (ops ++ [OGet a]) = Ok (c, outs) /\
    ((exists v, last outs RUnit = RByte (Some v)) <->
     (exists b, In b (resident L CL ops) /\ b <= a < b + L)).
Proof.
  intros H. destruct (run_snoc _ _ _ _ H) as (c & outs & E & Hl & _).
  exists c, outs. split; auto. rewrite Hl, get_out_view.
  destruct (hist_ok_app _ _ _ _ H) as [H1 _]. pose proof (reach_SInv _ _ _ H1) as Hs.
  destruct (state_after_len L CL ops) as [EL _]. fold (state_after L CL ops) in Hs. unfold resident.
  fold (state_after L CL ops). split.
  - intros (v & Hv). injection Hv as Hv'. apply view_some in Hv'. destruct Hv' as (b & Hin & Hc & _).
    exists b. split; auto. rewrite EL in Hc. now apply covers_spec.
  - intros (b & Hin & Hc). eexists. f_equal. apply (view_in_S _ a b); auto. now rewrite EL.
Qed.

Lemma remove_first_last l : NoDup l -> l <> [] -> remove_first (last l 0) l = removelast l.
Proof.
  intros Hnd Hne. destruct (exists_last Hne) as (pre & x & ->).
  rewrite last_snoc, removelast_last. apply NoDup_remove_2 in Hnd. rewrite app_nil_r in Hnd.
  clear Hne. induction pre as [|y pre IH]; cbn [app remove_first].
  - now rewrite Z.eqb_refl.
  - destruct (Z.eqb_spec y x); [subst; exfalso; apply Hnd; now left|]. f_equal. apply IH.
    intros Hin. apply Hnd. now right.
Qed.

Lemma last_in (l : list Z) : l <> [] -> In (last l 0) l.
Proof.
  intros Hne. destruct (exists_last Hne) as (pre & x & ->). rewrite last_snoc. apply in_mid.
Qed.

(* PushLine into a full cache removes exactly the least recently used line
   (the last of the recency order, which only Get hits and insertions change)
   and returns its current contents, earlier Writes included *)
Theorem push_full_displaces_lru_and_reports_it L CL ops b d :
  hist_ok L CL (ops ++ [OPush b d]) ->
  let s := state_after L CL ops in
  zlen (s_rec s) = s_cap s -> 0 < s_cap s ->
  exists c outs, model_run L CL (ops ++ [OPush b d]) = Ok (c, outs) /\
    last outs RUnit = RData (Some (s_data s (lru_base s))) /\
    bases c = b :: removelast (s_rec s) /\
    (forall i, 0 <= i < L -> last_written L ops (lru_base s + i) = Some (byte_at (s_data s (lru_base s)) i)).
Proof.
  intros H s Hfull Hpos. destruct (run_snoc _ _ _ _ H) as (c & outs & E & Hl & Hi & Hr).
  fold s in Hl, Hr. destruct (hist_ok_app _ _ _ _ H) as [H1 H2]. rewrite contract_one in H2.
  fold (state_after L CL ops) in H2. fold s in H2. cbn [op_ok] in H2.
  pose proof (reach_SInv _ _ _ H1) as Hs. fold (state_after L CL ops) in Hs. fold s in Hs.
  destruct (push_ok_spec _ _ _ H2) as (P1 & P2 & P3 & P4 & P5).
  pose proof (SInv_insert _ _ _ Hs H2) as Hs1.
  assert (Hne : s_rec s <> []).
  { intros E0. rewrite E0, zlen_nil in Hfull. lia. }
  assert (Hover : over (s_insert s b d) = true).
  { unfold over. cbn [s_insert s_rec s_cap]. rewrite zlen_cons. apply Z.gtb_lt. lia. }
  assert (Hv : lru_base (s_insert s b d) = lru_base s).
  { unfold lru_base. cbn [s_insert s_rec]. destruct (s_rec s); [congruence | reflexivity]. }
  assert (Hvin : In (lru_base s) (s_rec s)) by (apply last_in; auto).
  assert (Hvb : b <> lru_base s) by (intros ->; destruct (P4 _ Hvin); destruct Hs; lia).
  cbn [s_step] in Hl, Hr. rewrite Hover in Hl, Hr. cbn [fst snd] in Hl, Hr. rewrite Hv in Hl, Hr.
  rewrite s_data_insert in Hl. destruct (Z.eqb_spec b (lru_base s)); [congruence|].
  exists c, outs. repeat split; auto.
  - unfold bases. rewrite <- (r_rec _ _ Hr). cbn [s_drop s_insert s_rec remove_first].
    destruct (Z.eqb_spec b (lru_base s)); [congruence|]. f_equal.
    apply remove_first_last; auto. apply Hs.
  - intros i Hi0. destruct (state_after_len L CL ops) as [EL _]. fold s in EL.
    apply (last_written_inv L CL ops H1). fold (state_after L CL ops). fold s.
    rewrite (view_in_S s (lru_base s + i) (lru_base s)); auto; [|lia].
    do 2 f_equal. lia.
Qed.

(* the recency order is changed by Get hits and insertions only; removal keeps the order of the rest *)
Theorem recency_only_get_and_insert s o :
  match o with
  | OLine _ | OSub _ _ | OWrite _ _ => s_rec (fst (s_step s o)) = s_rec s
  | OEvict a => s_rec (fst (s_step s o)) = match s_cover s a with Some b => remove_first b (s_rec s) | None => s_rec s end
  | OGet a => s_rec (fst (s_step s o)) = match s_cover s a with Some b => b :: remove_first b (s_rec s) | None => s_rec s end
  | OPushW b _ => s_rec (fst (s_step s o)) = b :: s_rec s
  | OPush b d => s_rec (fst (s_step s o)) =
                 if over (s_insert s b d) then remove_first (last (b :: s_rec s) 0) (b :: s_rec s) else b :: s_rec s
  end.
Proof.
  destruct o; cbn [s_step].
  - destruct (over (s_insert s base d)); reflexivity.
  - destruct (over (s_insert s base d)); reflexivity.
  - destruct (s_cover s a); reflexivity.
  - destruct (s_cover s a); reflexivity.
  - destruct (find _ _); reflexivity.
  - destruct (s_cover s a); reflexivity.
  - destruct (s_cover s a); reflexivity.
Qed.

(* PushLineWithEvictionWarning over capacity reports the least recently used
   line and leaves numberOfLines+1 lines; EvictCacheLine of the reported
   victim returns its contents and brings the cache back to numberOfLines *)
Theorem capacity_restored_after_victim_removed L CL ops b d :
  hist_ok L CL (ops ++ [OPushW b d]) ->
  exists c outs, model_run L CL (ops ++ [OPushW b d]) = Ok (c, outs) /\
    forall vl, last outs RUnit = RVictim (Some vl) ->
      zlen (lines c) = nlines c + 1 /\
      lo vl = last (b :: resident L CL ops) 0 /\
      exists c' outs', model_run L CL (ops ++ [OPushW b d; OEvict (lo vl)]) = Ok (c', outs') /\
        last outs' RUnit = RData (Some (data vl)) /\
        zlen (lines c') = nlines c' /\ ~ In (lo vl) (bases c').
Proof.
  intros H. destruct (run_snoc _ _ _ _ H) as (c & outs & E & Hl & Hi & Hr).
  exists c, outs. split; auto. intros vl Hvl.
  set (s := state_after L CL ops) in *.
  destruct (hist_ok_app _ _ _ _ H) as [H1 H2]. rewrite contract_one in H2.
  fold (state_after L CL ops) in H2. fold s in H2. cbn [op_ok] in H2.
  pose proof (reach_SInv _ _ _ H1) as Hs. fold (state_after L CL ops) in Hs. fold s in Hs.
  destruct (push_ok_spec _ _ _ H2) as (P1 & P2 & P3 & P4 & P5).
  pose proof (SInv_insert _ _ _ Hs H2) as Hs1.
  set (s1 := s_insert s b d) in *.
  cbn [s_step] in Hl, Hr. fold s1 in Hl, Hr.
  destruct (over s1) eqn:Hover; cbn [fst snd] in Hl, Hr; [|rewrite Hl in Hvl; discriminate].
  rewrite Hl in Hvl. injection Hvl as Evl.
  set (v := lru_base s1) in *.
  assert (Hlen1 : zlen (s_rec s1) = s_cap s1 + 1).
  { unfold over in Hover. apply Z.gtb_lt in Hover. pose proof (si_len _ Hs1). lia. }
  assert (Hvin : In v (s_rec s1)) by (apply last_in; subst s1; cbn [s_insert s_rec]; discriminate).
  split; [|split].
  - rewrite <- (r_cap _ _ Hr). rewrite <- Hlen1, (r_rec _ _ Hr), zlen_map. reflexivity.
  - rewrite <- Evl. reflexivity.
  - assert (Hlo : lo vl = v) by (rewrite <- Evl; reflexivity). rewrite Hlo.
    assert (H' : hist_ok L CL ((ops ++ [OPushW b d]) ++ [OEvict v])).
    { destruct H as [Hg Hc]. split; auto. rewrite contract_app, Hc, contract_one. reflexivity. }
    destruct (run_snoc _ _ _ _ H') as (c' & outs' & E' & Hl' & Hi' & Hr').
    rewrite <- app_assoc in E'. cbn [app] in E'.
    assert (Es : state_after L CL (ops ++ [OPushW b d]) = s1).
    { unfold state_after. rewrite s_run_app, s_run_one. cbn [fst s_step]. fold (state_after L CL ops). fold s. fold s1.
      now rewrite Hover. }
    rewrite Es in Hl', Hr'. cbn [s_step] in Hl', Hr'.
    assert (Hcov : s_cover s1 v = Some v).
    { apply s_cover_in; auto; try apply Hs1. apply covers_spec. destruct Hs1. lia. }
    rewrite Hcov in Hl', Hr'. cbn [fst snd] in Hl', Hr'.
    exists c', outs'. split; auto. split; [|split].
    + rewrite Hl', <- Evl. reflexivity.
    + rewrite <- (r_cap _ _ Hr'). cbn [s_drop s_cap].
      rewrite <- (zlen_map lo), <- (r_rec _ _ Hr'). cbn [s_drop s_rec].
      rewrite length_remove_first by auto. lia.
    + unfold bases. rewrite <- (r_rec _ _ Hr'). cbn [s_drop s_rec].
      apply NoDup_remove_first. apply Hs1.
Qed.

(* no two resident lines have the same base, and no two overlap *)
Theorem no_duplicate_lines L CL ops : hist_ok L CL ops ->
  exists c outs, model_run L CL ops = Ok (c, outs) /\
    NoDup (bases c) /\
    (forall l1 l2, In l1 (lines c) -> In l2 (lines c) -> l1 = l2 \/ hi l1 <= lo l2 \/ hi l2 <= lo l1) /\
    Forall (fun l => hi l = lo l + llen c /\ zlen (data l) = llen c) (lines c).
Proof.
  intros H. destruct (cache_refines_spec _ _ _ H) as (c & E & Hi & Hr).
  exists c. eexists. split; [exact E|]. destruct Hi as [HL HN Hok Hnd Hsep Hlen].
  rewrite Forall_forall in Hok. split; [exact Hnd|]. split.
  - intros l1 l2 H1 H2. destruct (Hok _ H1) as (A1 & B1 & _). destruct (Hok _ H2) as (A2 & B2 & _).
    rewrite A1, A2. destruct (Hsep (lo l1) (lo l2)) as [Heq|Hd]; try (apply in_map; auto); auto.
    left. (* same base: the same line, because bases are not repeated *)
    clear - Hnd H1 H2 Heq. induction (lines c) as [|x t IH]; [destruct H1|].
    cbn [map] in Hnd. inversion Hnd; subst. destruct H1 as [->|H1], H2 as [->|H2]; auto.
    + exfalso. apply H3. rewrite Heq. now apply in_map.
    + exfalso. apply H3. rewrite <- Heq. now apply in_map.
  - apply Forall_forall. intros l Hl. destruct (Hok _ Hl) as (A & B & _). auto.
Qed.

(* over-capacity window: after a PushLineWithEvictionWarning that reported a
   victim and before the next successful EvictCacheLine *)
Definition pend_step (p : bool) (o : op) (r : out) : bool :=
  match o, r with
  | OPushW _ _, RVictim (Some _) => true
  | OEvict _, RData (Some _) => false
  | _, _ => p
  end.
Fixpoint pending (p : bool) (ops : list op) (outs : list out) : bool :=
  match ops, outs with
  | o :: t, r :: rs => pending (pend_step p o r) t rs
  | _, _ => p
  end.

Definition Rep (s : scache) : Prop := exists c, Inv c /\ R c s.

Lemma Rep_step s o : Rep s -> op_ok s o = true -> Rep (fst (s_step s o)).
Proof.
  intros (c & Hi & Hr) Hok. destruct (step_refines c s o Hi Hr Hok) as (c' & _ & Hi' & Hr'). exists c'. auto.
Qed.

Lemma over_step s o : SInv s -> op_ok s o = true ->
  over (fst (s_step s o)) = pend_step (over s) o (snd (s_step s o)).
Proof.
  intros Hs Hok. pose proof Hs as [HL HN Hnd Hsep Hlen Hd].
  destruct o as [b d|b d|a0|a0|addrs n|a0|a0 vs]; cbn [s_step op_ok pend_step] in *.
  - destruct (push_ok_spec _ _ _ Hok) as (_ & _ & _ & P4 & P5).
    assert (Ho : over s = false) by (unfold over; apply gtb_false; lia). rewrite Ho.
    pose proof (SInv_insert _ _ _ Hs Hok) as Hs1.
    destruct (over (s_insert s b d)) eqn:E; cbn [fst snd]; auto.
    unfold over. cbn [s_drop s_rec s_cap]. rewrite length_remove_first.
    + cbn [s_insert s_rec s_cap]. rewrite zlen_cons. apply gtb_false. lia.
    + apply last_in. cbn [s_insert s_rec]. discriminate.
  - destruct (push_ok_spec _ _ _ Hok) as (_ & _ & _ & P4 & P5).
    assert (Ho : over s = false) by (unfold over; apply gtb_false; lia). rewrite Ho.
    destruct (over (s_insert s b d)) eqn:E; cbn [fst snd]; auto.
  - destruct (s_cover s a0) as [b0|] eqn:E; cbn [fst snd]; auto.
    apply s_cover_some in E. destruct E as [Hin _].
    unfold over. cbn [touch with_rec s_rec s_cap]. rewrite zlen_cons, length_remove_first by auto.
    f_equal. lia.
  - destruct (s_cover s a0); reflexivity.
  - destruct (find _ _); reflexivity.
  - destruct (s_cover s a0) as [b0|] eqn:E; cbn [fst snd]; auto.
    apply s_cover_some in E. destruct E as [Hin _].
    unfold over. cbn [s_drop s_rec s_cap]. rewrite length_remove_first by auto.
    apply gtb_false. lia.
  - destruct (s_cover s a0); reflexivity.
Qed.

Lemma over_run s ops : Rep s -> contract s ops = true ->
  over (fst (s_run s ops)) = pending (over s) ops (snd (s_run s ops)).
Proof.
  revert s. induction ops as [|o t IH]; intros s Hrep Hc; cbn [s_run contract pending] in *; [reflexivity|].
  apply andb_prop in Hc. destruct Hc as [Ho Ht].
  pose proof (Rep_step _ _ Hrep Ho) as Hrep1.
  assert (Hs : SInv s) by (destruct Hrep as (c & Hi & Hr); eapply R_SInv; eauto).
  pose proof (over_step _ _ Hs Ho) as Hov.
  destruct (s_step s o) as [s1 r]. cbn [fst snd] in *.
  specialize (IH s1 Hrep1 Ht). destruct (s_run s1 t) as [s2 rs]. cbn [fst snd] in *.
  rewrite IH, Hov. reflexivity.
Qed.

(* at most numberOfLines lines, numberOfLines+1 exactly inside the window *)
Theorem length_le_capacity L CL ops : hist_ok L CL ops ->
  exists c outs, model_run L CL ops = Ok (c, outs) /\
    zlen (lines c) <= nlines c + 1 /\
    (zlen (lines c) = nlines c + 1 <-> pending false ops outs = true) /\
    (pending false ops outs = false -> zlen (lines c) <= nlines c).
Proof.
  intros H. destruct (cache_refines_spec _ _ _ H) as (c & E & Hi & Hr).
  exists c. eexists. split; [exact E|]. pose proof (inv_len _ Hi) as Hlen.
  destruct H as [Hg Hc]. destruct (new_refines L CL Hg) as (c0 & _ & Hi0 & Hr0).
  assert (Hrep : Rep (s_new L CL)) by (exists c0; auto).
  pose proof (over_run _ _ Hrep Hc) as Hov.
  assert (H0 : over (s_new L CL) = false).
  { unfold over. cbn [s_new s_rec s_cap]. rewrite zlen_nil. apply gtb_false.
    pose proof (inv_N _ Hi0). rewrite <- (r_cap _ _ Hr0) in H. exact H. }
  rewrite H0 in Hov. rewrite <- Hov. unfold over.
  rewrite (r_rec _ _ Hr), (r_cap _ _ Hr), zlen_map.
  split; auto. split.
  - split; intros Hx; [apply Z.gtb_lt; lia | apply Z.gtb_lt in Hx; lia].
  - intros Hx. destruct (Z.gtb_spec (zlen (lines c)) (nlines c)); [discriminate | lia].
Qed.

(* ------------------------------------------------------------------ *)
(* non-vacuity: a history that satisfies the contract, with its outputs *)

Definition example_history : list op :=
  [OPush 0 [1; 2]; OPush 2 [3; 4]; OGet 1; OWrite 3 [9]; OPush 4 [5; 6];
   OPushW 6 [7; 8]; OEvict 0; OSub [5] 1; OLine 4; OGet 3; OGet 5].

Example example_history_ok : hist_ok 2 4 example_history.
Proof. split; vm_compute; reflexivity. Qed.

(* line 2 is written after its insertion, Get 1 makes line 0 the most recent,
   so PushLine 4 displaces line 2 and reports [3; 9]; the warning push reports
   line 0 as victim; after its eviction two lines are left *)
Example example_history_outputs :
  exists c, model_run 2 4 example_history =
    Ok (c, [RData None; RData None; RByte (Some 2); RUnit; RData (Some [3; 9]);
            RVictim (Some (mkLine 0 2 [1; 2])); RData (Some [1; 2]); RSub (Some (5, [6]));
            RData (Some [5; 6]); RByte None; RByte (Some 6)]) /\
    bases c = [4; 6].
Proof. eexists. split; vm_compute; reflexivity. Qed.

(* ------------------------------------------------------------------ *)
(* without the contract: overlapping lines make a read return a stale byte.
   Lines [0,2) and [1,3) overlap at address 1.  The Write of 9 to address 1
   goes to the most recent covering line (base 1); Get 0 then makes line 0
   the most recent, and Get 1 is served from line 0: it returns the 2 that
   was inserted, not the 9 written last. *)
Theorem overlap_stale_read_refuted :
  exists L CL ops a v,
    geometry_ok L CL = true /\ contract (s_new L CL) ops = false /\
    (exists c outs, model_run L CL (ops ++ [OGet a]) = Ok (c, outs) /\
       last outs RUnit = RByte (Some v)) /\
    last_written L ops a <> Some v.
Proof.
  exists 2, 4, [OPush 0 [1; 2]; OPush 1 [3; 4]; OWrite 1 [9]; OGet 0], 1, 2.
  split; [vm_compute; reflexivity|]. split; [vm_compute; reflexivity|]. split.
  - eexists. eexists. split; vm_compute; reflexivity.
  - vm_compute. discriminate.
Qed.
