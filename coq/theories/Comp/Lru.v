(* H model of common/cache/lru.go (generic cache.LRUCache[K, V]), faithful.
   Keys and values are Z (K comparable, V any: nothing else is used).
   cache map[K]V   : association list without repeated keys (m_set replaces)
   order []K       : list, OLDEST first (refreshOrder appends at the end)
   The code never iterates the map, so no iteration order is involved. *)
From Coq Require Import ZArith List Bool.
From Maj Require Import Base.Outcome.
Import ListNotations.
Open Scope Z_scope.

Record lru := mkLru { cap : Z; cmap : list (Z * Z); order : list Z }.

(* map operations *)
Fixpoint m_get {V} (k : Z) (m : list (Z * V)) : option V :=
  match m with
  | [] => None
  | (k', v) :: t => if k' =? k then Some v else m_get k t
  end.
Fixpoint m_remove {V} (k : Z) (m : list (Z * V)) : list (Z * V) :=
  match m with
  | [] => []
  | (k', v) :: t => if k' =? k then m_remove k t else (k', v) :: m_remove k t
  end.
Definition m_set {V} (k : Z) (v : V) (m : list (Z * V)) : list (Z * V) :=
  (k, v) :: m_remove k m.

(* NewLRUCache: make([]K, 0, capacity) panics on a negative capacity *)
Definition new_lru (capacity : Z) : outcome lru :=
  if capacity <? 0 then Panic else Ok (mkLru capacity [] []).

(* remove the first occurrence *)
Fixpoint remove_first (k : Z) (l : list Z) : list Z :=
  match l with
  | [] => []
  | x :: t => if x =? k then t else x :: remove_first k t
  end.

(* refreshOrder *)
Definition refresh (l : lru) (k : Z) : lru :=
  mkLru (cap l) (cmap l) (remove_first k (order l) ++ [k]).

(* Get *)
Definition lru_get (l : lru) (k : Z) : lru * option Z :=
  match m_get k (cmap l) with
  | Some v => (refresh l k, Some v)
  | None => (l, None)
  end.

Definition contains (keys : list Z) (k : Z) : bool := existsb (Z.eqb k) keys.

(* Find: the first key IN ORDER (least recently used first) that is among keys *)
Definition lru_find (l : lru) (keys : list Z) : lru * option Z :=
  match find (contains keys) (order l) with
  | Some k => (refresh l k, Some k)
  | None => (l, None)
  end.

(* Put: l.order[0] panics on an empty order (capacity 0) *)
Definition lru_put (l : lru) (k v : Z) : outcome lru :=
  l1 <- (match m_get k (cmap l) with
         | None =>
           if Z.of_nat (length (cmap l)) =? cap l then
             match order l with
             | [] => Panic
             | o0 :: rest => Ok (mkLru (cap l) (m_remove o0 (cmap l)) rest)
             end
           else Ok l
         | Some _ => Ok l
         end) ;;
  Ok (refresh (mkLru (cap l1) (m_set k v (cmap l1)) (order l1)) k).

Inductive lop :=
| LPut (k v : Z)
| LGet (k : Z)
| LFind (keys : list Z).

Inductive lout :=
| LUnit
| LVal (o : option Z)     (* Get: (v, true) / (zero, false) *)
| LKey (o : option Z).    (* Find *)

Definition lstep (l : lru) (o : lop) : outcome (lru * lout) :=
  match o with
  | LPut k v => l' <- lru_put l k v ;; Ok (l', LUnit)
  | LGet k => let '(l', r) := lru_get l k in Ok (l', LVal r)
  | LFind ks => let '(l', r) := lru_find l ks in Ok (l', LKey r)
  end.

Fixpoint lrun (l : lru) (ops : list lop) : outcome (lru * list lout) :=
  match ops with
  | [] => Ok (l, [])
  | o :: t =>
    '(l', r) <- lstep l o ;;
    '(l'', rs) <- lrun l' t ;;
    Ok (l'', r :: rs)
  end.
