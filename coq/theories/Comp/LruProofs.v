(* C13: the model Comp/Lru.v of common/cache/lru.go refines Comp/LruSpec.v on
   every history (capacity > 0), and the clauses about recency follow. *)
From Coq Require Import ZArith List Bool Lia.
From Maj Require Import Base.Outcome Comp.Cache Comp.Lru Comp.LruSpec Comp.MapFacts.
Import ListNotations.
Open Scope Z_scope.

Record LR (l : lru) (s : slru) : Prop := mkLR {
  lr_cap : sl_cap s = cap l;
  lr_pos : 0 < cap l;
  lr_order : order l = map fst (sl_items s);              (* same recency order *)
  lr_map : forall k, m_get k (cmap l) = m_get k (sl_items s);   (* same bindings *)
  lr_len : length (cmap l) = length (sl_items s);
  lr_nd_items : NoDup (map fst (sl_items s));
  lr_nd_cmap : NoDup (map fst (cmap l));
  lr_size : Z.of_nat (length (sl_items s)) <= cap l       (* key set size <= capacity *)
}.

Lemma length_m_set_new (k v : Z) m : ~ In k (map fst m) -> length (m_set k v m) = S (length m).
Proof. intros H. unfold m_set. simpl. now rewrite m_remove_notin. Qed.

Lemma length_m_set_old (k v v0 : Z) m : NoDup (map fst m) -> m_get k m = Some v0 ->
  length (m_set k v m) = length m.
Proof. intros H G. unfold m_set. simpl. eapply length_m_remove; eauto. Qed.

Lemma NoDup_m_set (k v : Z) m : NoDup (map fst m) -> NoDup (map fst (m_set k v m)).
Proof.
  intros H. unfold m_set. simpl. constructor; [now apply notin_m_remove | now apply NoDup_m_remove].
Qed.

(* the common tail of Get-hit, Find-hit and Put: the entry becomes the most recent *)
Lemma refresh_set l s k v : LR l s ->
  (m_get k (sl_items s) = None -> Z.of_nat (length (sl_items s)) < cap l) ->
  LR (refresh (mkLru (cap l) (m_set k v (cmap l)) (order l)) k) (sl_refresh s k v).
Proof.
  intros [Hc Hp Ho Hm Hl Hni Hnc Hs] Hroom. unfold refresh, sl_refresh. cbn [cap cmap order].
  constructor; cbn [cap cmap order sl_cap sl_items]; auto.
  - rewrite map_app, map_fst_m_remove by auto. cbn [map fst]. now rewrite Ho.
  - intros k'. rewrite m_get_set, m_get_app, m_get_remove. cbn [m_get].
    destruct (Z.eqb_spec k k'); auto. rewrite Hm. now destruct (m_get k' (sl_items s)).
  - rewrite app_length. cbn [length].
    destruct (m_get k (sl_items s)) as [v0|] eqn:E.
    + rewrite (length_m_set_old k v v0 (cmap l) Hnc) by (rewrite Hm; exact E).
      pose proof (length_m_remove k v0 _ Hni E). lia.
    + rewrite length_m_set_new by (apply m_get_none; now rewrite Hm).
      rewrite m_remove_notin by (now apply m_get_none). lia.
  - rewrite map_app. cbn [map fst]. rewrite map_fst_m_remove by auto.
    destruct (NoDup_remove_first k _ Hni) as [A B].
    clear - A B. induction (remove_first k (map fst (sl_items s))) as [|x t IH]; cbn [app].
    + constructor; [simpl; tauto | constructor].
    + inversion A; subst. constructor.
      * intros Hin. apply in_app_or in Hin. destruct Hin as [?|[?|[]]]; [tauto|]. subst. apply B. now left.
      * apply IH; auto. intros ?. apply B. now right.
  - now apply NoDup_m_set.
  - rewrite app_length. cbn [length].
    destruct (m_get k (sl_items s)) as [v0|] eqn:E.
    + pose proof (length_m_remove k v0 _ Hni E). lia.
    + specialize (Hroom eq_refl). rewrite m_remove_notin by (now apply m_get_none). lia.
Qed.

(* Get hit / Find hit: the map is not written *)
Lemma refresh_keep l s k v : LR l s -> m_get k (sl_items s) = Some v ->
  LR (refresh l k) (sl_refresh s k v).
Proof.
  intros Hr E. pose proof (refresh_set l s k v Hr) as H.
  assert (Hroom : m_get k (sl_items s) = None -> Z.of_nat (length (sl_items s)) < cap l) by congruence.
  specialize (H Hroom). destruct Hr as [Hc Hp Ho Hm Hl Hni Hnc Hs].
  destruct H as [Hc' Hp' Ho' Hm' Hl' Hni' Hnc' Hs']. unfold refresh in *. cbn [cap cmap order] in *.
  constructor; cbn [cap cmap order]; auto.
  - intros k'. rewrite <- Hm', m_get_set. destruct (Z.eqb_spec k k'); auto. subst. rewrite Hm. exact E.
  - rewrite <- Hl'. symmetry. apply (length_m_set_old k v v (cmap l) Hnc). rewrite Hm. exact E.
Qed.

Lemma in_m_get (k v : Z) m : NoDup (map fst m) -> In (k, v) m -> m_get k m = Some v.
Proof.
  induction m as [|[k' v'] t IH]; [intros _ []|]. cbn [map fst m_get]. intros Hnd Hin.
  inversion Hnd; subst. destruct Hin as [Heq|Hin].
  - inversion Heq; subst. now rewrite Z.eqb_refl.
  - destruct (Z.eqb_spec k' k); [|auto]. subst. exfalso. apply H1.
    change k with (fst (k, v)). now apply in_map.
Qed.

Definition lrefines_step (l : lru) (s : slru) (o : lop) : Prop :=
  exists l', lstep l o = Ok (l', snd (sl_step s o)) /\ LR l' (fst (sl_step s o)).

Lemma lstep_refines l s o : LR l s -> lrefines_step l s o.
Proof.
  intros Hr. pose proof Hr as [Hc Hp Ho Hm Hl Hni Hnc Hs]. unfold lrefines_step.
  destruct o as [k v|k|ks]; cbn [lstep sl_step].
  - (* Put *)
    unfold lru_put. rewrite Hm, Hl, Hc.
    destruct (m_get k (sl_items s)) as [v0|] eqn:E.
    + cbn [bind fst snd]. eexists; split; [reflexivity|]. apply refresh_set; auto. congruence.
    + destruct (Z.eqb_spec (Z.of_nat (length (sl_items s))) (cap l)) as [Hfull|Hroom].
      * destruct (sl_items s) as [|[o0 v0] titems] eqn:Ei; [cbn [length] in Hfull; lia|].
        rewrite Ho. cbn [map fst bind tl snd].
        eexists; split; [reflexivity|]. cbn [fst].
        (* the state after the eviction of the head is again related *)
        set (l1 := mkLru (cap l) (m_remove o0 (cmap l)) (map fst titems)).
        set (s1 := mkSl (cap l) titems).
        cbn [map fst] in Hni. inversion Hni as [|? ? Hn0 Hnt]; subst.
        cbn [m_get] in E. destruct (Z.eqb_spec o0 k) as [|Hne]; [discriminate|].
        assert (Hr1 : LR l1 s1).
        { unfold l1, s1. constructor; cbn [cap cmap order sl_cap sl_items]; auto.
          - intros k'. rewrite m_get_remove, Hm. cbn [m_get].
            destruct (Z.eqb_spec o0 k'); auto. subst. symmetry. now apply m_get_none.
          - assert (G : m_get o0 (cmap l) = Some v0) by (rewrite Hm; cbn [m_get]; now rewrite Z.eqb_refl).
            pose proof (length_m_remove o0 v0 _ Hnc G). cbn [length] in Hl. lia.
          - now apply NoDup_m_remove.
          - cbn [length] in Hs. lia. }
        apply (refresh_set l1 s1 k v Hr1). intros _. cbn [sl_items s1 cap l1]. cbn [length] in Hfull. lia.
      * cbn [bind fst snd]. eexists; split; [reflexivity|]. apply refresh_set; auto. intros _. lia.
  - (* Get *)
    unfold lru_get. rewrite Hm. destruct (m_get k (sl_items s)) as [v|] eqn:E; cbn [fst snd].
    + eexists; split; [reflexivity|]. now apply refresh_keep.
    + eexists; split; [reflexivity|]. exact Hr.
  - (* Find *)
    unfold lru_find. rewrite Ho, find_map_fst.
    destruct (find (fun kv => contains ks (fst kv)) (sl_items s)) as [[k v]|] eqn:E; cbn [fst snd].
    + eexists; split; [reflexivity|]. apply refresh_keep; auto.
      apply find_some in E. destruct E as [Hin _]. now apply in_m_get.
    + eexists; split; [reflexivity|]. exact Hr.
Qed.

Lemma lrun_refines l s ops : LR l s ->
  exists l', lrun l ops = Ok (l', snd (sl_run s ops)) /\ LR l' (fst (sl_run s ops)).
Proof.
  revert l s. induction ops as [|o t IH]; intros l s Hr; cbn [lrun sl_run].
  - exists l. auto.
  - destruct (lstep_refines l s o Hr) as (l1 & E1 & Hr1). rewrite E1. cbn [bind].
    destruct (sl_step s o) as [s1 r]. cbn [fst snd] in *.
    destruct (IH l1 s1 Hr1) as (l2 & E2 & Hr2). rewrite E2. cbn [bind].
    destruct (sl_run s1 t) as [s2 rs]. cbn [fst snd] in *. exists l2. auto.
Qed.

Definition lmodel_run (capacity : Z) (ops : list lop) : outcome (lru * list lout) :=
  l0 <- new_lru capacity ;; lrun l0 ops.

(* every history runs without a panic, gives the reference's outputs, and
   ends in a state that represents the reference state (LR: key set size <=
   capacity, same bindings, same recency order, no repeated key) *)
Theorem lru_refines_spec capacity ops : 0 < capacity ->
  exists l, lmodel_run capacity ops = Ok (l, snd (sl_run (sl_new capacity) ops)) /\
            LR l (fst (sl_run (sl_new capacity) ops)).
Proof.
  intros Hp. unfold lmodel_run, new_lru. destruct (Z.ltb_spec capacity 0); [lia|]. cbn [bind].
  apply lrun_refines. constructor; cbn [cap cmap order sl_cap sl_items sl_new map length]; auto; try constructor; lia.
Qed.

(* capacity 0: the first Put panics (l.order[0] on an empty order) *)
Example lru_capacity0_put_panics : lmodel_run 0 [LGet 1; LFind [1]; LPut 1 1] = Panic.
Proof. vm_compute. reflexivity. Qed.

(* ------------------------------------------------------------------ *)
(* Get returns the last Put value                                       *)

Fixpoint lscan (rops : list lop) (k : Z) : option Z :=
  match rops with
  | [] => None
  | LPut k' v :: t => if k' =? k then Some v else lscan t k
  | _ :: t => lscan t k
  end.
Definition last_put (ops : list lop) (k : Z) : option Z := lscan (rev ops) k.

Lemma sl_run_app s o1 o2 :
  sl_run s (o1 ++ o2) =
  (fst (sl_run (fst (sl_run s o1)) o2), snd (sl_run s o1) ++ snd (sl_run (fst (sl_run s o1)) o2)).
Proof.
  revert s. induction o1 as [|o t IH]; intros s; cbn [app sl_run fst snd].
  - now destruct (sl_run s o2).
  - destruct (sl_step s o) as [s1 r]. rewrite IH. destruct (sl_run s1 t) as [s2 rs]. reflexivity.
Qed.

Lemma m_get_tl k (v : Z) m : NoDup (map fst m) -> m_get k (tl m) = Some v -> m_get k m = Some v.
Proof.
  destruct m as [|[k' v'] t]; cbn [tl map fst m_get]; auto. intros H G. inversion H; subst.
  destruct (Z.eqb_spec k' k); auto. subst. exfalso. apply H2. eapply m_get_in; eauto.
Qed.

Lemma refresh_get s k v k' :
  m_get k' (sl_items (sl_refresh s k v)) = if k =? k' then Some v else m_get k' (sl_items s).
Proof.
  unfold sl_refresh. cbn [sl_items]. rewrite m_get_app, m_get_remove. cbn [m_get].
  destruct (k =? k'); auto. now destruct (m_get k' (sl_items s)).
Qed.

Lemma last_put_inv capacity ops : 0 < capacity ->
  forall k v, m_get k (sl_items (fst (sl_run (sl_new capacity) ops))) = Some v -> last_put ops k = Some v.
Proof.
  intros Hp. induction ops as [|o ops IH] using rev_ind; intros k v Hv; [discriminate|].
  destruct (lru_refines_spec capacity ops Hp) as (l & _ & Hr).
  rewrite sl_run_app in Hv. cbn [fst sl_run] in Hv.
  set (s := fst (sl_run (sl_new capacity) ops)) in *.
  destruct (sl_step s o) as [s1 r] eqn:Es. cbn [fst] in Hv.
  pose proof (lr_nd_items _ _ Hr) as Hnd.
  unfold last_put. rewrite rev_unit. change (lscan (rev ops) k) with (last_put ops k).
  destruct o as [k0 v0|k0|ks]; cbn [sl_step lscan] in *; change (lscan (rev ops) k) with (last_put ops k).
  - inversion Es; subst s1. clear Es. rewrite refresh_get in Hv.
    destruct (Z.eqb_spec k0 k) as [->|Hne]; [exact Hv|]. apply IH.
    destruct (m_get k0 (sl_items s)); auto.
    destruct (Z.of_nat (length (sl_items s)) =? sl_cap s); auto.
    cbn [sl_items] in Hv. eapply m_get_tl; eauto.
  - destruct (m_get k0 (sl_items s)) as [v0|] eqn:E; inversion Es; subst s1; [|apply IH; exact Hv].
    rewrite refresh_get in Hv. destruct (Z.eqb_spec k0 k) as [->|Hne]; apply IH; congruence.
  - destruct (find _ (sl_items s)) as [[k0 v0]|] eqn:E; inversion Es; subst s1; [|apply IH; exact Hv].
    rewrite refresh_get in Hv. destruct (Z.eqb_spec k0 k) as [->|Hne]; apply IH; [|exact Hv].
    apply find_some in E. destruct E as [Hin _]. rewrite <- Hv. now apply in_m_get.
Qed.

Lemma lmodel_run_snoc capacity ops o : 0 < capacity ->
  exists l outs, lmodel_run capacity (ops ++ [o]) = Ok (l, outs) /\
    last outs LUnit = snd (sl_step (fst (sl_run (sl_new capacity) ops)) o) /\
    LR l (fst (sl_step (fst (sl_run (sl_new capacity) ops)) o)).
Proof.
  intros Hp. destruct (lru_refines_spec capacity (ops ++ [o]) Hp) as (l & E & Hr).
  rewrite sl_run_app in E, Hr. cbn [sl_run fst snd] in E, Hr.
  destruct (sl_step (fst (sl_run (sl_new capacity) ops)) o) as [s1 r]. cbn [fst snd] in *.
  exists l. eexists. split; [exact E|]. split; [apply last_last | exact Hr].
Qed.

(* Get returns the value of the last Put of that key *)
Theorem lru_get_last_put capacity ops k : 0 < capacity ->
  exists l outs, lmodel_run capacity (ops ++ [LGet k]) = Ok (l, outs) /\
    forall v, last outs LUnit = LVal (Some v) -> last_put ops k = Some v.
Proof.
  intros Hp. destruct (lmodel_run_snoc capacity ops (LGet k) Hp) as (l & outs & E & Hl & _).
  exists l, outs. split; auto. intros v Hv. rewrite Hl in Hv. cbn [sl_step] in Hv.
  destruct (m_get k (sl_items (fst (sl_run (sl_new capacity) ops)))) as [v0|] eqn:G; cbn [snd] in Hv; [|discriminate].
  injection Hv as ->. eapply last_put_inv; eauto.
Qed.

(* Put of a new key into a full cache evicts exactly the least recently used
   key: order[0], where Get hits, Find hits and Puts move a key to the end *)
Theorem lru_put_full_evicts_lru l s k v : LR l s ->
  m_get k (cmap l) = None -> Z.of_nat (length (cmap l)) = cap l ->
  exists o0 rest l', order l = o0 :: rest /\ lru_put l k v = Ok l' /\
    order l' = rest ++ [k] /\
    m_get o0 (cmap l') = None /\ m_get k (cmap l') = Some v /\
    (forall k', k' <> o0 -> k' <> k -> m_get k' (cmap l') = m_get k' (cmap l)) /\
    Z.of_nat (length (cmap l')) = cap l'.
Proof.
  intros Hr Hnew Hfull. pose proof Hr as [Hc Hp Ho Hm Hl Hni Hnc Hs].
  destruct (lstep_refines l s (LPut k v) Hr) as (l' & E & Hr').
  cbn [lstep sl_step] in E, Hr'. rewrite <- Hm, Hnew, <- Hl, Hc, Hfull, Z.eqb_refl in Hr'. cbn [fst] in Hr'.
  destruct (lru_put l k v) as [l''| |] eqn:Ep; cbn [bind] in E; try discriminate.
  injection E as ->.
  destruct (sl_items s) as [|[o0 v0] titems] eqn:Ei; [cbn [length] in Hl; lia|].
  cbn [map fst] in Ho, Hni. inversion Hni as [|? ? Hn0 Hnt]; subst.
  assert (Hk0 : o0 <> k).
  { intros ->. rewrite Hm in Hnew. cbn [m_get] in Hnew. rewrite Z.eqb_refl in Hnew. discriminate. }
  assert (Hkt : ~ In k (map fst titems)).
  { rewrite Hm in Hnew. cbn [m_get] in Hnew. destruct (Z.eqb_spec o0 k); [congruence|]. now apply m_get_none. }
  exists o0, (map fst titems), l'. split; auto. split; auto.
  pose proof Hr' as [Hc' Hp' Ho' Hm' Hl' Hni' Hnc' Hs']. cbn [sl_refresh sl_items sl_cap tl] in *.
  rewrite m_remove_notin in * by auto.
  split; [|split; [|split; [|split]]].
  - rewrite Ho', map_app. reflexivity.
  - rewrite Hm', m_get_app. cbn [m_get]. destruct (Z.eqb_spec k o0); [congruence|].
    replace (m_get o0 titems) with (@None Z); auto. symmetry. now apply m_get_none.
  - rewrite Hm', m_get_app. cbn [m_get]. rewrite Z.eqb_refl.
    replace (m_get k titems) with (@None Z); auto. symmetry. now apply m_get_none.
  - intros k' H1 H2. rewrite Hm', Hm, m_get_app. cbn [m_get].
    destruct (Z.eqb_spec o0 k'); [congruence|]. destruct (Z.eqb_spec k k'); [congruence|].
    now destruct (m_get k' titems).
  - rewrite Hl', app_length. cbn [length] in *. rewrite <- Hc'. cbn [sl_cap]. lia.
Qed.

(* Find picks the first key of the recency order (least recently used first)
   that is among the candidates, and makes it the most recent; on any state *)
Theorem lru_find_picks_least_recent_candidate l ks :
  match snd (lru_find l ks) with
  | Some k =>
    In k ks /\
    (exists pre post, order l = pre ++ k :: post /\ (forall x, In x pre -> ~ In x ks)) /\
    order (fst (lru_find l ks)) = remove_first k (order l) ++ [k] /\
    cmap (fst (lru_find l ks)) = cmap l
  | None => (forall x, In x (order l) -> ~ In x ks) /\ fst (lru_find l ks) = l
  end.
Proof.
  unfold lru_find. destruct (find (contains ks) (order l)) as [k|] eqn:E; cbn [fst snd].
  - destruct (find_split _ _ _ E) as (pre & post & Eo & Hpre & Hk).
    split; [now apply contains_spec|]. split; [|split; reflexivity].
    exists pre, post. split; auto. intros x Hx Hin. rewrite Forall_forall in Hpre.
    specialize (Hpre _ Hx). apply contains_spec in Hin. congruence.
  - split; auto. intros x Hx Hin. eapply find_none in E; eauto. apply contains_spec in Hin. congruence.
Qed.

(* reachable states: key set of the map = keys of the order, no repeats, size <= capacity *)
Theorem lru_size_le_capacity capacity ops : 0 < capacity ->
  exists l outs, lmodel_run capacity ops = Ok (l, outs) /\
    Z.of_nat (length (cmap l)) <= cap l /\ cap l = capacity /\
    NoDup (order l) /\ NoDup (map fst (cmap l)) /\
    (forall k, In k (order l) <-> In k (map fst (cmap l))).
Proof.
  intros Hp. destruct (lru_refines_spec capacity ops Hp) as (l & E & Hr).
  exists l. eexists. split; [exact E|]. destruct Hr as [Hc Hpos Ho Hm Hl Hni Hnc Hs].
  rewrite Hl, Ho. repeat split; auto.
  - rewrite <- Hc. clear. induction ops as [|o ops IH] using rev_ind; [reflexivity|].
    rewrite sl_run_app. cbn [fst sl_run]. destruct (sl_step _ o) as [s1 r] eqn:Es. cbn [fst].
    rewrite <- IH. destruct o; cbn [sl_step] in Es.
    + inversion Es. cbn [sl_refresh sl_cap]. destruct (m_get _ _); auto. now destruct (_ =? _).
    + destruct (m_get _ _); inversion Es; reflexivity.
    + destruct (find _ _) as [[? ?]|]; inversion Es; reflexivity.
  - intros Hin. destruct (m_get k (cmap l)) eqn:G; [eapply m_get_in; eauto|].
    rewrite Hm in G. apply m_get_none in G. tauto.
  - intros Hin. destruct (m_get k (sl_items (fst (sl_run (sl_new capacity) ops)))) eqn:G; [eapply m_get_in; eauto|].
    rewrite <- Hm in G. apply m_get_none in G. tauto.
Qed.

(* non-vacuity *)
Example lru_example :
  exists l, lmodel_run 2 [LPut 1 10; LPut 2 20; LGet 1; LPut 3 30; LGet 2; LFind [3; 1]; LPut 1 11; LGet 1] =
    Ok (l, [LUnit; LUnit; LVal (Some 10); LUnit; LVal None; LKey (Some 1); LUnit; LVal (Some 11)]) /\
    order l = [3; 1].
Proof. eexists. split; vm_compute; reflexivity. Qed.
