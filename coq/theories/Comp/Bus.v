(* H model of /repo/proc/comp/bus.go : SimpleBus[T] and BufferedBus[T].
   Items are Z (the Go code is generic and never inspects T, except through
   the predicate handed to Pick/Exists).  Go ints are Z; slice lengths are
   Z.of_nat (length ...).  One function per Go method, in the order of the
   source file.  No method of bus.go can panic (DeleteLast guards the empty
   slice, Get/Pick guard the empty queue, Connect indexes below len), so the
   functions are total and return plain values.

   Proofs are in BusProofs.v; this file must keep compiling (and extracting)
   when a proof breaks. *)
From Coq Require Import ZArith List Bool.
Import ListNotations.
Open Scope Z_scope.

Definition len {A} (l : list A) : Z := Z.of_nat (length l).

(* ------------------------------------------------------------------ *)
(* SimpleBus                                                            *)
(* ------------------------------------------------------------------ *)

(* entry[T]{exists, t}  ~  option Z  (the zero entry is None) *)
Record sbus := mkS { s_pending : option Z; s_current : option Z }.

Definition s_new : sbus := mkS None None.           (* &SimpleBus[T]{} *)

Definition s_flush (b : sbus) : sbus := mkS None None.

(* Get: returns current (zero value, false when absent); current := pending; pending := {} *)
Definition s_get (b : sbus) : sbus * (Z * bool) :=
  (mkS None (s_pending b),
   match s_current b with Some t => (t, true) | None => (0, false) end).

Definition s_canadd (b : sbus) : bool :=
  match s_pending b with Some _ => false | None => true end.

(* Add overwrites pending unconditionally *)
Definition s_add (b : sbus) (t : Z) : sbus := mkS (Some t) (s_current b).

Definition s_isempty (b : sbus) : bool :=
  match s_pending b, s_current b with None, None => true | _, _ => false end.

Definition s_clean (b : sbus) : sbus := mkS None None.

Inductive sop := SAdd (t : Z) | SGet | SFlush | SClean.

(* what an operation returns *)
Inductive out :=
| ONone                          (* method without result *)
| OItem (t : Z) (found : bool)   (* (T, bool) of Get / Pick *)
| OBool (b : bool).              (* Exists *)

Definition s_step (b : sbus) (o : sop) : sbus * out :=
  match o with
  | SAdd t => (s_add b t, ONone)
  | SGet => let '(b', (t, e)) := s_get b in (b', OItem t e)
  | SFlush => (s_flush b, ONone)
  | SClean => (s_clean b, ONone)
  end.

Fixpoint s_run (b : sbus) (h : list sop) : sbus * list out :=
  match h with
  | [] => (b, [])
  | o :: h' => let '(b1, x) := s_step b o in
               let '(b2, xs) := s_run b1 h' in (b2, x :: xs)
  end.

(* ------------------------------------------------------------------ *)
(* BufferedBus                                                          *)
(* ------------------------------------------------------------------ *)

(* BufferEntry{availableFromCycle, t} ~ (avail, item) *)
Record bbus := mkB {
  buffer : list (Z * Z);
  queue : list Z;
  queueLength : Z;
  bufferLength : Z
}.

Definition b_new (queueLength bufferLength : Z) : bbus := mkB [] [] queueLength bufferLength.

Definition b_inlength (b : bbus) : Z := queueLength b.
Definition b_outlength (b : bbus) : Z := bufferLength b.

Definition b_clean (b : bbus) : bbus := mkB [] [] (queueLength b) (bufferLength b).

Definition b_add (b : bbus) (t c : Z) : bbus :=
  mkB (buffer b ++ [(c + 1, t)]) (queue b) (queueLength b) (bufferLength b).

(* Revert PREPENDS to the buffer, stamped with the current cycle *)
Definition b_revert (b : bbus) (t c : Z) : bbus :=
  mkB ((c, t) :: buffer b) (queue b) (queueLength b) (bufferLength b).

Definition b_deletelast (b : bbus) : bbus :=
  match buffer b with
  | [] => b
  | _ => mkB (removelast (buffer b)) (queue b) (queueLength b) (bufferLength b)
  end.

Definition b_get (b : bbus) : bbus * (Z * bool) :=
  match queue b with
  | [] => (b, (0, false))
  | e :: q => (mkB (buffer b) q (queueLength b) (bufferLength b), (e, true))
  end.

(* slices.DeleteFunc with the "found" latch: deletes the first element
   satisfying p; returns it; the others keep their order *)
Fixpoint pick_first (p : Z -> bool) (q : list Z) : list Z * option Z :=
  match q with
  | [] => ([], None)
  | t :: q' => if p t then (q', Some t)
               else let '(r, x) := pick_first p q' in (t :: r, x)
  end.

Definition b_pick (b : bbus) (p : Z -> bool) : bbus * (Z * bool) :=
  match queue b with
  | [] => (b, (0, false))
  | _ => let '(q', x) := pick_first p (queue b) in
         (mkB (buffer b) q' (queueLength b) (bufferLength b),
          match x with Some t => (t, true) | None => (0, false) end)
  end.

Definition b_exists (b : bbus) (p : Z -> bool) : bool := existsb p (queue b).

Definition b_canget (b : bbus) : bool := negb (len (queue b) =? 0).
Definition b_canadd (b : bbus) : bool := negb (len (buffer b) =? bufferLength b).
Definition b_remainingtoadd (b : bbus) : Z := bufferLength b - len (buffer b).
Definition b_pendingread (b : bbus) : Z := len (queue b).
Definition b_isempty (b : bbus) : bool := (len (queue b) =? 0) && (len (buffer b) =? 0).

(* the loop of Connect: i runs over the buffer; stops when the queue has
   exactly queueLength elements or at the first entry not yet available;
   returns the new queue and buffer[i:] *)
Fixpoint connect_loop (ql c : Z) (q : list Z) (buf : list (Z * Z)) : list Z * list (Z * Z) :=
  match buf with
  | [] => (q, [])
  | (a, t) :: buf' =>
      if len q =? ql then (q, buf)
      else if a >? c then (q, buf)
      else connect_loop ql c (q ++ [t]) buf'
  end.

Definition b_connect (b : bbus) (c : Z) : bbus :=
  if len (queue b) =? queueLength b then b
  else let '(q, buf) := connect_loop (queueLength b) c (queue b) (buffer b) in
       mkB buf q (queueLength b) (bufferLength b).

(* Pick / Exists take a Go closure; a history carries the predicate itself *)
Inductive bop :=
| BAdd (t c : Z)
| BRevert (t c : Z)
| BDeleteLast
| BGet
| BPick (p : Z -> bool)
| BExists (p : Z -> bool)
| BConnect (c : Z)
| BClean.

Definition b_step (b : bbus) (o : bop) : bbus * out :=
  match o with
  | BAdd t c => (b_add b t c, ONone)
  | BRevert t c => (b_revert b t c, ONone)
  | BDeleteLast => (b_deletelast b, ONone)
  | BGet => let '(b', (t, e)) := b_get b in (b', OItem t e)
  | BPick p => let '(b', (t, e)) := b_pick b p in (b', OItem t e)
  | BExists p => (b, OBool (b_exists b p))
  | BConnect c => (b_connect b c, ONone)
  | BClean => (b_clean b, ONone)
  end.

Fixpoint b_run (b : bbus) (h : list bop) : bbus * list out :=
  match h with
  | [] => (b, [])
  | o :: h' => let '(b1, x) := b_step b o in
               let '(b2, xs) := b_run b1 h' in (b2, x :: xs)
  end.

(* The family of predicates used by the correspondence check (harness: same
   definition in Go).  k > 0: item divisible by k (Go's % on these operands:
   remainder 0 iff divisible; k = 1 is "always");  k <= 0: item equals -k. *)
Definition pred_of (k : Z) (t : Z) : bool :=
  if k >? 0 then Z.rem t k =? 0 else t =? - k.
