(* Facts about the association-list map operations and remove_first of
   Comp/Lru.v, shared by the proofs about both caches. *)
From Coq Require Import ZArith List Bool Lia.
From Maj Require Import Comp.Cache Comp.Lru.
Import ListNotations.
Open Scope Z_scope.

Lemma zlen_cons' {A} (x : A) l : zlen (x :: l) = zlen l + 1.
Proof. unfold zlen. simpl length. lia. Qed.

(* map operations of Lru.v *)
Lemma m_get_remove {V} k (m : list (Z * V)) b :
  m_get b (m_remove k m) = if k =? b then None else m_get b m.
Proof.
  induction m as [|[k' v] m IH]; simpl.
  - now destruct (k =? b).
  - destruct (Z.eqb_spec k' k).
    + subst. rewrite IH. destruct (Z.eqb_spec k b); auto.
    + simpl. rewrite IH. destruct (Z.eqb_spec k' b), (Z.eqb_spec k b); auto. congruence.
Qed.
Lemma m_get_set {V} k (v : V) m b :
  m_get b (m_set k v m) = if k =? b then Some v else m_get b m.
Proof.
  unfold m_set. simpl. rewrite m_get_remove. destruct (k =? b); auto.
Qed.

Lemma in_remove_first k l x : In x (remove_first k l) -> In x l.
Proof.
  induction l; simpl; auto. destruct (a =? k); simpl; intuition.
Qed.
Lemma remove_first_notin k l : ~ In k l -> remove_first k l = l.
Proof.
  induction l; simpl; auto. intros H. destruct (Z.eqb_spec a k); [intuition|]. f_equal. intuition.
Qed.
Lemma in_remove_first_neq k l x : x <> k -> In x l -> In x (remove_first k l).
Proof.
  induction l; simpl; auto. intros Hn [->|H].
  - destruct (Z.eqb_spec x k); [congruence|]. now left.
  - destruct (a =? k); auto. right. auto.
Qed.
Lemma NoDup_remove_first k l : NoDup l -> NoDup (remove_first k l) /\ ~ In k (remove_first k l).
Proof.
  induction 1; simpl.
  - split; [constructor | auto].
  - destruct (Z.eqb_spec x k).
    + subst. split; auto.
    + destruct IHNoDup as [A B]. split.
      * constructor; auto. intros Hx. apply H. eapply in_remove_first; eauto.
      * simpl. intuition.
Qed.
Lemma length_remove_first k l : In k l -> zlen (remove_first k l) = zlen l - 1.
Proof.
  induction l as [|a l IH]; [simpl; tauto|]. intros H. cbn [remove_first].
  destruct (Z.eqb_spec a k).
  - rewrite zlen_cons'. lia.
  - rewrite !zlen_cons'. rewrite IH; [lia|]. destruct H; congruence.
Qed.


Lemma m_get_app {V} k (m1 m2 : list (Z * V)) :
  m_get k (m1 ++ m2) = match m_get k m1 with Some v => Some v | None => m_get k m2 end.
Proof.
  induction m1 as [|[k' v] m1 IH]; simpl; auto. destruct (k' =? k); auto.
Qed.

Lemma m_get_none {V} k (m : list (Z * V)) : m_get k m = None <-> ~ In k (map fst m).
Proof.
  induction m as [|[k' v] m IH]; simpl; [tauto|].
  destruct (Z.eqb_spec k' k).
  - split; [discriminate | intros H; exfalso; apply H; now left].
  - rewrite IH. split; [intros H [?|?]; [congruence | tauto] | tauto].
Qed.

Lemma m_get_in {V} k (v : V) m : m_get k m = Some v -> In k (map fst m).
Proof.
  intros H. destruct (in_dec Z.eq_dec k (map fst m)); auto.
  apply m_get_none in n. congruence.
Qed.

Lemma m_remove_notin {V} k (m : list (Z * V)) : ~ In k (map fst m) -> m_remove k m = m.
Proof.
  induction m as [|[k' v] m IH]; simpl; auto. intros H.
  destruct (Z.eqb_spec k' k); [exfalso; apply H; now left|]. f_equal. apply IH. tauto.
Qed.

Lemma map_fst_m_remove {V} k (m : list (Z * V)) : NoDup (map fst m) ->
  map fst (m_remove k m) = remove_first k (map fst m).
Proof.
  induction m as [|[k' v] m IH]; simpl; auto. intros H. inversion H; subst.
  destruct (Z.eqb_spec k' k).
  - subst. now rewrite m_remove_notin.
  - simpl. f_equal. auto.
Qed.

Lemma NoDup_m_remove {V} k (m : list (Z * V)) : NoDup (map fst m) -> NoDup (map fst (m_remove k m)).
Proof. intros H. rewrite map_fst_m_remove by auto. now apply NoDup_remove_first. Qed.

Lemma notin_m_remove {V} k (m : list (Z * V)) : NoDup (map fst m) -> ~ In k (map fst (m_remove k m)).
Proof. intros H. rewrite map_fst_m_remove by auto. now apply NoDup_remove_first. Qed.

Lemma length_m_remove {V} k (v : V) m : NoDup (map fst m) -> m_get k m = Some v ->
  S (length (m_remove k m)) = length m.
Proof.
  induction m as [|[k' v'] m IH]; simpl; [discriminate|]. intros H Hg. inversion H; subst.
  destruct (Z.eqb_spec k' k).
  - subst. now rewrite m_remove_notin.
  - simpl. f_equal. auto.
Qed.

Lemma remove_first_app_notin k l1 l2 : ~ In k l1 -> remove_first k (l1 ++ l2) = l1 ++ remove_first k l2.
Proof.
  induction l1 as [|x l1 IH]; simpl; auto. intros H.
  destruct (Z.eqb_spec x k); [exfalso; apply H; now left|]. f_equal. apply IH. tauto.
Qed.

Lemma find_split {A} (P : A -> bool) l x : find P l = Some x ->
  exists pre post, l = pre ++ x :: post /\ Forall (fun y => P y = false) pre /\ P x = true.
Proof.
  induction l as [|y l IH]; simpl; [discriminate|]. destruct (P y) eqn:E.
  - intros H. inversion H; subst. exists [], l. repeat split; auto.
  - intros H. destruct (IH H) as (pre & post & -> & Hp & Hx). exists (y :: pre), post.
    repeat split; auto.
Qed.

Lemma find_map_fst {B} (P : Z -> bool) (l : list (Z * B)) :
  find P (map fst l) = match find (fun kv => P (fst kv)) l with Some kv => Some (fst kv) | None => None end.
Proof. induction l as [|[k v] l IH]; simpl; auto. destruct (P k); auto. Qed.

Lemma contains_spec ks k : contains ks k = true <-> In k ks.
Proof.
  unfold contains. rewrite existsb_exists. split.
  - intros (x & Hx & E). apply Z.eqb_eq in E. now subst.
  - intros H. exists k. split; auto. apply Z.eqb_refl.
Qed.
