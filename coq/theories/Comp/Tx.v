(* H model of the speculative register state of /repo/risc/app.go (Context)
   and of registerRead at the top of /repo/risc/opcodes.go, as coded NOW.

   Go                                              model
   ---------------------------------------------   --------------------------
   Registers   map[RegisterType]int32              regs  : assoc list, missing key reads 0
   Transaction map[RegisterType]transactionUnit    trans : assoc list reg -> (sequenceID, value)
   committedRAT   *comp.RAT[RegisterType, int32]   crat  : rat Z
   transactionRAT *comp.RAT[RegisterType, tu]      trat  : rat tu
   rat bool                                        ratflag
   const ratLength = 10                            ratLength

   Commit, Rollback, InitRAT, RATCommit, RATRollback, RATFlush range over a Go
   map: each takes the iteration order as the explicit argument `hint`
   (Comp/Rat.v, iter_order); Comp/TxProofs.v proves that nothing observable
   depends on it.  RATCommit / RATRollback replace transactionRAT by a fresh
   table.  All RAT tables of a Context have length 10, so Write cannot panic
   (rat_write_o_ctx in Comp/TxProofs.v); the total rat_write is used.

   registerRead(ctx, forward, reg, sequenceID):
     forward register  >  ( rat ?  transactionRAT (plain Read when sequenceID == 0,
                                   else Find with tag <= sequenceID) then committedRAT (else 0)
                                :  Transaction entry (a tagged read ignores a younger entry)
                                   then Registers ) *)
From Coq Require Import ZArith List Bool.
From Maj Require Import Base.Outcome Comp.Rat.
Import ListNotations.
Open Scope Z_scope.

(* transactionUnit{sequenceID, value} *)
Definition tu := (Z * Z)%type.
Definition tu_zero : tu := (0, 0).
Definition ratLength : Z := 10.

Record ctx := mkCtx {
  regs : list (Z * Z);
  trans : list (Z * tu);
  crat : @rat Z;
  trat : @rat tu;
  ratflag : bool
}.

(* the two closures passed to Find / FindValues *)
Definition tag_le (t : Z) (u : tu) : bool := fst u <=? t.   (* v.sequenceID <= sequenceID *)
Definition tag_lt (s : Z) (u : tu) : bool := fst u <? s.    (* u.sequenceID < sequenceID *)

(* NewContext(_, _, rat) *)
Definition new_context (rat : bool) : ctx :=
  mkCtx [] [] (rat_new ratLength) (rat_new ratLength) rat.

(* ctx.Registers[r] *)
Definition reg_get (c : ctx) (r : Z) : Z :=
  match aget r (regs c) with Some v => v | None => 0 end.

(* WriteRegister(exe) *)
Definition write_register (c : ctx) (r v : Z) : ctx :=
  mkCtx (aset r v (regs c)) (trans c) (crat c) (trat c) (ratflag c).

(* TransactionWriteRegister(exe, sequenceID) *)
Definition tx_write (c : ctx) (r v s : Z) : ctx :=
  mkCtx (regs c) (aset r (s, v) (trans c)) (crat c) (trat c) (ratflag c).

(* Commit() *)
Definition commit (hint : list Z) (c : ctx) : ctx :=
  let rg := fold_left (fun rg k => match aget k (trans c) with
                                   | Some u => aset k (snd u) rg
                                   | None => rg
                                   end)
                      (iter_order hint (akeys (trans c))) (regs c) in
  mkCtx rg [] (crat c) (trat c) (ratflag c).

(* Rollback(sequenceID) *)
Definition rollback (hint : list Z) (s : Z) (c : ctx) : ctx :=
  let rg := fold_left (fun rg k => match aget k (trans c) with
                                   | Some u => if fst u <? s then aset k (snd u) rg else rg
                                   | None => rg
                                   end)
                      (iter_order hint (akeys (trans c))) (regs c) in
  mkCtx rg [] (crat c) (trat c) (ratflag c).

(* for k, v := range vals { table.Write(k, f v) } *)
Definition write_all {A : Type} (f : A -> Z) (vals : list (Z * A)) (hint : list Z) (t : @rat Z) : @rat Z :=
  fold_left (fun t k => match aget k vals with
                        | Some a => rat_write 0 t k (f a)
                        | None => t
                        end)
            (iter_order hint (akeys vals)) t.

(* InitRAT() *)
Definition init_rat (hint : list Z) (c : ctx) : ctx :=
  mkCtx (regs c) (trans c) (write_all (fun v => v) (regs c) hint (crat c)) (trat c) (ratflag c).

(* TransactionRATWrite(exe, sequenceID) *)
Definition tx_rat_write (c : ctx) (r v s : Z) : ctx :=
  mkCtx (regs c) (trans c) (crat c) (rat_write tu_zero (trat c) r (s, v)) (ratflag c).

(* RATCommit() *)
Definition rat_commit (hint : list Z) (c : ctx) : ctx :=
  mkCtx (regs c) (trans c)
        (write_all (fun u : tu => snd u) (rat_values tu_zero (trat c)) hint (crat c))
        (rat_new ratLength) (ratflag c).

(* RATRollback(sequenceID) *)
Definition rat_rollback (hint : list Z) (s : Z) (c : ctx) : ctx :=
  mkCtx (regs c) (trans c)
        (write_all (fun u : tu => snd u)
                   (rat_findvalues tu_zero (trat c) (tag_lt s)) hint (crat c))
        (rat_new ratLength) (ratflag c).

(* RATFlush() *)
Definition rat_flush (hint : list Z) (c : ctx) : ctx :=
  let vals := rat_values 0 (crat c) in
  let rg := fold_left (fun rg k => match aget k vals with
                                   | Some v => aset k v rg
                                   | None => rg
                                   end)
                      (iter_order hint (akeys vals)) (regs c) in
  mkCtx rg (trans c) (crat c) (trat c) (ratflag c).

(* registerRead(ctx, forward, reg, sequenceID); forward = (Register, Value) *)
Definition register_read (c : ctx) (forward : Z * Z) (reg seq : Z) : Z :=
  if reg =? fst forward then snd forward
  else if ratflag c then
    match (if seq =? 0 then rat_read tu_zero (trat c) reg
           else rat_find tu_zero (trat c) reg (tag_le seq)) with
    | Some u => snd u
    | None => match rat_read 0 (crat c) reg with Some v => v | None => 0 end
    end
  else
    match aget reg (trans c) with
    | Some u => if (seq =? 0) || (fst u <=? seq) then snd u else reg_get c reg
    | None => reg_get c reg
    end.

(* ---------- histories: the map discipline (MVP-6.2) ---------- *)
Inductive mop :=
| MWriteReg (r v : Z)                  (* WriteRegister: initial / direct architectural write *)
| MTxWrite (r v s : Z)                 (* TransactionWriteRegister, s = sequence id *)
| MRead (r s : Z) (forward : Z * Z)    (* registerRead on behalf of sequence id s (0 = plain) *)
| MCommit (hint : list Z)
| MRollback (hint : list Z) (s : Z).

Definition mexec (o : mop) (c : ctx) : ctx :=
  match o with
  | MWriteReg r v => write_register c r v
  | MTxWrite r v s => tx_write c r v s
  | MRead _ _ _ => c
  | MCommit hint => commit hint c
  | MRollback hint s => rollback hint s c
  end.

(* the value an operation returns (reads only) *)
Definition mout (o : mop) (c : ctx) : option Z :=
  match o with
  | MRead r s fw => Some (register_read c fw r s)
  | _ => None
  end.

Definition mrun (h : list mop) (c : ctx) : ctx := fold_left (fun c o => mexec o c) h c.

(* ---------- histories: the RAT discipline (MVP-6.3 and later) ---------- *)
Inductive rop :=
| RWriteReg (r v : Z)
| RInit (hint : list Z)                (* InitRAT *)
| RWrite (r v s : Z)                   (* TransactionRATWrite *)
| RRead (r s : Z) (forward : Z * Z)
| RCommit (hint : list Z)              (* RATCommit *)
| RRollback (hint : list Z) (s : Z)    (* RATRollback *)
| RFlush (hint : list Z).              (* RATFlush *)

Definition rexec (o : rop) (c : ctx) : ctx :=
  match o with
  | RWriteReg r v => write_register c r v
  | RInit hint => init_rat hint c
  | RWrite r v s => tx_rat_write c r v s
  | RRead _ _ _ => c
  | RCommit hint => rat_commit hint c
  | RRollback hint s => rat_rollback hint s c
  | RFlush hint => rat_flush hint c
  end.

Definition rout (o : rop) (c : ctx) : option Z :=
  match o with
  | RRead r s fw => Some (register_read c fw r s)
  | _ => None
  end.

Definition rrun (h : list rop) (c : ctx) : ctx := fold_left (fun c o => rexec o c) h c.
