(* Canonical printer of assembly programs, the reference assembler the parser is
   compared with, and decorations (blank lines, comment lines, indentation, trailing
   comments, mnemonic case).  Nothing here looks at the parser. *)
From Coq Require Import ZArith List Bool.
From Maj Require Import Base.Outcome Base.GoInt Parser.Model.
Import ListNotations.
Open Scope Z_scope.

(* a program: instructions with label definitions between them *)
Inductive item := ILabel (name : bstr) | IInstr (i : pinstr).
Definition program := list item.

(* ---------------- decimal numbers ---------------- *)

(* most significant digit first; fuel bounds the number of digits *)
Fixpoint digits_fuel (fuel : nat) (n : Z) (acc : bstr) : bstr :=
  match fuel with
  | O => acc
  | S f => let acc' := (48 + n mod 10) :: acc in
           if n <? 10 then acc' else digits_fuel f (n / 10) acc'
  end.
Definition print_nat (n : Z) : bstr := digits_fuel (S (Z.to_nat (Z.log2 n))) n [].
Definition print_int (z : Z) : bstr := if z <? 0 then 45 :: print_nat (- z) else print_nat z.

(* ---------------- instructions ---------------- *)

Definition print_oval (v : oval) : bstr :=
  match v with
  | VReg r => reg_name r
  | VImm i => print_int i
  | VLab l => l
  | VMem off r => print_int off ++ 40 :: reg_name r ++ [41]          (* off(reg) *)
  end.

(* operands separated by ", " *)
Definition print_args (args : list oval) : bstr :=
  match args with
  | [] => []
  | v :: r => print_oval v ++ concat (map (fun w => 44 :: 32 :: print_oval w) r)
  end.

(* letter k of the mnemonic is upper-cased when the k-th entry of the mask is true *)
Fixpoint apply_case (mask : list bool) (name : bstr) : bstr :=
  match name with
  | [] => []
  | c :: r => (if hd false mask then c - 32 else c) :: apply_case (tl mask) r
  end.

Definition instr_text (mask : list bool) (i : pinstr) : bstr :=
  match i with
  | PI m args => apply_case mask (mnem_name m) ++ match args with [] => [] | _ => 32 :: print_args args end
  end.

Definition print_item (it : item) : bstr :=
  match it with
  | ILabel n => n ++ [58]
  | IInstr i => instr_text [] i
  end.

(* lines joined by "\n" *)
Fixpoint join_lines (ls : list bstr) : bstr :=
  match ls with
  | [] => []
  | [l] => l
  | l :: r => l ++ 10 :: join_lines r
  end.

Definition print (p : program) : bstr := join_lines (map print_item p).

(* ---------------- the reference assembler ---------------- *)

(* instructions in order; a label is bound to the pc of the next instruction (int32
   arithmetic, as the implementation's pc); a later definition of a name replaces the
   earlier one *)
Fixpoint assemble_from (p : program) (ins : list pinstr) (labs : labels) (pc : Z) : list pinstr * labels :=
  match p with
  | [] => (ins, labs)
  | ILabel n :: r => assemble_from r ins (set_label n pc labs) pc
  | IInstr i :: r => assemble_from r (ins ++ [i]) labs (addS 32 pc 4)
  end.
Definition assemble (p : program) : list pinstr * labels := assemble_from p [] [] 0.

Fixpoint instrs_of (p : program) : list pinstr :=
  match p with
  | [] => []
  | ILabel _ :: r => instrs_of r
  | IInstr i :: r => i :: instrs_of r
  end.

(* number of instructions before the LAST definition of label n, if it is defined *)
Fixpoint last_def (n : bstr) (p : program) : option Z :=
  match p with
  | [] => None
  | it :: r =>
    match last_def n r with
    | Some k => Some (k + match it with IInstr _ => 1 | ILabel _ => 0 end)
    | None => match it with
              | ILabel n' => if bstr_eqb n' n then Some 0 else None
              | IInstr _ => None
              end
    end
  end.

(* ---------------- well-formed programs ---------------- *)

(* a word: ASCII, no white space, no ',' and no '#' *)
Definition clean_byte (c : Z) : bool :=
  is_ascii c && negb (is_space c) && negb (c =? 44) && negb (c =? 35).
Definition clean (s : bstr) : bool := forallb clean_byte s.

Definition wf_label (n : bstr) : Prop := n <> [] /\ clean n = true.

Definition wf_oval (k : okind) (v : oval) : Prop :=
  match k, v with
  | KReg, VReg r => 0 <= r < 32
  | KImm, VImm i => -2147483648 <= i <= 2147483647
  | KLab, VLab l => wf_label l
  | KMem, VMem off r => -2147483648 <= off <= 2147483647 /\ 0 <= r < 32
  | _, _ => False
  end.

Definition wf_instr (i : pinstr) : Prop :=
  match i with
  | PI m args => match mnem_sig m with
                 | None => args = []
                 | Some ks => Forall2 wf_oval ks args
                 end
  end.

Definition wf_item (it : item) : Prop :=
  match it with ILabel n => wf_label n | IInstr i => wf_instr i end.

Definition wf_program (p : program) : Prop := Forall wf_item p.

(* ---------------- decorations ---------------- *)

(* horizontal white space: \t \v \f \r and ' ' *)
Definition is_hspace (c : Z) : bool := is_space c && negb (c =? 10).
(* comment text: ASCII without newline *)
Definition comment_byte (c : Z) : bool := is_ascii c && negb (c =? 10).

(* lines that carry nothing: white space only, or white space followed by a comment *)
Inductive junk := JBlank (ws : bstr) | JComment (ws text : bstr).
Definition junk_line (j : junk) : bstr :=
  match j with JBlank ws => ws | JComment ws t => ws ++ 35 :: t end.
Definition wf_junk (j : junk) : Prop :=
  match j with
  | JBlank ws => forallb is_hspace ws = true
  | JComment ws t => forallb is_hspace ws = true /\ forallb comment_byte t = true
  end.

(* decoration of one item *)
Record ideco := mk_ideco {
  d_before : list junk;         (* blank and comment lines in front of the item *)
  d_lead : bstr;                (* indentation *)
  d_trail : bstr;               (* trailing white space *)
  d_upper : list bool;          (* which letters of the mnemonic are upper case *)
  d_comment : option (bstr * bstr)   (* trailing comment (gap, text): gap ++ "#" ++ text after a label definition
                                        or an instruction; the gap is white space and may be empty, so
                                        the '#' may be glued to the ':' , the mnemonic or the last operand *)
}.
Definition cmt_text (c : option (bstr * bstr)) : bstr :=
  match c with None => [] | Some (gap, t) => gap ++ 35 :: t end.
Definition no_deco : ideco := mk_ideco [] [] [] [] None.
Definition wf_ideco (d : ideco) : Prop :=
  Forall wf_junk (d_before d) /\ forallb is_hspace (d_lead d) = true /\ forallb is_hspace (d_trail d) = true /\
  match d_comment d with
  | None => True
  | Some (gap, t) => forallb is_hspace gap = true /\ forallb comment_byte t = true
  end.

Definition deco_item (d : ideco) (it : item) : bstr :=
  match it with
  | ILabel n => d_lead d ++ ((n ++ [58]) ++ cmt_text (d_comment d)) ++ d_trail d
  | IInstr i => d_lead d ++ (instr_text (d_upper d) i ++ cmt_text (d_comment d)) ++ d_trail d
  end.

Fixpoint deco_lines (ds : list ideco) (p : program) : list bstr :=
  match p with
  | [] => []
  | it :: r => let d := hd no_deco ds in
               map junk_line (d_before d) ++ deco_item d it :: deco_lines (tl ds) r
  end.

(* the k-th item is decorated by the k-th entry of ds (no decoration when ds is shorter);
   tail: blank and comment lines after the last item *)
Definition decorate (ds : list ideco) (tail : list junk) (p : program) : bstr :=
  join_lines (deco_lines ds p ++ map junk_line tail).
