(* H model of risc.Parse (risc/parser.go), hand-written and faithful: the same
   control flow as the Go code, over byte strings (list Z, bytes 0..255).

   Every Go index expression s[i] and slice expression s[lo:hi] is an
   explicit checked operation ([at_], [slice]) that yields [Panic] where the
   Go run time would panic; every `return Application{}, err` is
   [Err EOther]; pc is an int32 (pc += 4 wraps).  The totality theorem (Parser/Proofs.v, parse_total) is
   therefore a statement about the checks the code performs.

   Go library functions are executable Gallina:
     strings.Split(s, sep), strings.Index(s, sep), strings.IndexRune(s, r)
         for the one-byte ASCII separators the parser uses (byte search);
     strings.HasSuffix(s, ")");
     strings.TrimSpace   [trim_space]: ASCII white space \t \n \v \f \r ' '
         and, when the string contains a byte >= 0x80, also the UTF-8
         encodings of the other runes with unicode.IsSpace (U+0085, U+00A0,
         U+1680, U+2000..U+200A, U+2028, U+2029, U+202F, U+205F, U+3000);
         an invalid or incomplete sequence is not white space (Go takes the
         slow path from the first non-ASCII byte it meets while trimming; the
         result is the same as deciding on the whole string, as here);
     strings.ToLower     [to_lower]: A-Z on pure ASCII strings (Go's fast
         path); otherwise additionally U+0130 -> 'i' and U+212A -> 'k', the
         only non-ASCII runes whose lower case is ASCII; other non-ASCII
         bytes are copied (Go rewrites them, but neither result can equal a
         mnemonic, which is the only use of the value);
     strconv.ParseInt(s, 10, 32) [parse_int32]: optional sign, one or more
         decimal digits, no underscores, range check.

   Domain.  The model is EXACT for every ASCII byte string (all bytes < 128):
   that is what the theorems are about.  For strings with bytes >= 0x80 the
   Unicode cases above make it agree with Go 1.23 as far as we know and the
   correspondence check compares it there too, but nothing is claimed.

   Labels: a Go map; here an association list without repeated keys in
   first-insertion order; a later definition overwrites the address
   (labels[name] = pc). *)
From Coq Require Import ZArith List Bool String Ascii.
From Maj Require Import Base.Outcome Base.GoInt.
Import ListNotations.
Open Scope Z_scope.

Definition bstr := list Z.

Definition b (s : string) : bstr := map (fun a => Z.of_N (N_of_ascii a)) (list_ascii_of_string s).

Definition blen {A} (s : list A) : Z := Z.of_nat (List.length s).

(* ---------------- checked Go operations ---------------- *)

(* s[i] *)
Definition at_ {A} (s : list A) (i : Z) : outcome A :=
  if i <? 0 then Panic
  else match nth_error s (Z.to_nat i) with Some x => Ok x | None => Panic end.

(* s[lo:hi] *)
Definition slice (s : bstr) (lo hi : Z) : outcome bstr :=
  if (0 <=? lo) && (lo <=? hi) && (hi <=? blen s)
  then Ok (firstn (Z.to_nat (hi - lo)) (skipn (Z.to_nat lo) s))
  else Panic.

(* ---------------- strings ---------------- *)

Fixpoint bstr_eqb (x y : bstr) : bool :=
  match x, y with
  | [], [] => true
  | a :: x', c :: y' => (a =? c) && bstr_eqb x' y'
  | _, _ => false
  end.

(* strings.Index / IndexRune for a one-byte ASCII needle: first position or -1 *)
Fixpoint index_nat (c : Z) (s : bstr) : option nat :=
  match s with
  | [] => None
  | x :: r => if x =? c then Some O else option_map S (index_nat c r)
  end.
Definition index_byte (c : Z) (s : bstr) : Z :=
  match index_nat c s with Some n => Z.of_nat n | None => -1 end.

(* strings.Split(s, sep) for a one-byte separator: always at least one piece *)
Fixpoint split_on (c : Z) (s : bstr) : list bstr :=
  match s with
  | [] => [[]]
  | x :: r =>
    if x =? c then [] :: split_on c r
    else match split_on c r with
         | p :: q => (x :: p) :: q
         | [] => [[x]]
         end
  end.

(* strings.HasSuffix(s, <one byte>) *)
Definition has_suffix_byte (c : Z) (s : bstr) : bool :=
  match rev s with x :: _ => x =? c | [] => false end.

(* ---- strings.TrimSpace ---- *)
Definition is_space (c : Z) : bool :=
  (c =? 9) || (c =? 10) || (c =? 11) || (c =? 12) || (c =? 13) || (c =? 32).
Definition is_ascii (c : Z) : bool := c <? 128.

Fixpoint drop_spaces (s : bstr) : bstr :=
  match s with
  | c :: r => if is_space c then drop_spaces r else s
  | [] => []
  end.
Definition trim_ascii (s : bstr) : bstr := rev (drop_spaces (rev (drop_spaces s))).

(* UTF-8 encodings of the non-ASCII white-space runes *)
Definition uspace2 (c d : Z) : bool := (c =? 194) && ((d =? 133) || (d =? 160)).
Definition uspace3 (c d e : Z) : bool :=
  ((c =? 225) && (d =? 154) && (e =? 128)) ||
  ((c =? 226) && (d =? 128) && (((128 <=? e) && (e <=? 138)) || (e =? 168) || (e =? 169) || (e =? 175))) ||
  ((c =? 226) && (d =? 129) && (e =? 159)) ||
  ((c =? 227) && (d =? 128) && (e =? 128)).

(* number of bytes of the white-space rune at the head of s (0: none) *)
Definition space_len (s : bstr) : nat :=
  match s with
  | c :: r =>
    if is_space c then 1%nat
    else match r with
         | d :: r2 =>
           if uspace2 c d then 2%nat
           else match r2 with
                | e :: _ => if uspace3 c d e then 3%nat else 0%nat
                | [] => 0%nat
                end
         | [] => 0%nat
         end
  | [] => 0%nat
  end.
(* the same for the last rune, on the reversed string (utf8.DecodeLastRuneInString) *)
Definition space_len_rev (s : bstr) : nat :=
  match s with
  | e :: r =>
    if is_space e then 1%nat
    else match r with
         | d :: r2 =>
           if uspace2 d e then 2%nat
           else match r2 with
                | c :: _ => if uspace3 c d e then 3%nat else 0%nat
                | [] => 0%nat
                end
         | [] => 0%nat
         end
  | [] => 0%nat
  end.
Fixpoint drop_runes (f : bstr -> nat) (fuel : nat) (s : bstr) : bstr :=
  match fuel with
  | O => s
  | S k => match f s with
           | O => s
           | n => drop_runes f k (skipn n s)
           end
  end.
Definition trim_unicode (s : bstr) : bstr :=
  let l := drop_runes space_len (List.length s) s in
  rev (drop_runes space_len_rev (List.length l) (rev l)).

Definition trim_space (s : bstr) : bstr :=
  if forallb is_ascii s then trim_ascii s else trim_unicode s.

(* ---- strings.ToLower ---- *)
Definition lower_byte (c : Z) : Z := if (65 <=? c) && (c <=? 90) then c + 32 else c.
Fixpoint lower_unicode (s : bstr) : bstr :=
  match s with
  | [] => []
  | c :: r =>
    match r with
    | d :: r2 =>
      if (c =? 196) && (d =? 176) then 105 :: lower_unicode r2
      else match r2 with
           | e :: r3 =>
             if (c =? 226) && (d =? 132) && (e =? 170) then 107 :: lower_unicode r3
             else lower_byte c :: lower_unicode r
           | [] => lower_byte c :: lower_unicode r
           end
    | [] => [lower_byte c]
    end
  end.
Definition to_lower (s : bstr) : bstr :=
  if forallb is_ascii s then map lower_byte s else lower_unicode s.

(* ---- strconv.ParseInt(s, 10, 32) ---- *)
Definition is_digit (c : Z) : bool := (48 <=? c) && (c <=? 57).
Fixpoint digits_val (acc : Z) (s : bstr) : option Z :=
  match s with
  | [] => Some acc
  | c :: r => if is_digit c then digits_val (acc * 10 + (c - 48)) r else None
  end.
Definition parse_uint (s : bstr) : option Z :=
  match s with [] => None | _ => digits_val 0 s end.
Definition parse_int32 (s : bstr) : option Z :=
  match s with
  | [] => None
  | c :: r =>
    let '(neg, d) := if c =? 43 then (false, r) else if c =? 45 then (true, r) else (false, s) in
    match parse_uint d with
    | None => None
    | Some v =>
      let v' := if neg then - v else v in
      if (-2147483648 <=? v') && (v' <=? 2147483647) then Some v' else None
    end
  end.

(* ---------------- parseRegister ---------------- *)

Definition reg_names_string : list string :=
  ["zero"; "ra"; "sp"; "gp"; "tp"; "t0"; "t1"; "t2"; "s0"; "s1";
   "a0"; "a1"; "a2"; "a3"; "a4"; "a5"; "a6"; "a7";
   "s2"; "s3"; "s4"; "s5"; "s6"; "s7"; "s8"; "s9"; "s10"; "s11";
   "t3"; "t4"; "t5"; "t6"]%string.
(* = map b reg_names_string (Parser/Proofs.v, reg_names_string_eq), RegisterType order *)
Definition reg_names : list bstr :=
  [[122; 101; 114; 111] (* zero *);
   [114; 97] (* ra *);
   [115; 112] (* sp *);
   [103; 112] (* gp *);
   [116; 112] (* tp *);
   [116; 48] (* t0 *);
   [116; 49] (* t1 *);
   [116; 50] (* t2 *);
   [115; 48] (* s0 *);
   [115; 49] (* s1 *);
   [97; 48] (* a0 *);
   [97; 49] (* a1 *);
   [97; 50] (* a2 *);
   [97; 51] (* a3 *);
   [97; 52] (* a4 *);
   [97; 53] (* a5 *);
   [97; 54] (* a6 *);
   [97; 55] (* a7 *);
   [115; 50] (* s2 *);
   [115; 51] (* s3 *);
   [115; 52] (* s4 *);
   [115; 53] (* s5 *);
   [115; 54] (* s6 *);
   [115; 55] (* s7 *);
   [115; 56] (* s8 *);
   [115; 57] (* s9 *);
   [115; 49; 48] (* s10 *);
   [115; 49; 49] (* s11 *);
   [116; 51] (* t3 *);
   [116; 52] (* t4 *);
   [116; 53] (* t5 *);
   [116; 54] (* t6 *)].
Definition reg_name (r : Z) : bstr := nth (Z.to_nat r) reg_names [].

(* switch s { case "zero", "$zero": return Zero ... default: error }, cases in source order *)
Fixpoint lookup_reg (s : bstr) (names : list bstr) (i : Z) : option Z :=
  match names with
  | [] => None
  | n :: r => if bstr_eqb s n || bstr_eqb s (36 :: n) then Some i else lookup_reg s r (i + 1)
  end.
Definition parse_register (s : bstr) : option Z := lookup_reg s reg_names 0.

(* ---------------- instructions ---------------- *)

(* in the order of risc.InstructionType *)
Inductive mnem : Type :=
| Madd | Maddi | Mand | Mandi | Mauipc | Mbeq | Mbeqz | Mbge | Mbgeu | Mble | Mblt | Mbltu | Mbne
| Mbnez | Mdiv | Mj | Mjal | Mjalr | Mlui | Mlb | Mlh | Mli | Mlw | Mnop | Mmul | Mmv | Mor | Mori
| Mrem | Mret | Msb | Msh | Msll | Mslli | Mslt | Msltu | Mslti | Msra | Msrai | Msrl | Msrli | Msub
| Msw | Mxor | Mxori.

Definition all_mnems : list mnem :=
  [Madd; Maddi; Mand; Mandi; Mauipc; Mbeq; Mbeqz; Mbge; Mbgeu; Mble; Mblt; Mbltu; Mbne;
   Mbnez; Mdiv; Mj; Mjal; Mjalr; Mlui; Mlb; Mlh; Mli; Mlw; Mnop; Mmul; Mmv; Mor; Mori;
   Mrem; Mret; Msb; Msh; Msll; Mslli; Mslt; Msltu; Mslti; Msra; Msrai; Msrl; Msrli; Msub;
   Msw; Mxor; Mxori].

Definition mnem_string (m : mnem) : string :=
  match m with
  | Madd => "add" | Maddi => "addi" | Mand => "and" | Mandi => "andi" | Mauipc => "auipc"
  | Mbeq => "beq" | Mbeqz => "beqz" | Mbge => "bge" | Mbgeu => "bgeu" | Mble => "ble"
  | Mblt => "blt" | Mbltu => "bltu" | Mbne => "bne" | Mbnez => "bnez" | Mdiv => "div"
  | Mj => "j" | Mjal => "jal" | Mjalr => "jalr" | Mlui => "lui" | Mlb => "lb" | Mlh => "lh"
  | Mli => "li" | Mlw => "lw" | Mnop => "nop" | Mmul => "mul" | Mmv => "mv" | Mor => "or"
  | Mori => "ori" | Mrem => "rem" | Mret => "ret" | Msb => "sb" | Msh => "sh" | Msll => "sll"
  | Mslli => "slli" | Mslt => "slt" | Msltu => "sltu" | Mslti => "slti" | Msra => "sra"
  | Msrai => "srai" | Msrl => "srl" | Msrli => "srli" | Msub => "sub" | Msw => "sw"
  | Mxor => "xor" | Mxori => "xori"
  end%string.
(* the case labels of the switch, as bytes (Parser/Proofs.v, mnem_name_string, ties them to
   the readable table [mnem_string]; literal lists keep Coq's string type out of the
   extracted code) *)
Definition mnem_name (m : mnem) : bstr :=
  match m with
  | Madd => [97; 100; 100]  (* add *)
  | Maddi => [97; 100; 100; 105]  (* addi *)
  | Mand => [97; 110; 100]  (* and *)
  | Mandi => [97; 110; 100; 105]  (* andi *)
  | Mauipc => [97; 117; 105; 112; 99]  (* auipc *)
  | Mbeq => [98; 101; 113]  (* beq *)
  | Mbeqz => [98; 101; 113; 122]  (* beqz *)
  | Mbge => [98; 103; 101]  (* bge *)
  | Mbgeu => [98; 103; 101; 117]  (* bgeu *)
  | Mble => [98; 108; 101]  (* ble *)
  | Mblt => [98; 108; 116]  (* blt *)
  | Mbltu => [98; 108; 116; 117]  (* bltu *)
  | Mbne => [98; 110; 101]  (* bne *)
  | Mbnez => [98; 110; 101; 122]  (* bnez *)
  | Mdiv => [100; 105; 118]  (* div *)
  | Mj => [106]  (* j *)
  | Mjal => [106; 97; 108]  (* jal *)
  | Mjalr => [106; 97; 108; 114]  (* jalr *)
  | Mlui => [108; 117; 105]  (* lui *)
  | Mlb => [108; 98]  (* lb *)
  | Mlh => [108; 104]  (* lh *)
  | Mli => [108; 105]  (* li *)
  | Mlw => [108; 119]  (* lw *)
  | Mnop => [110; 111; 112]  (* nop *)
  | Mmul => [109; 117; 108]  (* mul *)
  | Mmv => [109; 118]  (* mv *)
  | Mor => [111; 114]  (* or *)
  | Mori => [111; 114; 105]  (* ori *)
  | Mrem => [114; 101; 109]  (* rem *)
  | Mret => [114; 101; 116]  (* ret *)
  | Msb => [115; 98]  (* sb *)
  | Msh => [115; 104]  (* sh *)
  | Msll => [115; 108; 108]  (* sll *)
  | Mslli => [115; 108; 108; 105]  (* slli *)
  | Mslt => [115; 108; 116]  (* slt *)
  | Msltu => [115; 108; 116; 117]  (* sltu *)
  | Mslti => [115; 108; 116; 105]  (* slti *)
  | Msra => [115; 114; 97]  (* sra *)
  | Msrai => [115; 114; 97; 105]  (* srai *)
  | Msrl => [115; 114; 108]  (* srl *)
  | Msrli => [115; 114; 108; 105]  (* srli *)
  | Msub => [115; 117; 98]  (* sub *)
  | Msw => [115; 119]  (* sw *)
  | Mxor => [120; 111; 114]  (* xor *)
  | Mxori => [120; 111; 114; 105]  (* xori *)
  end.

(* the InstructionType() of the struct the case builds *)
Definition mnem_type (m : mnem) : Z :=
  match m with
  | Madd => 0 | Maddi => 1 | Mand => 2 | Mandi => 3 | Mauipc => 4 | Mbeq => 5 | Mbeqz => 6
  | Mbge => 7 | Mbgeu => 8 | Mble => 9 | Mblt => 10 | Mbltu => 11 | Mbne => 12 | Mbnez => 13
  | Mdiv => 14 | Mj => 15 | Mjal => 16 | Mjalr => 17 | Mlui => 18 | Mlb => 19 | Mlh => 20
  | Mli => 21 | Mlw => 22 | Mnop => 23 | Mmul => 24 | Mmv => 25 | Mor => 26 | Mori => 27
  | Mrem => 28 | Mret => 29 | Msb => 30 | Msh => 31 | Msll => 32 | Mslli => 33 | Mslt => 34
  | Msltu => 35 | Mslti => 36 | Msra => 37 | Msrai => 38 | Msrl => 39 | Msrli => 40
  | Msub => 41 | Msw => 42 | Mxor => 43 | Mxori => 44
  end.

(* operand kinds, in the order the case reads elements[0], elements[1], ...:
   KReg parseRegister(TrimSpace(e)); KImm ParseInt(TrimSpace(e), 10, 32);
   KLab TrimSpace(e); KMem parseOffsetReg(TrimSpace(e)) *)
Inductive okind := KReg | KImm | KLab | KMem.
Inductive oval :=
| VReg (r : Z) | VImm (i : Z) | VLab (l : bstr) | VMem (off r : Z).

(* the per-mnemonic table of the switch: Some ks = validateArgs(len ks, ...) followed by
   the operand parses ks, left to right; None = the case looks at nothing (nop, ret) *)
Definition mnem_sig (m : mnem) : option (list okind) :=
  match m with
  | Madd | Mand | Mdiv | Mmul | Mor | Mrem | Msll | Mslt | Msltu | Msra | Msrl | Msub | Mxor =>
      Some [KReg; KReg; KReg]
  | Maddi | Mandi | Mjalr | Mori | Mslli | Mslti | Msrai | Msrli | Mxori => Some [KReg; KReg; KImm]
  | Mauipc | Mlui | Mli => Some [KReg; KImm]
  | Mbeq | Mbge | Mbgeu | Mble | Mblt | Mbltu | Mbne => Some [KReg; KReg; KLab]
  | Mbeqz | Mbnez | Mjal => Some [KReg; KLab]
  | Mj => Some [KLab]
  | Mlb | Mlh | Mlw | Msb | Msw => Some [KReg; KMem]
  | Mmv => Some [KReg; KReg]
  | Msh => Some [KReg; KImm; KReg]
  | Mnop | Mret => None
  end.

(* a parsed instruction: mnemonic and operand values in text order *)
Inductive pinstr := PI (m : mnem) (args : list oval).

Definition find_mnem (s : bstr) : option mnem :=
  find (fun m => bstr_eqb s (mnem_name m)) all_mnems.

Definition opt_err {A} (o : option A) : outcome A :=
  match o with Some x => Ok x | None => Err EOther end.

(* func parseOffsetReg(s string) (int32, RegisterType, error) *)
Definition parse_offset_reg (s : bstr) : outcome oval :=
  let fp := index_byte 40 s in
  if fp =? -1 then Err EOther
  else if negb (has_suffix_byte 41 s) then Err EOther
  else
    x <- slice s 0 fp ;;
    imm <- opt_err (parse_int32 (trim_space x)) ;;
    y <- slice s (fp + 1) (blen s - 1) ;;
    reg <- opt_err (parse_register (trim_space y)) ;;
    Ok (VMem imm reg).

Definition parse_operand (k : okind) (e : bstr) : outcome oval :=
  let t := trim_space e in
  match k with
  | KReg => r <- opt_err (parse_register t) ;; Ok (VReg r)
  | KImm => i <- opt_err (parse_int32 t) ;; Ok (VImm i)
  | KLab => Ok (VLab t)
  | KMem => parse_offset_reg t
  end.

(* elements[i], elements[i+1], ... *)
Fixpoint parse_ops (ks : list okind) (i : Z) (elements : list bstr) : outcome (list oval) :=
  match ks with
  | [] => Ok []
  | k :: ks' =>
    e <- at_ elements i ;;
    v <- parse_operand k e ;;
    vs <- parse_ops ks' (i + 1) elements ;;
    Ok (v :: vs)
  end.

(* ---------------- the loop body ---------------- *)

Inductive line_res :=
| LSkip                  (* continue: blank or comment line *)
| LLabel (name : bstr)   (* labels[name] = pc; continue *)
| LInstr (i : pinstr).   (* instructions = append(instructions, i); pc += 4 *)

(* comment := strings.Index(x, "#"); if comment != -1 { x = strings.TrimSpace(x[:comment]) }
   (the code does this twice: on the whole line before it is classified, and again on
   remainingLine, where it can no longer find anything) *)
Definition strip_comment (x : bstr) : outcome bstr :=
  let comment := index_byte 35 x in
  if comment =? -1 then Ok x
  else r <- slice x 0 comment ;; Ok (trim_space r).

(* switch strings.ToLower(line[:del]) { case ...: validateArgs; operands; append  default: error } *)
Definition dispatch (mn : bstr) (elements : list bstr) : outcome line_res :=
  match find_mnem (to_lower mn) with
  | None => Err EOther                        (* default: invalid instruction type *)
  | Some m =>
    match mnem_sig m with
    | None => Ok (LInstr (PI m []))
    | Some ks =>
      if blen elements =? blen ks then
        vs <- parse_ops ks 0 elements ;; Ok (LInstr (PI m vs))
      else Err EOther                         (* validateArgs *)
    end
  end.

(* the loop body from firstWhitespace := strings.Index(line, " ") on *)
Definition parse_tail (line : bstr) : outcome line_res :=
  let fw := index_byte 32 line in
  lastc <- at_ line (blen line - 1) ;;
  if (fw =? -1) && (lastc =? 58) then
    name <- slice line 0 (blen line - 1) ;; Ok (LLabel name)
  else
    rem0 <- slice line (fw + 1) (blen line) ;;
    rem <- strip_comment rem0 ;;
    let elements := split_on 44 rem in
    let del := if fw =? -1 then blen line else fw in
    mn <- slice line 0 del ;;
    dispatch mn elements.

(* the loop body after line = strings.TrimSpace(line) *)
Definition parse_body (line : bstr) : outcome line_res :=
  if blen line =? 0 then Ok LSkip
  else
    c0 <- at_ line 0 ;;
    if c0 =? 35 then Ok LSkip
    else
      line2 <- strip_comment line ;;       (* a comment may directly follow a label or a mnemonic *)
      parse_tail line2.

Definition parse_line (raw : bstr) : outcome line_res := parse_body (trim_space raw).

(* ---------------- labels and the loop ---------------- *)

Definition labels := list (bstr * Z).

Fixpoint set_label (n : bstr) (pc : Z) (l : labels) : labels :=
  match l with
  | [] => [(n, pc)]
  | (k, v) :: r => if bstr_eqb k n then (k, pc) :: r else (k, v) :: set_label n pc r
  end.
Fixpoint lookup_label (l : labels) (n : bstr) : option Z :=
  match l with
  | [] => None
  | (k, v) :: r => if bstr_eqb k n then Some v else lookup_label r n
  end.

Fixpoint parse_lines (ls : list bstr) (ins : list pinstr) (labs : labels) (pc : Z)
  : outcome (list pinstr * labels) :=
  match ls with
  | [] => Ok (ins, labs)
  | l :: r =>
    x <- parse_line l ;;
    match x with
    | LSkip => parse_lines r ins labs pc
    | LLabel n => parse_lines r ins (set_label n pc labs) pc
    | LInstr i => parse_lines r (ins ++ [i]) labs (addS 32 pc 4)     (* pc is an int32 *)
    end
  end.

(* func Parse(s string) (Application, error) *)
Definition parse (s : bstr) : outcome (list pinstr * labels) :=
  parse_lines (split_on 10 s) [] [] 0.

(* ---------------- resolution to the ISA specification type ---------------- *)
From Maj Require Import Isa.Spec.

(* the struct literal of each case: which element goes to which field.  [lab] numbers label
   names (Isa.Spec identifies labels by numbers). *)
Definition to_sinstr (lab : bstr -> Z) (i : pinstr) : option sinstr :=
  match i with
  | PI m args =>
    match m, args with
    | Madd, [VReg a; VReg b'; VReg c] => Some (SAdd a b' c)
    | Maddi, [VReg a; VReg b'; VImm c] => Some (SAddi a b' c)
    | Mand, [VReg a; VReg b'; VReg c] => Some (SAnd a b' c)
    | Mandi, [VReg a; VReg b'; VImm c] => Some (SAndi a b' c)
    | Mauipc, [VReg a; VImm c] => Some (SAuipc a c)
    | Mbeq, [VReg a; VReg b'; VLab l] => Some (SBeq a b' (lab l))
    | Mbeqz, [VReg a; VLab l] => Some (SBeqz a (lab l))
    | Mbge, [VReg a; VReg b'; VLab l] => Some (SBge a b' (lab l))
    | Mbgeu, [VReg a; VReg b'; VLab l] => Some (SBgeu a b' (lab l))
    | Mble, [VReg a; VReg b'; VLab l] => Some (SBle a b' (lab l))
    | Mblt, [VReg a; VReg b'; VLab l] => Some (SBlt a b' (lab l))
    | Mbltu, [VReg a; VReg b'; VLab l] => Some (SBltu a b' (lab l))
    | Mbne, [VReg a; VReg b'; VLab l] => Some (SBne a b' (lab l))
    | Mbnez, [VReg a; VLab l] => Some (SBnez a (lab l))
    | Mdiv, [VReg a; VReg b'; VReg c] => Some (SDiv a b' c)
    | Mj, [VLab l] => Some (SJ (lab l))
    | Mjal, [VReg a; VLab l] => Some (SJal a (lab l))
    | Mjalr, [VReg a; VReg b'; VImm c] => Some (SJalr a b' c)
    | Mlui, [VReg a; VImm c] => Some (SLui a c)
    | Mlb, [VReg a; VMem off r] => Some (SLb a off r)
    | Mlh, [VReg a; VMem off r] => Some (SLh a off r)
    | Mli, [VReg a; VImm c] => Some (SLi a c)
    | Mlw, [VReg a; VMem off r] => Some (SLw a off r)
    | Mnop, [] => Some SNop
    | Mmul, [VReg a; VReg b'; VReg c] => Some (SMul a b' c)
    | Mmv, [VReg a; VReg b'] => Some (SMv a b')
    | Mor, [VReg a; VReg b'; VReg c] => Some (SOr a b' c)
    | Mori, [VReg a; VReg b'; VImm c] => Some (SOri a b' c)
    | Mrem, [VReg a; VReg b'; VReg c] => Some (SRem a b' c)
    | Mret, [] => Some SRet
    | Msb, [VReg a; VMem off r] => Some (SSb a off r)
    | Msh, [VReg a; VImm off; VReg r] => Some (SSh a off r)
    | Msll, [VReg a; VReg b'; VReg c] => Some (SSll a b' c)
    | Mslli, [VReg a; VReg b'; VImm c] => Some (SSlli a b' c)
    | Mslt, [VReg a; VReg b'; VReg c] => Some (SSlt a b' c)
    | Msltu, [VReg a; VReg b'; VReg c] => Some (SSltu a b' c)
    | Mslti, [VReg a; VReg b'; VImm c] => Some (SSlti a b' c)
    | Msra, [VReg a; VReg b'; VReg c] => Some (SSra a b' c)
    | Msrai, [VReg a; VReg b'; VImm c] => Some (SSrai a b' c)
    | Msrl, [VReg a; VReg b'; VReg c] => Some (SSrl a b' c)
    | Msrli, [VReg a; VReg b'; VImm c] => Some (SSrli a b' c)
    | Msub, [VReg a; VReg b'; VReg c] => Some (SSub a b' c)
    | Msw, [VReg a; VMem off r] => Some (SSw a off r)
    | Mxor, [VReg a; VReg b'; VReg c] => Some (SXor a b' c)
    | Mxori, [VReg a; VReg b'; VImm c] => Some (SXori a b' c)
    | _, _ => None
    end
  end.
