(* C11: theorems about the model of risc.Parse (Parser/Model.v), for ALL inputs of the
   stated class, no bound on the length of the text.

     parse_total              no byte string makes the parser panic
     instr_count              accepted text: #instructions = #instruction lines
     label_address            accepted text: a label maps to 4 * (instruction lines before its
                              last definition), in int32 arithmetic; exactly 4 * k for every
                              text shorter than 2^29 bytes
     roundtrip                parse (print p) = Ok (assemble p) for every well-formed program:
                              operands are decoded to the named registers / decimal immediates
     decoration_invariant     blank lines, comment lines, indentation, trailing white space,
                              trailing comments (after label definitions and instructions,
                              with or without a blank before '#') and mnemonic case do not
                              change the result
     register_table_injective distinct register names decode to distinct numbers
     *_refuted                what is false of the code, with witnesses *)
From Coq Require Import ZArith List Bool Lia String Ascii.
From Maj Require Import Base.Outcome Base.GoInt Parser.Model Parser.Printer.
Import ListNotations.
Open Scope Z_scope.

(* ================================================================== *)
(* 1. lists, checked operations                                        *)

Lemma blen_nonneg {A} (s : list A) : 0 <= blen s.
Proof. unfold blen. lia. Qed.
Lemma blen_app {A} (a c : list A) : blen (a ++ c) = blen a + blen c.
Proof. unfold blen. rewrite app_length. lia. Qed.
Lemma blen_cons {A} (x : A) a : blen (x :: a) = 1 + blen a.
Proof. unfold blen. cbn [List.length]. lia. Qed.
Lemma blen_nil {A} : blen (@nil A) = 0.
Proof. reflexivity. Qed.
Global Hint Rewrite @blen_app @blen_cons @blen_nil : blen.
Ltac bl := autorewrite with blen in *.
Lemma blen_zero {A} (s : list A) : blen s = 0 -> s = [].
Proof. destruct s; [reflexivity|]. rewrite blen_cons. pose proof (blen_nonneg s). lia. Qed.

Lemma bstr_eqb_refl x : bstr_eqb x x = true.
Proof. induction x; cbn; [reflexivity|]. rewrite Z.eqb_refl. assumption. Qed.
Lemma bstr_eqb_eq x y : bstr_eqb x y = true <-> x = y.
Proof.
  split.
  - revert y. induction x as [|a x IH]; destruct y as [|c y]; cbn; intros H; try discriminate; [reflexivity|].
    apply andb_true_iff in H. destruct H as [H1 H2]. apply Z.eqb_eq in H1. subst. f_equal. apply IH. assumption.
  - intros ->. apply bstr_eqb_refl.
Qed.
Lemma bstr_eqb_neq x y : bstr_eqb x y = false <-> x <> y.
Proof.
  split.
  - intros H E. apply bstr_eqb_eq in E. congruence.
  - intros H. destruct (bstr_eqb x y) eqn:E; [|reflexivity]. apply bstr_eqb_eq in E. contradiction.
Qed.

Lemma at_ok {A} (s : list A) i : 0 <= i < blen s -> exists x, at_ s i = Ok x /\ nth_error s (Z.to_nat i) = Some x.
Proof.
  intros H. unfold at_. destruct (Z.ltb_spec i 0); [lia|].
  destruct (nth_error s (Z.to_nat i)) eqn:E; [eauto|].
  apply nth_error_None in E. unfold blen in H. lia.
Qed.
Lemma at_app {A} (a : list A) x c : at_ (a ++ x :: c) (blen a) = Ok x.
Proof.
  unfold at_. pose proof (blen_nonneg a). destruct (Z.ltb_spec (blen a) 0); [lia|].
  unfold blen. rewrite Nat2Z.id. rewrite nth_error_app2 by lia. rewrite Nat.sub_diag. reflexivity.
Qed.
Lemma at_head {A} (x : A) s : at_ (x :: s) 0 = Ok x.
Proof. reflexivity. Qed.

Lemma slice_ok s lo hi : 0 <= lo <= hi -> hi <= blen s ->
  slice s lo hi = Ok (firstn (Z.to_nat (hi - lo)) (skipn (Z.to_nat lo) s)).
Proof.
  intros H1 H2. unfold slice.
  replace (0 <=? lo) with true by (symmetry; apply Z.leb_le; lia).
  replace (lo <=? hi) with true by (symmetry; apply Z.leb_le; lia).
  replace (hi <=? blen s) with true by (symmetry; apply Z.leb_le; lia).
  reflexivity.
Qed.
(* s = a ++ m ++ z, sliced at the boundaries of m *)
Lemma slice_app3 s a m z lo hi : s = a ++ m ++ z -> lo = blen a -> hi = blen a + blen m -> slice s lo hi = Ok m.
Proof.
  intros -> -> ->. pose proof (blen_nonneg a). pose proof (blen_nonneg m). pose proof (blen_nonneg z).
  rewrite slice_ok by (rewrite ?blen_app; lia).
  unfold blen. rewrite Nat2Z.id. replace (Z.to_nat _) with (List.length m) by lia.
  rewrite skipn_app, skipn_all, Nat.sub_diag. cbn [skipn app].
  rewrite firstn_app, firstn_all, Nat.sub_diag. cbn [firstn]. rewrite app_nil_r. reflexivity.
Qed.
Lemma slice_prefix a z : slice (a ++ z) 0 (blen a) = Ok a.
Proof. apply (slice_app3 _ [] a z); rewrite ?blen_nil; reflexivity || lia. Qed.
Lemma slice_suffix a z : slice (a ++ z) (blen a) (blen (a ++ z)) = Ok z.
Proof. apply (slice_app3 _ a z []); rewrite ?app_nil_r, ?blen_app; reflexivity. Qed.
Lemma slice_all s : slice s 0 (blen s) = Ok s.
Proof. apply (slice_app3 _ [] s []); rewrite ?app_nil_r, ?blen_nil; reflexivity || lia. Qed.

(* ---- byte search ---- *)
Lemma index_nat_some c s n : index_nat c s = Some n ->
  (n < List.length s)%nat /\ nth_error s n = Some c /\ ~ In c (firstn n s).
Proof.
  revert n. induction s as [|x r IH]; cbn; intros n H; [discriminate|].
  destruct (Z.eqb_spec x c).
  - injection H as <-. subst. cbn. repeat split; [lia | tauto].
  - destruct (index_nat c r) as [k|] eqn:E; cbn in H; [|discriminate]. injection H as <-.
    destruct (IH k eq_refl) as (H1 & H2 & H3). cbn. repeat split; [lia | assumption |].
    intros [F|F]; [congruence | contradiction].
Qed.
Lemma index_nat_none c s : index_nat c s = None <-> ~ In c s.
Proof.
  induction s as [|x r IH]; cbn; [tauto|].
  destruct (Z.eqb_spec x c).
  - split; [discriminate | intros H; exfalso; apply H; left; assumption].
  - destruct (index_nat c r); cbn; split; try discriminate; try tauto.
    + intros H. exfalso. destruct IH as [_ IH]. assert (Some n0 = None); [|discriminate]. apply IH. tauto.
Qed.
Lemma index_byte_range c s : -1 <= index_byte c s < blen s.
Proof.
  unfold index_byte. destruct (index_nat c s) eqn:E.
  - apply index_nat_some in E. unfold blen. lia.
  - pose proof (blen_nonneg s). lia.
Qed.
Lemma index_byte_none c s : ~ In c s -> index_byte c s = -1.
Proof. intros H. unfold index_byte. apply index_nat_none in H. rewrite H. reflexivity. Qed.
Lemma index_byte_none_inv c s : index_byte c s = -1 -> ~ In c s.
Proof.
  unfold index_byte. destruct (index_nat c s) eqn:E; [lia|]. intros _. apply index_nat_none. assumption.
Qed.
Lemma index_nat_app c a z : ~ In c a -> index_nat c (a ++ c :: z) = Some (List.length a).
Proof.
  induction a as [|x a IH]; cbn; intros H.
  - rewrite Z.eqb_refl. reflexivity.
  - destruct (Z.eqb_spec x c); [exfalso; apply H; left; assumption|].
    rewrite IH by tauto. reflexivity.
Qed.
Lemma index_byte_app c a z : ~ In c a -> index_byte c (a ++ c :: z) = blen a.
Proof. intros H. unfold index_byte. rewrite index_nat_app by assumption. reflexivity. Qed.
Lemma index_byte_at c s : index_byte c s <> -1 -> nth_error s (Z.to_nat (index_byte c s)) = Some c.
Proof.
  unfold index_byte. destruct (index_nat c s) eqn:E; [|lia]. intros _.
  apply index_nat_some in E. rewrite Nat2Z.id. tauto.
Qed.

(* ---- split ---- *)
Lemma split_on_nonempty c s : split_on c s <> [].
Proof. destruct s as [|x r]; cbn; [discriminate|]. destruct (x =? c); [discriminate|]. destruct (split_on c r); discriminate. Qed.
Lemma split_on_none c a : ~ In c a -> split_on c a = [a].
Proof.
  induction a as [|x a IH]; cbn; intros H; [reflexivity|].
  destruct (Z.eqb_spec x c); [exfalso; apply H; left; assumption|].
  rewrite IH by tauto. reflexivity.
Qed.
Lemma split_on_app c a z : ~ In c a -> split_on c (a ++ c :: z) = a :: split_on c z.
Proof.
  induction a as [|x a IH]; cbn; intros H.
  - rewrite Z.eqb_refl. reflexivity.
  - destruct (Z.eqb_spec x c); [exfalso; apply H; left; assumption|].
    rewrite IH by tauto. reflexivity.
Qed.

Lemma has_suffix_last c s : has_suffix_byte c s = true -> exists r, s = r ++ [c].
Proof.
  unfold has_suffix_byte. destruct (rev s) as [|x r] eqn:E; [discriminate|].
  intros H. apply Z.eqb_eq in H. subst. exists (rev r).
  rewrite <- (rev_involutive s), E. reflexivity.
Qed.
Lemma has_suffix_app c r : has_suffix_byte c (r ++ [c]) = true.
Proof. unfold has_suffix_byte. rewrite rev_app_distr. cbn. apply Z.eqb_refl. Qed.


(* ================================================================== *)
(* 1b. white space                                                      *)

(* ---- white space on ASCII strings ---- *)
Definition ascii (s : bstr) : Prop := forallb is_ascii s = true.
Definition spaces (s : bstr) : Prop := forallb is_space s = true.

Lemma ascii_app a c : ascii (a ++ c) <-> ascii a /\ ascii c.
Proof. unfold ascii. rewrite forallb_app, andb_true_iff. tauto. Qed.
Lemma ascii_cons x a : ascii (x :: a) <-> is_ascii x = true /\ ascii a.
Proof. unfold ascii. cbn [forallb]. rewrite andb_true_iff. tauto. Qed.
Lemma ascii_nil : ascii [].
Proof. reflexivity. Qed.
Lemma trim_space_ascii s : ascii s -> trim_space s = trim_ascii s.
Proof. unfold ascii, trim_space. intros ->. reflexivity. Qed.

Lemma forallb_rev {A} (f : A -> bool) l : forallb f (rev l) = forallb f l.
Proof.
  induction l as [|x l IH]; [reflexivity|]. cbn [rev forallb]. rewrite forallb_app, IH. cbn. rewrite andb_true_r. apply andb_comm.
Qed.
Lemma forallb_imp {A} (f g : A -> bool) l : (forall x, f x = true -> g x = true) -> forallb f l = true -> forallb g l = true.
Proof. intros H. rewrite !forallb_forall. intros H1 x Hx. apply H, H1, Hx. Qed.

Lemma is_space_ascii c : is_space c = true -> is_ascii c = true.
Proof.
  unfold is_space, is_ascii. rewrite !orb_true_iff, !Z.eqb_eq, Z.ltb_lt. lia.
Qed.
Lemma is_hspace_space c : is_hspace c = true -> is_space c = true.
Proof. unfold is_hspace. rewrite andb_true_iff. tauto. Qed.
Lemma hspaces_spaces s : forallb is_hspace s = true -> spaces s.
Proof. apply forallb_imp, is_hspace_space. Qed.
Lemma spaces_ascii s : spaces s -> ascii s.
Proof. apply forallb_imp, is_space_ascii. Qed.
Lemma clean_byte_props c : clean_byte c = true ->
  is_ascii c = true /\ is_space c = false /\ c <> 44 /\ c <> 35 /\ c <> 32 /\ c <> 10.
Proof.
  unfold clean_byte. rewrite !andb_true_iff, !negb_true_iff, !Z.eqb_neq. intros (((H1 & H2) & H3) & H4).
  repeat split; try assumption; intros ->; vm_compute in H2; discriminate.
Qed.
Lemma clean_ascii s : clean s = true -> ascii s.
Proof. apply forallb_imp. intros c H. apply clean_byte_props in H. tauto. Qed.
Lemma clean_app a c : clean (a ++ c) = true <-> clean a = true /\ clean c = true.
Proof. unfold clean. rewrite forallb_app, andb_true_iff. tauto. Qed.
Lemma clean_not_in s c : clean s = true -> clean_byte c = false -> ~ In c s.
Proof. unfold clean. rewrite forallb_forall. intros H Hc Hin. apply H in Hin. congruence. Qed.

Lemma drop_spaces_spaces ws x : spaces ws -> drop_spaces (ws ++ x) = drop_spaces x.
Proof.
  unfold spaces. induction ws as [|c ws IH]; cbn [forallb app drop_spaces]; [reflexivity|].
  intros H. apply andb_true_iff in H. destruct H as [-> H]. apply IH, H.
Qed.
Lemma drop_spaces_app_nonspace u c v : is_space c = false -> drop_spaces (u ++ c :: v) = drop_spaces u ++ c :: v.
Proof.
  intros Hc. induction u as [|x u IH]; cbn [app drop_spaces].
  - rewrite Hc. reflexivity.
  - destruct (is_space x); [apply IH | reflexivity].
Qed.

Definition rtrim (s : bstr) : bstr := rev (drop_spaces (rev s)).
(* begins / ends with a byte that is not white space *)
Definition nsb (y : bstr) : Prop := exists c t, y = c :: t /\ is_space c = false.
Definition nse (y : bstr) : Prop := exists a c, y = a ++ [c] /\ is_space c = false.

Lemma rtrim_app a c t : is_space c = false -> rtrim (a ++ c :: t) = a ++ c :: rtrim t.
Proof.
  intros Hc. unfold rtrim. rewrite rev_app_distr. cbn [rev]. rewrite <- app_assoc. cbn [app].
  rewrite drop_spaces_app_nonspace by assumption. rewrite rev_app_distr. cbn [rev].
  rewrite rev_involutive, <- app_assoc. reflexivity.
Qed.
Lemma rtrim_nil : rtrim [] = [].
Proof. reflexivity. Qed.
Lemma rtrim_nse y : nse y -> rtrim y = y.
Proof. intros (a & c & -> & Hc). rewrite rtrim_app by assumption. reflexivity. Qed.
Lemma rtrim_spaces ws : spaces ws -> rtrim ws = [].
Proof.
  intros H. unfold rtrim. replace (drop_spaces (rev ws)) with (drop_spaces (rev ws ++ [])) by (rewrite app_nil_r; reflexivity).
  rewrite drop_spaces_spaces; [reflexivity|]. unfold spaces. rewrite forallb_rev. assumption.
Qed.
Lemma nse_app a y : nse y -> nse (a ++ y).
Proof. intros (a' & c & -> & Hc). exists (a ++ a'), c. rewrite app_assoc. tauto. Qed.
Lemma nse_clean x : clean x = true -> x <> [] -> nse x.
Proof.
  intros Hc Hne. rewrite (app_removelast_last 0 Hne) in Hc |- *. apply clean_app in Hc. destruct Hc as [_ Hc].
  cbn in Hc. rewrite andb_true_r in Hc. apply clean_byte_props in Hc. exists (removelast x), (last x 0). tauto.
Qed.
Lemma nsb_clean x : clean x = true -> x <> [] -> nsb x.
Proof.
  destruct x as [|c t]; [congruence|]. intros Hc _. cbn in Hc. apply andb_true_iff in Hc. destruct Hc as [Hc _].
  apply clean_byte_props in Hc. exists c, t. tauto.
Qed.
Lemma nsb_app y z : nsb y -> nsb (y ++ z).
Proof. intros (c & t & -> & Hc). exists c, (t ++ z). tauto. Qed.

(* the trimmed form of an indented line *)
Lemma trim_pad lead x trail : spaces lead -> spaces trail -> nsb x -> ascii x ->
  trim_space (lead ++ x ++ trail) = rtrim x.
Proof.
  intros Hl Ht (c & t & -> & Hc) Hx.
  rewrite trim_space_ascii by (rewrite !ascii_app; auto using spaces_ascii).
  unfold trim_ascii. rewrite drop_spaces_spaces by assumption.
  cbn [app drop_spaces]. rewrite Hc. change (c :: t ++ trail) with ((c :: t) ++ trail).
  rewrite rev_app_distr, drop_spaces_spaces; [reflexivity|]. unfold spaces. rewrite forallb_rev. assumption.
Qed.
Lemma trim_spaces ws : spaces ws -> trim_space ws = [].
Proof.
  intros H. rewrite trim_space_ascii by (apply spaces_ascii; assumption). unfold trim_ascii.
  replace (drop_spaces ws) with (drop_spaces (ws ++ [])) by (rewrite app_nil_r; reflexivity).
  rewrite drop_spaces_spaces by assumption. reflexivity.
Qed.
Lemma trim_clean x : clean x = true -> trim_space x = x /\ trim_space (32 :: x) = x.
Proof.
  intros Hc. destruct x as [|c t]; [split; reflexivity|].
  assert (Hb : nsb (c :: t)) by (apply nsb_clean; [assumption | discriminate]).
  assert (He : nse (c :: t)) by (apply nse_clean; [assumption | discriminate]).
  assert (Ha : ascii (c :: t)) by (apply clean_ascii; assumption).
  split.
  - rewrite <- (rtrim_nse _ He) at 2. apply (trim_pad [] (c :: t) []) in Hb; try assumption; try reflexivity.
    rewrite app_nil_r in Hb. exact Hb.
  - rewrite <- (rtrim_nse _ He) at 2. apply (trim_pad [32] (c :: t) []) in Hb; try assumption; try reflexivity.
    rewrite app_nil_r in Hb. exact Hb.
Qed.


(* ---- what strings.TrimSpace returns, for every byte string ---- *)
(* no white-space rune at the head *)
Definition ltrimmed (s : bstr) : Prop := space_len s = O.

Lemma space_len_le s : (space_len s <= List.length s)%nat.
Proof.
  destruct s as [|c [|d [|e r]]]; cbn [space_len List.length];
    repeat match goal with |- context [if ?x then _ else _] => destruct x end; lia.
Qed.
Lemma space_len_rev_le s : (space_len_rev s <= List.length s)%nat.
Proof.
  destruct s as [|c [|d [|e r]]]; cbn [space_len_rev List.length];
    repeat match goal with |- context [if ?x then _ else _] => destruct x end; lia.
Qed.
Lemma space_len_app a x k : space_len a = S k -> space_len (a ++ x) = S k.
Proof.
  destruct a as [|c [|d [|e a']]]; cbn [app space_len]; try discriminate;
    repeat match goal with |- context [if ?y then _ else _] => destruct y end; try discriminate; auto.
Qed.
Lemma ltrimmed_prefix a x : ltrimmed (a ++ x) -> ltrimmed a.
Proof.
  unfold ltrimmed. intros H. destruct (space_len a) eqn:E; [reflexivity|].
  rewrite (space_len_app _ x _ E) in H. discriminate.
Qed.
Lemma space_len_ascii_head c r : is_ascii c = true -> is_space c = false -> space_len (c :: r) = O.
Proof.
  unfold is_ascii. intros Ha Hs. apply Z.ltb_lt in Ha. cbn [space_len]. rewrite Hs.
  assert (H2 : forall d, uspace2 c d = false).
  { intros d. unfold uspace2. replace (c =? 194) with false by (symmetry; apply Z.eqb_neq; lia). reflexivity. }
  assert (H3 : forall d e, uspace3 c d e = false).
  { intros d e. unfold uspace3.
    replace (c =? 225) with false by (symmetry; apply Z.eqb_neq; lia).
    replace (c =? 226) with false by (symmetry; apply Z.eqb_neq; lia).
    replace (c =? 227) with false by (symmetry; apply Z.eqb_neq; lia). reflexivity. }
  destruct r as [|d [|e r]]; rewrite ?H2, ?H3; reflexivity.
Qed.
Lemma ltrimmed_head c t : ltrimmed (c :: t) -> is_space c = false.
Proof. unfold ltrimmed. cbn [space_len]. destruct (is_space c); [discriminate | reflexivity]. Qed.

Lemma drop_runes_suffix f n : forall s, exists x, s = x ++ drop_runes f n s.
Proof.
  induction n as [|n IH]; intros s; cbn [drop_runes]; [exists []; reflexivity|].
  destruct (f s) as [|k]; [exists []; reflexivity|].
  destruct (IH (skipn (S k) s)) as [x Hx]. exists (firstn (S k) s ++ x).
  rewrite <- app_assoc, <- Hx, firstn_skipn. reflexivity.
Qed.
Lemma drop_runes_zero f n s : f s = O -> drop_runes f n s = s.
Proof. intros H. destruct n; cbn [drop_runes]; [reflexivity|]. rewrite H. reflexivity. Qed.
Lemma drop_runes_done f : (forall s, (f s <= List.length s)%nat) ->
  forall n s, (List.length s <= n)%nat -> f (drop_runes f n s) = O.
Proof.
  intros Hf. induction n as [|n IH]; intros s Hn; cbn [drop_runes].
  - destruct s; [|cbn in Hn; lia]. pose proof (Hf []). cbn in *. lia.
  - destruct (f s) as [|k] eqn:E; [assumption|]. apply IH.
    rewrite skipn_length. pose proof (Hf s). lia.
Qed.

(* the last rune of q (reversed string) *)
Lemma rev_rune q k : space_len_rev q = S k ->
  exists u rest, q = u ++ rest /\ List.length u = S k /\ space_len (rev u) <> O.
Proof.
  destruct q as [|e [|d [|c q']]]; cbn [space_len_rev]; try discriminate.
  - destruct (is_space e) eqn:E1; [|discriminate]. intros H. injection H as <-.
    exists [e], []. repeat split. cbn [rev app space_len]. rewrite E1. discriminate.
  - destruct (is_space e) eqn:E1.
    + intros H. injection H as <-. exists [e], [d]. repeat split. cbn [rev app space_len]. rewrite E1. discriminate.
    + destruct (uspace2 d e) eqn:E2; [|discriminate]. intros H. injection H as <-. exists [e; d], []. repeat split.
      cbn [rev app space_len]. rewrite E2. destruct (is_space d); discriminate.
  - destruct (is_space e) eqn:E1.
    + intros H. injection H as <-. exists [e], (d :: c :: q'). repeat split. cbn [rev app space_len]. rewrite E1. discriminate.
    + destruct (uspace2 d e) eqn:E2.
      * intros H. injection H as <-. exists [e; d], (c :: q'). repeat split.
        cbn [rev app space_len]. rewrite E2. destruct (is_space d); discriminate.
      * destruct (uspace3 c d e) eqn:E3; [|discriminate]. intros H. injection H as <-. exists [e; d; c], q'. repeat split.
        cbn [rev app space_len]. rewrite E3. destruct (is_space c); [discriminate|]. destruct (uspace2 c d); discriminate.
Qed.

Lemma drop_runes_rev_all n : forall q, q <> [] -> drop_runes space_len_rev n q = [] -> space_len (rev q) <> O.
Proof.
  induction n as [|n IH]; intros q Hq H; cbn [drop_runes] in H; [congruence|].
  destruct (space_len_rev q) as [|k] eqn:E; [congruence|].
  destruct (rev_rune q k E) as (u & rest & -> & Hu & Hnz).
  rewrite skipn_app, skipn_all2, Hu, Nat.sub_diag in H by lia. cbn [skipn app] in H.
  rewrite rev_app_distr. destruct rest as [|r0 rest].
  - cbn [rev app]. assumption.
  - specialize (IH (r0 :: rest) ltac:(discriminate) H).
    destruct (space_len (rev (r0 :: rest))) as [|j] eqn:Ej; [congruence|].
    rewrite (space_len_app _ (rev u) _ Ej). discriminate.
Qed.

Lemma drop_spaces_head s : drop_spaces s = [] \/ exists c t, drop_spaces s = c :: t /\ is_space c = false /\ In c s.
Proof.
  induction s as [|x s IH]; cbn [drop_spaces]; [left; reflexivity|].
  destruct (is_space x) eqn:E.
  - destruct IH as [->|(c & t & -> & H1 & H2)]; [left; reflexivity|]. right. exists c, t. repeat split; [assumption | right; assumption].
  - right. exists x, s. repeat split; [assumption | left; reflexivity].
Qed.

(* TrimSpace returns a string without leading white space ... *)
Lemma trim_space_ltrimmed raw : ltrimmed (trim_space raw).
Proof.
  unfold trim_space. destruct (forallb is_ascii raw) eqn:Ha.
  - unfold trim_ascii. fold (rtrim (drop_spaces raw)).
    destruct (drop_spaces_head raw) as [->|(c & t & -> & Hc & Hin)]; [reflexivity|].
    pose proof (rtrim_app [] c t Hc) as R. cbn [app] in R. rewrite R.
    apply space_len_ascii_head; [|assumption]. rewrite forallb_forall in Ha. apply Ha. assumption.
  - unfold trim_unicode.
    set (l := drop_runes space_len (List.length raw) raw).
    assert (Hl : ltrimmed l) by (apply drop_runes_done; [apply space_len_le | lia]).
    destruct (drop_runes_suffix space_len_rev (List.length l) (rev l)) as [x Hx].
    set (d := drop_runes space_len_rev (List.length l) (rev l)) in *.
    assert (E : l = rev d ++ rev x) by (rewrite <- rev_app_distr, <- Hx, rev_involutive; reflexivity).
    rewrite E in Hl. apply ltrimmed_prefix in Hl. assumption.
Qed.
(* ... and does not return the empty string when there is something that is not white space at the head *)
Lemma trim_space_nonempty p : p <> [] -> ltrimmed p -> trim_space p <> [].
Proof.
  intros Hne Hl. destruct p as [|c t]; [congruence|]. pose proof (ltrimmed_head _ _ Hl) as Hc.
  unfold trim_space. destruct (forallb is_ascii (c :: t)).
  - unfold trim_ascii. cbn [drop_spaces]. rewrite Hc. fold (rtrim (c :: t)).
    pose proof (rtrim_app [] c t Hc) as R. cbn [app] in R. rewrite R. discriminate.
  - unfold trim_unicode. rewrite (drop_runes_zero space_len _ _ Hl). cbv zeta.
    intros F. apply (f_equal (@rev Z)) in F. rewrite rev_involutive in F. change (rev []) with (@nil Z) in F.
    apply drop_runes_rev_all in F.
    + rewrite rev_involutive in F. contradiction.
    + intros E. apply (f_equal (@rev Z)) in E. rewrite rev_involutive in E. discriminate.
Qed.

(* ================================================================== *)
(* 2. totality                                                          *)

Lemma bind_not_panic {A B} (m : outcome A) (f : A -> outcome B) :
  m <> Panic -> (forall x, m = Ok x -> f x <> Panic) -> bind m f <> Panic.
Proof. destruct m; cbn; intros H1 H2; [apply H2; reflexivity | discriminate | congruence]. Qed.
Lemma opt_err_not_panic {A} (o : option A) : opt_err o <> Panic.
Proof. destruct o; discriminate. Qed.
Lemma slice_not_panic s lo hi : 0 <= lo <= hi -> hi <= blen s -> slice s lo hi <> Panic.
Proof. intros. rewrite slice_ok by assumption. discriminate. Qed.
Lemma at_not_panic {A} (s : list A) i : 0 <= i < blen s -> at_ s i <> Panic.
Proof. intros H. destruct (at_ok s i H) as (x & -> & _). discriminate. Qed.

Lemma parse_offset_reg_total s : parse_offset_reg s <> Panic.
Proof.
  unfold parse_offset_reg.
  destruct (Z.eqb_spec (index_byte 40 s) (-1)) as [|Hfp]; [discriminate|].
  destruct (has_suffix_byte 41 s) eqn:Hs; cbn [negb]; [|discriminate].
  pose proof (index_byte_range 40 s) as Hr.
  pose proof (index_byte_at 40 s Hfp) as Hat.
  destruct (has_suffix_last _ _ Hs) as [r ->].
  bl.
  assert (Hlt : index_byte 40 (r ++ [41]) < blen r).
  { destruct (Z.eq_dec (index_byte 40 (r ++ [41])) (blen r)) as [E|E]; [|lia].
    rewrite E in Hat. unfold blen in Hat. rewrite Nat2Z.id, nth_error_app2, Nat.sub_diag in Hat by lia.
    cbn in Hat. discriminate. }
  apply bind_not_panic; [apply slice_not_panic; bl; lia|]. intros x _.
  apply bind_not_panic; [apply opt_err_not_panic|]. intros imm _.
  apply bind_not_panic; [apply slice_not_panic; bl; lia|]. intros y _.
  apply bind_not_panic; [apply opt_err_not_panic|]. intros reg _. discriminate.
Qed.

Lemma parse_operand_total k e : parse_operand k e <> Panic.
Proof.
  unfold parse_operand. destruct k.
  - apply bind_not_panic; [apply opt_err_not_panic|]. discriminate.
  - apply bind_not_panic; [apply opt_err_not_panic|]. discriminate.
  - discriminate.
  - apply parse_offset_reg_total.
Qed.

Lemma parse_ops_total ks : forall i els, 0 <= i -> i + blen ks <= blen els -> parse_ops ks i els <> Panic.
Proof.
  induction ks as [|k ks IH]; intros i els Hi Hlen; cbn [parse_ops]; [discriminate|].
  rewrite blen_cons in Hlen. pose proof (blen_nonneg ks).
  apply bind_not_panic; [apply at_not_panic; lia|]. intros e _.
  apply bind_not_panic; [apply parse_operand_total|]. intros v _.
  apply bind_not_panic; [apply IH; lia|]. discriminate.
Qed.

Lemma dispatch_total mn els : dispatch mn els <> Panic.
Proof.
  unfold dispatch. destruct (find_mnem (to_lower mn)); [|discriminate].
  destruct (mnem_sig m); [|discriminate].
  destruct (Z.eqb_spec (blen els) (blen l)); [|discriminate].
  apply bind_not_panic; [apply parse_ops_total; lia|]. discriminate.
Qed.

Lemma strip_comment_total r : strip_comment r <> Panic.
Proof.
  unfold strip_comment. pose proof (index_byte_range 35 r).
  destruct (Z.eqb_spec (index_byte 35 r) (-1)); [discriminate|].
  apply bind_not_panic; [apply slice_not_panic; lia|]. discriminate.
Qed.


Lemma parse_tail_total line : line <> [] -> parse_tail line <> Panic.
Proof.
  intros Hne0. unfold parse_tail.
  assert (Hne : blen line <> 0) by (intros E; apply blen_zero in E; contradiction).
  pose proof (blen_nonneg line). pose proof (index_byte_range 32 line) as Hfw.
  apply bind_not_panic; [apply at_not_panic; lia|]. intros lastc _.
  destruct ((index_byte 32 line =? -1) && (lastc =? 58)).
  - apply bind_not_panic; [apply slice_not_panic; lia|]. discriminate.
  - apply bind_not_panic; [apply slice_not_panic; lia|]. intros rem0 _.
    apply bind_not_panic; [apply strip_comment_total|]. intros rem _.
    apply bind_not_panic; [|intros; apply dispatch_total].
    destruct (Z.eqb_spec (index_byte 32 line) (-1)); apply slice_not_panic; lia.
Qed.

(* what is left of a trimmed line that does not start with '#' after cutting the comment is
   not empty: line[len(line)-1] is in range *)
Lemma strip_comment_nonempty line c t x : line = c :: t -> c <> 35 -> ltrimmed line ->
  strip_comment line = Ok x -> x <> [].
Proof.
  intros -> Hc Hl. unfold strip_comment.
  destruct (Z.eqb_spec (index_byte 35 (c :: t)) (-1)) as [|Hi]; [intros H; injection H as <-; discriminate|].
  pose proof (index_byte_range 35 (c :: t)) as Hr. pose proof (index_byte_at 35 _ Hi) as Hat.
  set (k := index_byte 35 (c :: t)) in *.
  assert (Hk : 1 <= k).
  { destruct (Z.eq_dec k 0) as [E|E]; [|lia]. rewrite E in Hat. cbn in Hat. congruence. }
  rewrite slice_ok by lia. cbn [bind]. intros H. injection H as <-.
  rewrite Z.sub_0_r. cbn [Z.to_nat skipn].
  apply trim_space_nonempty.
  - destruct (Z.to_nat k) eqn:E; [lia|]. discriminate.
  - apply (ltrimmed_prefix _ (skipn (Z.to_nat k) (c :: t))). rewrite firstn_skipn. assumption.
Qed.

Lemma parse_body_total line : ltrimmed line -> parse_body line <> Panic.
Proof.
  intros Hl. unfold parse_body. destruct (Z.eqb_spec (blen line) 0) as [|Hne]; [discriminate|].
  destruct line as [|c t]; [exfalso; apply Hne; reflexivity|].
  rewrite at_head. cbn [bind]. destruct (Z.eqb_spec c 35) as [|Hc]; [discriminate|].
  apply bind_not_panic; [apply strip_comment_total|]. intros x Hx.
  apply parse_tail_total. eapply strip_comment_nonempty; try eassumption. reflexivity.
Qed.

Lemma parse_line_total raw : parse_line raw <> Panic.
Proof. apply parse_body_total, trim_space_ltrimmed. Qed.

Lemma parse_lines_total ls : forall ins labs pc, parse_lines ls ins labs pc <> Panic.
Proof.
  induction ls as [|l r IH]; intros; cbn [parse_lines]; [discriminate|].
  apply bind_not_panic; [apply parse_line_total|]. intros x _. destruct x; apply IH.
Qed.

(* Every Go index and slice expression of Parse and parseOffsetReg stays in range, for every
   byte string, ASCII or not.  (line[len(line)-1] after the comment has been cut needs what
   TrimSpace guarantees: see strip_comment_nonempty.) *)
Theorem parse_total : forall s, parse s <> Panic.
Proof. intros. apply parse_lines_total. Qed.

(* ================================================================== *)
(* 3. instruction count and label addresses                            *)

(* Independent classification of a source line (no checked operations, no dispatch):
   blank or comment / label definition / anything else = instruction line. *)
Inductive lclass := CSkip | CLabel (n : bstr) | CInstr.
(* the text in front of the first '#' *)
Fixpoint before_hash (s : bstr) : bstr :=
  match s with
  | [] => []
  | c :: r => if c =? 35 then [] else c :: before_hash r
  end.
(* a trailing comment is cut and the rest trimmed again *)
Definition cut_comment (l : bstr) : bstr :=
  if existsb (Z.eqb 35) l then trim_space (before_hash l) else l.
Definition tail_class (l : bstr) : lclass :=
  if negb (existsb (Z.eqb 32) l) && (last l 0 =? 58) then CLabel (removelast l) else CInstr.
Definition body_class (l : bstr) : lclass :=
  match l with
  | [] => CSkip
  | c :: _ => if c =? 35 then CSkip else tail_class (cut_comment l)
  end.
Definition line_class (raw : bstr) : lclass := body_class (trim_space raw).

Definition is_instr_line (raw : bstr) : bool :=
  match line_class raw with CInstr => true | _ => false end.
Definition count_instr (ls : list bstr) : Z := blen (filter is_instr_line ls).

(* number of instruction lines before the LAST line that defines label n *)
Fixpoint last_def_lines (n : bstr) (ls : list bstr) : option Z :=
  match ls with
  | [] => None
  | l :: r =>
    match last_def_lines n r with
    | Some k => Some (k + if is_instr_line l then 1 else 0)
    | None => match line_class l with
              | CLabel n' => if bstr_eqb n' n then Some 0 else None
              | _ => None
              end
    end
  end.

Definition res_class (r : line_res) : lclass :=
  match r with LSkip => CSkip | LLabel n => CLabel n | LInstr _ => CInstr end.

Lemma index_byte_eqb c s : (index_byte c s =? -1) = negb (existsb (Z.eqb c) s).
Proof.
  destruct (existsb (Z.eqb c) s) eqn:E; cbn [negb].
  - apply existsb_exists in E. destruct E as (x & Hin & Hx). apply Z.eqb_eq in Hx. subst x.
    apply Z.eqb_neq. intros F. apply index_byte_none_inv in F. contradiction.
  - apply Z.eqb_eq. apply index_byte_none. intros Hin.
    assert (existsb (Z.eqb c) s = true); [|congruence].
    apply existsb_exists. exists c. split; [assumption | apply Z.eqb_refl].
Qed.

Lemma at_last (l : bstr) d : l <> [] -> at_ l (blen l - 1) = Ok (last l d).
Proof.
  intros H. rewrite (app_removelast_last d H) at 1 2. bl.
  replace (blen (removelast l) + (1 + 0) - 1) with (blen (removelast l)) by lia. apply at_app.
Qed.
Lemma slice_removelast (l : bstr) : l <> [] -> slice l 0 (blen l - 1) = Ok (removelast l).
Proof.
  intros H. rewrite (app_removelast_last 0 H) at 1 2. bl.
  replace (blen (removelast l) + (1 + 0) - 1) with (blen (removelast l)) by lia. apply slice_prefix.
Qed.

Lemma dispatch_instr mn els r : dispatch mn els = Ok r -> exists i, r = LInstr i.
Proof.
  unfold dispatch. destruct (find_mnem (to_lower mn)); [|discriminate].
  destruct (mnem_sig m).
  - destruct (blen els =? blen l); [|discriminate]. intros H. apply bind_ok in H. destruct H as (vs & _ & H).
    injection H as <-. eauto.
  - intros H. injection H as <-. eauto.
Qed.

Lemma before_hash_split l : In 35 l -> exists t, l = before_hash l ++ 35 :: t /\ ~ In 35 (before_hash l).
Proof.
  induction l as [|c r IH]; cbn [before_hash]; [contradiction|].
  destruct (Z.eqb_spec c 35) as [->|Hc].
  - intros _. exists r. split; [reflexivity | intros F; exact F].
  - intros [F|Hin]; [congruence|]. destruct (IH Hin) as (t & E & Hn). exists t. split.
    + cbn [app]. f_equal. assumption.
    + intros [F|F]; [congruence | contradiction].
Qed.

Lemma strip_comment_cut l : strip_comment l = Ok (cut_comment l).
Proof.
  unfold strip_comment, cut_comment. rewrite index_byte_eqb.
  destruct (existsb (Z.eqb 35) l) eqn:E; cbn [negb]; [|reflexivity].
  apply existsb_exists in E. destruct E as (x & Hin & Hx). apply Z.eqb_eq in Hx. subst x.
  destruct (before_hash_split l Hin) as (t & El & Hn).
  rewrite El at 1 2. rewrite index_byte_app by assumption. rewrite slice_prefix. reflexivity.
Qed.

Lemma parse_tail_class l r : parse_tail l = Ok r -> res_class r = tail_class l.
Proof.
  unfold parse_tail, tail_class. destruct l as [|c t]; [cbn; discriminate|].
  set (l := c :: t). assert (Hne : l <> []) by discriminate.
  rewrite (at_last l 0 Hne). cbn [bind]. rewrite index_byte_eqb.
  destruct (negb (existsb (Z.eqb 32) l) && (last l 0 =? 58)).
  - rewrite (slice_removelast l Hne). cbn [bind]. intros H; injection H as <-; reflexivity.
  - intros H. apply bind_ok in H. destruct H as (rem0 & _ & H).
    apply bind_ok in H. destruct H as (rem & _ & H).
    apply bind_ok in H. destruct H as (mn & _ & H).
    apply dispatch_instr in H. destruct H as [i ->]. reflexivity.
Qed.

Lemma parse_body_class line r : parse_body line = Ok r -> res_class r = body_class line.
Proof.
  unfold parse_body, body_class. destruct line as [|c t]; [intros H; injection H as <-; reflexivity|].
  replace (blen (c :: t) =? 0) with false by (symmetry; apply Z.eqb_neq; bl; pose proof (blen_nonneg t); lia).
  rewrite at_head. cbn [bind].
  destruct (c =? 35); [intros H; injection H as <-; reflexivity|].
  rewrite strip_comment_cut. cbn [bind]. apply parse_tail_class.
Qed.

Lemma parse_line_class raw r : parse_line raw = Ok r -> res_class r = line_class raw.
Proof. apply parse_body_class. Qed.

Lemma set_label_lookup n pc labs m :
  lookup_label (set_label n pc labs) m = if bstr_eqb n m then Some pc else lookup_label labs m.
Proof.
  induction labs as [|[k v] r IH]; cbn [set_label lookup_label].
  - reflexivity.
  - destruct (bstr_eqb k n) eqn:E.
    + apply bstr_eqb_eq in E. subst k. cbn [lookup_label]. destruct (bstr_eqb n m); reflexivity.
    + cbn [lookup_label]. rewrite IH. destruct (bstr_eqb k m) eqn:E2; [|reflexivity].
      apply bstr_eqb_eq in E2. subst k. destruct (bstr_eqb n m) eqn:E3; [|reflexivity].
      apply bstr_eqb_eq in E3. subst n. rewrite bstr_eqb_refl in E. discriminate.
Qed.

Lemma wrap_step pc k : wrapS 32 (addS 32 pc 4 + 4 * k) = wrapS 32 (pc + 4 * (k + 1)).
Proof.
  unfold addS. apply wrapS_eq_mod; [lia|].
  rewrite Zplus_mod, wrapS_mod, <- Zplus_mod by lia. f_equal. lia.
Qed.

Lemma parse_lines_spec ls : forall ins labs pc is' labs',
  int32 pc ->
  parse_lines ls ins labs pc = Ok (is', labs') ->
  blen is' = blen ins + count_instr ls /\
  forall n, lookup_label labs' n =
            match last_def_lines n ls with
            | Some k => Some (wrapS 32 (pc + 4 * k))
            | None => lookup_label labs n
            end.
Proof.
  induction ls as [|l r IH]; intros ins labs pc is' labs' Hpc H; cbn [parse_lines] in H.
  - injection H as <- <-. unfold count_instr. cbn. split; [lia | reflexivity].
  - apply bind_ok in H. destruct H as (x & Hx & H). apply parse_line_class in Hx.
    assert (Hi : is_instr_line l = match res_class x with CInstr => true | _ => false end)
      by (unfold is_instr_line; rewrite Hx; reflexivity).
    unfold count_instr. cbn [filter last_def_lines]. rewrite Hi, <- Hx. clear Hi Hx.
    destruct x as [|m|i]; cbn [res_class].
    + destruct (IH _ _ _ _ _ Hpc H) as [H1 H2]. split; [exact H1|].
      intros n. rewrite H2. destruct (last_def_lines n r); [f_equal; f_equal; lia | reflexivity].
    + destruct (IH _ _ _ _ _ Hpc H) as [H1 H2]. split; [exact H1|].
      intros n. rewrite H2. destruct (last_def_lines n r); [f_equal; f_equal; lia|].
      rewrite set_label_lookup. destruct (bstr_eqb m n); [|reflexivity].
      f_equal. rewrite Z.add_0_r. symmetry. apply wrapS_id; [lia | assumption].
    + assert (Hpc' : int32 (addS 32 pc 4)) by (apply wrapS_range; lia).
      destruct (IH _ _ _ _ _ Hpc' H) as [H1 H2]. split.
      * rewrite H1. unfold count_instr. bl. lia.
      * intros n. rewrite H2. destruct (last_def_lines n r); [|reflexivity].
        f_equal. apply wrap_step.
Qed.

Definition lines (s : bstr) : list bstr := split_on 10 s.

(* For accepted text the number of instructions equals the number of instruction lines. *)
Theorem instr_count : forall s is labs,
  parse s = Ok (is, labs) -> blen is = count_instr (lines s).
Proof.
  intros s is labs H. apply parse_lines_spec in H; [|vm_compute; split; congruence].
  destruct H as [H _]. rewrite H. reflexivity.
Qed.

(* Each label maps to four times the number of instruction lines before its last
   definition (int32 arithmetic, as the Go pc); undefined names are absent. *)
Theorem label_address : forall s is labs,
  parse s = Ok (is, labs) ->
  forall n, lookup_label labs n = option_map (fun k => wrapS 32 (4 * k)) (last_def_lines n (lines s)).
Proof.
  intros s is labs H n. apply parse_lines_spec in H; [|vm_compute; split; congruence].
  destruct H as [_ H]. rewrite H. unfold lines. destruct (last_def_lines n (split_on 10 s)); reflexivity.
Qed.

(* what last_def_lines computes, declaratively *)
Lemma last_def_lines_spec n ls k :
  last_def_lines n ls = Some k <->
  exists pre l post, ls = pre ++ l :: post /\ line_class l = CLabel n /\
                     (forall l', In l' post -> line_class l' <> CLabel n) /\ k = count_instr pre.
Proof.
  revert k. induction ls as [|l r IH]; intros k; cbn [last_def_lines].
  - split; [discriminate|]. intros (pre & l & post & H & _). destruct pre; discriminate.
  - destruct (last_def_lines n r) as [k'|] eqn:E.
    + split.
      * intros H. injection H as <-. destruct (proj1 (IH k') eq_refl) as (pre & l0 & post & -> & H1 & H2 & ->).
        exists (l :: pre), l0, post. repeat split; try assumption.
        unfold count_instr. cbn [filter]. destruct (is_instr_line l); bl; lia.
      * intros (pre & l0 & post & H0 & H1 & H2 & ->). destruct pre as [|p pre]; cbn in H0; injection H0 as <- ->.
        -- exfalso. destruct (proj1 (IH k') eq_refl) as (pre' & l' & post' & -> & H3 & _).
           apply (H2 l'); [apply in_or_app; right; left; reflexivity | assumption].
        -- f_equal. assert (Some k' = Some (count_instr pre)) as E2.
           { apply IH. exists pre, l0, post. repeat split; assumption. }
           injection E2 as ->. unfold count_instr. cbn [filter]. destruct (is_instr_line l); bl; lia.
    + split.
      * destruct (line_class l) as [|n'|] eqn:Ec; try discriminate.
        destruct (bstr_eqb n' n) eqn:En; [|discriminate]. apply bstr_eqb_eq in En. subst n'.
        intros H. injection H as <-. exists [], l, r. repeat split; try assumption.
        intros l' Hin Hc.
        assert (exists pre post, r = pre ++ l' :: post) as (pre & post & ->) by (apply in_split; assumption).
        clear IH Hin. revert E. induction pre as [|p pre IHp]; cbn [app last_def_lines].
        -- destruct (last_def_lines n post); [discriminate|]. rewrite Hc, bstr_eqb_refl. discriminate.
        -- destruct (last_def_lines n (pre ++ l' :: post)); [discriminate|]. intros _. apply IHp. reflexivity.
      * intros (pre & l0 & post & H0 & H1 & H2 & ->). destruct pre as [|p pre]; cbn in H0; injection H0 as <- ->.
        -- rewrite H1, bstr_eqb_refl. reflexivity.
        -- exfalso. assert (None = Some (count_instr pre)); [|discriminate].
           apply IH. exists pre, l0, post. repeat split; assumption.
Qed.

Lemma count_instr_le ls : count_instr ls <= blen (List.concat ls).
Proof.
  unfold count_instr. induction ls as [|l r IH]; cbn [filter List.concat]; [bl; lia|].
  bl. destruct (is_instr_line l) eqn:E; [|pose proof (blen_nonneg l); lia].
  bl. assert (1 <= blen l); [|lia].
  destruct l; [|bl; pose proof (blen_nonneg l); lia]. vm_compute in E. discriminate.
Qed.
Lemma concat_split_le c s : blen (List.concat (split_on c s)) <= blen s.
Proof.
  induction s as [|x r IH]; cbn [split_on]; [cbn; lia|].
  destruct (x =? c); [cbn [List.concat app]; bl; lia|].
  destruct (split_on c r) as [|p q]; cbn [List.concat] in *; bl; lia.
Qed.

(* no wrap-around for any text shorter than 2^29 bytes: the address is exactly 4 * k *)
Theorem label_address_exact : forall s is labs,
  parse s = Ok (is, labs) -> blen s < 536870912 ->
  forall n, lookup_label labs n = option_map (fun k => 4 * k) (last_def_lines n (lines s)).
Proof.
  intros s is labs H Hlen n. rewrite (label_address _ _ _ H).
  destruct (last_def_lines n (lines s)) as [k|] eqn:E; [|reflexivity]. cbn [option_map]. f_equal.
  apply last_def_lines_spec in E. destruct E as (pre & l & post & E & _ & _ & ->).
  apply wrapS_id; [lia|]. apply int32_bounds.
  pose proof (count_instr_le pre). pose proof (concat_split_le 10 s) as Hc. fold (lines s) in Hc. rewrite E in Hc.
  rewrite List.concat_app in Hc. bl. pose proof (blen_nonneg (List.concat (l :: post))).
  assert (0 <= count_instr pre) by (unfold count_instr; apply blen_nonneg). lia.
Qed.

(* ================================================================== *)
(* 4. the register table                                                *)

Lemma reg_names_string_eq : reg_names = map b reg_names_string.
Proof. reflexivity. Qed.

Lemma lookup_reg_inv names : forall i s r, lookup_reg s names i = Some r ->
  exists k, (k < List.length names)%nat /\ r = i + Z.of_nat k /\ (s = nth k names [] \/ s = 36 :: nth k names []).
Proof.
  induction names as [|n names IH]; intros i s r H; cbn [lookup_reg] in H; [discriminate|].
  destruct (bstr_eqb s n || bstr_eqb s (36 :: n)) eqn:E.
  - injection H as <-. exists O. cbn. split; [lia|]. split; [lia|].
    apply orb_true_iff in E. destruct E as [E|E]; apply bstr_eqb_eq in E; tauto.
  - destruct (IH _ _ _ H) as (k & H1 & H2 & H3). exists (S k). cbn [List.length nth]. split; [lia|]. split; [lia | assumption].
Qed.

(* every accepted name is the canonical name of the register, or '$' followed by it *)
Lemma parse_register_inv s r : parse_register s = Some r ->
  0 <= r < 32 /\ (s = reg_name r \/ s = 36 :: reg_name r).
Proof.
  intros H. apply lookup_reg_inv in H. destruct H as (k & H1 & H2 & H3).
  change (List.length reg_names) with 32%nat in H1. subst r. split; [lia|].
  unfold reg_name. rewrite Z.add_0_l, Nat2Z.id. assumption.
Qed.

Definition clean_no40 (s : bstr) : bool := clean s && negb (existsb (Z.eqb 40) s).

Lemma reg_name_props r : 0 <= r < 32 ->
  parse_register (reg_name r) = Some r /\ parse_register (36 :: reg_name r) = Some r /\
  clean_no40 (reg_name r) = true /\ reg_name r <> [].
Proof.
  intros H. rewrite <- (Z2Nat.id r) by lia. assert (Hk : (Z.to_nat r < 32)%nat) by lia.
  generalize dependent (Z.to_nat r). clear. intros k Hk.
  do 32 (destruct k as [|k]; [vm_compute; repeat split; discriminate|]). lia.
Qed.

Lemma reg_name_injective r1 r2 : 0 <= r1 < 32 -> 0 <= r2 < 32 -> reg_name r1 = reg_name r2 -> r1 = r2.
Proof.
  intros H1 H2 E. destruct (reg_name_props _ H1) as (P1 & _). destruct (reg_name_props _ H2) as (P2 & _).
  rewrite E in P1. congruence.
Qed.

(* Distinct register names decode to distinct numbers: two accepted names with the same
   number are the same name up to the optional '$' prefix; and both forms of every one of
   the 32 names are accepted with the number of its position in RegisterType. *)
Theorem register_table_injective : forall a c r,
  parse_register a = Some r -> parse_register c = Some r ->
  a = c \/ a = 36 :: c \/ c = 36 :: a.
Proof.
  intros a c r Ha Hc. apply parse_register_inv in Ha. apply parse_register_inv in Hc.
  destruct Ha as [_ [-> | ->]], Hc as [_ [-> | ->]]; tauto.
Qed.

Theorem register_table_complete : forall r, 0 <= r < 32 ->
  parse_register (reg_name r) = Some r /\ parse_register (36 :: reg_name r) = Some r.
Proof. intros r H. destruct (reg_name_props r H) as (H1 & H2 & _). split; assumption. Qed.

Theorem register_numbers_distinct : forall a c ra rc,
  parse_register a = Some ra -> parse_register c = Some rc ->
  a <> c -> a <> 36 :: c -> c <> 36 :: a -> ra <> rc.
Proof.
  intros a c ra rc Ha Hc N1 N2 N3 E. subst rc.
  destruct (register_table_injective _ _ _ Ha Hc) as [?|[?|?]]; contradiction.
Qed.

(* ================================================================== *)
(* 5. printing and parsing back                                        *)

(* ---- decimal numbers ---- *)
Definition digit_or_minus (c : Z) : bool := is_digit c || (c =? 45).

Lemma digits_val_app a x y : digits_val a (x ++ y) = match digits_val a x with Some v => digits_val v y | None => None end.
Proof.
  revert a. induction x as [|c x IH]; intros a; cbn [app digits_val]; [reflexivity|].
  destruct (is_digit c); [apply IH | reflexivity].
Qed.

Lemma digit_of_mod n : is_digit (48 + n mod 10) = true.
Proof. unfold is_digit. apply andb_true_iff. rewrite !Z.leb_le. pose proof (Z.mod_pos_bound n 10). lia. Qed.

Lemma digits_single n acc : 0 <= n < 10 ->
  exists ds, (48 + n mod 10) :: acc = ds ++ acc /\ ds <> [] /\ forallb is_digit ds = true /\
             forall a, digits_val a ds = Some (a * 10 ^ blen ds + n).
Proof.
  intros Hn. exists [48 + n mod 10]. pose proof (digit_of_mod n) as Hd. repeat split; try discriminate.
  - cbn [forallb]. rewrite Hd. reflexivity.
  - intros a. cbn [digits_val]. rewrite Hd. f_equal. rewrite Z.mod_small by lia. change (blen [48 + n]) with 1. lia.
Qed.

Lemma digits_fuel_spec f : forall n acc, 0 <= n < 2 ^ Z.of_nat (S f) ->
  exists ds, digits_fuel (S f) n acc = ds ++ acc /\ ds <> [] /\ forallb is_digit ds = true /\
             forall a, digits_val a ds = Some (a * 10 ^ blen ds + n).
Proof.
  induction f as [|f IH]; intros n acc Hn.
  - cbn [digits_fuel]. change (2 ^ Z.of_nat 1) with 2 in Hn.
    replace (n <? 10) with true by (symmetry; apply Z.ltb_lt; lia). apply digits_single. lia.
  - change (digits_fuel (S (S f)) n acc) with
      (if n <? 10 then (48 + n mod 10) :: acc else digits_fuel (S f) (n / 10) ((48 + n mod 10) :: acc)).
    destruct (Z.ltb_spec n 10); [apply digits_single; lia|].
    assert (Hn' : 0 <= n / 10 < 2 ^ Z.of_nat (S f)).
    { split; [apply Z.div_pos; lia|]. rewrite (Nat2Z.inj_succ (S f)), Z.pow_succ_r in Hn by lia.
      apply Z.div_lt_upper_bound; lia. }
    destruct (IH (n / 10) ((48 + n mod 10) :: acc) Hn') as (ds & E & Hne & Hdig & Hval).
    pose proof (digit_of_mod n) as Hd.
    exists (ds ++ [48 + n mod 10]). rewrite E, <- app_assoc. repeat split.
    + destruct ds; discriminate.
    + rewrite forallb_app, Hdig. cbn [forallb]. rewrite Hd. reflexivity.
    + intros a. rewrite digits_val_app, Hval. cbn [digits_val]. rewrite Hd. f_equal. bl.
      rewrite Z.pow_add_r by (pose proof (blen_nonneg ds); lia). change (10 ^ (1 + 0)) with 10.
      pose proof (Z.div_mod n 10). lia.
Qed.

Lemma print_nat_spec n : 0 <= n ->
  print_nat n <> [] /\ forallb is_digit (print_nat n) = true /\ parse_uint (print_nat n) = Some n.
Proof.
  intros Hn. unfold print_nat.
  assert (Hb : 0 <= n < 2 ^ Z.of_nat (S (Z.to_nat (Z.log2 n)))).
  { split; [assumption|]. rewrite Nat2Z.inj_succ, Z2Nat.id by apply Z.log2_nonneg.
    destruct (Z.eq_dec n 0) as [->|]; [reflexivity|]. apply Z.log2_spec. lia. }
  destruct (digits_fuel_spec _ n [] Hb) as (ds & E & Hne & Hd & Hv). rewrite E, app_nil_r.
  repeat split; try assumption. unfold parse_uint. destruct ds; [congruence|]. rewrite Hv. f_equal; lia.
Qed.

Lemma is_digit_props c : is_digit c = true -> clean_byte c = true /\ c <> 43 /\ c <> 45 /\ c <> 40.
Proof.
  unfold is_digit. rewrite andb_true_iff, !Z.leb_le. intros H.
  assert (In c [48;49;50;51;52;53;54;55;56;57]) as Hin by (cbn; lia).
  repeat split; try lia. cbn in Hin. repeat (destruct Hin as [<-|Hin]; [reflexivity|]). contradiction.
Qed.

Lemma print_int_spec z : -2147483648 <= z <= 2147483647 ->
  parse_int32 (print_int z) = Some z /\ clean_no40 (print_int z) = true /\ print_int z <> [].
Proof.
  intros Hz. unfold print_int. destruct (Z.ltb_spec z 0).
  - destruct (print_nat_spec (- z)) as (Hne & Hd & Hv); [lia|]. repeat split; [| |discriminate].
    + cbn [parse_int32]. change (45 =? 43) with false. change (45 =? 45) with true. cbv iota beta. rewrite Hv.
      replace (- - z) with z by lia.
      replace ((-2147483648 <=? z) && (z <=? 2147483647)) with true; [reflexivity|].
      symmetry. apply andb_true_iff. rewrite !Z.leb_le. lia.
    + unfold clean_no40, clean. cbn [forallb existsb]. change (clean_byte 45) with true. change (40 =? 45) with false. cbn [andb orb].
      apply andb_true_iff. split.
      * eapply forallb_imp; [|exact Hd]. intros c Hc. apply is_digit_props in Hc. tauto.
      * apply negb_true_iff. destruct (existsb (Z.eqb 40) (print_nat (- z))) eqn:E; [|reflexivity].
        apply existsb_exists in E. destruct E as (x & Hin & Hx). apply Z.eqb_eq in Hx. subst x.
        rewrite forallb_forall in Hd. apply Hd, is_digit_props in Hin. lia.
  - destruct (print_nat_spec z) as (Hne & Hd & Hv); [lia|]. repeat split; [| |assumption].
    + destruct (print_nat z) as [|c r] eqn:E; [congruence|]. cbn [parse_int32].
      assert (Hc : is_digit c = true) by (cbn in Hd; apply andb_true_iff in Hd; tauto).
      apply is_digit_props in Hc. destruct Hc as (_ & H43 & H45 & _).
      replace (c =? 43) with false by (symmetry; apply Z.eqb_neq; assumption).
      replace (c =? 45) with false by (symmetry; apply Z.eqb_neq; assumption).
      cbv iota beta. rewrite Hv.
      replace ((-2147483648 <=? z) && (z <=? 2147483647)) with true; [reflexivity|].
      symmetry. apply andb_true_iff. rewrite !Z.leb_le. lia.
    + unfold clean_no40, clean. apply andb_true_iff. split.
      * eapply forallb_imp; [|exact Hd]. intros c Hc. apply is_digit_props in Hc. tauto.
      * apply negb_true_iff. destruct (existsb (Z.eqb 40) (print_nat z)) eqn:E; [|reflexivity].
        apply existsb_exists in E. destruct E as (x & Hin & Hx). apply Z.eqb_eq in Hx. subst x.
        rewrite forallb_forall in Hd. apply Hd, is_digit_props in Hin. lia.
Qed.

Lemma clean_no40_props s : clean_no40 s = true -> clean s = true /\ ~ In 40 s.
Proof.
  unfold clean_no40. rewrite andb_true_iff, negb_true_iff. intros [H1 H2]. split; [assumption|].
  intros Hin. assert (existsb (Z.eqb 40) s = true); [|congruence]. apply existsb_exists. exists 40. split; [assumption | reflexivity].
Qed.

(* ---- operands ---- *)
Lemma print_oval_clean k v : wf_oval k v -> clean (print_oval v) = true /\ print_oval v <> [].
Proof.
  destruct k, v; cbn [wf_oval print_oval]; try contradiction.
  - intros H. destruct (reg_name_props r H) as (_ & _ & Hc & Hne). apply clean_no40_props in Hc. tauto.
  - intros H. destruct (print_int_spec i H) as (_ & Hc & Hne). apply clean_no40_props in Hc. tauto.
  - intros [H1 H2]. tauto.
  - intros [H1 H2]. destruct (reg_name_props r H2) as (_ & _ & Hc & _). apply clean_no40_props in Hc.
    destruct (print_int_spec off H1) as (_ & Hc2 & _). apply clean_no40_props in Hc2.
    split; [|destruct (print_int off); discriminate].
    apply clean_app. split; [tauto|]. change (40 :: reg_name r ++ [41]) with ([40] ++ reg_name r ++ [41]).
    rewrite !clean_app. repeat split; try tauto; reflexivity.
Qed.

Lemma parse_offset_reg_print off r : -2147483648 <= off <= 2147483647 -> 0 <= r < 32 ->
  parse_offset_reg (print_int off ++ 40 :: reg_name r ++ [41]) = Ok (VMem off r).
Proof.
  intros H1 H2. destruct (print_int_spec off H1) as (Hp & Hc & _). apply clean_no40_props in Hc. destruct Hc as [Hc Hn].
  destruct (reg_name_props r H2) as (Hr & _ & Hrc & _). apply clean_no40_props in Hrc. destruct Hrc as [Hrc _].
  unfold parse_offset_reg. rewrite index_byte_app by assumption.
  pose proof (blen_nonneg (print_int off)).
  replace (blen (print_int off) =? -1) with false by (symmetry; apply Z.eqb_neq; lia).
  replace (print_int off ++ 40 :: reg_name r ++ [41]) with ((print_int off ++ 40 :: reg_name r) ++ [41])
    by (rewrite <- app_assoc; reflexivity).
  rewrite has_suffix_app. cbn [negb].
  rewrite <- app_assoc. cbn [app]. rewrite slice_prefix. cbn [bind].
  rewrite (proj1 (trim_clean _ Hc)), Hp. cbn [opt_err bind].
  rewrite (slice_app3 _ (print_int off ++ [40]) (reg_name r) [41]); [| rewrite <- app_assoc; reflexivity | bl; lia | bl; lia].
  cbn [bind]. rewrite (proj1 (trim_clean _ Hrc)), Hr. reflexivity.
Qed.

(* an operand, possibly after the blank that follows a comma *)
Lemma parse_operand_print k v : wf_oval k v ->
  parse_operand k (print_oval v) = Ok v /\ parse_operand k (32 :: print_oval v) = Ok v.
Proof.
  intros H. destruct (print_oval_clean k v H) as [Hc _]. destruct (trim_clean _ Hc) as [T1 T2].
  unfold parse_operand. rewrite T1, T2. clear T1 T2 Hc.
  destruct k, v; cbn [wf_oval print_oval] in *; try contradiction.
  - destruct (reg_name_props r H) as (-> & _). split; reflexivity.
  - destruct (print_int_spec i H) as (-> & _). split; reflexivity.
  - split; reflexivity.
  - destruct H as [H1 H2]. rewrite parse_offset_reg_print by assumption. split; reflexivity.
Qed.

(* ---- operand lists ---- *)
Definition tail_text (r : list oval) : bstr := List.concat (map (fun w => 44 :: 32 :: print_oval w) r).

Lemma print_args_cons v r : print_args (v :: r) = print_oval v ++ tail_text r.
Proof. reflexivity. Qed.

Lemma split_tail x r : ~ In 44 x -> Forall (fun w => ~ In 44 (print_oval w)) r ->
  split_on 44 (x ++ tail_text r) = x :: map (fun w => 32 :: print_oval w) r.
Proof.
  revert x. induction r as [|w r IH]; intros x Hx Hr; unfold tail_text; cbn [map List.concat].
  - rewrite app_nil_r. apply split_on_none. assumption.
  - inversion Hr; subst. cbn [app]. rewrite split_on_app by assumption. f_equal.
    change (32 :: print_oval w ++ List.concat (map (fun w0 => 44 :: 32 :: print_oval w0) r))
      with ((32 :: print_oval w) ++ tail_text r).
    apply IH; [|assumption]. intros [F|F]; [discriminate | contradiction].
Qed.

Inductive ops_match : list okind -> list bstr -> list oval -> Prop :=
| om_nil : ops_match [] [] []
| om_cons k ks e es v vs : parse_operand k e = Ok v -> ops_match ks es vs -> ops_match (k :: ks) (e :: es) (v :: vs).

Lemma parse_ops_match ks : forall es vs pre, ops_match ks es vs -> parse_ops ks (blen pre) (pre ++ es) = Ok vs.
Proof.
  induction ks as [|k ks IH]; intros es vs pre H; inversion H as [|k' ks' e es' v vs' He Hm]; subst; cbn [parse_ops]; [reflexivity|].
  rewrite at_app. cbn [bind]. rewrite He. cbn [bind].
  replace (blen pre + 1) with (blen (pre ++ [e])) by (bl; lia).
  replace (pre ++ e :: es') with ((pre ++ [e]) ++ es') by (rewrite <- app_assoc; reflexivity).
  rewrite (IH es' vs' (pre ++ [e]) Hm). reflexivity.
Qed.
Lemma ops_match_length ks es vs : ops_match ks es vs -> blen es = blen ks.
Proof. induction 1; bl; lia. Qed.

Lemma ops_match_tail ks r : Forall2 wf_oval ks r -> ops_match ks (map (fun w => 32 :: print_oval w) r) r.
Proof.
  induction 1; cbn [map]; constructor; [|assumption]. apply parse_operand_print. assumption.
Qed.

Lemma wf_no44 ks r : Forall2 wf_oval ks r -> Forall (fun w => ~ In 44 (print_oval w)) r.
Proof.
  induction 1; constructor; [|assumption]. apply print_oval_clean in H. destruct H as [H _].
  apply (clean_not_in _ 44 H). reflexivity.
Qed.

Lemma elements_match ks args : Forall2 wf_oval ks args -> args <> [] ->
  ops_match ks (split_on 44 (print_args args)) args.
Proof.
  intros H Hne. destruct H as [|k v ks r Hv Hr]; [congruence|].
  rewrite print_args_cons, split_tail.
  - constructor; [apply parse_operand_print; assumption | apply ops_match_tail; assumption].
  - apply print_oval_clean in Hv. destruct Hv as [Hv _]. apply (clean_not_in _ 44 Hv). reflexivity.
  - eapply wf_no44; eassumption.
Qed.

(* shape of a printed operand list: ASCII, no '#', no newline, non-space at both ends *)
Definition ops_shape (o : bstr) : Prop := ascii o /\ ~ In 35 o /\ ~ In 10 o /\ nsb o /\ nse o.

Lemma tail_shape x r ks : ascii x -> ~ In 35 x -> ~ In 10 x -> nse x -> Forall2 wf_oval ks r ->
  ascii (x ++ tail_text r) /\ ~ In 35 (x ++ tail_text r) /\ ~ In 10 (x ++ tail_text r) /\ nse (x ++ tail_text r).
Proof.
  intros H1 H2 H3 H4 Hr. revert x H1 H2 H3 H4. induction Hr as [|k w ks r Hw Hr IH]; intros x H1 H2 H3 H4.
  - unfold tail_text. cbn. rewrite app_nil_r. tauto.
  - unfold tail_text. cbn [map List.concat]. fold (tail_text r).
    replace (x ++ (44 :: 32 :: print_oval w) ++ tail_text r) with ((x ++ 44 :: 32 :: print_oval w) ++ tail_text r)
      by (rewrite <- app_assoc; reflexivity).
    destruct (print_oval_clean _ _ Hw) as [Hc Hne].
    apply IH.
    + apply ascii_app. split; [assumption|]. apply ascii_cons. split; [reflexivity|]. apply ascii_cons. split; [reflexivity|].
      apply clean_ascii; assumption.
    + intros Hin. apply in_app_or in Hin. destruct Hin as [?|[F|[F|F]]]; try contradiction; try discriminate.
      revert F. apply (clean_not_in _ 35 Hc). reflexivity.
    + intros Hin. apply in_app_or in Hin. destruct Hin as [?|[F|[F|F]]]; try contradiction; try discriminate.
      revert F. apply (clean_not_in _ 10 Hc). reflexivity.
    + change (44 :: 32 :: print_oval w) with ([44; 32] ++ print_oval w). rewrite app_assoc. apply nse_app, nse_clean; assumption.
Qed.

Lemma print_args_shape ks args : Forall2 wf_oval ks args -> args <> [] -> ops_shape (print_args args).
Proof.
  intros H Hne. destruct H as [|k v ks r Hv Hr]; [congruence|]. rewrite print_args_cons.
  destruct (print_oval_clean _ _ Hv) as [Hc Hn].
  destruct (tail_shape (print_oval v) r ks) as (A & B & C & D); try assumption.
  - apply clean_ascii; assumption.
  - apply (clean_not_in _ 35 Hc). reflexivity.
  - apply (clean_not_in _ 10 Hc). reflexivity.
  - apply nse_clean; assumption.
  - repeat split; try assumption. apply nsb_app, nsb_clean; assumption.
Qed.

(* ---- mnemonics ---- *)
Definition lower_letter (c : Z) : bool := (97 <=? c) && (c <=? 122).
Definition letter (c : Z) : bool := lower_letter c || ((65 <=? c) && (c <=? 90)).

Lemma mnem_name_string m : mnem_name m = b (mnem_string m).
Proof. destruct m; reflexivity. Qed.
Lemma mnem_name_lower m : forallb lower_letter (mnem_name m) = true /\ mnem_name m <> [].
Proof. destruct m; split; (reflexivity || discriminate). Qed.
Lemma find_mnem_name m : find_mnem (mnem_name m) = Some m.
Proof. destruct m; reflexivity. Qed.

Lemma letter_props c : letter c = true -> clean_byte c = true /\ c <> 58 /\ is_ascii c = true.
Proof.
  unfold letter, lower_letter. intros H. apply orb_true_iff in H. rewrite !andb_true_iff, !Z.leb_le in H.
  assert (H65 : 65 <= c <= 122) by lia. clear H.
  split; [|split].
  - unfold clean_byte, is_ascii, is_space.
    rewrite !andb_true_iff, !negb_true_iff, !orb_false_iff, !Z.eqb_neq, Z.ltb_lt. lia.
  - lia.
  - apply Z.ltb_lt. lia.
Qed.

Lemma apply_case_spec n : forallb lower_letter n = true -> forall mask,
  forallb letter (apply_case mask n) = true /\ map lower_byte (apply_case mask n) = n /\
  blen (apply_case mask n) = blen n.
Proof.
  induction n as [|c n IH]; intros H mask; cbn [apply_case]; [repeat split; reflexivity|].
  cbn [forallb] in H. apply andb_true_iff in H. destruct H as [Hc Hn].
  destruct (IH Hn (tl mask)) as (A & B & C). cbn [forallb map]. rewrite A, B. bl. rewrite C.
  unfold lower_letter in Hc. apply andb_true_iff in Hc. rewrite !Z.leb_le in Hc.
  repeat split; try lia.
  - rewrite andb_true_r. unfold letter, lower_letter. destruct (hd false mask).
    + apply orb_true_iff. right. apply andb_true_iff. rewrite !Z.leb_le. lia.
    + apply orb_true_iff. left. apply andb_true_iff. rewrite !Z.leb_le. lia.
  - f_equal. unfold lower_byte. destruct (hd false mask).
    + replace ((65 <=? c - 32) && (c - 32 <=? 90)) with true; [lia|]. symmetry. apply andb_true_iff. rewrite !Z.leb_le. lia.
    + replace ((65 <=? c) && (c <=? 90)) with false; [reflexivity|]. symmetry. apply andb_false_iff. rewrite !Z.leb_gt. lia.
Qed.

(* what is needed of a (possibly upper-cased) mnemonic *)
Lemma cased_name m mask : let N := apply_case mask (mnem_name m) in
  to_lower N = mnem_name m /\ clean N = true /\ N <> [] /\ ~ In 58 N /\ ~ In 32 N /\ ~ In 35 N /\ ~ In 10 N.
Proof.
  intros N. destruct (mnem_name_lower m) as [Hl Hne]. destruct (apply_case_spec _ Hl mask) as (A & B & C). fold N in A, B, C.
  assert (Hc : clean N = true).
  { eapply forallb_imp; [|exact A]. intros c Hc. apply letter_props in Hc. tauto. }
  repeat split.
  - unfold to_lower. pose proof (clean_ascii _ Hc) as Ha. unfold ascii in Ha. rewrite Ha. assumption.
  - assumption.
  - intros E. rewrite E in C. destruct (mnem_name m) as [|c0 t0]; [congruence|]. bl. pose proof (blen_nonneg t0). lia.
  - intros Hin. rewrite forallb_forall in A. apply A, letter_props in Hin. lia.
  - apply (clean_not_in _ 32 Hc). reflexivity.
  - apply (clean_not_in _ 35 Hc). reflexivity.
  - apply (clean_not_in _ 10 Hc). reflexivity.
Qed.

(* ---- the switch ---- *)
Lemma dispatch_print m mask args els : wf_instr (PI m args) ->
  (args <> [] -> els = split_on 44 (print_args args)) ->
  dispatch (apply_case mask (mnem_name m)) els = Ok (LInstr (PI m args)).
Proof.
  intros Hwf Hels. unfold dispatch. destruct (cased_name m mask) as (-> & _). rewrite find_mnem_name.
  cbn [wf_instr] in Hwf. destruct (mnem_sig m) as [ks|] eqn:Es.
  - assert (Hne : args <> []) by (intros ->; inversion Hwf; subst; destruct m; discriminate).
    rewrite (Hels Hne). pose proof (elements_match ks args Hwf Hne) as Hm.
    rewrite (ops_match_length _ _ _ Hm), Z.eqb_refl.
    pose proof (parse_ops_match ks _ _ [] Hm) as Hp. cbn [app] in Hp. change (blen []) with 0 in Hp. rewrite Hp. reflexivity.
  - subst args. reflexivity.
Qed.

(* ---- comment stripping ---- *)
Lemma strip_comment_none r : ~ In 35 r -> strip_comment r = Ok r.
Proof. intros H. unfold strip_comment. rewrite index_byte_none by assumption. reflexivity. Qed.
Lemma strip_comment_at a t : ~ In 35 a -> strip_comment (a ++ 35 :: t) = Ok (trim_space a).
Proof.
  intros H. unfold strip_comment. rewrite index_byte_app by assumption.
  replace (blen a =? -1) with false by (symmetry; apply Z.eqb_neq; pose proof (blen_nonneg a); lia).
  rewrite slice_prefix. reflexivity.
Qed.

(* ---- the loop body on the three kinds of lines, comment already cut ---- *)
Lemma body_nonempty (line : bstr) c t : line = c :: t -> (blen line =? 0) = false.
Proof. intros ->. apply Z.eqb_neq. bl. pose proof (blen_nonneg t). lia. Qed.

Lemma parse_tail_label n : wf_label n -> parse_tail (n ++ [58]) = Ok (LLabel n).
Proof.
  intros [Hne Hc]. unfold parse_tail.
  replace (blen (n ++ [58]) - 1) with (blen n) by (bl; lia).
  rewrite at_app. cbn [bind].
  rewrite index_byte_none.
  - rewrite Z.eqb_refl. cbn [andb]. rewrite slice_prefix. reflexivity.
  - intros Hin. apply in_app_or in Hin. destruct Hin as [Hin|[F|F]]; [|discriminate|contradiction].
    revert Hin. apply (clean_not_in _ 32 Hc). reflexivity.
Qed.

(* a line "MNEMONIC" *)
Lemma parse_tail_bare m mask : mnem_sig m = None ->
  parse_tail (apply_case mask (mnem_name m)) = Ok (LInstr (PI m [])).
Proof.
  intros Hs. destruct (cased_name m mask) as (Hl & Hc & Hne & H58 & H32 & H35 & _).
  set (N := apply_case mask (mnem_name m)) in *. unfold parse_tail.
  rewrite (at_last N 0) by assumption. cbn [bind].
  rewrite index_byte_none by assumption. rewrite Z.eqb_refl. cbn [andb].
  replace (last N 0 =? 58) with false.
  2:{ symmetry. apply Z.eqb_neq. intros E. apply H58. rewrite <- E.
      rewrite (app_removelast_last 0 Hne) at 2. apply in_or_app. right. left. reflexivity. }
  change (-1 + 1) with 0. rewrite slice_all. cbn [bind]. rewrite strip_comment_none by assumption. cbn [bind].
  subst N. apply dispatch_print; [cbn; rewrite Hs; reflexivity | congruence].
Qed.

(* a line "MNEMONIC rest" *)
Lemma parse_tail_sp m mask R : let N := apply_case mask (mnem_name m) in
  parse_tail (N ++ 32 :: R) = (rem <- strip_comment R ;; dispatch N (split_on 44 rem)).
Proof.
  intros N. destruct (cased_name m mask) as (Hl & Hc & Hne & H58 & H32 & H35 & _). fold N in Hl, Hc, Hne, H58, H32, H35.
  unfold parse_tail. set (line := N ++ 32 :: R).
  destruct (at_ok line (blen line - 1)) as (x & -> & _); [unfold line; bl; pose proof (blen_nonneg N); pose proof (blen_nonneg R); lia|].
  cbn [bind]. unfold line. rewrite index_byte_app by assumption.
  replace (blen N =? -1) with false by (symmetry; apply Z.eqb_neq; pose proof (blen_nonneg N); lia).
  cbn [andb].
  rewrite (slice_app3 _ (N ++ [32]) R []); [| rewrite app_nil_r, <- app_assoc; reflexivity | bl; lia | bl; lia].
  cbn [bind]. destruct (strip_comment R) as [rem| |]; cbn [bind]; try reflexivity.
  rewrite slice_prefix. reflexivity.
Qed.

(* the text of an instruction *)
Lemma parse_tail_instr i mask : wf_instr i -> parse_tail (instr_text mask i) = Ok (LInstr i).
Proof.
  destruct i as [m args]. intros Hwf. cbn [instr_text].
  destruct args as [|v r].
  - assert (Hs : mnem_sig m = None).
    { cbn [wf_instr] in Hwf. destruct (mnem_sig m) eqn:Es; [|reflexivity]. inversion Hwf; subst. destruct m; discriminate. }
    rewrite app_nil_r. apply parse_tail_bare. assumption.
  - assert (Hshape : ops_shape (print_args (v :: r))).
    { cbn [wf_instr] in Hwf. destruct (mnem_sig m) eqn:Es; [|discriminate]. eapply print_args_shape; [eassumption | discriminate]. }
    rewrite parse_tail_sp. destruct Hshape as (_ & H35 & _).
    rewrite strip_comment_none by assumption. cbn [bind]. apply dispatch_print; [assumption | reflexivity].
Qed.

(* a trimmed line X followed by an optional comment: the comment is cut before the line is classified *)
Lemma parse_body_cut X c : ascii X -> nsb X -> nse X -> ~ In 35 X ->
  match c with None => True | Some (gap, _) => spaces gap end ->
  parse_body (X ++ cmt_text c) = parse_tail X.
Proof.
  intros Ha Hb He H35 Hc. pose proof Hb as (x0 & X' & EX & _). unfold parse_body.
  rewrite (body_nonempty _ x0 (X' ++ cmt_text c)) by (rewrite EX; reflexivity).
  rewrite EX at 1. cbn [app]. rewrite at_head. cbn [bind].
  replace (x0 =? 35) with false by (symmetry; apply Z.eqb_neq; intros ->; apply H35; rewrite EX; left; reflexivity).
  destruct c as [[gap t]|]; cbn [cmt_text].
  - rewrite app_assoc. rewrite strip_comment_at.
    + cbn [bind]. pose proof (trim_pad [] X gap eq_refl Hc Hb Ha) as T. cbn [app] in T. rewrite T, rtrim_nse by assumption. reflexivity.
    + intros Hin. apply in_app_or in Hin. destruct Hin as [?|Hin]; [contradiction|].
      unfold spaces in Hc. rewrite forallb_forall in Hc. apply Hc in Hin. discriminate.
  - rewrite app_nil_r, strip_comment_none by assumption. reflexivity.
Qed.

(* ---- whole source lines ---- *)
Lemma comment_bytes_ascii t : forallb comment_byte t = true -> ascii t /\ ~ In 10 t.
Proof.
  intros H. split.
  - eapply forallb_imp; [|exact H]. intros c Hc. unfold comment_byte in Hc. apply andb_true_iff in Hc. tauto.
  - intros Hin. rewrite forallb_forall in H. apply H in Hin. discriminate.
Qed.
Lemma hspaces_no_nl ws : forallb is_hspace ws = true -> ~ In 10 ws.
Proof. intros H Hin. rewrite forallb_forall in H. apply H in Hin. discriminate. Qed.

Lemma parse_line_junk j : wf_junk j -> parse_line (junk_line j) = Ok LSkip.
Proof.
  destruct j as [ws|ws t]; cbn [wf_junk junk_line]; unfold parse_line.
  - intros H. rewrite trim_spaces by (apply hspaces_spaces; assumption). reflexivity.
  - intros [H1 H2]. apply comment_bytes_ascii in H2. destruct H2 as [H2 _].
    pose proof (trim_pad ws (35 :: t) [] (hspaces_spaces _ H1) eq_refl) as T. rewrite app_nil_r in T.
    rewrite T; [|exists 35, t; split; reflexivity | apply ascii_cons; split; [reflexivity | assumption]].
    pose proof (rtrim_app [] 35 t eq_refl) as R. cbn [app] in R. rewrite R. unfold parse_body.
    rewrite (body_nonempty _ 35 (rtrim t) eq_refl). rewrite at_head. reflexivity.
Qed.

Lemma instr_text_shape mask i : wf_instr i ->
  ascii (instr_text mask i) /\ nsb (instr_text mask i) /\ nse (instr_text mask i) /\
  ~ In 10 (instr_text mask i) /\ ~ In 35 (instr_text mask i).
Proof.
  destruct i as [m args]. intros Hwf. cbn [instr_text].
  destruct (cased_name m mask) as (_ & Hc & Hne & _ & _ & H35 & H10).
  set (N := apply_case mask (mnem_name m)) in *.
  destruct args as [|v r].
  - rewrite app_nil_r. repeat split; [apply clean_ascii | apply nsb_clean | apply nse_clean | | ]; assumption.
  - cbn [wf_instr] in Hwf. destruct (mnem_sig m) eqn:Es; [|discriminate].
    destruct (print_args_shape _ _ Hwf) as (A & B & C & _ & E); [discriminate|].
    repeat split.
    + apply ascii_app. split; [apply clean_ascii; assumption|]. apply ascii_cons. split; [reflexivity | assumption].
    + apply nsb_app, nsb_clean; assumption.
    + apply nse_app. change (32 :: print_args (v :: r)) with ([32] ++ print_args (v :: r)). apply nse_app. assumption.
    + intros Hin. apply in_app_or in Hin. destruct Hin as [?|[F|?]]; [contradiction | discriminate | contradiction].
    + intros Hin. apply in_app_or in Hin. destruct Hin as [?|[F|?]]; [contradiction | discriminate | contradiction].
Qed.

Lemma parse_line_item d it : wf_item it -> wf_ideco d ->
  parse_line (deco_item d it) = Ok (match it with ILabel n => LLabel n | IInstr i => LInstr i end).
Proof.
  intros Hit (_ & Hl & Ht & Hc). apply hspaces_spaces in Hl, Ht. unfold parse_line.
  (* the item text X, and what parse_tail makes of it *)
  set (X := match it with ILabel n => n ++ [58] | IInstr i => instr_text (d_upper d) i end).
  assert (HX : ascii X /\ nsb X /\ nse X /\ ~ In 35 X /\
               parse_tail X = Ok (match it with ILabel n => LLabel n | IInstr i => LInstr i end)).
  { destruct it as [n|i]; cbn [wf_item] in Hit; unfold X.
    - destruct Hit as [Hne Hcl]. repeat split.
      + apply ascii_app. split; [apply clean_ascii; assumption | reflexivity].
      + apply nsb_app, nsb_clean; assumption.
      + exists n, 58. split; reflexivity.
      + intros Hin. apply in_app_or in Hin. destruct Hin as [Hin|[F|F]]; [|discriminate|contradiction].
        revert Hin. apply (clean_not_in _ 35 Hcl). reflexivity.
      + apply parse_tail_label. split; assumption.
    - destruct (instr_text_shape (d_upper d) i Hit) as (A & B & E & _ & H35). repeat split; try assumption.
      apply parse_tail_instr. assumption. }
  destruct HX as (A & B & E & H35 & HP).
  replace (deco_item d it) with (d_lead d ++ (X ++ cmt_text (d_comment d)) ++ d_trail d) by (destruct it; reflexivity).
  destruct (d_comment d) as [[gap t]|].
  - destruct Hc as [Hg Htx]. apply hspaces_spaces in Hg. apply comment_bytes_ascii in Htx.
    rewrite trim_pad; try assumption.
    + cbn [cmt_text]. rewrite app_assoc, rtrim_app by reflexivity. rewrite <- app_assoc.
      rewrite <- HP. apply (parse_body_cut X (Some (gap, rtrim t))); assumption.
    + apply nsb_app. assumption.
    + apply ascii_app. split; [assumption|]. cbn [cmt_text]. apply ascii_app. split; [apply spaces_ascii; assumption|].
      apply ascii_cons. split; [reflexivity | tauto].
  - cbn [cmt_text]. rewrite app_nil_r. rewrite trim_pad, rtrim_nse by assumption.
    rewrite <- HP. pose proof (parse_body_cut X None A B E H35 I) as P. cbn [cmt_text] in P. rewrite app_nil_r in P. exact P.
Qed.

Lemma junk_no_nl j : wf_junk j -> ~ In 10 (junk_line j).
Proof.
  destruct j as [ws|ws t]; cbn [wf_junk junk_line].
  - apply hspaces_no_nl.
  - intros [H1 H2] Hin. apply in_app_or in Hin. destruct Hin as [Hin|[F|Hin]]; [|discriminate|].
    + revert Hin. apply hspaces_no_nl. assumption.
    + apply comment_bytes_ascii in H2. tauto.
Qed.
Lemma cmt_no_nl c : match c with None => True | Some (gap, t) => forallb is_hspace gap = true /\ forallb comment_byte t = true end ->
  ~ In 10 (cmt_text c).
Proof.
  destruct c as [[gap t]|]; cbn [cmt_text]; [|intros _ F; exact F].
  intros [H1 H2] Hin. apply in_app_or in Hin. destruct Hin as [Hin|[F|Hin]]; [|discriminate|].
  - revert Hin. apply hspaces_no_nl. assumption.
  - apply comment_bytes_ascii in H2. tauto.
Qed.
Lemma item_no_nl d it : wf_item it -> wf_ideco d -> ~ In 10 (deco_item d it).
Proof.
  intros Hit (_ & Hl & Ht & Hc) Hin. apply hspaces_no_nl in Hl, Ht. apply cmt_no_nl in Hc.
  destruct it as [n|i]; cbn [deco_item wf_item] in *.
  - destruct Hit as [_ Hcl]. repeat (apply in_app_or in Hin; destruct Hin as [Hin|Hin]); try contradiction.
    + revert Hin. apply (clean_not_in _ 10 Hcl). reflexivity.
    + destruct Hin as [F|F]; [discriminate | contradiction].
  - destruct (instr_text_shape (d_upper d) i Hit) as (_ & _ & _ & H10 & _).
    repeat (apply in_app_or in Hin; destruct Hin as [Hin|Hin]); contradiction.
Qed.

(* ---- sequences of lines ---- *)
Lemma parse_lines_junk js : forall rest ins labs pc, Forall wf_junk js ->
  parse_lines (map junk_line js ++ rest) ins labs pc = parse_lines rest ins labs pc.
Proof.
  induction js as [|j js IH]; intros rest ins labs pc H; [reflexivity|]. inversion H; subst.
  cbn [map app parse_lines]. rewrite parse_line_junk by assumption. cbn [bind]. apply IH. assumption.
Qed.

Lemma wf_hd ds : Forall wf_ideco ds -> wf_ideco (hd no_deco ds) /\ Forall wf_ideco (tl ds).
Proof.
  destruct ds; cbn [hd tl].
  - intros _. split; [|constructor]. repeat split; constructor.
  - intros H. inversion H; subst. tauto.
Qed.

Lemma parse_deco_lines p : forall ds tail ins labs pc,
  wf_program p -> Forall wf_ideco ds -> Forall wf_junk tail ->
  parse_lines (deco_lines ds p ++ map junk_line tail) ins labs pc = Ok (assemble_from p ins labs pc).
Proof.
  induction p as [|it r IH]; intros ds tail ins labs pc Hp Hds Htail; cbn [deco_lines assemble_from].
  - cbn [app]. rewrite <- (app_nil_r (map junk_line tail)), parse_lines_junk by assumption. reflexivity.
  - inversion Hp; subst. destruct (wf_hd ds Hds) as [Hd Htl]. pose proof Hd as (Hb & _).
    rewrite <- app_assoc, parse_lines_junk by assumption.
    cbn [app parse_lines]. rewrite parse_line_item by assumption. cbn [bind].
    destruct it; apply IH; assumption.
Qed.

Lemma split_join L : L <> [] -> Forall (fun l => ~ In 10 l) L -> split_on 10 (join_lines L) = L.
Proof.
  induction L as [|l r IH]; intros Hne H; [congruence|]. inversion H; subst.
  destruct r as [|l2 r].
  - cbn [join_lines]. apply split_on_none. assumption.
  - change (join_lines (l :: l2 :: r)) with (l ++ 10 :: join_lines (l2 :: r)).
    rewrite split_on_app by assumption. f_equal. apply IH; [discriminate | assumption].
Qed.

Lemma deco_lines_no_nl p : forall ds, wf_program p -> Forall wf_ideco ds ->
  Forall (fun l => ~ In 10 l) (deco_lines ds p).
Proof.
  induction p as [|it r IH]; intros ds Hp Hds; cbn [deco_lines]; [constructor|].
  inversion Hp; subst. destruct (wf_hd ds Hds) as [Hd Htl]. pose proof Hd as (Hb & _).
  apply Forall_app. split.
  - clear - Hb. induction Hb; cbn [map]; constructor; [apply junk_no_nl; assumption | assumption].
  - constructor; [apply item_no_nl; assumption | apply IH; assumption].
Qed.

(* ================================================================== *)
(* 6. the theorems                                                      *)

(* Any decoration of any well-formed program is parsed to what the reference assembler
   makes of the program. *)
Theorem parse_decorated : forall p ds tail,
  wf_program p -> Forall wf_ideco ds -> Forall wf_junk tail ->
  parse (decorate ds tail p) = Ok (assemble p).
Proof.
  intros p ds tail Hp Hds Htail. unfold parse, decorate, assemble.
  destruct (deco_lines ds p ++ map junk_line tail) as [|l0 L] eqn:E.
  - apply app_eq_nil in E. destruct E as [E1 E2]. destruct p as [|it r].
    + reflexivity.
    + cbn [deco_lines] in E1. apply app_eq_nil in E1. destruct E1 as [_ F]. discriminate.
  - rewrite split_join.
    + rewrite <- E. apply parse_deco_lines; assumption.
    + discriminate.
    + rewrite <- E. apply Forall_app. split; [apply deco_lines_no_nl; assumption|].
      clear - Htail. induction Htail; cbn [map]; constructor; [apply junk_no_nl; assumption | assumption].
Qed.

Lemma print_is_decorate p : print p = decorate [] [] p.
Proof.
  unfold print, decorate. rewrite app_nil_r. f_equal.
  induction p as [|it r IH]; cbn [map deco_lines hd tl d_before app]; [reflexivity|]. rewrite <- IH. f_equal.
  destruct it; cbn [deco_item print_item no_deco d_lead d_trail d_upper d_comment app]; rewrite ?app_nil_r; reflexivity.
Qed.

(* Operands are decoded to the named registers and decimal immediates: the canonical text
   of every well-formed program (register numbers < 32, int32 immediates and offsets, label
   names non-empty ASCII words without white space, ',' and '#') is parsed back to exactly
   that program. *)
Theorem roundtrip : forall p, wf_program p -> parse (print p) = Ok (assemble p).
Proof. intros p Hp. rewrite print_is_decorate. apply parse_decorated; [assumption | constructor | constructor]. Qed.

(* Blank lines, comment lines, indentation, trailing white space, a trailing " #comment" on
   instruction lines and the case of mnemonic letters do not change the result. *)
Theorem decoration_invariant : forall p ds tail,
  wf_program p -> Forall wf_ideco ds -> Forall wf_junk tail ->
  parse (decorate ds tail p) = parse (print p).
Proof. intros. rewrite roundtrip, parse_decorated by assumption. reflexivity. Qed.

(* what the reference assembler computes *)
Lemma assemble_from_spec p : forall ins labs pc, int32 pc ->
  fst (assemble_from p ins labs pc) = ins ++ instrs_of p /\
  forall n, lookup_label (snd (assemble_from p ins labs pc)) n =
            match last_def n p with
            | Some k => Some (wrapS 32 (pc + 4 * k))
            | None => lookup_label labs n
            end.
Proof.
  induction p as [|it r IH]; intros ins labs pc Hpc; cbn [assemble_from instrs_of last_def].
  - cbn [fst snd]. rewrite app_nil_r. split; reflexivity.
  - destruct it as [m|i].
    + destruct (IH ins (set_label m pc labs) pc Hpc) as [H1 H2]. split; [exact H1|].
      intros n. rewrite H2. destruct (last_def n r); [f_equal; f_equal; lia|].
      rewrite set_label_lookup. destruct (bstr_eqb m n); [|reflexivity].
      f_equal. rewrite Z.add_0_r. symmetry. apply wrapS_id; [lia | assumption].
    + assert (Hpc' : int32 (addS 32 pc 4)) by (apply wrapS_range; lia).
      destruct (IH (ins ++ [i]) labs _ Hpc') as [H1 H2]. split.
      * rewrite H1, <- app_assoc. reflexivity.
      * intros n. rewrite H2. destruct (last_def n r); [|reflexivity]. f_equal. apply wrap_step.
Qed.

Theorem assemble_instrs : forall p, fst (assemble p) = instrs_of p.
Proof. intros p. destruct (assemble_from_spec p [] [] 0) as [H _]; [vm_compute; split; congruence | exact H]. Qed.

Theorem assemble_labels : forall p n,
  lookup_label (snd (assemble p)) n = option_map (fun k => wrapS 32 (4 * k)) (last_def n p).
Proof.
  intros p n. destruct (assemble_from_spec p [] [] 0) as [_ H]; [vm_compute; split; congruence|].
  unfold assemble. rewrite H. destruct (last_def n p); reflexivity.
Qed.

(* ================================================================== *)
(* 7. the hypotheses are satisfiable; what is false of the code        *)

Definition ex_program : program :=
  [ ILabel (b "main"); IInstr (PI Maddi [VReg 5; VReg 0; VImm (-2147483648)]);
    IInstr (PI Mlw [VReg 10; VMem (-8) 2]); ILabel (b "loop"); ILabel (b ".L1");
    IInstr (PI Msh [VReg 6; VImm 4; VReg 27]); IInstr (PI Mbltu [VReg 31; VReg 9; VLab (b "loop")]);
    IInstr (PI Mjal [VReg 1; VLab (b "main")]); IInstr (PI Mnop []); ILabel (b "loop"); IInstr (PI Mret []) ].

Lemma wf_label_dec n : n <> [] -> clean n = true -> wf_label n.
Proof. split; assumption. Qed.

Example ex_program_wf : wf_program ex_program.
Proof.
  unfold ex_program, wf_program.
  repeat (constructor; [cbn [wf_item wf_instr mnem_sig wf_oval];
    first [ apply wf_label_dec; [discriminate | reflexivity]
          | reflexivity
          | repeat (constructor; cbn [wf_oval]; try lia; try (apply wf_label_dec; [discriminate | reflexivity])) ] |]).
  constructor.
Qed.

Example ex_program_text : print ex_program =
  b ("main:" ++ String "010" "addi t0, zero, -2147483648" ++ String "010" "lw a0, -8(sp)" ++ String "010" "loop:" ++ String "010"
     ".L1:" ++ String "010" "sh t1, 4, s11" ++ String "010" "bltu t6, s1, loop" ++ String "010" "jal ra, main" ++ String "010"
     "nop" ++ String "010" "loop:" ++ String "010" "ret")%string.
Proof. vm_compute. reflexivity. Qed.

Example ex_program_parsed :
  parse (print ex_program) =
  Ok ([PI Maddi [VReg 5; VReg 0; VImm (-2147483648)]; PI Mlw [VReg 10; VMem (-8) 2]; PI Msh [VReg 6; VImm 4; VReg 27];
       PI Mbltu [VReg 31; VReg 9; VLab (b "loop")]; PI Mjal [VReg 1; VLab (b "main")]; PI Mnop []; PI Mret []],
      [(b "main", 0); (b "loop", 24); (b ".L1", 8)]).
Proof. vm_compute. reflexivity. Qed.

Definition ex_decos : list ideco :=
  [ mk_ideco [JComment [32; 32] (b "entry point"); JBlank []] [] [32; 9] [] (Some ([32], b " the label"));
    mk_ideco [] [9] [] [true; false; true; true] (Some ([32], b " INT_MIN # twice"));
    mk_ideco [JBlank [9; 32]] [32; 32; 32; 32] [13] [true; true] (Some ([], b "glued to the operand"));
    mk_ideco [] [] [] [] (Some ([], b "glued to the colon:"));
    no_deco; no_deco; no_deco; no_deco;
    mk_ideco [] [] [32] [false; true] (Some ([], b "glued to the mnemonic:"));
    no_deco;
    mk_ideco [] [] [] [] (Some ([9; 32], [])) ].
Definition ex_tail : list junk := [JBlank []; JComment [] (b "end"); JBlank [32]].

Example ex_deco_wf : Forall wf_ideco ex_decos /\ Forall wf_junk ex_tail.
Proof. split; repeat constructor. Qed.

Example ex_decorated_differs : decorate ex_decos ex_tail ex_program <> print ex_program.
Proof. vm_compute. discriminate. Qed.

Example ex_decorated_text : decorate ex_decos ex_tail ex_program =
  b ("  #entry point" ++ String "010" "" ++ String "010" "main: # the label " ++ String "009" "" ++ String "010" "" ++
     String "009" "AdDI t0, zero, -2147483648 # INT_MIN # twice" ++ String "010" "" ++ String "009" " " ++ String "010"
     "    LW a0, -8(sp)#glued to the operand" ++ String "013" "" ++ String "010" "loop:#glued to the colon:" ++ String "010"
     ".L1:" ++ String "010" "sh t1, 4, s11" ++ String "010" "bltu t6, s1, loop" ++ String "010" "jal ra, main" ++ String "010"
     "nOp#glued to the mnemonic: " ++ String "010" "loop:" ++ String "010" "ret" ++ String "009" " #" ++ String "010" "" ++ String "010"
     "#end" ++ String "010" " ")%string.
Proof. vm_compute. reflexivity. Qed.

Example ex_decorated_parsed : parse (decorate ex_decos ex_tail ex_program) = parse (print ex_program).
Proof. vm_compute. reflexivity. Qed.

Example ex_count : count_instr (lines (print ex_program)) = 7 /\ last_def_lines (b "loop") (lines (print ex_program)) = Some 6.
Proof. vm_compute. split; reflexivity. Qed.

(* ---- comments directly after a label definition or a mnemonic (repaired: the comment is
   cut before the line is classified); instances of decoration_invariant, pinned ---- *)
Theorem label_trailing_comment :
  parse (b "foo: # c") = Ok ([], [(b "foo", 0)]) /\ parse (b "foo:#c") = parse (b "foo:").
Proof. vm_compute. split; reflexivity. Qed.

Theorem attached_comment :
  parse (b "ret#done") = Ok ([PI Mret []], []) /\ parse (b "ret #done") = Ok ([PI Mret []], []) /\
  parse (b "ret" ++ 9 :: b "#done") = Ok ([PI Mret []], []) /\
  parse (b "add t0, t1, t2#done") = Ok ([PI Madd [VReg 5; VReg 6; VReg 7]], []).
Proof. vm_compute. repeat split; reflexivity. Qed.

Theorem attached_comment_is_not_a_label :
  parse (b "nop#x:") = Ok ([PI Mnop []], []).
Proof. vm_compute. reflexivity. Qed.

(* ---- refutations: what is false of the code ---- *)

(* a TAB between mnemonic and operands is not a separator (strings.Index(line, " ")) *)
Theorem tab_separator_refuted :
  parse (b "add t0,t1,t2") = Ok ([PI Madd [VReg 5; VReg 6; VReg 7]], []) /\
  parse (b "add" ++ 9 :: b "t0,t1,t2") = Err EOther.
Proof. vm_compute. split; reflexivity. Qed.

(* a label cannot contain a space *)
Theorem label_with_space_refuted : parse (b "my label:") = Err EOther.
Proof. vm_compute. reflexivity. Qed.

(* nop and ret do not look at their operands: anything after them is accepted *)
Theorem nop_ret_operands_unchecked_refuted :
  parse (b "nop t0, 5, x") = Ok ([PI Mnop []], []) /\ parse (b "ret 1,2,3,4") = Ok ([PI Mret []], []).
Proof. vm_compute. split; reflexivity. Qed.

(* sh only has the three-operand form; the offset(base) form of sb/sw is rejected for it *)
Theorem sh_syntax_refuted :
  parse (b "sh t0, 4(t1)") = Err EOther /\
  parse (b "sh t0, 4, t1") = Ok ([PI Msh [VReg 5; VImm 4; VReg 6]], []) /\
  parse (b "sb t0, 4(t1)") = Ok ([PI Msb [VReg 5; VMem 4 6]], []).
Proof. vm_compute. repeat split; reflexivity. Qed.

(* facts worth pinning *)
Example duplicate_label_last_wins :
  parse (b "a:" ++ 10 :: b "nop" ++ 10 :: b "a:") = Ok ([PI Mnop []], [(b "a", 4)]).
Proof. vm_compute. reflexivity. Qed.
Example unclosed_parenthesis_is_an_error : parse (b "lw t0, 4(") = Err EOther.
Proof. vm_compute. reflexivity. Qed.
Example immediates :
  parse (b "li t0, 2147483647") = Ok ([PI Mli [VReg 5; VImm 2147483647]], []) /\
  parse (b "li t0, 2147483648") = Err EOther /\
  parse (b "li t0, -2147483648") = Ok ([PI Mli [VReg 5; VImm (-2147483648)]], []) /\
  parse (b "li t0, -2147483649") = Err EOther /\
  parse (b "li t0, 99999999999999999999") = Err EOther /\
  parse (b "li t0, +5") = Ok ([PI Mli [VReg 5; VImm 5]], []) /\
  parse (b "li t0, 007") = Ok ([PI Mli [VReg 5; VImm 7]], []) /\
  parse (b "li t0, 0x10") = Err EOther /\ parse (b "li t0, 1_0") = Err EOther /\ parse (b "li t0, ") = Err EOther.
Proof. vm_compute. repeat split; reflexivity. Qed.
Example dollar_registers_and_case :
  parse (b "ADD $t0, $zero, $s11") = Ok ([PI Madd [VReg 5; VReg 0; VReg 27]], []) /\
  parse (b "add T0, zero, s11") = Err EOther.
Proof. vm_compute. split; reflexivity. Qed.
(* outside the ASCII domain: strings.ToLower maps U+0130 (c4 b0) to 'i' *)
Example dotted_capital_I : parse (b "add" ++ [196; 176] ++ b " t0, t1, 5") = Ok ([PI Maddi [VReg 5; VReg 6; VImm 5]], []).
Proof. vm_compute. reflexivity. Qed.
