(* Extraction of the cycle-level models of MVP-1/2 (and MVP-3, 4, 5, 6.0, 6.1, 6.2, 6.3, 7.0, 7.1, 8.0) for the
   correspondence check: (cycles, registers, memory) must be equal to what the
   Go implementation returns. *)
From Coq Require Import Extraction ExtrOcamlBasic ZArith List.
From Maj Require Import Base.Outcome Base.GoTypes Isa.Spec Isa.Embed Isa.Seq Isa.Refine Mvp.Mvp12 Mvp.Mvp3 Mvp.Mvp4 Mvp.Mvp5 Mvp.Mvp60 Mvp.Mvp61 Mvp.Mvp62 Mvp.Mvp63 Mvp.Mvp70 Mvp.Mvp71 Mvp.Mvp80.
Extraction Language OCaml.
Extraction "mvp_oracle.ml" mvp12_run mvp3_run mvp4_run mvp5_run mvp60_run mvp60_run_snap mvp61_run mvp61_run_snap mvp62_run mvp62_run_snap mvp63_run mvp63_run_snap mvp70_run mvp70_run_snap mvp71_run mvp71_run_snap mvp80_run mvp80_run_snap pord_policy ord_policy perm_of instr_of lookup mk_arch.
