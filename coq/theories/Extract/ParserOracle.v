(* Extraction of the H model of risc.Parse (Parser/Model.v) together with the ISA
   specification (Isa/Spec.v, Isa/Embed.v) to OCaml: the oracle of the C11
   correspondence check (tools/oracle/parser_main.ml).  The parsed instructions are
   observed, as on the Go side, through InstructionType / ReadRegisters / WriteRegisters /
   MemoryRead / MemoryWrite / Run probes; the oracle computes those from
   [to_sinstr] and the specification ([exec], [embed], [reads], [writes], ...), which the
   generated model of risc/opcodes.go is proved to refine (Isa/Refine.v, C02).
   ExtrOcamlBasic only; Z, positive, nat, string and ascii stay the Coq datatypes. *)
From Coq Require Import Extraction ExtrOcamlBasic ZArith List.
From Maj Require Import Base.Outcome Base.GoTypes Isa.Spec Isa.Embed Parser.Model.
Extraction Language OCaml.
Extraction "parser_oracle.ml" parse to_sinstr mnem_type bstr_eqb
  exec embed omap reads writes load_addrs store_addrs.
