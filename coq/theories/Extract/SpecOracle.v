(* Extraction of the specification side (S) to OCaml: the oracle the
   differential checks compare the implementation with.  ExtrOcamlBasic only;
   Z, positive and nat stay the Coq datatypes.  This file does not depend on
   the generated models, so the oracle exists even when they no longer build. *)
From Coq Require Import Extraction ExtrOcamlBasic ZArith List.
From Maj Require Import Base.Outcome Base.GoTypes Isa.Spec Isa.Embed Isa.Seq.
Extraction Language OCaml.
Extraction "spec_oracle.ml" exec embed omap reads writes load_addrs store_addrs
  seq_run step lookup mk_arch rget mget.
