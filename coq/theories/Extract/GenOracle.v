(* Extraction of the generated models (G) to OCaml, for translation validation:
   the regenerated Gallina is run against the Go code it was generated from. *)
From Coq Require Import Extraction ExtrOcamlBasic ZArith List.
From Maj Require Import Base.Outcome Base.GoTypes Isa.Spec Isa.Embed.
From Maj Require Import Gen.Latency Gen.BytesGo Gen.RiscTables Gen.Opcodes Isa.Refine.
Extraction Language OCaml.
Extraction "gen_oracle.ml" instr_of instr_Run instr_InstructionType instr_ReadRegisters
  instr_WriteRegisters instr_MemoryRead instr_MemoryWrite
  BytesFromLowBits I32FromBytes InstructionType_Cycles InstructionType_IsMemoryRead
  InstructionType_IsMemoryWrite InstructionType_IsConditionalBranch InstructionType_IsUnconditionalBranch
  MemoryAccess RegisterAccess L1Access L3Access Flush.
