(* Extraction of the H models of C13 (comp.LRUCache, generic cache.LRUCache)
   to OCaml: the oracle the correspondence check runs against the Go code.
   ExtrOcamlBasic only; Z, positive and nat stay the Coq datatypes. *)
From Coq Require Import Extraction ExtrOcamlBasic ZArith List.
From Maj Require Import Base.Outcome Comp.Cache Comp.Lru.
Extraction Language OCaml.
Extraction "cache_oracle.ml" new_cache step run bases new_lru lstep lrun order.
