(* Extraction of the hand-written models of proc/comp/rat.go (Comp/Rat.v) and of
   the speculative register state of risc/app.go + registerRead (Comp/Tx.v):
   the oracle `tx` of the C15 correspondence check.  ExtrOcamlBasic only. *)
From Coq Require Import Extraction ExtrOcamlBasic ZArith List.
From Maj Require Import Base.Outcome Comp.Rat Comp.Tx.
Extraction Language OCaml.
Extraction "tx_oracle.ml" rat_new rat_read rat_find rat_write_o rat_values rat_findvalues
  tag_le tag_lt tu_zero new_context regs mexec mout rexec rout.
