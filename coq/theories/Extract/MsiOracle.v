(* Extraction of the C06 snapshot judge (Msi/Invariant.v) to OCaml: the
   boolean invariant evaluated on the implementation's snapshots
   (tools/oracle/msi_main.ml).  ExtrOcamlBasic only; Z, positive and nat stay
   the Coq datatypes. *)
From Coq Require Import Extraction ExtrOcamlBasic ZArith List.
From Maj Require Import Msi.Protocol Msi.Invariant.
Extraction Language OCaml.
Extraction "msi_oracle.ml" violated inv_b inv_full_b flush_marks lines_of s_ms s_l1.
