(* Extraction of the C06 snapshot judges (Msi/Invariant.v: clauses 1-5 and the
   supporting conjuncts; Msi/L3Invariant.v: the L3 clauses of MVP-8.0 and the
   data-value clause) to OCaml: the
   boolean invariants evaluated on the implementation's snapshots
   (tools/oracle/msi_main.ml).  ExtrOcamlBasic only; Z, positive and nat stay
   the Coq datatypes. *)
From Coq Require Import Extraction ExtrOcamlBasic ZArith List.
From Maj Require Import Msi.Protocol Msi.Invariant Msi.L3Protocol Msi.L3Invariant.
Extraction Language OCaml.
Extraction "msi_oracle.ml" violated inv_b inv_full_b flush_marks lines_of s_ms s_l1 violated3 l3_b.
